#!/usr/bin/env python3
"""Regenerates MANIFEST.json from checks.py (the single source of truth)."""
import json
import os
import subprocess

import checks

ROOT = os.path.dirname(os.path.abspath(__file__))
ALL = ["C%02d" % i for i in range(1, 21)]


def hook_commits():
    try:
        out = subprocess.run(["git", "-C", "/repo", "log", "--format=%h %s"], stdout=subprocess.PIPE, text=True).stdout
        return [l.split()[0] for l in out.splitlines() if " hook:" in " " + l or l.split(" ", 1)[1].startswith("hook")]
    except Exception:
        return []


m = dict(
    version=1,
    setup_cmd="./check --build-all",
    hooks=dict(
        guard="JOEGEN_IORA_VERIF",
        enable="every harness TU is compiled with -DJOEGEN_IORA_VERIF against /repo/include (header-only library; see BASE_FLAGS in ./check)",
        baseline_off_cmd="cmake --build /repo/_build -j16 && ctest --test-dir /repo/_build -j8 --timeout 900",
        source_commits=hook_commits(),
        add_only=True,
    ),
    engines=[
        dict(name="rapidcheck", path="harness/common/pbt_rc.cpp", serves_properties=sorted(checks.ready()),
             kind_free_text="property-based testing: generators + shrinking; every draw of a harness goes through rapidcheck "
                            "generators (pbt::Src), failures are saved as choice logs that replay without the library"),
        dict(name="libFuzzer", path="harness/fuzz_*.cpp",
             serves_properties=sorted(p for p, s in checks.PROPS.items() if p in checks.ready() and any(u["kind"] == "fuzz" for u in s["units"])),
             kind_free_text="coverage-guided fuzzing (clang -fsanitize=fuzzer,address,undefined) with the semantic oracle inside the target"),
    ],
    checks=[],
    not_applicable=[],
    notes="One driver: ./check <ID> <quick|thorough> [--replay FILE]. Builds every harness from /repo's current working tree "
          "(content-hashed cache under build/). See DESIGN.md.",
)
for pid in ALL:
    spec = checks.PROPS.get(pid) if pid in checks.ready() else None
    if spec is None:
        m["not_applicable"].append(dict(property_id=pid, reason=checks.NOT_YET.get(pid, "check not built yet (work in progress); not claimed")))
        continue
    m["checks"].append(dict(
        property_id=pid,
        quick_cmd="./check %s quick" % pid,
        thorough_cmd="./check %s thorough" % pid,
        evidence_file="evidence/%s.json" % pid,
        replay_cmd_template="./check %s --replay {path}" % pid,
        engine="rapidcheck" + ("+libFuzzer" if any(u["kind"] == "fuzz" for u in spec["units"]) else ""),
        level_claimed=dict(category=spec["level"], text=spec["level_text"], design_ref=spec.get("design_ref", "DESIGN.md section 5 (%s)" % pid)),
        level_note=spec["level_note"],
        technique=spec["technique"],
    ))
with open(os.path.join(ROOT, "MANIFEST.json"), "w") as fh:
    json.dump(m, fh, indent=1)
print("MANIFEST.json: %d checks, %d not_applicable" % (len(m["checks"]), len(m["not_applicable"])))
