from checks import pbt, fuzz, P

SPEC = dict(
    level="exploration",
    level_text=("Generated histories executed against the real code with an invariant over the recorded event log. "
                "(a) close fan-out: a scripted fake engine injected through the befriended TransportEngineInjector seam, "
                "the harness thread playing the I/O thread; the exact callback sequence of every close is predicted by a "
                "reference model. (b) lifecycle: the real TCP and UDP engines on loopback against raw POSIX peers; the "
                "oracle is the C02 invariant (exactly one close, nothing before announce / after close, ids distinct, "
                "fan-out order, open-sessions gauge sampled inside the callbacks) plus a bounded wait for the close "
                "after a definite cause while the transport keeps running. Exploration is the right level: the "
                "property quantifies over schedules and kernel timing that cannot be enumerated."),
    level_note=("Trusts the Linux loopback stack to deliver FIN/RST/refusals and to pin socket buffers when "
                "SO_SNDBUF/SO_RCVBUF are set; the event log mutex makes log order consistent with real time only in the "
                "'returned before entered' direction, and only that direction is used for 'must' conclusions."),
    technique="property-based testing (rapidcheck plans) with a model-based fan-out oracle and a real-socket plan executor",
    rule=("fanout: <=48 ops over 6 ids (announce via accept/connect, observe with re-entrant actions, unobserve, "
          "setSessionData variants incl. replace/null, onData, getSessionData, close; drain at the end); non-trivial = >=2 "
          "closes, one of them with >=2 still-registered observers or observer+cleanup; distinct by op sequence. "
          "lifecycle_tcp/udp: config cell (edge/level triggered, timer service or GC safety net, batching, idle GC, "
          "connectTimeout, maxWriteQueue, reconnect-from-close-callback) x <=22 ops over <=8 sessions (raw peer connects / "
          "connect / connectSync / connectViaListener to listening, refused, unresolvable, black-hole, TLS-garbage, TLS-stall "
          "targets; app close, "
          "peer FIN, peer RST, back-pressure burst, data both ways, observe/unobserve/setSessionData, two causes back-to-back "
          "on one session, quiesce, idle-GC wait, stop mid-history) then stop(); non-trivial = >=2 distinct close causes in "
          "the history or two causes racing on one session; distinct by (op kinds, targets, race kinds, cause set)."),
    assumptions=["the harness is single-threaded on the application side (plus callbacks on the I/O thread): concurrency "
                 "between application threads is the subject of C05",
                 "TLS failure is generated on the client side only (garbage answer, stalled handshake -> handshakeTimeout); "
                 "server-side TLS sessions need certificates and are exercised by C07's harness",
                 "bounded-wait bound B = 20 s (>= 100x every expected step); such failures must reproduce 3/3"],
    units=[
        pbt("c02_lifecycle", "harness/c02_lifecycle.cpp", dict(
            fanout=P(20000, 200000, 2, 8, q_secs=40, t_secs=300),
            lifecycle_tcp=P(260, 2600, 8, 16, q_secs=45, t_secs=500),
            lifecycle_udp=P(260, 2600, 6, 12, q_secs=45, t_secs=500),
        )),
    ],
)
