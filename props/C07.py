from checks import pbt, fuzz, P

# Size of the configuration matrix defined in harness/c07_tls.cpp (Matrix::Matrix):
#   client/openssl 34560 + client/raw 192 + server/openssl 3360 + server/raw 48 +
#   httpclient/openssl 4320 + httpclient/raw 40 + httpserver/openssl 840 + httpserver/raw 12 +
#   transport/tls-not-switched-on 24 + transport/close-during-handshake 16
# (C07_PRINT_MATRIX=1 <binary> --regress authentication_fixed_points prints it.)
CELLS = 43412
CRITICAL = 988          # authentication-critical sub-matrix, enumerated in BOTH tiers
SHARDS = 16             # must equal kShards in harness/c07_tls.cpp (interleaved partitions)


def per_shard(n):
    return (n + SHARDS - 1) // SHARDS + 1


SPEC = dict(
    level="fault_enumeration",
    level_text=("Enumeration of a finite configuration matrix (43412 cells) with one executed TLS scenario per cell: "
                "iora role (transport connect / connectSync / server, HttpClient, HttpServer) x peer kind (independent "
                "OpenSSL peer, plaintext, garbage) x verification on/off x trust anchors x server certificate (valid, self-signed, expired, not yet valid +1 day / +10 years, wrong name, key mismatch) x client "
                "certificate x peer protocol ceiling x iora minVersion x connect-by (IP literal / host name), plus the cells 'TLS requested per call but the TlsConfig behind it not switched on' and the scenario 'application writes 0-3 markers and closes after 0-5 ms while the handshake "
                "is still running, peer answering after 0-20 ms or never'. An independent "
                "decision table derives 'must not admit' from the cell; the observations are positive facts only (callback "
                "fired, call returned ok, bytes seen on the wire / at the application). The thorough tier walks every cell "
                "deterministically (16 interleaved partitions, one per shard); the quick tier walks the 988-cell "
                "authentication-critical sub-matrix deterministically and samples the rest."),
    level_note=("Trusts the independent side: OpenSSL's own handshake/verification in the peer, the in-process PKI "
                "(harness/common/c07_certs.hpp) and the peer's wire capture at its socket boundary (equivalent to an "
                "intercepting relay). The matrix is finite by construction: certificate defects, versions and peer "
                "behaviours outside the enumerated values (e.g. intermediate CAs, revocation, name constraints, "
                "renegotiation, session resumption, wildcard names) are not covered. The 'selftest' property shows, "
                "without iora, that the peers do negotiate TLS 1.0/1.1 and do reject the bad certificates."),
    technique=("exhaustive enumeration of a configuration matrix against an independent OpenSSL peer with wire capture "
               "(property-based harness: rapidcheck drives markers, noise and the sampled tier)"),
    rule=("cell index -> mixed-radix decode into 13 dimensions inside one of 10 blocks (full Cartesian products; dimensions that "
          "cannot matter for a role/peer kind are pinned). walk: cell = shard + 16*case (every cell exactly once); critical: "
          "same over the sub-matrix {all plaintext/garbage cells; all 'TLS not switched on' cells; verify on x every trust x certificate x name (resp. CA x "
          "client certificate) combination at TLS1.2/1.3; verify-off baselines; downgrade probes at TLS1.0/1.1}; sample: "
          "block by weight, then uniform. Per case additionally drawn: 4 random 32-byte markers, early-send flag, garbage "
          "form + noise, and for the close-during-handshake cells burst size 0-3, close delay 0-5000 us, peer delay 0-20 ms. Non-trivial = the scenario reached a definite outcome (admitted / refused / configuration refused at "
          "start) within the bound; distinct by cell index - distinct_nontrivial == 43412 (+8 self-test scenarios) means the "
          "matrix was exhausted."),
    exhaustive_key="c07_tls.walk: walk: shard finished its partition of the enumeration",
    assumptions=[
        "the independent OpenSSL peer (system libssl) implements TLS and X.509 path validation correctly",
        "a handshake cannot complete unless both ends ran it: 'handshake completed at the peer' is evidence of what iora negotiated",
        "certificate validity is judged against the real clock at run time (expired = notAfter one day ago)",
        "127.0.0.1 / localhost are reachable and localhost resolves to a loopback address",
    ],
    units=[
        pbt("c07_tls", ["harness/c07_tls.cpp", "harness/c07_http.cpp"], dict(
            critical=P(per_shard(CRITICAL), per_shard(CRITICAL), SHARDS, SHARDS, q_secs=120, t_secs=300,
                       extra=["--no-shrink"]),
            sample=P(200, 600, SHARDS, SHARDS, q_secs=60, t_secs=300, extra=["--shrink-seconds", "20"]),
            walk=P(0, per_shard(CELLS), SHARDS, SHARDS, q_secs=10, t_secs=900, extra=["--no-shrink"]),
            selftest=P(32, 64, 1, 1),
        ), cxx="g++"),   # http_client.hpp (dns_resolver.hpp) does not compile with clang++ 14
    ],
)
