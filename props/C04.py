from checks import pbt, fuzz, P

SPEC = dict(
    level="exploration",
    level_text=("Schedule exploration with an explicit oracle: generated plans place the engine's completion / failure, the "
                "timeout expiry, cancel() and stop() into named phases of the connectSync call (a scripted fake engine makes "
                "the placement deterministic, including INSIDE the close(sid) call of the timeout path; seeded yields at every "
                "mutex operation widen the remaining windows), and generated loopback scenarios run the real TcpEngine against "
                "raw POSIX peers. The single-caller cells (timeout x outcome x phase x close-processing) are enumerated; "
                "multi-caller schedules are sampled. Exploration: finds counterexamples, proves nothing."),
    level_note=("Trusts the fake engine's model of the engine contract (connect() only enqueues; per session onConnect at most "
                "once, then exactly one onClose; a Close command is processed FIFO after the Connect), the kernel's loopback "
                "TCP behaviour for the raw peers (backlog-0 listener drops further SYNs, bound-not-listening port refuses) and "
                "a generous wall-clock bound (timeout + 10 s) for the bounded-wait rule."),
    technique="property-based schedule exploration (rapidcheck plans; scripted fake engine, mutex-op perturbation, real loopback sockets)",
    rule=("sched: 1-8 caller threads, each 1-3 connectSync attempts (or one connectSyncCancellable with a cancel at a generated "
          "time); per attempt: timeout in {0,1,2,5,20,3000 ms}, engine outcome in {onConnect, onClose(error), nothing, synchronous "
          "refusal}, phase in {inside connect(), parked +d us (d around the expiry), inside the timeout path's close(sid), after "
          "that call but before the engine processes the close, after connectSync returned}, engine processes the close "
          "{inside the call, delayed, after return}; optional stop() at a generated time. sched_enum: all 90 single-caller cells. "
          "teardown: 1-8 callers parked in ONE connectSync each through a plain pointer; the owner thread drops the last "
          "shared_ptr (~Transport: fence, engine stop, waits the callers out) or calls stop(), released {at a generated time, "
          "right BEFORE the I/O thread fires a victim's onConnect with the handler's (or the fake's) mutex release held / "
          "followed by a pause so the owner queues on the sync mutex and wins against the woken caller, right AFTER it returned, "
          "while a victim is INSIDE the engine->close(sid) call of its timeout path (the fake keeps it there, bounded), right "
          "after that close returned with the caller held before its re-lock (interposed pthread_mutex_lock)} + 0..200 us; both "
          "results are legal for the race, only 'error + global callback for that id' / 'left open' / a sanitizer report "
          "(use of the freed Impl) / ~Transport later than the longest timeout + 10 s fails. "
          "sched also issues all calls BEFORE the first start() in 1/10 of the plans (the engine queues the commands; the "
          "harness start()s afterwards and the engine executes every queued Connect and, behind it, the Close the transport issued). "
          "real: lifecycle {running 70 %, calls before the first start() 20 %, after start()+stop() before a restart 10 %; in the "
          "last two the harness (re)starts after all calls returned and issues one later command}; 1-8 callers x 1-4 calls against "
          "{accepting, refusing, black-hole (backlog 0 + queued connection), "
          "RST-after-accept, 10.255.255.1} with timeouts {0,1,2,5,20,100 ms}, 1/5 cancellable with a cancel at a generated time. "
          "Non-trivial = an engine event placed in/after the timeout path's close, or a completion within 2 ms of the expiry "
          "(sched); the victim's onConnect fired before the teardown began (teardown); a timeout <= 2 ms against a target whose "
          "handshake completes, or a Cancelled result (real). Distinct by hash of the plan."),
    assumptions=["sched/real: callers co-own the Transport, teardown is stop(); teardown: destruction under parked calls is "
                 "exercised only in the form the teardown handshake documents (INV-5: callers already inside connectSync are waited "
                 "out) - every caller is inside engine->connect() before the owner starts and makes no further call",
                 "TLS targets are not generated (optional in the brief)",
                 "error codes of the real engine are not judged beyond 'is an error' (its internal reports are not observable); "
                 "with the fake engine a non-timeout error must be one the engine really reported for that call"],
    units=[
        pbt("c04_connsync", ["harness/c04_connsync.cpp", "harness/c03_sched.cpp"], dict(
            sched=P(600, 6000, 4, 16, extra=["--shrink-seconds", "30"]),
            sched_enum=P(400, 3000, 2, 4, extra=["--shrink-seconds", "20"]),
            real=P(500, 4000, 4, 16, extra=["--shrink-seconds", "30"]),
            teardown=P(500, 5000, 4, 16, extra=["--shrink-seconds", "30"]),
        )),
    ],
)
