from checks import pbt, fuzz, P

SPEC = dict(
    level="exploration",
    level_text=("Generated fault scripts: a real iora HttpClient issues 1-5 logical requests (1-4 concurrent callers on one client) "
                "against a scripted raw-socket server (own poll loop, own strict request reader, no iora code) that fails each "
                "exchange where the script says - connect refused, RST after accept, k request octets consumed then "
                "FIN/RST/close-with-unread-data/silence (k over every request offset), response written up to octet j then "
                "FIN/RST/silence (j over every response offset), 38 deterministic framing violations (13 malformed status lines / version tokens, 12 chunk sizes beyond the response cap), complete answers with "
                "keep-alive / close tokens / HTTP/1.0 / close-delimited bodies / surplus octets. The oracle counts, per unique "
                "request token, on how many connections the request showed up, and watches which connection each later request "
                "uses. Exploration is the right level: the fault space (method x budget x fault x offset x sequence x callers) is "
                "sampled, positions are drawn uniformly over the actual message sizes, nothing is proved."),
    level_note=("Trusts the scripted server and request reader (harness/c17_client.cpp, harness/common/c16_rawhttp.hpp) and "
                "loopback TCP. Counting is one-sided (an attempt that the server never saw an octet of is not counted). The "
                "'framing error is never retried' rule is only applied when the whole call took less than one receive time-out, "
                "i.e. when no attempt can have ended by a time-out. 'Returns within its time-outs' is a bounded wait (sum of all "
                "configured time-outs and back-offs + 25 s) enforced by the per-case watchdog and must reproduce 3/3."),
    technique="property-based testing (rapidcheck plans): real HttpClient against a scripted raw-socket server; per-request "
              "connection counts and connection-reuse observations on the server side; ASan+UBSan (g++ build)",
    rule=("exchange: requests = 1-5 of {GET, HEAD, PUT, DELETE, OPTIONS | POST, PATCH, 'get', 'Post', PURGE} (public API for "
          "GET/HEAD/POST/DELETE, performRequest for the other tokens), retry budget 0-3 (the `retries` argument), body 0 B - 320 KiB, "
          "optional connect-refused window of 50-350 ms (port bound but not listening), reuseConnections on/off, receive time-out "
          "200-300 ms when the script contains a silent peer, 2.5 s otherwise. script = 0-8 actions consumed in arrival order of "
          "the exchanges (then: complete 200 keep-alive): accept-then-RST 6 %, read k octets then FIN/RST/stall/close-unread 20 %, "
          "early answer after k octets 5 %, response cut at octet j then FIN/RST/stall 19-24 %, framing violation 12 % (40 kinds, 2 of them lenient-accepted status lines without verdict; 1 case in 6 with a 4 KiB response cap), complete "
          "answer with close token (4 spellings) 10 %, surplus octets 5 %, HTTP/1.0 4 %, keep-alive / foreign Connection token 4 %, "
          "plain 15 %; framing Content-Length / chunked / close-delimited / 204 / 304, optional '100 Continue', response delay "
          "0-40 ms. Non-trivial = at run time at least one exchange was failed by the server after it had read >= 1 octet of the "
          "request; distinct by hash of the rendered plan."),
    assumptions=[
        "loopback TCP; a response of <= 4 KiB written with one send() reaches the peer's socket in one piece (used for 'surplus octets were seen')",
        "the scripted server and its request reader are correct; they share no code with iora",
        "HttpClient's documented idempotent set (GET, HEAD, PUT, DELETE, OPTIONS, TRACE; case-sensitive) is the intended one (RFC 9110 9.2.2)",
    ],
    units=[
        # g++: http_client.hpp pulls in dns/dns_resolver.hpp, which clang++ 14 rejects
        pbt("c17_client", "harness/c17_client.cpp", dict(
            exchange=P(40, 500, 16, 16, q_secs=50, t_secs=700, extra=["--shrink-seconds", "30"]),
        ), cxx="g++"),
    ],
)
