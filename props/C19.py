from checks import pbt, fuzz, P

SPEC = dict(
    level="exploration",
    level_text=("Generated-input and generated-history search with explicit oracles, all under ASan+UBSan on exact-size heap "
                "buffers: (1) construction oracle - a message tree is encoded by the harness's own RFC 1035 encoder and name "
                "compressor and DnsMessage::parse must return exactly that tree; (2) round trip of buildQuery through iora's "
                "parser and through an independent strict decoder; (3) crafted malformations with a definite verdict (pointer "
                "loops of length 1..64, out-of-range pointers incl. pointer == size, reserved label types, names > 255 octets, "
                "counts / RDLENGTH beyond the content) plus every truncation and byte-level mutations; (4) a model-based cache "
                "state machine over a harness-owned monotonic clock (clock_gettime interposed in the harness executable); "
                "(5) a coverage-guided fuzzer whose target carries a differential oracle (strict reference decoder) and "
                "re-encoding invariants. Exploration is the right level: the property quantifies over all byte strings and all "
                "histories; this finds counterexamples and never proves absence."),
    level_note=("Trusts the reference encoder/compressor/strict decoder in harness/common/c19_ref_dns.hpp (validated against "
                "each other: every generated message is accepted by the strict decoder in the mutate property and the fuzz "
                "target), glibc's inet_pton as partner for AAAA text, and that sanitizers expose undefined behaviour on the "
                "executed inputs. Time is used one-sidedly: only hits are judged, with put stamped after and get stamped before "
                "the call."),
    technique="property-based testing (rapidcheck: construction oracle, crafted malformations, model-based state machine with an owned clock) and libFuzzer with an in-target differential oracle",
    rule=("construct: random message (header flags, 0-3 questions, 0-13 records over answer/authority/additional; A and AAAA "
          "over the whole address space, TXT with 1-70 strings of 0-255 arbitrary octets, SRV/MX/SOA/NAPTR/CNAME/PTR/NS with "
          "names in RDATA, unknown types/classes with opaque RDATA; names from a shared label pool incl. binary labels, 63-octet "
          "labels and names of 253-255 octets) encoded with a compressor that may cut any name at any suffix and point to any "
          "earlier occurrence (label run or pointer => chains); non-trivial = at least one compression pointer inside RDATA. "
          "query: 1-4 questions through the three buildQuery overloads. malformed: one crafted defect per case at a question "
          "name, an owner name or a name inside CNAME/PTR/MX/SRV/SOA/NAPTR/NS RDATA. truncate: every strict prefix of a "
          "generated message; non-trivial = message with records. mutate: up to 6 byte-level mutations (delete/insert/replace/"
          "truncate/bit flip/pointer redirect/count tweak); non-trivial = mutated. cache: up to 40 operations put / negative "
          "put (explicit, SOA-derived, no SOA) / get (case variants, other type/class) / remove / clear / advance (to +-1 s, "
          "+-50 ms, +0, +1 ns of a TTL boundary, or 0-3 s) with record TTLs from {0,1,2,3,5,10,60,300,3600,86400,2^31-1,2^32-1}; "
          "non-trivial = a get was issued for a key whose entry had provably expired on the harness clock. fuzz: non-trivial = "
          "input decoded by iora. Distinct by hash of the wire bytes / history."),
    assumptions=[
        "the reference encoder, compressor and strict decoder in harness/common/c19_ref_dns.hpp implement RFC 1035 section 4 correctly",
        "libstdc++'s steady_clock::now() calls clock_gettime(CLOCK_MONOTONIC) through the PLT, so the definition in the harness executable is used (self-tested at the start of every cache shard; a failure is a harness error, not a violation)",
        "errors of typed RDATA decoding are contained by design (record kept in the generic section, typed view not produced): a loop / out-of-range pointer inside RDATA counts as 'reported' when the typed record is absent",
        "typed views are compared for class IN records only",
    ],
    units=[
        pbt("c19_dns", "harness/c19_dns.cpp", dict(
            construct=P(2000, 30000, 4, 16),
            query=P(2000, 20000, 2, 8),
            malformed=P(3000, 30000, 3, 12),
            truncate=P(400, 5000, 2, 12),
            mutate=P(2500, 30000, 3, 12),
            cache=P(1200, 15000, 2, 12),
        )),
        fuzz("fuzz_dns", "harness/fuzz_dns.cpp", dict(runs=250000, procs=4, max_len=600, max_seconds=25, timeout=8),
             dict(runs=25000000, procs=16, max_len=4096, max_seconds=360, timeout=8), corpus="corpus/C19"),
    ],
)
