from checks import pbt, fuzz, P

SPEC = dict(
    level="exploration",
    level_text=("Model-based history testing of the real UdpEngine over loopback: generated operation histories "
                "(peer->listener and peer->connected-session datagrams of boundary sizes, app sends, connect, "
                "connectViaListener, close, bursts, idle expiry, injected EAGAIN on sendto/send) run against up to 4 "
                "independent raw UDP sockets and up to 2 listeners; every datagram is stamped, and the callback log is "
                "judged in I/O-thread order against the statement (identity, peer address, continuity of the receiving "
                "session, destination of every send). Exploration: histories are unbounded; counterexamples are found, "
                "absence is not proved."),
    level_note=("Trusts loopback UDP and that the callback order seen by the harness is the engine's single I/O thread's "
                "order. Loss is allowed by the statement ('at most one datagram'): a datagram that does not arrive is "
                "counted, never flagged, so an engine that silently drops datagrams is only visible in the labels."),
    technique="property-based testing (rapidcheck operation histories) with real sockets and link-time EAGAIN injection",
    rule=("history: <=48 operations over {dgram(peer,listener,size), dgram to a connect() session, send(session,size), "
          "connectViaListener, connect, close, burst (2-5 following operations without waiting), EAGAIN script for the next "
          "engine sendto/send calls}; sizes include 1, 2, 1472, 1473, ioReadChunk-1, ioReadChunk, 65507; listeners on 127.0.0.1 or '::' (dual stack), op alt (two peers alternate back to back); peers 127.0.0.1:p, "
          "127.0.0.2:p (same port), 127.0.0.1:q, 127.0.0.3:r; ET/LT, batching, ioReadChunk in {65536,65507,2048,1472}, "
          "maxWriteQueue in {1024,2,1}, maxSessions in {0,1,2,3,4} (a new peer refused at the cap is documented behaviour and only counted). idle: the same with idleTimeout=gcInterval=1 s and a 2.4 s phase in which only some "
          "peers keep sending. Non-trivial = >=2 open sessions for one peer address at some point, or a close of a session "
          "between two datagrams of one peer; distinct by hash of the history."),
    assumptions=[
        "documented contract: zero-length UDP sends are swallowed (not generated); datagrams never exceed ioReadChunk; at maxSessions new peers are refused (allowed), existing open sessions must keep receiving",
        "loopback UDP does not corrupt or duplicate datagrams; loss is possible and never counted as a failure",
        "all Transport callbacks are issued by one I/O thread, so the log order is the engine's order",
    ],
    units=[
        pbt("c06_udp", ["harness/c06_udp.cpp", "harness/c01_interpose_net.cpp"], dict(
            history=P(500, 20000, 16, 16, q_secs=45, t_secs=700),
            idle=P(2, 24, 8, 16, q_secs=45, t_secs=700),
        )),
    ],
)
