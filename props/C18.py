from checks import pbt, fuzz, P

# loopback properties: every shrink attempt opens a real connection and a failing one may sit in a
# 30 s bounded wait, so shrinking gets a time box
_LOOP = dict(extra=["--shrink-seconds", "20"])

SPEC = dict(
    level="exploration",
    level_text=("Generated-input search with explicit, independent oracles. (1) Construction + round trip: frames over all "
                "16 opcode values, the 7/16/64-bit length classes, masked or not, FIN or not are serialised by iora, compared "
                "byte for byte with an own RFC 6455 encoder, parsed back, and every proper prefix must be 'incomplete'. "
                "(2) Metamorphic/construction: protocol-aware streams (1-5 messages, 1-5 fragments, pings/pongs between "
                "fragments, close, invalid UTF-8) are fed under ALL single cut points, byte-by-byte and random multi-cuts, "
                "in-process, to a WebSocketServer subclass and (hook H3) to WebSocketClient::handleData; deliveries must equal "
                "the generator's message list for every segmentation. (3) Wire capture over real loopback connections with a "
                "raw-socket peer and an exact per-segment read barrier: pongs match pings, application sends arrive intact, no "
                "data frame behind the endpoint's close frame - also with 1-4 application threads racing the close handshake. "
                "(4) Hostile headers (declared lengths up to 2^64-1, beyond maxFrameSize, illegal control frames, endless "
                "fragments, mutated streams): nothing throws, single allocations stay proportional to the bytes received "
                "(ASan allocator hooks), the endpoint gives up instead of buffering. (5) libFuzzer on parse and on both data "
                "paths with the reference decoder + reassembly model inside the target, -malloc_limit_mb=64. "
                "Exploration is the right level: the property quantifies over all streams, all segmentations and all "
                "schedules; this finds counterexamples and never proves absence."),
    level_note=("Trusts the reference codec/UTF-8 validator/reassembly model in harness/common/c18_ref_ws.hpp (written from "
                "RFC 6455/3629, shares no code with iora; the generator's frames are cross-checked by decoding them with the "
                "reference decoder inside the wire oracle), OpenSSL's SHA-1/base64 for the handshake, the kernel's TCP_INFO/"
                "FIONREAD for the read barrier, and that ASan/UBSan expose undefined behaviour on the executed inputs. "
                "Schedules of the close race are sampled, not enumerated; the in-process properties are deterministic."),
    technique="property-based testing (rapidcheck plans; construction, metamorphic and wire-capture oracles) and libFuzzer with in-target oracle",
    rule=("frame_roundtrip: one frame per case (opcode x length class {0..5,124..128,65534..65537,70000,random<=200000} x mask/key "
          "x FIN), all (<=2 KiB) or sampled prefixes; distinct by hash(payload, opcode, FIN, mask). "
          "server_segments/client_segments: a protocol-aware stream, fed whole + every single cut (all positions up to 600 "
          "bytes, otherwise every position in/around each header + 48 sampled) + one byte per read + 4 random multi-cuts; "
          "NON-TRIVIAL (the property's stated rule) = the stream contains a fragmented message with a control frame between "
          "its fragments AND a cut inside a frame header was executed; distinct by hash of the wire bytes. "
          "server_wire/client_wire: stream + segmentation + up to 6 application sends (text/binary/ping/close, lengths "
          "0..70001) interleaved, over a real connection; same non-trivial rule, distinct by hash(wire, plan). "
          "In client_segments the 101 response is additionally part of the fed bytes (response+stream in one read, response cut at "
          "7 positions, response + first k frames); in half of the client_wire/client_reuse/server_wire cases the first frames "
          "travel in the same write as the 101 response / the upgrade request and the peer then stays silent until their effects "
          "are visible. limit_segments (and a sixth of the wire cases): a small configured maximum N in {125,126,127,1000,65535,65536,"
          "70000} (server setMaxFrameSize / client Options::maxMessageSize) and a message of N-1, N or N+1 payload bytes, single "
          "frame or reassembled, between two small messages, under all single cuts/byte-wise/multi-cuts: N-1 and N delivered, "
          "N+1 refused, for every segmentation. client_reuse: ONE WebSocketClient object through 2-3 connections; each but the last carries a short valid exchange "
          "and ends by {oversized header 1009, malformed header 1002, invalid UTF-8 1007, client sendClose, client "
          "disconnect(), peer close, TCP reset idle, TCP reset inside a frame of a fragmented message}; the last carries the "
          "client_wire exchange under the unchanged oracles; every case non-trivial, distinct by hash(endings, wire, plan). "
          "*_close_race: 1-4 threads x 5-150 sends against a close started by the application / the peer's close frame / an "
          "invalid text; every case is non-trivial, distinct by plan. hostile: parse headers, oversized declared frames, "
          "illegal control frames and MSB-set lengths followed by 70 KB of valid traffic, endless fragments, mutated streams; "
          "distinct by the hostile bytes. fuzz: inputs whose selected mode decoded at least one complete frame (parse) / a "
          "conformant stream of >= 2 frames (data paths); distinct by hash of the input."),
    assumptions=[
        "the reference encoder/decoder/UTF-8 validator/reassembly model (harness/common/c18_ref_ws.hpp) is RFC 6455/3629-correct",
        "hook H3 (hooks/C18-ws-client-probe.diff, a friend declaration under JOEGEN_IORA_VERIF) is applied; without it the "
        "client's in-process properties report a label and only the loopback properties exercise the client",
        "a well-behaved peer waits for the 101 response before it sends frames (frames racing the upgrade are not generated)",
        "replies to a peer that has already half-closed the TCP connection may be dropped by the transport (C01/C16 territory): "
        "the raw peer keeps its side open until it has seen the endpoint's close frame",
    ],
    units=[
        pbt("c18_ws", "harness/c18_ws.cpp", dict(
            frame_roundtrip=P(1500, 10000, 4, 16),
            server_segments=P(200, 600, 4, 16),
            client_segments=P(200, 600, 4, 16),
            limit_segments=P(300, 1500, 2, 8),
            server_wire=P(200, 2000, 2, 8, **_LOOP),
            client_wire=P(100, 1500, 2, 8, **_LOOP),
            client_reuse=P(100, 1000, 2, 8, **_LOOP),
            server_close_race=P(100, 1000, 1, 4, **_LOOP),
            client_close_race=P(100, 1000, 1, 4, **_LOOP),
            hostile=P(2000, 15000, 2, 8),
        )),
        fuzz("c18_fuzz_ws", "harness/fuzz_ws.cpp",
             dict(runs=150000, procs=4, max_len=512, max_seconds=25, malloc_limit_mb=64, rss_limit_mb=2048),
             dict(runs=20000000, procs=16, max_len=4096, max_seconds=240, malloc_limit_mb=64, rss_limit_mb=2048),
             corpus="corpus/C18"),
    ],
)
