from checks import pbt, fuzz, P

SPEC = dict(
    level="exploration",
    level_text="(filled in below)",
    level_note="",
    technique="property-based testing (rapidcheck plans, construction + metamorphic oracles) and libFuzzer with in-target oracle",
    rule="(filled in below)",
    assumptions=[],
    units=[
        pbt("c18_ws", "harness/c18_ws.cpp", dict(
            frame_roundtrip=P(2500, 40000, 4, 16),
            server_segments=P(300, 5000, 4, 16),
            client_segments=P(300, 5000, 4, 16),
        )),
    ],
)
