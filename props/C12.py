from checks import pbt, fuzz, P

SPEC = dict(
    level="exploration",
    level_text=("Model-based property testing: generated operation histories run against the real KVStore under a "
                "harness-owned wall clock (clock_gettime interposed in the harness executable) and every read API is "
                "compared after every step with an independent reference map with per-key absolute expiry. Exploration "
                "is the right level: the property quantifies over all histories, clock advances and schedules; the search "
                "finds counterexamples and never proves absence."),
    level_note=("Trusts the reference map (harness/common/c12_kvref.hpp), the clock interposition (self-verified at start-up: "
                "std::chrono::system_clock::now() must return the harness value, steady_clock must not move) and the file "
                "system of the scratch directory."),
    technique=("model-based property testing (rapidcheck histories, reference map oracle, interposed wall clock), ASan+UBSan; "
               "plan-driven thread executor with one-sided time-stamp oracle, ASan+UBSan and TSan"),
    rule=("history: config cell (maxCacheSize 1/2/1000, wheel tick 1 ms/1 s, compaction inline 64 B/4 KiB, off, background "
          "every 1 ms) x up to 48 operations drawn from set, set-with-TTL, batch (+-TTL), remove, prefix-remove, clear, "
          "expire-at (past/now/future), persist, compact, clean close/reopen, wall-clock advance (0, 1 ms, 999 ms, 1 s, 1 h, "
          "400 d, or to the next pending expiry -1/0/+1 ms), real 3 ms yield, flush; keys from a 12-key universe (prefix-related "
          "short keys, NUL/0xff binary keys, 255-byte and 65535-byte keys), values incl. empty and 64 KiB. After every step: get, "
          "exists, ttl for every key, keys, keysWithPrefix, size, getBatch vs the reference. Non-trivial = a TTL operation "
          "followed by an advance across its expiry and a read, or a compaction/restart after TTL operations, or an overwrite "
          "of a TTL key; distinct by hash of config + operation rows. expiry_race (ASan and TSan builds): 1-2 writer threads "
          "(each key owned by one writer: set, expireAt(now + {-5,0,0.3,1,2,5,20} ms), set-with-TTL 1 s, remove) and 1-3 reader "
          "threads (get, getBatch, exists, keys, ttl, size) over 2-6 keys racing the store's 1 ms wheel, eviction worker and "
          "(optionally) background compaction every 1 ms; a read call that STARTED after a version's expiry had passed and been "
          "installed (or after its overwrite/removal returned) must not return that version; non-trivial = a script with an "
          "expiry operation and at least one judged read."),
    assumptions=["TTL arguments are > 0 and expire-at instants are ms-aligned and inside the store's documented plausibility "
                 "window (epoch > 0, before year 2300)",
                 "at expiry == now either answer is accepted (the property evaluates expiry at the moment of the read)",
                 "persist/expire-at on a key whose expiry equals the current instant are not generated (outcome is ambiguous)"],
    units=[
        pbt("c12_kvmodel", ["harness/c12_kvmodel.cpp", "harness/c12_clock.cpp", "harness/c12_nofsync.cpp"], dict(
            history=P(1500, 12000, 8, 16, q_secs=50, t_secs=600),
        )),
        # concurrent part: real clocks, one-sided oracle; shrinking re-runs thread schedules, keep it short
        pbt("c12_kvconc", ["harness/c12_kvconc.cpp", "harness/c12_nofsync.cpp"], dict(
            expiry_race=P(80, 800, 4, 8, q_secs=40, t_secs=300, extra=["--shrink-seconds", "20"]),
        )),
        pbt("c12_kvconc_tsan", ["harness/c12_kvconc.cpp", "harness/c12_nofsync.cpp"], dict(
            expiry_race=P(50, 500, 4, 8, q_secs=40, t_secs=300, extra=["--no-shrink"]),
        ), san="tsan", tsan_scope=["kvstore.hpp", "timing_wheel.hpp"]),
    ],
)
