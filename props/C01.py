from checks import pbt, fuzz, P

_SHRINK = ["--shrink-seconds", "20"]  # a stalled case costs seconds per evaluation: bound the shrink phase

SPEC = dict(
    level="exploration",
    level_text=("Property-based plan execution against the real TcpEngine over loopback: every generated plan (roles, "
                "directions, polling mode, buffer sizes, 1-4 concurrent senders, peer read/write scripts, early ends) is "
                "run against an independent raw POSIX / OpenSSL peer while a link-time interposer executes the plan's "
                "kernel fault script on the engine's socket (short writes, EAGAIN on writes, short reads; for TLS under "
                "the libssl BIO). The received byte stream is compared with the accepted payloads byte for byte. A "
                "sub-tier enumerates every cut position of the first and second engine write/read for payloads <= 64 B. "
                "Exploration is the right level: the property quantifies over unbounded payload sequences, schedules and "
                "fault sequences; the check finds counterexamples and never proves absence."),
    level_note=("Trusts the Linux loopback TCP stack, OpenSSL as the TLS peer, and that symbol interposition reaches every "
                "socket call the engine makes (self-tested in the replay tier; libssl BIO traffic is counted). Stall "
                "verdicts are bounded-wait conclusions: no engine I/O for 6 s while the harness can show from the kernel "
                "queue lengths (SIOCOUTQ/FIONREAD) that the next step is owed by the engine; they must reproduce 3/3."),
    technique="property-based testing (rapidcheck plans) with real sockets, link-time fault injection and an exhaustive cut enumeration",
    rule=("stream/tls: plan = {iora connects|listens, iora->peer|peer->iora|both, edge|level triggered, batching, "
          "soSndBuf/soRcvBuf in {0,4K,16K}, ioReadChunk in {1,7,512,65536}, maxWriteQueue in {1,2,8,1024}, 1-4 sender "
          "threads with <=64 payloads of 1 B .. 3x socket buffer (<=1 MiB, send/sendAsync/sendSync), peer read script "
          "[(size,pause)], peer write script, kernel fault script per engine write (pass|cut at n|EAGAIN) and read "
          "(pass|cut), early end (peer FIN|peer RST|app close at step j), sends before onConnect / from onAccept (during "
          "the TLS handshake)}; payload bytes are a function of (salt, thread, index, offset). cuts: one connection, two "
          "payloads <= 64 B, all (pass|EAGAIN|cut k) x (pass|EAGAIN|cut k) of the first and second engine write, then all "
          "cut pairs of the first and second engine read. Non-trivial = >=1 engine write returned short or EAGAIN (real or "
          "injected, counted by the interposer) and >=2 payloads (cuts: >=3 bytes enumerated); distinct by hash of the plan."),
    assumptions=[
        "Linux loopback TCP delivers what the engine's send()/write() calls returned as accepted, in order",
        "the interposed send/recv/read/write are the only calls by which the engine (and libssl under it) moves bytes on its socket (writev/sendmsg/recvmsg use would be labelled)",
        "a send is 'accepted' when Transport::send/sendAsync/sendSync reports success (command queued) - the API's own convention; default closeOnBackpressure=true",
        "OpenSSL is a correct TLS peer: a record it rejects with a protocol error was malformed on the wire",
    ],
    units=[
        pbt("c01_stream", ["harness/c01_stream.cpp", "harness/c01_interpose_net.cpp"], dict(
            stream=P(400, 8000, 16, 16, q_secs=45, t_secs=800, extra=_SHRINK),
            tls=P(150, 3000, 16, 16, q_secs=45, t_secs=800, extra=_SHRINK),
            cuts=P(6, 120, 16, 16, q_secs=45, t_secs=800, extra=_SHRINK),
        )),
    ],
)
