from checks import pbt, fuzz, P

_SHRINK = ["--shrink-seconds", "40"]
_SCOPE = ["transport_impl.hpp", "tcp_engine.hpp", "udp_engine.hpp", "engine_base.hpp"]

SPEC = dict(
    level="exploration",
    level_text=("Plan executor with real threads against the real TCP and UDP engines on loopback: generated actor scripts over "
                "the public API race one teardown actor (stop from outside, drop of the owning reference from outside, owner "
                "released inside an I/O-thread callback, stop inside a callback) over 1-3 start/stop cycles, with seeded "
                "micro-delays in the actors and inside the callbacks; the ASan build additionally links a pthread_mutex_lock "
                "interposer (harness/c05_sched.cpp) that, driven by a plan seed, yields/sleeps before lock acquisitions to "
                "widen check-then-lock windows. The same plans run under ASan+UBSan and under TSan (no interposer). "
                "Exploration is the right level: the property quantifies over thread schedules; perturbation is statistical."),
    level_note=("Sanitizer verdicts are sound because of the ownership discipline of the harness: owner actors co-own the "
                "transport for each call, and a destruction is started only after every borrowed-reference call was observed "
                "(through the befriended injector, under syncMutex) to be counted by the teardown handshake. Trusts ASan/TSan to "
                "see the executed schedule's errors; schedules not executed are not covered."),
    technique="property-based plan generation (rapidcheck) + multi-threaded plan executor under AddressSanitizer/UBSan and ThreadSanitizer",
    rule=("plan = protocol x config cell (edge/level triggered, timer service, batching, callback delay, flush hold) x 1-3 cycles x "
          "[0-2 accepted + 0-2 connected sessions, raw writer threads per session, 1-4 actors x <=6 ops of {connectSync to black "
          "hole/listening/refused, receiveSync, flush, send/sendAsync, close, addListener, getStats, observe/unobserve, connect, "
          "setSessionData, address getters, sleep} with micro-delays, optional borrower actors, a guarded blocking call tried "
          "inside a callback] x teardown {stop-outside, drop-outside, release-in-callback(onData/onClose/observer/cleanup, quiesced "
          "or not), stop-in-callback} at a generated delay. Non-trivial = the teardown actor observed >=1 application call in "
          "flight when it began; distinct by (protocol, teardown kind, callback kind, set of in-flight op kinds, cycle index)."),
    assumptions=["start() is not concurrent with other calls (documented lifecycle contract): actors of a cycle are joined before the "
                 "next start()",
                 "one teardown actor per cycle (concurrent stop() calls are outside the documented contract)",
                 "bounded-wait bound B = 30 s per call; such failures must reproduce 3/3"],
    units=[
        # ASan+UBSan build with the mutex-lock schedule perturbation linked in
        pbt("c05_teardown", ["harness/c05_teardown.cpp", "harness/c05_sched.cpp"], dict(
            teardown_tcp=P(40, 500, 8, 16, q_secs=40, t_secs=500, extra=_SHRINK),
            teardown_udp=P(40, 500, 6, 12, q_secs=40, t_secs=500, extra=_SHRINK),
        )),
        # TSan build WITHOUT the interposer (it would bypass TSan's interceptors)
        pbt("c05_tsan", "harness/c05_teardown.cpp", dict(
            teardown_tcp=P(20, 250, 8, 16, q_secs=40, t_secs=500, extra=_SHRINK),
            teardown_udp=P(20, 250, 6, 12, q_secs=40, t_secs=500, extra=_SHRINK),
        ), san="tsan", tsan_scope=_SCOPE),
    ],
)
