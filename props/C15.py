import os
from checks import pbt, fuzz, P

# http_client.hpp pulls in the DNS client, whose dns_resolver.hpp clang++ 14 cannot compile (lambda
# capture of a structured binding). The rapidcheck unit is therefore built with g++ (real include
# graph); the libFuzzer targets need clang and see a build-only DnsClient stand-in through -iquote
# (harness/c15_stub/.../dns_client.hpp) - the response framer never resolves a name.
_STUB = os.path.join(os.path.dirname(os.path.dirname(os.path.abspath(__file__))), "harness", "c15_stub")
_FLAGS = ["-iquote", _STUB]

SPEC = dict(
    level="exploration",
    level_text=("Generated-input search over HTTP/1.1 message streams with three kinds of oracle: a construction oracle (the "
                "generator knows method/status, fields and decoded body of every message it rendered), a metamorphic oracle "
                "(the same stream under the unsegmented delivery, ALL single cut points for streams <= 512 bytes, byte-by-byte "
                "and drawn multi-cuts must give the same hand-over) and an independent strict RFC 9112 stream parser that "
                "classifies mutated/arbitrary bytes (valid prefix | incomplete | invalid length information | no verdict). "
                "The code under test runs in-process with exact control of every read boundary: "
                "HttpServer::handleIncomingData through a subclass + friend probe, HttpClient::frameResponse through a friend "
                "probe that mirrors executeRequest's receive loop; libFuzzer targets carry the same oracles; loopback samples "
                "over real sockets validate the in-process route. ASan+UBSan on exact-size segment buffers. Exploration: the "
                "property quantifies over an infinite language of streams and all segmentations; this finds counterexamples "
                "and never proves absence."),
    level_note=("Trusts the reference renderer/parser (harness/common/c15_ref_http*.hpp; generator and parser are checked "
                "against each other by the selfcheck property on every run), that the friend probes (hooks H1/H2) drive the "
                "framers the way the transport callbacks / executeRequest do (sampled end-to-end by loopback_server / "
                "loopback_client), and that sanitizers expose undefined behaviour on the executed inputs. Segment size is "
                "capped at the transport's read chunk (64 KiB server, 8 KiB client) as in production."),
    technique="property-based testing (rapidcheck; construction, metamorphic and differential oracles) and libFuzzer with in-target oracles",
    rule=("server_valid: pipelines of 1-4 requests (9 methods, HTTP/1.0|1.1, targets with query/obs-text, 0-5 unique-name fields in "
          "random case/order with OWS and adversarial values such as 'chunked' or 'Content-Length: 10' under other names, bodies "
          "0..70 KB incl. CRLF/'0 CRLF CRLF'/embedded requests, framed by Content-Length (leading zeros) or chunked with 1..n "
          "chunks on hex-digit boundaries, upper/lower/mixed hex, leading zeros, extensions incl. quoted strings, BWS, 0-2 "
          "trailer fields) -> bytes -> {whole, every single cut (<= 512 B) or all hot offsets + drawn offsets, byte-by-byte "
          "(<= 1500 B), fixed stride, 2 drawn multi-cuts}; server_badlen: valid prefix + one of 23 kinds of invalid length "
          "information (12abc, +5, -5, 0x5, 1e1, empty, '1 2', '5, 6', two different Content-Length lines, 2^64, 2^64+5, 5.0, "
          "non-hex/empty/signed/0x/17-digit/junk chunk sizes, chunk data without CRLF, Transfer-Encoding xchunked / chunked,identity, "
          "chunk sizes near 2^64) + valid follow-up request; server_bytes / client_bytes: rendered streams under <= 5 byte/token "
          "mutations or raw blobs, judged by the strict parser; server_caps: 0.6-1.8 MiB streams that never complete a message; "
          "client_valid: 0-2 interim 1xx + final response (CL / chunked / close-delimited / HEAD-204-304 bodyless with misleading "
          "framing headers) + optional surplus bytes; client_badlen as server_badlen, half of the near-2^64 cases with the response "
          "cap raised to SIZE_MAX; loopback_*: the same generators over real sockets; fuzz_http_*: libFuzzer bytes + cut pattern, "
          "each input unsegmented and segmented. Non-trivial = chunked or pipelined (client: chunked or behind an interim "
          "response) stream of which at least one executed segmentation cuts inside a length field, a chunk-size line, at a chunk "
          "boundary or inside the header terminator (server_valid/client_valid/loopback/fuzz); every negative or mutated stream "
          "(badlen/bytes/caps); distinct by hash of the byte stream."),
    assumptions=["the reference renderer/parser in harness/common/c15_ref_http*.hpp is RFC 9112-correct where it gives a verdict "
                 "(selfcheck cross-checks generator and parser; everything outside the strict envelope gets no verdict)",
                 "hooks H1/H2 (friend probes under JOEGEN_IORA_VERIF) are applied; the probes create the per-connection record / "
                 "exchange state exactly as onAccept / executeRequest do",
                 "a request framing error is observable as closeSession(sid), a dropped session record or an emptied buffer",
                 "libFuzzer targets are built with a DnsClient stand-in (clang 14 cannot compile dns_resolver.hpp); the framer "
                 "code itself is the real one"],
    units=[
        pbt("c15_http", "harness/c15_http.cpp", dict(
            selfcheck=P(2000, 15000, 1, 2, q_secs=40, t_secs=420),
            server_valid=P(300, 2000, 4, 16, q_secs=40, t_secs=420),
            server_badlen=P(300, 2500, 3, 8, q_secs=40, t_secs=420),
            server_bytes=P(1200, 10000, 3, 8, q_secs=40, t_secs=420),
            server_caps=P(6, 40, 1, 2, q_secs=40, t_secs=420),
            client_valid=P(1200, 12000, 3, 8, q_secs=40, t_secs=420),
            client_badlen=P(1500, 12000, 2, 4, q_secs=40, t_secs=420),
            client_bytes=P(2500, 25000, 3, 8, q_secs=40, t_secs=420),
            server_lengths=P(250, 2500, 2, 4, q_secs=40, t_secs=420),
            client_lengths=P(1500, 15000, 1, 4, q_secs=40, t_secs=420),
            client_caps=P(1500, 15000, 2, 4, q_secs=40, t_secs=420),
            loopback_server=P(10, 100, 2, 4, q_secs=60, t_secs=420),
            loopback_client=P(40, 300, 1, 2, q_secs=60, t_secs=420),
        ), cxx="g++"),
        fuzz("fuzz_http_server", "harness/fuzz_http_server.cpp",
             dict(runs=60000, procs=8, max_len=600, max_seconds=10, timeout=25),
             dict(runs=6000000, procs=16, max_len=2048, max_seconds=150, timeout=25),
             corpus="corpus/C15/server", dict="corpus/C15/http.dict", flags=_FLAGS),
        fuzz("fuzz_http_client", "harness/fuzz_http_client.cpp",
             dict(runs=400000, procs=8, max_len=600, max_seconds=10, timeout=25),
             dict(runs=40000000, procs=16, max_len=2048, max_seconds=150, timeout=25),
             corpus="corpus/C15/client", dict="corpus/C15/http.dict", flags=_FLAGS),
    ],
)
