from checks import pbt, fuzz, P

_SCOPE = ["transport_impl.hpp", "transport.hpp", "transport_types.hpp"]

SPEC = dict(
    level="exploration",
    level_text=("Model-based property testing: generated operation histories (deliver / receive / mode switch / close / late "
                "receive) are executed against the real Transport over a scripted fake engine and every step is compared with "
                "an independent reference model; generated two-thread schedules (scripted I/O thread vs. application thread) "
                "are judged by interleaving-independent stream oracles under ASan+UBSan and TSan. Exploration: histories and "
                "schedules are sampled, not exhausted; absence of a counterexample is not a proof."),
    level_note=("Trusts the reference model in harness/c03_syncrecv.cpp (checked against the statement's global invariants on "
                "every case), the fake engine's adherence to the engine contract (onData only between open and close, on one "
                "thread) and that sanitizers expose races/UB on the executed schedules."),
    technique="model-based property testing (rapidcheck op lists) + scripted two-thread schedule exploration under ASan/TSan",
    rule=("seq: op list (<=60) over 1-2 sessions with maxSyncReceiveBuffer in {8,64,1 MiB} and GC threshold {0,1024}: "
          "Deliver(chunk 1..12/80/300 B, rarely 300 KB), Receive(len in {0..5000, 1 MiB}, timeout 0), "
          "SetMode(Async|Sync|Disabled), Close(reason drawn from the 12 code/message pairs the engines pass to onClose: PeerClosed, "
          "Unknown 'closed by app'/'shutdown', Timeout, Socket, TLSIO, TLSHandshake, WriteBackpressure, GCClosed, Connect, "
          "ShuttingDown), late Receive, final drain; every step compared with the reference model. "
          "conc: I/O script (<=24 chunks with 0-300 us gaps, optional close, optionally held back until the receiver is parked) "
          "against an application script (<=24 receives with timeouts {0,1,2,10 ms} / mode switches / pauses) on two threads, "
          "variants sync-only, sync/async switching (slow flush callback), small cap (overflow), with Disabled; seeded yields at "
          "mutex operations (ASan build) / TSan build; the close reason is drawn as in seq; in half of the plans a share of the "
          "receives uses receiveSyncCancellable (timeouts {1,2,10,50 ms}) and the scripted I/O thread calls cancel() on the "
          "reader's current token right before / right after a chunk (same polling slice) - a fresh token follows every cancel. e2e: real TcpEngine, raw peer sends <=12 "
          "chunks, ioReadChunk in {5,64,4096,65536}; the session ends by peer FIN right after the last byte, or - after the engine "
          "has read every byte (stats.bytesIn) - by the application's close(sid), by stop(), or by a peer RST. Non-trivial = the history contains a flush, a close or an overflow with a non-empty buffer (seq); "
          "a receive returned data or a flush handed buffered bytes while the I/O thread was running (conc); the full stream was "
          "read up to PeerClosed (e2e). Distinct by hash of the plan."),
    assumptions=["single-waiter contract of receiveSync and 'no data after onClose, no empty chunks' of the engine are respected by the generator",
                 "mode switches after the session closed are not generated in seq (outside the statement)",
                 "a receive that sleeps through a delivered close until its own timeout is judged by the bounded-wait rule "
                 "(documented contract: a close wakes every parked waiter), never a late data/PeerClosed result as such"],
    units=[
        pbt("c03_syncrecv", ["harness/c03_syncrecv.cpp", "harness/c03_sched.cpp"], dict(
            seq=P(7000, 60000, 4, 16),
            conc=P(1000, 15000, 4, 16, extra=["--shrink-seconds", "30"]),
            e2e=P(600, 5000, 2, 8, extra=["--shrink-seconds", "30"]),
        )),
        pbt("c03_syncrecv_tsan", "harness/c03_syncrecv.cpp", dict(
            conc=P(800, 10000, 4, 16, extra=["--shrink-seconds", "30"]),
            seq=P(600, 10000, 1, 2),
        ), san="tsan", tsan_scope=_SCOPE),
    ],
)
