from checks import pbt, P

SPEC = dict(
    level="exploration",
    level_text=("Generated schedule/history search with real threads and real clocks: rapidcheck plans (timer slots with handler "
                "behaviours + 1-4 actor scripts of schedule / cancel / cancel-at-the-deadline / reschedule / drain / stop, plus "
                "scheduling calls parked inside iora through an interposed clock_gettime) are executed against TimerService, "
                "TimerServicePool and TimingWheel; every call and handler entry/exit goes into one totally ordered trace and all "
                "oracles are evaluated on the trace, one-sided in time. Exploration is the right level: the property quantifies "
                "over all interleavings and deadline patterns; a random search with an executable oracle finds counterexamples "
                "(it found four) and never proves their absence."),
    level_note=("Trusts the steady clock (CLOCK_MONOTONIC) and that a mutex-protected trace is consistent with happens-before. "
                "Interleavings are sampled by the OS scheduler plus generated pauses/parked calls, not enumerated; "
                "'never fires' conclusions are bounded waits measured in progress of the service itself (1.5 s after the latest "
                "deadline, then 8 rounds of later-scheduled 0-delay probe timers that must fire on the same service; must "
                "reproduce 3/3). Lateness is never judged."),
    technique="property-based testing (rapidcheck plans executed by a thread/clock plan executor, trace oracles, ASan+UBSan)",
    rule=("svc: TimerService or TimerServicePool(1-4; services obtained through getService, getLeastLoadedService or both) with every TimerServiceConfig field generated (statistics, detailed logging, throwOnSystemError, thread priority/name, maxEpollEvents, epollTimeout, heap capacity, limits, custom logger); up to 28 rows -> ops on 1-4 threads: scheduleAfter/scheduleAt (delays -1 h, "
          "-5 ms, 0, 1-30.5 ms, +1 h; exactly equal deadlines), schedulePeriodic(2-10 ms), cancel now / within +-1 ms of the "
          "deadline / from handlers / self-cancel at the k-th periodic firing, handler behaviours (instant, sleep 1-30 ms, "
          "schedule-from-handler, cancel-from-handler, throw), co-due shape (slow handler + victim due at the same instant, "
          "victim cancelled while the slow handler runs), drain(1-1000 ms) and stop() from the controller thread at generated "
          "instants, scheduling calls parked between iora's lock-free accepting check and its mutex, schedule-after-stop probes, "
          "reset+start restart. wheel: tick {1,2,5} ms x ticksPerWheel {2,4,8} x numWheels {1,2,3} (optionally via "
          "TimingWheelAdapter / an inline dispatcher), delays 0..90 ms inside the wheel range on every level and level boundary, "
          "schedule/cancel/reschedule from 1-4 threads and from callbacks, callbacks lasting 0-10 ticks (catch-up), children "
          "scheduled at the end of a long callback, drain(0-1000 ms)/stop/reset/start. svc_stop_timeout: stop() behind a handler "
          "that outlives the 5 s drain budget. Non-trivial (measured on the trace, not on the plan) = a timer with delay >= "
          "ticksPerWheel*tick fired on a multi-level wheel (cascade), a callback of >= 2 ticks ran (catch-up), a cancel call began "
          "or returned within 1 ms of the target's deadline, or a timer's deadline fell inside another handler's run of >= 5 ms "
          "(co-due with a slow handler); svc_stop_timeout: the internal drain really timed out. Distinct by hash of the "
          "rendered plan."),
    assumptions=["CLOCK_MONOTONIC is monotone and shared by all threads (timestamps taken before a scheduling call and inside "
                 "the handler are comparable)",
                 "drain()/stop()/reset()/start() are called by one controller thread at a time and never from a timer handler "
                 "(they join the handler thread); ids of a previous incarnation are not reused after reset()",
                 "TimingWheel delays stay inside the wheel range tick*ticksPerWheel^numWheels (the in-tree caller clamps to it)",
                 "a timer that is still missing after the same service fired 8 probe timers scheduled later (or whose service "
                 "does not fire a 0-delay probe within 30 s) is lost; such failures must reproduce 3/3 before they count"],
    units=[
        pbt("c08_timers", "harness/c08_timers.cpp", dict(
            svc=P(300, 8000, 8, 16, q_secs=45, t_secs=800, extra=["--shrink-seconds", "20"]),
            wheel=P(300, 8000, 8, 16, q_secs=45, t_secs=800, extra=["--shrink-seconds", "20"]),
            svc_stop_timeout=P(2, 6, 1, 4, q_secs=45, t_secs=800, extra=["--no-shrink"]),
        ), parallel=40),
    ],
)
