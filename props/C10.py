from checks import pbt, fuzz, P

_NOSHRINK = ["--no-shrink"]

SPEC = dict(
    level="exploration",
    level_text=("Generated histories and schedules with explicit oracles: (a) sequential operation histories on BlockingQueue, "
                "RingBuffer<T,N> and DynamicRingBuffer<T> compared step by step with a std::deque reference model; (b) real "
                "producer/consumer threads on a BlockingQueue mixing blocking, timed and non-blocking calls, a size() sampler "
                "and close() at a generated instant, judged by the harness' own record of accepted puts and returned items; "
                "wake-up conditions (item, space, closed) are checked as generous bounded waits under seeded schedule "
                "perturbation (delays injected between 'predicate evaluated' and 'parked' by interposing pthread_cond_*); "
                "(c) one producer and one consumer thread on the ring buffers under ThreadSanitizer, which judges the C++ "
                "memory model that x86 hides. Exploration is the right level: the property quantifies over all interleavings; "
                "this finds counterexamples and never proves their absence."),
    level_note=("Trusts ThreadSanitizer's model of the C++ memory model for the executed interleavings, and that a delay injected "
                "at a pthread_cond_wait/pthread_mutex_lock entry is a legal schedule. Bounded-wait conclusions need 4 s of wall "
                "time AND >= 1000 wake-ups of an in-process canary thread (1 ms pacer + condition variable) since the wake-up "
                "condition was established - so a starved or paused machine extends the wait instead of producing a verdict - "
                "and must additionally reproduce 3/3."),
    technique=("model-based property testing (deque reference), multi-threaded plan executors with seeded schedule "
               "perturbation (link-time interposition of pthread_cond_*/pthread_mutex_lock), ThreadSanitizer"),
    rule=("bq_model/ring_model: history of up to 240/260 operations drawn uniformly from the whole API (single/batch push and "
          "pop, peek, observers, clear, resize 0..9, close, timed ops with 0 ms) on capacities 1..8; non-trivial = queue full at "
          "least once or closed with items queued (bq), index wrap-around or a resize (ring); distinct by history text. "
          "bq_conc: capacity 1..8, 1..4 producers x 1..4 consumers each with a script of up to 120 operations (6 put forms, 3 "
          "take forms, timeouts 0..3 ms, pauses none/yield/spin/sleep<=300 us), close() after a generated 0..3 ms delay or a "
          "balanced workload closed at the end; non-trivial = close() issued while >=1 caller was inside a blocking/timed call, "
          "or (balanced) the sampler saw the queue full. bq_wake: up to 40 rounds on fresh queues, 1..4 callers blocked on an "
          "empty or full queue (blocking or 60 s timed), the main thread feeds 0..4 of them and closes after generated "
          "delays, or (transient placement, >= 2 callers) releases j < parked of them and closes at once, before the notified "
          "callers have taken/put; non-trivial = close() with >=1 caller still inside its call. spsc: ring kind/capacity 1..64, 1..3000 "
          "items, producer and consumer scripts mixing single and batch (0..8) operations and pacing; non-trivial = the ring "
          "was full at least once and wrapped. Distinct by hash of the plan text."),
    assumptions=["callers stay inside the documented contracts: ring buffers are single-producer/single-consumer, "
                 "clear()/resize() only in quiescence, size() sampled only by the producer or the consumer thread",
                 "DynamicRingBuffer::resize() to a capacity smaller than the item count drops the oldest items - documented, "
                 "modelled (drop count and survivors are checked), not counted as a loss",
                 "a thread that was woken through a condition variable returns within the time in which a canary thread of the "
                 "same process is woken 1000 times the same way (and at least 4 s); such verdicts must reproduce 3/3"],
    units=[
        pbt("c10_queues", "harness/c10_queues.cpp", dict(
            bq_model=P(8000, 80000, 3, 3, t_secs=420),
            ring_model=P(8000, 80000, 4, 3, t_secs=420),
            bq_conc=P(180, 3000, 5, 5, extra=_NOSHRINK, t_secs=420),
            bq_wake=P(120, 2000, 4, 5, extra=_NOSHRINK, t_secs=420),
        )),
        pbt("c10_spsc_asan", "harness/c10_spsc.cpp", dict(
            spsc=P(250, 4000, 4, 8, extra=_NOSHRINK, t_secs=420),
        )),
        pbt("c10_tsan", "harness/c10_spsc.cpp", dict(
            spsc=P(120, 2000, 8, 8, extra=_NOSHRINK, t_secs=420),
            bq_conc=P(60, 1200, 4, 4, extra=_NOSHRINK, t_secs=420),
            bq_wake=P(40, 600, 4, 4, extra=_NOSHRINK, t_secs=420),
        ), san="tsan", tsan_scope=["ring_buffer.hpp", "blocking_queue.hpp"]),
    ],
)
