from checks import pbt, fuzz, P

SPEC = dict(
    level="exploration",
    level_text=("Generated-input search with explicit oracles: a construction oracle (text rendered from a known value tree must "
                "decode to that tree), a round-trip oracle through an independent strict RFC 8259 validator, metamorphic "
                "mutation/limit probes and a coverage-guided fuzzer with the round-trip oracle inside the target, all under "
                "ASan+UBSan on exact-size buffers. Exploration is the right level: the property quantifies over an infinite "
                "input language; this finds counterexamples and never proves absence."),
    level_note=("Trusts the reference renderer/validator (harness/common/ref_json.hpp, cross-checked against Python json), "
                "the C library's strtod/printf, and that sanitizers expose undefined behaviour on the executed inputs."),
    technique="property-based testing (rapidcheck, construction + round-trip oracles) and libFuzzer with in-target oracle",
    rule=("construct: random value tree (null/bool/int64 incl. extremes/finite doubles incl. subnormals and 17-digit values/"
          "strings over all of Unicode/arrays/objects with duplicate keys) rendered to RFC 8259 text with random whitespace, "
          "escape forms (short, \\uXXXX upper/lower, surrogate pairs, \\/) and number forms (positional, scientific, shifted "
          "exponent); roundtrip: programmatic values through dump()/dump(2)/sorted/serialize(opts); mutate: byte-level "
          "mutations of rendered texts with random limits; limits: nesting/items/members/string length (plain and fully escaped spellings) around each limit; stream: the rendered text fed to JsonStreamParser byte by byte / at one cut / at several generated cuts; "
          "fuzz: libFuzzer on Json::parse with limits from a prefix. Non-trivial = text with >=1 escape, a non-integer "
          "number or nesting >=2 (construct/roundtrip), any mutated text (mutate), any limit probe (limits), any input the "
          "parser accepted (fuzz); distinct by hash of the text."),
    assumptions=["the reference renderer/validator in harness/common/ref_json.hpp is itself RFC 8259-correct (cross-checked "
                 "against Python's json in the thorough tier)",
                 "strtod/printf of the C library are correctly rounded"],
    units=[
        pbt("c13_json", "harness/c13_json.cpp", dict(
            construct=P(6000, 60000, 4, 16),
            roundtrip=P(6000, 60000, 4, 16),
            mutate=P(8000, 80000, 4, 16),
            limits=P(4000, 30000, 2, 4),
            stream=P(4000, 40000, 4, 16),
        )),
        dict(kind="script", name="c13_pydiff", script="props/c13_pydiff.py", needs=["c13_json"],
             quick=dict(args=[3000]), thorough=dict(args=[200000])),
        fuzz("fuzz_json", "harness/fuzz_json.cpp", dict(runs=400000, procs=4, max_len=512, max_seconds=45),
             dict(runs=30000000, procs=16, max_len=2048, max_seconds=900), corpus="corpus/C13"),
    ],
)
