from checks import pbt, fuzz, P

SPEC = dict(
    level="exploration",
    level_text=("Generated request plans executed end to end: a real iora HttpServer on an ephemeral loopback port, 1-4 raw POSIX "
                "client sockets in parallel that write sequential and pipelined requests (with generated segmentation, socket "
                "options and read pacing) and record the returned octet stream, which an independent strict HTTP/1.1 response "
                "framer splits and an explicit oracle judges against the plan (count, order via per-request tokens, exact "
                "Content-Length and byte-identical bodies, HEAD/204/304 without body octets, 500 for throwing handlers, error "
                "status or EOF for unparseable requests, EOF after 'Connection: close'). Exploration is the right level: the "
                "property quantifies over all request sequences and all worker-pool schedules; a sampled search with real "
                "threads finds counterexamples and never proves their absence."),
    level_note=("Trusts the harness's own framer/renderer (harness/common/c16_rawhttp.hpp), the kernel's loopback TCP, and that "
                "ASan/UBSan expose memory errors on the executed paths. Schedules are only sampled (handler sleeps 0-30 ms, "
                "1-4 connections, machine load); bounded-wait verdicts ('no response and no close within B = 10 s') must "
                "reproduce 3/3 in the driver."),
    technique="property-based testing (rapidcheck plans) executed against a real HttpServer over loopback; independent "
              "raw-socket client and strict HTTP/1.1 response framer as oracle; ASan+UBSan",
    rule=("serve: per case a fresh HttpServer (routes: exact /e/a /e/b, named /n/:id[/x], wildcard /w/*, optional default "
          "handler) and 1-4 connections (MSS default/536/1400/88, SO_RCVBUF default/2 KiB/16 KiB/64 KiB, slow or delayed "
          "reader, 0-3 cuts of each burst with pauses). Each connection carries 0-8 requests, 75 % of them pipelined with the "
          "next: GET/HEAD/POST/PUT/PATCH/DELETE on the three route kinds (bodies 0-62 KiB, Content-Length or chunked, HTTP/1.1 "
          "or 1.0, header names in three spellings, 12 % 'Connection: close' in three spellings), OPTIONS (path and *), unknown "
          "paths, wrong methods, TRACE, token-less HEAD, and 14 documented-reject malformed requests. Handlers get a generated "
          "status (14 values incl. 204/304), body size (0 B - 300 KiB, rarely 1.5-3.5 MB), duration (0-30 ms) and behaviour "
          "(set_content, set_content(move), set_content twice, raw body + own Content-Length, status only, throw std / non-std "
          "before or after set_content, throw before echo). Every handler echoes the request's unique token (header X-Tok) and "
          "the received body length; bodies are token-specific patterns. A sentinel request closes every surviving connection so "
          "that surplus output is seen. Non-trivial = a burst of >= 2 requests in flight whose handler durations differ, or a "
          "response larger than the peer's socket buffers (>= 128 KiB at MSS 536/88, >= 1.4 MB otherwise) answered to a "
          "'Connection: close' request; distinct by hash of the rendered plan."),
    assumptions=[
        "loopback TCP delivers octets reliably and in order; a client that stops writing after a closing request is never reset",
        "the harness framer (strict RFC 9112 subset) is correct; it shares no code with iora",
        "B = 10 s is >= 100x the time a 0-30 ms handler needs to answer, also under a fully loaded 16-core machine",
    ],
    units=[
        pbt("c16_server", "harness/c16_server.cpp", dict(
            serve=P(80, 1500, 16, 16, q_secs=50, t_secs=700, extra=["--shrink-seconds", "25"]),
        )),
    ],
)
