from checks import pbt, fuzz, P

SPEC = dict(
    level="exploration",
    level_text=("Generated-input search with explicit oracles: a construction oracle (text rendered from a known document tree "
                "must be reported as exactly that tree by the pull tokenizer, the SAX driver and the DOM builder), limit probes "
                "around every configured limit, byte-level mutation and a coverage-guided fuzzer with the validity predicate "
                "(own tag-balance stack, slice containment, limits, no entity expansion, three-interface agreement, reference "
                "decoder) inside the target, all under ASan+UBSan on exact-size heap buffers. Exploration is the right level: the "
                "property quantifies over an infinite input language and five numeric limits; this finds counterexamples and "
                "never proves their absence."),
    level_note=("Trusts the reference renderer / strict reference decoder in harness/common/c14_ref_xml.hpp (the renderer is "
                "cross-checked against expat in both tiers) and that the sanitizers expose undefined behaviour on the inputs that "
                "were executed. Tokenisation of *malformed* input is judged only by the validity predicate, not differentially."),
    technique="property-based testing (rapidcheck; construction oracle, limit probes, mutation) and libFuzzer with in-target oracle; expat as differential partner for the generator",
    rule=("construct: random document tree (ASCII names with prefixes and several colons, 0-22 unique attributes quoted ' or \", "
          "text / attribute values over all of Unicode written raw, as predefined entities or as decimal / upper- and lower-case "
          "hex character references with leading zeros, CDATA, comments, PIs, optional XML declaration, DOCTYPE with external id "
          "and internal subset (ENTITY / ELEMENT / ATTLIST / NOTATION / comment / PI), random white space between markup and "
          "inside tags, empty-element tags) rendered to text; limits: purpose-built probes of each limit (n in L-3..L+3 and "
          "0..2L+3, L in 0..40 and the default values) and random documents with every limit set around the document's own "
          "measure; mutate: 0-6 byte-level mutations (delete / insert / replace / truncate / duplicate / splice markup fragments / "
          "insert references to declared, external and undefined entities / rename a tag) of rendered documents with planted "
          "entity declarations, under random limits; prefixes: every prefix of small generated documents; fuzz: libFuzzer over bytes with an options prefix. Non-trivial = generated "
          "(or, for mutate, underlying) document with element nesting >= 2 and >= 1 entity / character reference / CDATA / "
          "comment / PI; purpose-built limit probes count by (document, limit); fuzz inputs count when the parser accepted them "
          "with nesting >= 2 and >= 1 such construct. Distinct by hash of text + options."),
    assumptions=["the reference renderer and strict decoder in harness/common/c14_ref_xml.hpp are XML 1.0-correct on the generated "
                 "subset (cross-checked against expat on every emitted document)",
                 "white space between markup and leading white space of a text run are skipped by design (DESIGN.md 4.1; the "
                 "repository's tests rely on it); both readings (kept / skipped) are accepted",
                 "maxTextSpan is read as a bound on Text tokens and attribute values (what xml.hpp implements); documents whose "
                 "CDATA / comment / PI / DOCTYPE content alone exceeds it get no accept/reject verdict",
                 "a document with exactly maxTotalTokens tokens gets no verdict (the end-of-input token may or may not count)"],
    units=[
        pbt("c14_xml", "harness/c14_xml.cpp", dict(
            construct=P(2200, 30000, 5, 16),
            limits=P(2500, 25000, 4, 12),
            mutate=P(3000, 40000, 5, 16),
            prefixes=P(600, 6000, 2, 8),
        )),
        dict(kind="script", name="c14_expat", script="harness/c14_expat.py", needs=["c14_xml"],
             quick=dict(args=[1500]), thorough=dict(args=[60000])),
        fuzz("fuzz_xml", "harness/fuzz_xml.cpp", dict(runs=300000, procs=4, max_len=512, max_seconds=25, timeout=60),
             dict(runs=25000000, procs=16, max_len=2048, max_seconds=420, timeout=60), corpus="corpus/C14", dict="harness/fuzz_xml.dict"),
    ],
)
