from checks import pbt, fuzz, P

SPEC = dict(
    level="exploration",
    level_text=("Generated-input search over names x directory trees x configurations with an independent resolution oracle, "
                "plus a plan executor with real threads for the swap-during-lookup clause. Exploration is the right level: "
                "the property quantifies over every spelling of a name, every symlink layout and every interleaving of a "
                "rename(2) with a lookup; this finds counterexamples and never proves absence."),
    level_note=("Trusts the harness's own POSIX path walker (lstat/readlink, cross-checked against realpath(3)/stat(2) on every "
                "name short enough for the libc call; disagreement = inconclusive), the kernel's rename(2) atomicity, and unique "
                "content markers (every file carries <<REGION:n>>)."),
    technique="property-based testing (rapidcheck plans over real scratch directory trees, realpath-style oracle), threaded plan "
              "executor with a link swapper, libFuzzer over name bytes against a fixed tree",
    rule=("lookup: one evaluation = one generated tree + configuration + up to 240 names. Tree: fixed skeleton per region (static/, "
          "templates/, EXTERNAL_DIR: files, .gz regular and .gz symlink->outside, file/dir symlinks to outside (abs/rel), to a "
          "sibling-prefix directory/file (<root>_old, <root>-secret), to inside, to '..' and '.', dangling, loop) plus up to 80 "
          "generated entries (nested dirs, files of 0 B..70 KB, names with backslash/percent/non-ASCII/200-255 bytes, links to "
          "other region, link chains, two-cycles, dotted targets, traversal-looking regular files). Configuration: "
          "fromDirectory cached / per-request, fromEmbedded+EXTERNAL_DIR (registered external paths and embedded tables drawn "
          "from the names); root (and EXTERNAL_DIR) spelled canonically, through a symlink, with dots and duplicate slashes, through 'outside/..', through 'symlink/../..' (physical != lexical); "
          "static/templates themselves symlinks. Names: existing entries, entries + real children of what they resolve to, a "
          "segment grammar (real segments, '.', '..', '...', empty, >255 bytes, NUL, backslash, %2e%2e, overlong UTF-8; repeated/"
          "leading/trailing separators), 1-3 of 34 mutations of valid names, computed climbs from a real directory to a real "
          "secret (exact/one too many/one too few), absolute names, raw bytes. A name is non-trivial when the OS resolves "
          "<root>/name outside the canonical root, or through at least one symlink below the root, or it has '.'/'..' "
          "segments or duplicate separators; an evaluation is non-trivial when it contains such a name (label 'non-trivial "
          "name' counts them individually; 'static|template|external: ...' labels count every lookup). swap: plan = "
          "configuration x request spelling x victim (leaf, leaf.gz, both) x secret kind x threads x swaps x spin delays; "
          "non-trivial when the lookups observed both Found and refused while the swapper ran. mutate_tree: one Assets instance, one thread, a history of up to 90 operations over a mutable area m/ (docs/, docs/sub/, file.txt, .gz siblings, inside links lnk->docs and flink->docs/readme.txt, an inside twin alt/ and an OUTSIDE twin outside/docs/ with the same relative names): lookups of 21 fixed spellings or grammar names, quiescent mutations by the harness (directory := real | link->outside twin (abs/rel) | link->inside twin | absent; file := new version | link->secret (abs/rel/sibling-prefix) | link->inside file | absent), reload(), re-lookup of every name seen so far; every lookup judged against the tree at that moment (caching paths - statics in cached mode, templates always - may serve a stale copy of an inside file the name resolved to since the last reload); non-trivial when at least one lookup follows at least one mutation; distinct by hash of the history. fuzz: name bytes against a fixed "
          "tree, 4 lookup modes; non-trivial as for lookup; distinct by hash of the name."),
    assumptions=["the harness's path walker implements POSIX path resolution (cross-checked against realpath(3) on every name; "
                 "disagreements are counted as inconclusive and were never observed)",
                 "rename(2) replaces the destination atomically on the scratch file system",
                 "the scratch directory (${TMPDIR:-/tmp}/wk_C20) is on a local POSIX file system with symlink support; no other "
                 "process modifies it"],
    units=[
        pbt("c20_assets", "harness/c20_assets.cpp", dict(
            lookup=P(250, 4000, 8, 16, q_secs=30, t_secs=300),
            swap=P(40, 400, 6, 16, q_secs=30, t_secs=240, extra=["--shrink-seconds", "15"]),
            mutate_tree=P(300, 3000, 4, 16, q_secs=30, t_secs=240, extra=["--shrink-seconds", "20"]),
        )),
        fuzz("fuzz_assets", "harness/fuzz_assets.cpp", dict(runs=120000, procs=2, max_len=200, max_seconds=25),
             dict(runs=3000000, procs=8, max_len=512, max_seconds=240), corpus="corpus/C20", dict="corpus/C20/assets.dict"),
    ],
)
