from checks import pbt, fuzz, P

SPEC = dict(
    level="fault_enumeration",
    level_text=("Fault enumeration over crash points: for each generated operation history the exact sequence of file-system "
                "effects is recorded at the libc boundary and EVERY prefix of it - including every byte offset inside every "
                "write while the history writes <= 4 KiB - is materialised, reopened by a fresh store and compared with the "
                "set of admissible states; each recovered store is then continued (more operations, clean close or a second "
                "crash) and reopened again. Enumeration is exhaustive per history; the histories themselves are sampled "
                "(generated), so the level is fault enumeration, not proof."),
    level_note=("Trusts the tracer (cross-checked after every traced session: the simulated directory image must equal the "
                "real directory byte for byte), the reference (per-key belief sets), the harness-owned wall clock and the process-crash model "
                "stated by the property (data handed to the operating system survives; no reordering)."),
    technique="property-based histories x exhaustive crash-point enumeration with link-time FS interposition, ASan+UBSan",
    rule=("kv_crash: config (maxLogSizeBytes 48/128/512/1 MiB, inline compaction, cache 2/1000) x up to 12 operations (set, "
          "set-TTL, batch +-TTL, remove, prefix-remove, clear, expire-at past/future, persist, compact, clean close/reopen, wall-clock advance 1 ms/999 ms/1 s/1 h) "
          "over 12 keys (binary incl. NUL, 1 B, 40 B, 255 B, 65535 B = MAX_KEY_LENGTH) and values from empty to 9000 B (rarely 64 KiB), x every crash point (effect boundary and every "
          "byte of every write; writes beyond the 4 KiB per-history budget at boundaries +-8 B, iovec seams +-8 B and a "
          "stride), x a continuation of 1-3 operations ending in a clean close, a crash after the suffix or a crash at a "
          "generated effect/byte of the continuation; every reopen happens 0/1 ms/999 ms/1 s/1 h of wall-clock time after the crash and "
          "per-key absolute expiry is evaluated at reopen time (a key whose final expiry has passed is admissibly absent, a key whose "
          "expiry was cleared/extended by an operation that had returned must be present). "
          "json_crash: up to 10 set/remove/flush operations x every crash point x "
          "continuation. Non-trivial = history with a crash point strictly inside a write, or between the snapshot rename and "
          "the log reset, or a continuation that appends after a torn log tail; distinct by hash of the history. Labels count "
          "histories, crash points and reopen runs."),
    assumptions=["process-crash model: bytes handed to write()/writev() and completed rename/open(O_TRUNC)/truncate calls "
                 "survive in order; bytes still in a C++ stream buffer are lost",
                 "a write() may be cut at any byte offset",
                 "the wall clock is harness-owned: it moves only by advance operations and by the generated crash-to-reopen gap "
                 "(0/1 ms/999 ms/1 s/1 h); per-key absolute expiry is evaluated at reopen time, at expiry == now either answer is accepted"],
    units=[
        pbt("c11_crash", ["harness/c11_crash.cpp", "harness/c11_fstrace.cpp", "harness/c12_clock.cpp", "harness/c12_nofsync.cpp"], dict(
            kv_crash=P(5, 250, 16, 16, q_secs=50, t_secs=900),
            json_crash=P(16, 300, 4, 8, q_secs=40, t_secs=600),
        )),
    ],
)
