from checks import pbt, fuzz, P

_NOSHRINK = ["--no-shrink"]

SPEC = dict(
    level="exploration",
    level_text=("Generated schedules executed with real threads against a real ThreadPool: 1-8 submitter threads released from "
                "a barrier run generated submission scripts (enqueue / tryEnqueue / enqueueWithResult; void, value, throwing, "
                "nested-submitting and sleeping tasks; bursts and pauses longer than the idle timeout) while a controller "
                "destroys the pool or calls stop()/shutdown()/drain() at a generated moment. Verdicts come only from "
                "harness-owned per-task counters, futures and flags set on the side that makes machine load irrelevant. "
                "Seeded schedule perturbation (delays at pthread_mutex_lock / pthread_cond_* entry in submitters and, lazily "
                "armed, in the pool's own workers) widens the few-instruction windows; a second build runs the same plans "
                "under ThreadSanitizer. Exploration: the property quantifies over all interleavings; counterexamples are "
                "found, absence is never proven."),
    level_note=("Trusts that a delay injected at a lock/condition-variable entry is a legal schedule, ThreadSanitizer's model "
                "for the executed interleavings, and that external callers must have left the object before it is destroyed "
                "(C++ lifetime rule) - nested submissions from the pool's own workers are not restricted."),
    technique=("multi-threaded plan executor driven by rapidcheck plans, seeded schedule perturbation by link-time interposition "
               "of pthread_mutex_lock/pthread_cond_*, AddressSanitizer+UBSan and ThreadSanitizer builds"),
    rule=("pool: ThreadPool(initial 0-3 clipped to max, max 1-4, idle timeout 1-20 ms (1 ms favoured), queue 1-64, "
          "IMMEDIATE/GRACEFUL); 1-8 submitters x up to 24 submissions, each [task kind, API, pause (none/yield/spin/sleep/longer "
          "than idle timeout), child spec]; nested tasks submit 1-3 children from inside a worker; end = destructor | stop() | "
          "shutdown() | drain()+destructor | drain()+stop() once a generated number of submissions completed plus a generated "
          "delay. pool_slow: 6 pools per case (max 1-2, every worker inside a task that still needs 5.25-5.9 s / 6.4-7.0 s / "
          "7.2-8.8 s when the end call comes - just beyond the 5 s poll, just beyond the 5 s + 10 ms + 1 s polls of shutdown(), "
          "well beyond both - plus 1-3 short tasks queued behind), end calls rotated over shutdown() | drain(1-1200 ms)+stop() | "
          "stop() | destructor | drain(short)+destructor; every such case is non-trivial. pool_edge: 6 small pools per case - 4x the last submission of a "
          "pool(0, max 1-2, idle 1-5 ms) placed one idle timeout (+ offset) after the warm-up tasks finished, with retiring "
          "workers held 2-6 ms by a scripted lock delay, then destructor/shutdown(); 2x a fork-join parent (submits a child into "
          "the same pool and waits for it, canary-guarded bound) on pool(0-1, max 2-3) alone or next to 0-3 short tasks; plus one pool(initial 1-8, max 8) doing 1-3 restart cycles "
          "(reset(), start() with delayed locks, 1-4 submitters that submit the moment getState()==Running, stop()); every "
          "such case is non-trivial. pool (stop()-type ends continue with 0-2 such restart cycles; it also gets at most one fork-join parent per plan when max >= 2 and the queue "
          "cannot fill): non-trivial = shutdown began with a non-empty queue, or >=2 submitters were inside a submission at the same "
          "time, or a worker idle-exit was observed between two submissions; distinct by hash of the plan text."),
    assumptions=["initialSize <= maxSize (documented as minimum and hard limit; the generator clips)",
                 "ShutdownMode::DETACHED is excluded: it is documented as leaking running threads past destruction",
                 "external submitter threads have returned from their last call before the pool object is deleted; "
                 "stop()/shutdown()/drain() run concurrently with external submitters",
                 "a refusal counts as unjustified only when the harness can prove it: 'full' while fewer than maxQueueSize "
                 "tasks can have been pending, 'draining'/'shutting down' before any drain/stop/shutdown/destruction began"],
    units=[
        pbt("c09_pool", "harness/c09_pool.cpp", dict(
            pool=P(150, 3000, 16, 16, extra=_NOSHRINK, q_secs=45, t_secs=600),
            # each case = 6 pools side by side whose workers still need 5.25-8.8 s when the end call is made
            # (beyond shutdown()'s 5 s and 5 s + 1 s polls and the destructor's 5 s drain); ~9 s wall, no CPU
            pool_slow=P(1, 6, 4, 8, extra=_NOSHRINK, q_secs=60, t_secs=600),
            # 6 small pools per case: last submission placed at the idle-timeout exit of all workers (4x), fork-join parent (2x)
            pool_edge=P(40, 600, 4, 8, extra=_NOSHRINK, q_secs=60, t_secs=600),
        ), flags=["-DC09_INTERPOSE"], parallel=24),
        pbt("c09_tsan", "harness/c09_pool.cpp", dict(
            pool=P(120, 2000, 16, 16, extra=_NOSHRINK, q_secs=45, t_secs=600),
            pool_slow=P(1, 4, 2, 4, extra=_NOSHRINK, q_secs=60, t_secs=600),
            pool_edge=P(20, 300, 2, 4, extra=_NOSHRINK, q_secs=60, t_secs=600),
        ), san="tsan", parallel=24, tsan_scope=["thread_pool.hpp"]),
    ],
)
