// c20_core.hpp - shared by harness/c20_assets.cpp (rapidcheck plans) and
// harness/fuzz_assets.cpp (libFuzzer): scratch directories, the generated asset tree
// with its model, the independent path-resolution oracle (own component walker with
// lstat/readlink, cross-checked against realpath(3)) and the verdict on one lookup.
//
// Nothing in here uses std::filesystem for a decision: the oracle shares no code with
// iora::web::Assets (which is built on std::filesystem::weakly_canonical).
#pragma once

#include <iora/web/assets.hpp>

#include <cerrno>
#include <climits>
#include <csignal>
#include <cstdint>
#include <cstdio>
#include <cstdlib>
#include <cstring>
#include <deque>
#include <dirent.h>
#include <fcntl.h>
#include <ftw.h>
#include <map>
#include <optional>
#include <set>
#include <string>
#include <string_view>
#include <sys/stat.h>
#include <sys/types.h>
#include <unistd.h>
#include <vector>

namespace c20
{

using Row = std::vector<std::int64_t>;

// ------------------------------------------------------------------ small helpers
inline std::string show(std::string_view s, std::size_t maxBytes = 160)
{
  static const char *hexd = "0123456789abcdef";
  std::string o;
  for (std::size_t i = 0; i < s.size() && i < maxBytes; ++i)
  {
    unsigned char ch = (unsigned char)s[i];
    if (ch == '\\') o += "\\\\";
    else if (ch < 0x20 || ch >= 0x7f)
    {
      o += "\\x";
      o += hexd[ch >> 4];
      o += hexd[ch & 15];
    }
    else
      o += (char)ch;
  }
  if (s.size() > maxBytes) o += "..(" + std::to_string(s.size()) + "B)";
  return o;
}

inline std::uint64_t fnv(std::string_view s, std::uint64_t h = 1469598103934665603ULL)
{
  for (unsigned char ch : s)
  {
    h ^= ch;
    h *= 1099511628211ULL;
  }
  return h;
}

/// where verdicts and statistics go (pbt::Case or the libFuzzer helpers)
struct Sink
{
  virtual ~Sink() = default;
  virtual void label(const std::string &l) = 0;
  /// returns true when `sig` is a listed known finding
  virtual bool fail(const std::string &sig, const std::string &what) = 0;
  virtual void inconclusive(const std::string &why) = 0;
};

// ------------------------------------------------------------- scratch directories
inline int rmCb(const char *p, const struct stat *, int, struct FTW *)
{
  ::remove(p);
  return 0;
}
inline void removeTree(const std::string &p)
{
  ::nftw(p.c_str(), rmCb, 32, FTW_DEPTH | FTW_PHYS);
}

/// ${TMPDIR:-/tmp}/wk_C20/<sub>, created, canonical; stale "<pid>-*" children of dead
/// processes are swept once per process.
inline const std::string &scratchBase(const char *sub)
{
  static std::map<std::string, std::string> done;
  auto it = done.find(sub);
  if (it != done.end()) return it->second;
  const char *t = std::getenv("TMPDIR");
  std::string b = (t && *t) ? t : "/tmp";
  b += "/wk_C20";
  ::mkdir(b.c_str(), 0755);
  b += "/";
  b += sub;
  ::mkdir(b.c_str(), 0755);
  char buf[PATH_MAX];
  if (::realpath(b.c_str(), buf)) b = buf;
  if (DIR *d = ::opendir(b.c_str()))
  {
    while (struct dirent *e = ::readdir(d))
    {
      long pid = std::strtol(e->d_name, nullptr, 10);
      if (pid > 1 && ::kill((pid_t)pid, 0) != 0 && errno == ESRCH) removeTree(b + "/" + e->d_name);
    }
    ::closedir(d);
  }
  return done[sub] = b;
}

inline std::string newCaseDir(const char *sub = "cases")
{
  static unsigned long counter = 0;
  std::string d = scratchBase(sub) + "/" + std::to_string((long)::getpid()) + "-" + std::to_string(counter++);
  removeTree(d);
  ::mkdir(d.c_str(), 0755);
  return d;
}

// ---------------------------------------------------- independent path resolution
/// POSIX path resolution done by hand on the live file system: component by component,
/// lstat + readlink, physical "..", at most 40 symbolic links, trailing slash demands a
/// directory. Works for names of any length (realpath(3)/open(2) stop at PATH_MAX).
struct Walk
{
  bool ok = false;     ///< the whole name resolves to an existing object
  bool isReg = false;  ///< ... which is a regular file
  std::string canon;   ///< its physical absolute path (no symlinks, no dots)
  int symlinks = 0;    ///< symbolic links followed on the way
  int steps = 0;       ///< components that existed (progress measure, used as fuzzer feedback)
  int err = 0;
};

inline void splitComponents(std::deque<std::string> &q, std::string_view p, bool front)
{
  std::vector<std::string> parts;
  std::size_t i = 0;
  while (i < p.size())
  {
    while (i < p.size() && p[i] == '/') ++i;
    std::size_t j = i;
    while (j < p.size() && p[j] != '/') ++j;
    if (j > i) parts.emplace_back(p.substr(i, j - i));
    i = j;
  }
  if (!p.empty() && p.back() == '/' && !parts.empty()) parts.emplace_back("."); // must be a directory
  if (front)
    q.insert(q.begin(), parts.begin(), parts.end());
  else
    q.insert(q.end(), parts.begin(), parts.end());
}

inline Walk walkPath(const std::string &full)
{
  Walk w;
  if (full.empty() || full[0] != '/')
  {
    w.err = ENOENT;
    return w;
  }
  if (full.find('\0') != std::string::npos)
  {
    w.err = EINVAL; // no such name exists for the OS
    return w;
  }
  std::deque<std::string> q;
  splitComponents(q, full, false);
  std::string cur = "/";
  mode_t mode = S_IFDIR;
  while (!q.empty())
  {
    std::string comp = std::move(q.front());
    q.pop_front();
    if (!S_ISDIR(mode))
    {
      w.err = ENOTDIR;
      return w;
    }
    if (comp == ".") continue;
    if (comp == "..")
    {
      auto p = cur.find_last_of('/');
      cur = (p == 0 || p == std::string::npos) ? "/" : cur.substr(0, p);
      continue;
    }
    if (comp.size() > NAME_MAX)
    {
      w.err = ENAMETOOLONG;
      return w;
    }
    std::string next = (cur == "/") ? "/" + comp : cur + "/" + comp;
    struct stat sb;
    if (::lstat(next.c_str(), &sb) != 0)
    {
      w.err = errno;
      return w;
    }
    ++w.steps;
    if (S_ISLNK(sb.st_mode))
    {
      if (++w.symlinks > 40)
      {
        w.err = ELOOP;
        return w;
      }
      char buf[PATH_MAX + 1];
      ssize_t n = ::readlink(next.c_str(), buf, PATH_MAX);
      if (n <= 0)
      {
        w.err = n < 0 ? errno : ENOENT;
        return w;
      }
      std::string_view tgt(buf, (std::size_t)n);
      if (tgt[0] == '/') cur = "/";
      splitComponents(q, tgt, true);
      continue; // `mode` still describes `cur`, a directory
    }
    cur = std::move(next);
    mode = sb.st_mode;
  }
  w.ok = true;
  w.canon = cur;
  w.isReg = S_ISREG(mode);
  return w;
}

/// walkPath cross-checked against realpath(3)+stat(2) where the libc call is applicable.
/// Returns false (and leaves `w` unusable) when the two disagree: the case is then
/// inconclusive for this name, never a violation.
inline bool resolveChecked(const std::string &full, Walk &w)
{
  w = walkPath(full);
  if (full.size() >= PATH_MAX - 1 || full.find('\0') != std::string::npos) return true;
  char buf[PATH_MAX];
  char *rp = ::realpath(full.c_str(), buf);
  if ((rp != nullptr) != w.ok) return false;
  if (rp && w.canon != rp) return false;
  if (rp)
  {
    struct stat sb;
    if (::stat(full.c_str(), &sb) != 0) return false;
    if ((S_ISREG(sb.st_mode) != 0) != w.isReg) return false;
  }
  return true;
}

inline bool containedIn(const std::string &rootCanon, const std::string &canon)
{
  if (canon == rootCanon) return true;
  return canon.size() > rootCanon.size() && canon.compare(0, rootCanon.size(), rootCanon) == 0 &&
         canon[rootCanon.size()] == '/';
}

inline std::optional<std::string> slurp(const std::string &p)
{
  int fd = ::open(p.c_str(), O_RDONLY | O_CLOEXEC);
  if (fd < 0) return std::nullopt;
  std::string d;
  char buf[16384];
  for (;;)
  {
    ssize_t n = ::read(fd, buf, sizeof buf);
    if (n > 0) d.append(buf, (std::size_t)n);
    else if (n == 0) break;
    else if (errno != EINTR)
    {
      ::close(fd);
      return std::nullopt;
    }
  }
  ::close(fd);
  return d;
}

// ------------------------------------------------------------- lexical classes
struct Lex
{
  bool leadingSlash = false, nul = false, backslash = false, dotdot = false;
  bool dot = false, dupSep = false, trailingSep = false, percent = false, nonAscii = false, longComp = false;
  bool documentedRejected() const { return leadingSlash || nul || backslash || dotdot; }
};

inline Lex lexOf(std::string_view n)
{
  Lex l;
  if (n.empty()) return l;
  l.leadingSlash = n.front() == '/';
  l.trailingSep = n.back() == '/';
  std::size_t i = 0;
  while (i <= n.size())
  {
    std::size_t j = n.find('/', i);
    if (j == std::string_view::npos) j = n.size();
    std::string_view seg = n.substr(i, j - i);
    if (seg == "..") l.dotdot = true;
    if (seg == ".") l.dot = true;
    if (seg.empty() && j < n.size() && i > 0) l.dupSep = true;
    if (seg.size() > 255) l.longComp = true;
    i = j + 1;
  }
  for (unsigned char ch : n)
  {
    if (ch == 0) l.nul = true;
    if (ch == '\\') l.backslash = true;
    if (ch == '%') l.percent = true;
    if (ch >= 0x80) l.nonAscii = true;
  }
  return l;
}

// ------------------------------------------------------------------- the tree
enum Region
{
  R_STATIC = 0,
  R_TEMPL = 1,
  R_EXT = 2
};
inline const char *regionTag(int r)
{
  static const char *t[] = {"STATIC", "TEMPL", "EXT"};
  return t[r];
}
inline const char *apiName(int r)
{
  static const char *t[] = {"static", "template", "external"};
  return t[r];
}

struct Entry
{
  std::string rel; ///< path below the region root
  char kind;       ///< 'd' directory, 'f' regular file, 'l' symbolic link
  std::string target;
  std::string note;
};

struct Config
{
  int mode = 0;         ///< 0 fromDirectory cached, 1 fromDirectory per-request, 2 fromEmbedded + EXTERNAL_DIR
  int rootSpelling = 0; ///< 0 canonical, 1 through a symlink, 2 dots/duplicate/trailing slashes, 3 through "outside/.."
  bool staticLink = false, templLink = false; ///< root/static (root/templates) is itself a symlink
  int extSpelling = 0;  ///< same for EXTERNAL_DIR
  std::string text() const
  {
    static const char *m[] = {"fromDirectory(cached)", "fromDirectory(perRequest)", "fromEmbedded+EXTERNAL_DIR"};
    static const char *s[] = {"canonical", "via-symlink", "dots+dup-slashes", "via outside/..", "via symlink/../.."};
    return std::string("mode=") + m[mode] + " root=" + s[rootSpelling] + (staticLink ? " static=symlink" : "") +
           (templLink ? " templates=symlink" : "") + " extdir=" + s[extSpelling];
  }
};

inline std::string makeContent(const char *tag, int id, int sizeClass)
{
  std::string c = std::string("<<") + tag + ":" + std::to_string(id) + ">>";
  static const std::size_t sizes[] = {0, 0, 90, 90, 900, 5000, 70000, 0};
  std::size_t n = sizes[sizeClass & 7];
  std::string unit = "filler-" + std::to_string(id) + "-abcdefghijklmnopqrstuvwxyz\n";
  while (c.size() < n + 16) c += unit;
  c += std::string("<<END:") + std::to_string(id) + ">>";
  return c;
}

/// relative path from the (canonical) directory `from` to the (canonical) path `to`
inline std::string relPath(const std::string &from, const std::string &to)
{
  std::deque<std::string> a, b;
  splitComponents(a, from, false);
  splitComponents(b, to, false);
  while (!a.empty() && !b.empty() && a.front() == b.front())
  {
    a.pop_front();
    b.pop_front();
  }
  std::string r;
  for (std::size_t i = 0; i < a.size(); ++i) r += "../";
  for (std::size_t i = 0; i < b.size(); ++i) r += (i ? "/" : "") + b[i];
  if (r.empty()) r = ".";
  if (r.back() == '/') r.pop_back();
  return r;
}

inline const std::vector<std::string> &namePool()
{
  static const std::vector<std::string> p = [] {
    std::vector<std::string> v = {"a.txt", "b.css", "page.html", "app.js", "img", "sub", "deep", "x", "...", "..foo",
                                  "foo..", ".hidden", "sp ace", "a\\b.txt", "%2e%2e", "%2e%2e%2f", "caf\xc3\xa9", "\xff\xfe",
                                  "static", "templates", "a.txt.gz", "..%2f", "~", "..\\", "a.txt.", "A.TXT", "-", "secret.txt",
                                  "....", "c d.e.f", "\xc0\xae\xc0\xae", "n\nl"};
    v.push_back(std::string(200, 'L'));
    v.push_back(std::string(255, 'M'));
    return v;
  }();
  return p;
}

struct Tree
{
  std::string C; ///< canonical case directory
  Config cfg;
  std::string rootGiven, extGiven;
  std::string canon[3]; ///< canonical region roots (static, templates, EXTERNAL_DIR)
  std::string given[3]; ///< the same as spelled through the configuration
  std::vector<Entry> entries[3];
  std::vector<std::string> dirs[3];     ///< real directories below the region root ("" = the root)
  std::vector<std::string> files[3];    ///< real regular files
  std::vector<std::string> links[3];    ///< symbolic links
  std::map<std::string, std::string> content; ///< canonical path of every regular file -> bytes
  std::vector<std::string> secrets;     ///< canonical paths of regular files outside every region root
  std::vector<std::string> outsideDirs; ///< canonical directories outside
  std::string caseLeaf[3];              ///< OUTSIDE directory spelled like the region root but for letter case of the last component
  std::string caseParent[3];            ///< ... of the component above it (<base>/ROOT/static next to <base>/root/static)
  int nextId = 1;
  int skipped = 0;
  std::vector<std::pair<std::string, char>> created; ///< what this case added on top of the shared skeleton
  int variant = -1;
  std::size_t skeletonEntries[3] = {0, 0, 0};
  int baseLinks[3] = {0, 0, 0}; ///< symlinks inside the configured spelling of the region root itself
  std::string err;

  bool fail(const std::string &what)
  {
    if (err.empty()) err = what + ": " + std::strerror(errno);
    return false;
  }
  bool mkd(const std::string &p)
  {
    if (::mkdir(p.c_str(), 0755) != 0)
    {
      if (errno != EEXIST) return fail("mkdir " + p);
      return true;
    }
    created.emplace_back(p, 'd');
    return true;
  }
  bool mkf(const std::string &p, const std::string &data)
  {
    int fd = ::open(p.c_str(), O_CREAT | O_EXCL | O_WRONLY | O_CLOEXEC, 0644);
    if (fd < 0) return fail("create " + p);
    std::size_t off = 0;
    while (off < data.size())
    {
      ssize_t n = ::write(fd, data.data() + off, data.size() - off);
      if (n < 0)
      {
        if (errno == EINTR) continue;
        ::close(fd);
        return fail("write " + p);
      }
      off += (std::size_t)n;
    }
    ::close(fd);
    content[p] = data;
    created.emplace_back(p, 'f');
    return true;
  }
  bool mkl(const std::string &target, const std::string &p)
  {
    if (::symlink(target.c_str(), p.c_str()) != 0) return fail("symlink " + p);
    created.emplace_back(p, 'l');
    return true;
  }
  bool secret(const std::string &p, int sizeClass = 2)
  {
    if (!mkf(p, makeContent("OUTSIDE", nextId++, sizeClass))) return false;
    secrets.push_back(p);
    return true;
  }
  bool exists(const std::string &p)
  {
    struct stat sb;
    return ::lstat(p.c_str(), &sb) == 0;
  }
  std::string absOf(int r, const std::string &rel) const { return rel.empty() ? canon[r] : canon[r] + "/" + rel; }
  static std::string join(const std::string &dir, const std::string &name) { return dir.empty() ? name : dir + "/" + name; }
  static int depthOf(const std::string &rel)
  {
    if (rel.empty()) return 0;
    int d = 1;
    for (char ch : rel) d += ch == '/';
    return d;
  }

  bool addDir(int r, const std::string &rel)
  {
    if (!mkd(absOf(r, rel))) return false;
    dirs[r].push_back(rel);
    entries[r].push_back({rel, 'd', "", ""});
    return true;
  }
  bool addFile(int r, const std::string &rel, int sizeClass = 2)
  {
    if (!mkf(absOf(r, rel), makeContent(regionTag(r), nextId++, sizeClass))) return false;
    files[r].push_back(rel);
    entries[r].push_back({rel, 'f', "", ""});
    return true;
  }
  bool addLink(int r, const std::string &rel, const std::string &target, const char *note)
  {
    if (!mkl(target, absOf(r, rel))) return false;
    links[r].push_back(rel);
    entries[r].push_back({rel, 'l', target, note});
    return true;
  }

  /// The skeleton is the same for every case with the same (staticLink, templLink):
  /// lookups never modify the tree, so each process builds the (at most four) skeleton
  /// variants once and every case only adds and afterwards removes its own entries.
  static std::map<int, Tree> &prototypes()
  {
    static std::map<int, Tree> *p = [] {
      std::atexit([] {
        for (auto &kv : Tree::prototypes()) removeTree(kv.second.C);
      });
      return new std::map<int, Tree>;
    }();
    return *p;
  }
  void applySpelling(const Config &c)
  {
    cfg = c;
    // spelling 4: "jump" is a symlink to <root>/cfg/deep (resp. <extdir>/css/vendor), so the ".."s are
    // physical and lead to the root although the spelling lexically stays below outside/
    static const char *rootSp[] = {"/root", "/rootlink", "/.//root/./", "/outside/../root", "/outside/jump/../.."};
    static const char *extSp[] = {"/ed/extreal", "/extlink", "//ed/extreal/.//", "/outside/nested/../../extlink/", "/outside/xjump/../.."};
    rootGiven = C + rootSp[c.rootSpelling % 5];
    extGiven = C + extSp[c.extSpelling % 5];
    given[R_STATIC] = rootGiven + "/static";
    given[R_TEMPL] = rootGiven + "/templates";
    given[R_EXT] = extGiven;
    for (int r = 0; r < 3; ++r) baseLinks[r] = walkPath(given[r]).symlinks;
  }
  bool buildSkeleton(const Config &c)
  {
    const int v = (c.staticLink ? 1 : 0) | (c.templLink ? 2 : 0);
    auto &protos = prototypes();
    auto it = protos.find(v);
    if (it == protos.end())
    {
      Tree p;
      if (!p.buildSkeletonFresh(c))
      {
        err = p.err;
        if (!p.C.empty()) removeTree(p.C);
        return false;
      }
      p.created.clear();
      p.variant = v;
      p.nextId = 1000;
      it = protos.emplace(v, std::move(p)).first;
    }
    *this = it->second;
    applySpelling(c);
    return true;
  }

  /// fixed part: configuration, outside secrets, the classic shapes in every region
  bool buildSkeletonFresh(const Config &c)
  {
    cfg = c;
    C = newCaseDir();
    if (!mkd(C + "/root") || !mkd(C + "/outside") || !mkd(C + "/outside/nested") || !mkd(C + "/srv")) return false;
    if (!mkl("root", C + "/rootlink") || !mkd(C + "/ed") || !mkl("ed/extreal", C + "/extlink")) return false;
    if (!mkd(C + "/root/cfg") || !mkd(C + "/root/cfg/deep") || !mkl(C + "/root/cfg/deep", C + "/outside/jump") ||
        !mkd(C + "/ed/extreal") || !mkd(C + "/ed/extreal/css") || !mkd(C + "/ed/extreal/css/vendor") ||
        !mkl("../ed/extreal/css/vendor", C + "/outside/xjump"))
      return false;
    canon[R_STATIC] = c.staticLink ? C + "/srv/static_real" : C + "/root/static";
    canon[R_TEMPL] = c.templLink ? C + "/srv/tpl" : C + "/root/templates";
    canon[R_EXT] = C + "/ed/extreal";
    for (int r = 0; r < 3; ++r)
      if (!mkd(canon[r])) return false;
    if (c.staticLink && !mkl("../srv/static_real", C + "/root/static")) return false;
    if (c.templLink && !mkl(C + "/srv/tpl", C + "/root/templates")) return false;
    applySpelling(c);
    // secrets
    if (!secret(C + "/outside/secret.txt") || !secret(C + "/outside/key.pem", 0) || !secret(C + "/outside/a.txt") ||
        !secret(C + "/outside/index.html", 4) || !secret(C + "/outside/nested/deep.txt") ||
        !secret(C + "/outside/site.css.gz") || !secret(C + "/root/secret.txt"))
      return false;
    // outside mirror of the mutable area of the mutate_tree property (same relative names)
    if (!mkd(C + "/outside/docs") || !mkd(C + "/outside/docs/sub") || !secret(C + "/outside/docs/readme.txt") ||
        !secret(C + "/outside/docs/new.txt") || !secret(C + "/outside/docs/readme.txt.gz") || !secret(C + "/outside/docs/sub/page.html") ||
        !secret(C + "/outside/docs/page.html"))
      return false;
    outsideDirs = {C + "/outside", C + "/outside/nested", C, C + "/root", "/", C + "/outside/docs"};
    for (int r = 0; r < 3; ++r)
    {
      // sibling-prefix neighbours of the canonical region root
      if (!mkd(canon[r] + "_old") || !secret(canon[r] + "_old/secret.txt") || !secret(canon[r] + "_old/index.html") ||
          !secret(canon[r] + "-secret"))
        return false;
      outsideDirs.push_back(canon[r] + "_old");
      // neighbours that equal the region root up to letter case (a case-sensitive file system keeps them apart)
      auto upper = [](std::string x)
      {
        for (auto &ch : x)
          if (ch >= 'a' && ch <= 'z') ch = (char)(ch - 32);
        return x;
      };
      const std::size_t p1 = canon[r].find_last_of('/');
      const std::string dir = canon[r].substr(0, p1), leaf = canon[r].substr(p1 + 1);
      const std::size_t p2 = dir.find_last_of('/');
      std::string leafVar = upper(leaf);
      if (r == R_TEMPL) leafVar = leaf.substr(0, 1) == "t" ? "T" + leaf.substr(1) : leafVar; // Templates / Tpl: mixed case
      caseLeaf[r] = dir + "/" + leafVar;
      caseParent[r] = dir.substr(0, p2) + "/" + upper(dir.substr(p2 + 1)) + "/" + leaf;
      if (!mkd(dir.substr(0, p2) + "/" + upper(dir.substr(p2 + 1)))) return false;
      for (const std::string &v : {caseLeaf[r], caseParent[r]})
      {
        if (!mkd(v) || !mkd(v + "/css") || !secret(v + "/secret.txt") || !secret(v + "/index.html", 4) || !secret(v + "/css/site.css"))
          return false;
        outsideDirs.push_back(v);
      }
    }
    for (int r = 0; r < 3; ++r)
    {
      dirs[r].push_back("");
      const std::string P = canon[r];
      if (!addFile(r, "index.html", 4) || !addDir(r, "css") || !addFile(r, "css/site.css") ||
          !addDir(r, "js") || !addFile(r, "js/app.js", 5))
        return false;
      // .gz siblings: regular / symlink -> outside
      if (!mkf(P + "/css/site.css.gz", makeContent(regionTag(r), nextId++, 2))) return false;
      files[r].push_back("css/site.css.gz");
      entries[r].push_back({"css/site.css.gz", 'f', "", "gz"});
      if (!addLink(r, "js/app.js.gz", C + "/outside/site.css.gz", "gz->outside")) return false;
      if (!addLink(r, "leak.txt", C + "/outside/secret.txt", "file->outside(abs)") ||
          !addLink(r, "leakrel.txt", relPath(P, C + "/outside/key.pem"), "file->outside(rel)") ||
          !addLink(r, "leakdir", C + "/outside", "dir->outside(abs)") ||
          !addLink(r, "sib", P + "_old", "dir->sibling-prefix") ||
          !addLink(r, "sibfile", relPath(P, P + "-secret"), "file->sibling-prefix") ||
          !addLink(r, "in.txt", "css/site.css", "file->inside") || !addLink(r, "indir", "css", "dir->inside") ||
          !addLink(r, "dangling", "no/such/file", "dangling") || !addLink(r, "loop", "loop", "loop") ||
          !addLink(r, "up", "..", "dir->parent") || !addLink(r, "self", ".", "dir->self") ||
          !addLink(r, "casefile", caseLeaf[r] + "/secret.txt", "file->case-variant of the root (abs)") ||
          !addLink(r, "casefilerel", relPath(P, caseParent[r] + "/secret.txt"), "file->case-variant of the root's parent (rel)") ||
          !addLink(r, "casedir", relPath(P, caseLeaf[r]), "dir->case-variant of the root (rel)") ||
          !addLink(r, "casedirup", caseParent[r], "dir->case-variant of the root's parent (abs)"))
        return false;
      skeletonEntries[r] = entries[r].size();
    }
    applySpelling(c);
    return true;
  }

  /// generated part: row = [region, kind, parent, name, target, variant]. An entry the
  /// file system refuses (odd bytes on a foreign TMPDIR, name too long) is skipped.
  bool addGenerated(const Row &row)
  {
    if (!addGeneratedImpl(row))
    {
      ++skipped;
      err.clear();
    }
    return true;
  }
  bool addGeneratedImpl(const Row &row)
  {
    const int r = (int)(row[0] % 3);
    const int kind = (int)(row[1] % 14);
    const std::string parent = dirs[r][(std::size_t)row[2] % dirs[r].size()];
    std::string name = namePool()[(std::size_t)row[3] % namePool().size()];
    const std::int64_t tsel = row[4], var = row[5];
    const std::string P = canon[r];
    if (depthOf(parent) >= 5 || (name.size() >= 200 && parent.find(name.substr(0, 100)) != std::string::npos))
    {
      ++skipped;
      return true;
    }
    std::string rel = join(parent, name);
    const std::string parentAbs = absOf(r, parent);
    auto other = [&](int k) { return (r + 1 + (k & 1)) % 3; };
    auto tooLong = [&](const std::string &relPathOfNew)
    {
      auto p = relPathOfNew.find_last_of('/');
      return (p == std::string::npos ? relPathOfNew.size() : relPathOfNew.size() - p - 1) > NAME_MAX;
    };
    switch (kind)
    {
    case 0:
    case 1:
      if (exists(absOf(r, rel))) { ++skipped; return true; }
      return addDir(r, rel);
    case 2:
    case 3:
    case 4:
      if (exists(absOf(r, rel))) { ++skipped; return true; }
      return addFile(r, rel, (int)(var & 7));
    case 5:
    {
      // .gz sibling of an existing regular file
      const std::string f = files[r][(std::size_t)tsel % files[r].size()];
      const std::string gz = f + ".gz";
      if (tooLong(gz) || exists(absOf(r, gz))) { ++skipped; return true; }
      switch (var % 4)
      {
      case 0:
      case 1:
        if (!mkf(absOf(r, gz), makeContent(regionTag(r), nextId++, (int)((var >> 3) & 7)))) return false;
        files[r].push_back(gz);
        entries[r].push_back({gz, 'f', "", "gz"});
        return true;
      case 2:
        return addLink(r, gz, secrets[(std::size_t)(var >> 3) % secrets.size()], "gz->outside");
      default:
        return addLink(r, gz, absOf(r, files[r][(std::size_t)(var >> 3) % files[r].size()]), "gz->inside");
      }
    }
    case 6:
    {
      if (exists(absOf(r, rel))) { ++skipped; return true; }
      const std::string tgt = absOf(r, files[r][(std::size_t)tsel % files[r].size()]);
      return addLink(r, rel, (var & 1) ? tgt : relPath(parentAbs, tgt), "file->inside");
    }
    case 7:
    {
      if (exists(absOf(r, rel))) { ++skipped; return true; }
      std::string tgt;
      const char *note = "file->outside";
      if (var % 5 == 4 && !files[other((int)(var >> 4))].empty())
      {
        int o = other((int)(var >> 4));
        tgt = absOf(o, files[o][(std::size_t)tsel % files[o].size()]);
        note = "file->other-region";
      }
      else
        tgt = secrets[(std::size_t)tsel % secrets.size()];
      return addLink(r, rel, (var & 1) ? tgt : relPath(parentAbs, tgt), note);
    }
    case 8:
    {
      if (exists(absOf(r, rel))) { ++skipped; return true; }
      const std::string tgt = absOf(r, dirs[r][(std::size_t)tsel % dirs[r].size()]);
      return addLink(r, rel, (var & 1) ? tgt : relPath(parentAbs, tgt), "dir->inside");
    }
    case 9:
    {
      if (exists(absOf(r, rel))) { ++skipped; return true; }
      std::string tgt;
      const char *note = "dir->outside";
      if (var % 5 == 4)
      {
        tgt = canon[other((int)(var >> 4))];
        note = "dir->other-region";
      }
      else
        tgt = outsideDirs[(std::size_t)tsel % outsideDirs.size()];
      return addLink(r, rel, (var & 1) ? tgt : relPath(parentAbs, tgt), note);
    }
    case 10:
    {
      if (exists(absOf(r, rel))) { ++skipped; return true; }
      switch (var % 4)
      {
      case 0: return addLink(r, rel, "missing-" + std::to_string(var % 97), "dangling");
      case 1: return addLink(r, rel, name, "loop");
      case 2: return addLink(r, rel, C + "/outside/not-there", "dangling->outside");
      default:
      {
        // two-cycle with a partner
        std::string partner = rel + "~";
        if (tooLong(partner) || exists(absOf(r, partner))) { ++skipped; return true; }
        return addLink(r, rel, name + "~", "loop2") && addLink(r, partner, name, "loop2");
      }
      }
    }
    case 11:
    {
      // chain: link to an existing link (whatever that one does)
      if (exists(absOf(r, rel))) { ++skipped; return true; }
      const std::string tgt = absOf(r, links[r][(std::size_t)tsel % links[r].size()]);
      return addLink(r, rel, (var & 1) ? tgt : relPath(parentAbs, tgt), "link->link");
    }
    case 12:
    {
      // dotted/up targets: "..", "../..", "." , "../<region dir name>"
      if (exists(absOf(r, rel))) { ++skipped; return true; }
      static const char *t[] = {"..", "../..", ".", "../../..", "./.", "..//"};
      return addLink(r, rel, t[var % 6], "dir->dots");
    }
    default:
    {
      // regular file whose name looks like a traversal spelling, in the region root
      static const char *n[] = {"..\\..\\outside\\secret.txt", "%2e%2e%2foutside%2fsecret.txt", "..%5c..%5csecret", "css\\site.css",
                                "leak.txt\\", "\\etc\\passwd"};
      std::string nm = n[var % 6];
      if (exists(absOf(r, nm))) { ++skipped; return true; }
      return addFile(r, nm, 2);
    }
    }
  }

  /// remove what this case added; if anything is left behind the shared skeleton is
  /// thrown away and rebuilt by the next case
  void destroy()
  {
    if (C.empty()) return;
    bool dirty = false;
    for (auto it = created.rbegin(); it != created.rend(); ++it)
    {
      int rc = it->second == 'd' ? ::rmdir(it->first.c_str()) : ::unlink(it->first.c_str());
      if (rc != 0 && errno != ENOENT) dirty = true;
    }
    created.clear();
    if (dirty || variant < 0)
    {
      removeTree(C);
      if (variant >= 0) prototypes().erase(variant);
    }
    C.clear();
  }

  std::string shortPath(std::string p) const
  {
    if (!C.empty() && p.compare(0, C.size(), C) == 0) p = "$C" + p.substr(C.size());
    return p;
  }

  std::string describe(std::size_t maxEntries = 40) const
  {
    std::string o = cfg.text() + " tree{";
    std::size_t n = 0;
    for (int r = 0; r < 3; ++r)
    {
      o += std::string(" ") + apiName(r) + ":";
      // generated entries only (the skeleton is the same in every case)
      for (std::size_t i = skeletonEntries[r]; i < entries[r].size() && n < maxEntries; ++i, ++n)
      {
        const Entry &e = entries[r][i];
        o += " ";
        o += e.kind;
        o += " " + show(e.rel, 40);
        if (e.kind == 'l') o += "->" + show(shortPath(e.target), 50);
      }
    }
    o += " }";
    return o;
  }
};

inline std::vector<std::string> listDir(const std::string &abs)
{
  std::vector<std::string> v;
  if (DIR *d = ::opendir(abs.c_str()))
  {
    while (struct dirent *e = ::readdir(d))
    {
      std::string n = e->d_name;
      if (n != "." && n != "..") v.push_back(n);
    }
    ::closedir(d);
  }
  std::sort(v.begin(), v.end());
  return v;
}

// ------------------------------------------------------------ name generation
/// row = [strategy, base, m1..m8]; every cell in [0, 2^30)
inline std::string genName(const Tree &t, int r, const Row &row)
{
  auto cell = [&](std::size_t i) { return (std::uint64_t)row[i % row.size()]; };
  const auto &es = t.entries[r];
  auto entryPath = [&](std::uint64_t sel) { return es[sel % es.size()].rel; };
  auto withChild = [&](std::uint64_t sel, std::uint64_t csel, std::uint64_t gsel)
  {
    // an entry, followed by a real child of whatever the entry resolves to
    std::string p = entryPath(sel);
    Walk w = walkPath(t.canon[r] + "/" + p);
    if (w.ok && !w.isReg)
    {
      auto kids = listDir(w.canon);
      if (!kids.empty())
      {
        const std::string &k = kids[csel % kids.size()];
        p += "/" + k;
        if (gsel % 3 == 0)
        {
          Walk w2 = walkPath(w.canon + "/" + k);
          if (w2.ok && !w2.isReg)
          {
            auto kids2 = listDir(w2.canon);
            if (!kids2.empty()) p += "/" + kids2[(gsel / 3) % kids2.size()];
          }
        }
      }
    }
    return p;
  };
  auto specialSeg = [&](std::uint64_t sel) -> std::string
  {
    static const std::vector<std::string> sp = [] {
      std::vector<std::string> v = {".", "..", "...", "", "....", ". ", "..;", "%2e%2e", "%2E%2E", "..%2f", "%2e", "..\\", "\\",
                                    "..\\..", "\xc3\xa9", "\xc0\xaf", "\xff", "static", "templates", "outside", "secret.txt",
                                    "root", "~", "*", "extreal", "srv", "ed", "STATIC", "ROOT", ".. ", " ..", "..\t", "%00", "%5c", "%2f"};
      v.push_back(std::string(300, 'Q'));
      v.push_back(std::string(255, 'q'));
      v.push_back(std::string("a\0b", 3));
      v.push_back(std::string("\0", 1));
      return v;
    }();
    return sp[sel % sp.size()];
  };
  auto realSeg = [&](std::uint64_t sel) -> std::string
  {
    std::string p = entryPath(sel);
    std::deque<std::string> q;
    splitComponents(q, p, false);
    if (q.empty()) return "index.html";
    return q[(sel / 7919) % q.size()];
  };
  auto escapeTo = [&](std::uint64_t dsel, std::uint64_t ssel, std::uint64_t slack) -> std::string
  {
    // climb out of a real directory to a secret: <dir>/../..(depth+k)/<path to secret>
    const std::string &d = t.dirs[r][dsel % t.dirs[r].size()];
    const std::string &s = t.secrets[ssel % t.secrets.size()];
    std::string up = relPath(t.absOf(r, d), s);
    std::string o = d.empty() ? up : d + "/" + up;
    if (slack % 5 == 1) o = "../" + o;        // one too many
    if (slack % 5 == 2 && o.size() > 3) o = o.substr(3); // one too few
    return o;
  };
  auto mutate = [&](std::string n, std::uint64_t m, std::uint64_t a) -> std::string
  {
    std::vector<std::size_t> slashes;
    for (std::size_t i = 0; i < n.size(); ++i)
      if (n[i] == '/') slashes.push_back(i);
    std::size_t cut = slashes.empty() ? 0 : slashes[a % slashes.size()] + 1; // start of a component
    auto replaceAll = [](std::string s, const std::string &from, const std::string &to)
    {
      std::size_t p = 0;
      while ((p = s.find(from, p)) != std::string::npos)
      {
        s.replace(p, from.size(), to);
        p += to.size();
      }
      return s;
    };
    switch (m % 34)
    {
    case 0: return n.substr(0, cut) + "./" + n.substr(cut);
    case 1: return n.substr(0, cut) + "/" + n.substr(cut);                     // duplicate separator (or leading)
    case 2: return n + "/";
    case 3: return n + "/.";
    case 4: return n + "/..";
    case 5: return n + "//";
    case 6: return n.substr(0, cut) + realSeg(a / 3) + "/../" + n.substr(cut); // detour through a real segment
    case 7: return n.substr(0, cut) + "zz/../" + n.substr(cut);                // detour through a missing one
    case 8:
    {
      // up and back in: ../<name of the region root>/n
      auto p = t.canon[r].find_last_of('/');
      return "../" + t.canon[r].substr(p + 1) + "/" + n;
    }
    case 9: return "./" + n;
    case 10: return n + std::string("\0", 1);
    case 11: return n + std::string("\0.png", 5);
    case 12: return n.substr(0, cut) + std::string("\0", 1) + n.substr(cut);
    case 13: return replaceAll(n, "/", "\\");
    case 14:
    {
      if (slashes.empty()) return n + "\\";
      std::string o = n;
      o[slashes[a % slashes.size()]] = '\\';
      return o;
    }
    case 15: return replaceAll(n, ".", "%2e");
    case 16: return replaceAll(n, "/", "%2f");
    case 17: return replaceAll(n, "..", "%2e%2e");
    case 18: return n + ".gz";
    case 19: return (n.size() > 3 && n.compare(n.size() - 3, 3, ".gz") == 0) ? n.substr(0, n.size() - 3) : n + ".GZ";
    case 20:
    {
      std::string o = n;
      for (auto &ch : o)
        if (ch >= 'a' && ch <= 'z') ch = (char)(ch - 32);
      return o;
    }
    case 21: return n + " ";
    case 22: return n + ".";
    case 23: return n + "\xc2\xa0";
    case 24: return "/" + n;
    case 25: return t.canon[r] + "/" + n;   // absolute, canonical root
    case 26: return t.given[r] + "/" + n;   // absolute, configured spelling
    case 27: return n.empty() ? n : n.substr(0, n.size() - 1);
    case 28:
    {
      // longer than PATH_MAX but harmless
      std::string o;
      for (int i = 0; i < 2200; ++i) o += "./";
      return o + n;
    }
    case 29: return replaceAll(n, "../", "....//");
    case 30: return replaceAll(n, "../", "..\\");
    case 31: return replaceAll(n, "../", ".../");
    case 32: return n.substr(0, cut) + "self/" + n.substr(cut);
    default: return replaceAll(n, "/", "//");
    }
  };

  std::string n;
  switch (cell(0) % 16)
  {
  case 0:
  case 1:
  case 2: n = entryPath(cell(1)); break;
  case 3:
  case 4:
  case 5: n = withChild(cell(1), cell(2), cell(3)); break;
  case 6:
  case 7:
  {
    // grammar: separators and segments chosen independently
    std::size_t k = 1 + cell(2) % 6;
    static const char *lead[] = {"", "", "", "/", "./", "../", "//", ".//"};
    static const char *trail[] = {"", "", "", "/", "/.", "//", "/..", "/./"};
    n = lead[cell(3) % 8];
    for (std::size_t i = 0; i < k; ++i)
    {
      std::uint64_t c = cell(4 + i);
      if (i) n += (c >> 20) % 6 == 0 ? "//" : ((c >> 20) % 6 == 1 ? "/./" : "/");
      n += (c % 3 == 0) ? specialSeg(c / 3) : realSeg(c / 3);
    }
    n += trail[(cell(3) >> 8) % 8];
    break;
  }
  case 8:
  case 9:
  case 10:
  {
    // mutations of a valid name
    n = (cell(1) & 1) ? entryPath(cell(1) >> 1) : withChild(cell(1) >> 1, cell(2), cell(3));
    std::size_t k = 1 + cell(4) % 3;
    for (std::size_t i = 0; i < k; ++i) n = mutate(n, cell(5 + i), cell(8 + i) >> 3);
    break;
  }
  case 11:
  case 12:
  {
    n = escapeTo(cell(1), cell(2), cell(3));
    if (cell(4) % 3 == 0) n = mutate(n, cell(5), cell(6));
    break;
  }
  case 13:
  {
    // absolute names
    switch (cell(1) % 6)
    {
    case 0: n = t.secrets[cell(2) % t.secrets.size()]; break;
    case 1: n = t.canon[r] + "/" + entryPath(cell(2)); break;
    case 2: n = "/etc/passwd"; break;
    case 3: n = "/"; break;
    case 4: n = "//" + entryPath(cell(2)); break;
    default: n = t.given[r] + "/" + entryPath(cell(2)); break;
    }
    break;
  }
  case 14:
  {
    // raw bytes, alone or spliced into a valid name
    std::string raw;
    std::size_t k = cell(2) % 9;
    for (std::size_t i = 0; i < k; ++i) raw.push_back((char)((cell(3 + i % 6) >> (8 * (i / 6))) & 0xff));
    if (cell(1) % 2) n = raw;
    else
    {
      n = entryPath(cell(1) / 2);
      n.insert(cell(9) % (n.size() + 1), raw);
    }
    break;
  }
  default:
    n = entryPath(cell(1));
    n = mutate(n, 32, cell(2)); // through the self-referential directory link
    if (cell(3) % 2) n = mutate(n, 32, cell(4));
    break;
  }
  return n;
}

// ------------------------------------------------------------------ the verdict
struct NameFacts
{
  Lex lex;
  Walk w;
  bool walkOk = true;    ///< oracle agreed with realpath(3)
  bool insideFile = false; ///< the OS resolves root/name to a regular file inside the canonical root
  bool resolvesOutside = false;
  int linksBelow = 0;      ///< symlinks followed below the configured root
  bool nontrivial = false;
};

inline NameFacts factsFor(const Tree &t, int r, std::string_view name)
{
  NameFacts f;
  f.lex = lexOf(name);
  std::string full = t.given[r] + "/" + std::string(name);
  f.walkOk = resolveChecked(full, f.w);
  if (f.walkOk && f.w.ok)
  {
    bool in = containedIn(t.canon[r], f.w.canon);
    f.insideFile = in && f.w.isReg;
    f.resolvesOutside = !in;
  }
  // symlinks followed below the configured root only: the configured spelling may itself contain links
  f.linksBelow = f.w.ok ? f.w.symlinks - t.baseLinks[r] : 0;
  f.nontrivial = f.resolvesOutside || f.linksBelow > 0 || f.lex.dot || f.lex.dotdot || f.lex.dupSep;
  return f;
}

inline const char *foreignMarker(std::string_view bytes, const char *ownTag)
{
  static const char *tags[] = {"OUTSIDE", "STATIC", "TEMPL", "EXT", "EMBED"};
  for (const char *tg : tags)
  {
    if (std::strcmp(tg, ownTag) == 0) continue;
    std::string m = std::string("<<") + tg + ":";
    if (bytes.find(m) != std::string_view::npos) return tg;
  }
  return nullptr;
}

struct LookupResult
{
  int status = 1; ///< 0 Found, 1 NotFound / nullopt, 2 Rejected
  std::string bytes;
  std::optional<std::string> gzip;
  bool threw = false;
  std::string exc;
};

inline LookupResult doLookup(const iora::web::Assets &a, bool isTemplate, std::string_view name)
{
  LookupResult r;
  try
  {
    if (isTemplate)
    {
      auto v = a.getTemplate(name);
      if (v)
      {
        r.status = 0;
        r.bytes.assign(v->data(), v->size()); // copy at once (documented caller duty)
      }
    }
    else
    {
      iora::web::GetStaticResult g = a.getStatic(name);
      using S = iora::web::GetStaticResult::Status;
      r.status = g.status == S::Found ? 0 : g.status == S::NotFound ? 1 : 2;
      if (r.status == 0)
      {
        r.bytes.assign(g.blob.bytes.data(), g.blob.bytes.size());
        if (g.blob.gzipBytes) r.gzip = std::string(g.blob.gzipBytes->data(), g.blob.gzipBytes->size());
      }
    }
  }
  catch (const std::exception &e)
  {
    r.threw = true;
    r.exc = e.what();
  }
  return r;
}

/// Judge one file-system-backed lookup. `r` is the region the name was looked up in
/// (R_STATIC via getStatic on fromDirectory, R_TEMPL via getTemplate, R_EXT via
/// getStatic on fromEmbedded with EXTERNAL_DIR). Returns false when a failure was
/// recorded.
/// What a caching lookup path may legitimately still hold for a name: the bytes (and .gz
/// bytes) of every INSIDE regular file this name resolved to at an earlier lookup since the
/// last reload(). Serving such a stale inside copy is not an escape.
struct Stale
{
  std::set<std::string> bytes, gz;
};

/// contents of a regular file: the model if it knows the path, the disk otherwise
inline std::optional<std::string> contentOf(const Tree &t, const std::string &canon)
{
  auto it = t.content.find(canon);
  if (it != t.content.end()) return it->second;
  return slurp(canon);
}

/// record what the name denotes right now (call before every lookup through a caching path)
inline void noteCurrent(const Tree &t, int r, std::string_view name, const NameFacts &f, Stale &st)
{
  if (!f.walkOk || !f.insideFile) return;
  if (auto c = contentOf(t, f.w.canon)) st.bytes.insert(*c);
  for (const std::string &cand : {f.w.canon + ".gz", t.given[r] + "/" + std::string(name) + ".gz"})
  {
    Walk g;
    if (!resolveChecked(cand, g)) continue;
    if (g.ok && g.isReg && containedIn(t.canon[r], g.canon))
      if (auto c = contentOf(t, g.canon)) st.gz.insert(*c);
  }
}

inline bool judge(const Tree &t, int r, std::string_view name, const LookupResult &res, const NameFacts &f, Sink &s,
                  const Stale *stale = nullptr, const char *sigPrefix = "C20/")
{
  const std::string api = std::string(sigPrefix) + apiName(r) + "/";
  auto ctx = [&](const std::string &obs)
  {
    std::string o = std::string(apiName(r)) + " lookup of '" + show(name) + "' [" + t.cfg.text() + "]: " + obs + "; OS resolution of <root>/name: ";
    if (!f.w.ok) o += std::string("fails (") + std::strerror(f.w.err) + ")";
    else
      o += t.shortPath(f.w.canon) + (f.w.isReg ? " (regular file" : " (not a regular file") +
           (f.resolvesOutside ? ", OUTSIDE the root " : ", inside the root ") + t.shortPath(t.canon[r]) + ", " +
           std::to_string(f.w.symlinks) + " symlinks followed)";
    return o;
  };
  if (res.threw)
  {
    s.fail(api + "lookup-throws", ctx("threw " + res.exc));
    return false;
  }
  if (res.status != 0) return true; // refused: never a violation of this property
  const char *own = regionTag(r);
  // 1. content from outside the root, whatever the name
  if (const char *fm = foreignMarker(res.bytes, own))
  {
    s.fail(api + "outside-content", ctx(std::string("Found, and the bytes carry the marker of a file outside the root (<<") + fm + ":..): '" + show(res.bytes, 60) + "'"));
    return false;
  }
  if (res.gzip)
    if (const char *fm = foreignMarker(*res.gzip, own))
    {
      s.fail(api + "gzip-outside-content", ctx(std::string("Found, and gzipBytes carry the marker of a file outside the root (<<") + fm + ":..): '" + show(*res.gzip, 60) + "'"));
      return false;
    }
  // 2. documented lexical contract (OQ-9): these spellings are refused before any file access
  if (f.lex.documentedRejected())
  {
    const char *cls = f.lex.nul ? "nul" : f.lex.backslash ? "backslash" : f.lex.leadingSlash ? "leading-slash" : "dotdot";
    s.fail(api + "served-" + cls + "-name", ctx(std::string("Found ('") + show(res.bytes, 40) + "') for a name the documented lexical filter refuses"));
    return false;
  }
  if (!f.walkOk) return true; // oracle unsure (counted by the caller)
  const bool staleBytes = stale && stale->bytes.count(res.bytes) != 0;
  const bool staleGz = stale && res.gzip && stale->gz.count(*res.gzip) != 0;
  if (staleBytes && (!res.gzip || staleGz))
  {
    auto cur = f.insideFile ? contentOf(t, f.w.canon) : std::nullopt;
    if (!cur || *cur != res.bytes) s.label("stale inside copy served from a cache (allowed)");
    return true;
  }
  // 3. the name must denote a regular file inside the canonical root ...
  if (!f.insideFile)
  {
    s.fail(api + "found-not-inside-regular-file", ctx(std::string("Found ('") + show(res.bytes, 40) + "') although the name does not resolve to a regular file inside the root"));
    return false;
  }
  // 4. ... and the bytes are that file's
  std::optional<std::string> want = contentOf(t, f.w.canon);
  if (want && *want != res.bytes && !staleBytes)
  {
    s.fail(api + "bytes-of-another-file", ctx("Found, but the bytes ('" + show(res.bytes, 40) + "', " + std::to_string(res.bytes.size()) + " B) are not those of the resolved file ('" + show(*want, 40) + "', " + std::to_string(want->size()) + " B)"));
    return false;
  }
  // 5. gzip representation: documented as the sibling "<resolved file>.gz"; whatever is
  //    served must be a regular file whose resolved location is inside the root
  if (res.gzip && !staleGz)
  {
    bool okGz = false;
    std::string tried;
    for (const std::string &cand : {f.w.canon + ".gz", t.given[r] + "/" + std::string(name) + ".gz"})
    {
      Walk g;
      if (!resolveChecked(cand, g)) return true;
      tried += " " + t.shortPath(cand) + (g.ok ? "=>" + t.shortPath(g.canon) : std::string("=>(") + std::strerror(g.err) + ")");
      if (g.ok && g.isReg && containedIn(t.canon[r], g.canon))
      {
        auto gc = contentOf(t, g.canon);
        if (gc && *gc == *res.gzip) okGz = true;
      }
    }
    if (!okGz)
    {
      s.fail(api + "gzip-not-inside-regular-file", ctx("Found with gzipBytes '" + show(*res.gzip, 40) + "' that are not the bytes of a regular .gz sibling inside the root (tried" + tried + ")"));
      return false;
    }
  }
  return true;
}

/// per-lookup labels (classes of names and outcomes)
inline void labelLookup(int r, const LookupResult &res, const NameFacts &f, Sink &s)
{
  const std::string a = apiName(r);
  static const char *st[] = {"Found", "NotFound", "Rejected"};
  s.label(a + ": " + st[res.status]);
  if (!f.walkOk)
  {
    s.label("oracle: walker and realpath(3) disagree (name skipped)");
    return;
  }
  const char *cls = f.resolvesOutside ? (f.w.isReg ? "OS resolves to a regular file OUTSIDE the root" : "OS resolves to a non-file OUTSIDE the root")
                    : f.insideFile    ? (f.linksBelow > 0 ? "OS resolves to an inside file through symlink(s)" : "OS resolves to an inside file")
                    : f.w.ok          ? "OS resolves to an inside directory"
                                      : "OS cannot resolve the name";
  s.label(std::string("name: ") + cls + " -> " + st[res.status]);
  if (f.insideFile && res.status != 0) s.label("refused although inside (allowed by the property)");
  if (f.lex.dotdot) s.label("lex: has '..' segment");
  if (f.lex.dot) s.label("lex: has '.' segment");
  if (f.lex.dupSep) s.label("lex: duplicate separators");
  if (f.lex.trailingSep) s.label("lex: trailing separator");
  if (f.lex.leadingSlash) s.label("lex: leading separator / absolute");
  if (f.lex.nul) s.label("lex: NUL byte");
  if (f.lex.backslash) s.label("lex: backslash");
  if (f.lex.percent) s.label("lex: percent-encoded");
  if (f.lex.nonAscii) s.label("lex: non-ASCII byte");
  if (f.lex.longComp) s.label("lex: component > 255 bytes");
  if (res.gzip) s.label("gzip representation returned");
}

} // namespace c20
