// C09 - every accepted task runs exactly once before pool shutdown completes; the pool never
// runs more workers than its configured maximum.
//
//   pool : ThreadPool(initial 0-3, max 1-4, idle 1-20 ms, queue 1-64); 1-8 submitter threads
//          released from a spin barrier, each with a script of submissions (enqueue /
//          tryEnqueue / enqueueWithResult) of tasks of five kinds (void, value, throwing,
//          submitting further tasks, short sleep) with bursts and pauses longer than the idle
//          timeout; at a generated moment the controller destroys the pool, or calls stop(),
//          shutdown() or drain() (then destroys it) while submitters and nested submissions are
//          still going on.
//
// Oracle (harness-owned counters only):
//   * accepted  => body executed exactly once, before the destructor returned; a future is ready
//                  with the task's value or the task's exception
//   * refused   => body never executed; the refusal is one of the three documented reasons, and
//                  it is a violation when the harness can PROVE the reason false: "full" while
//                  fewer than maxQueueSize tasks can have been pending, "draining"/"shutting
//                  down" before any drain/stop/shutdown/destruction was started
//   * after stop()/shutdown()/~ThreadPool returned no body starts or is still running
//   * bodies running concurrently <= maxSize, getTotalThreadCount() <= maxSize at every sample
//     ("maxSize: Maximum number of threads (hard limit)")
#ifdef C09_INTERPOSE
#define C10_SCHED_INTERPOSE 1
#endif
#include "c10_sched.hpp"
#include "c10_bq.hpp" // Canary + waitBounded (canary-guarded bounded waits)
#include "pbt.hpp"

#include <iora/core/thread_pool.hpp>

#include <atomic>
#include <chrono>
#include <future>
#include <memory>
#include <string>
#include <thread>
#include <vector>

// see c10_spsc.cpp: make TSan frames parseable by the driver
extern "C" const char *__tsan_default_options() { return "stack_trace_format='    #%n %p in %f %S'"; }

namespace c09
{

using iora::core::ThreadPool;
using Clock = std::chrono::steady_clock;

struct TaskError : std::runtime_error
{
  int id;
  explicit TaskError(int i) : std::runtime_error("task-error-" + std::to_string(i)), id(i) {}
};

// What throwing tasks throw (TaskRec::throwKind):
//  0 TaskError (derived from std::runtime_error, payload id)   1 int   2 const char*   3 std::string
//  4 PlainError (struct, NOT derived from std::exception)       5 PayloadError (derived directly from std::exception)
//  6 nested: TaskError carrying a nested PlainError              7 nested: PlainError carrying a nested int
struct PlainError
{
  int id;
  long payload;
};
struct PayloadError : std::exception
{
  int id;
  std::string text;
  explicit PayloadError(int i) : id(i), text("payload-" + std::to_string(i)) {}
  const char *what() const noexcept override { return text.c_str(); }
};
constexpr int kThrowKinds = 8;
const char *throwName(int k)
{
  static const char *n[] = {"TaskError", "int", "const char*", "std::string", "PlainError", "PayloadError", "nested(TaskError<-PlainError)", "nested(PlainError<-int)"};
  return k >= 0 && k < kThrowKinds ? n[k] : "?";
}
long plainPayload(int id) { return static_cast<long>(id) * 31 + 7; }

struct Thrown
{
  int kind = -1; // throwKind, -1 = some other std::exception, -2 = something else entirely
  int id = -1;
  bool intact = false; // payload / nested part as thrown
  std::string text;
};
int idAfter(const std::string &s, const char *prefix)
{
  std::string p(prefix);
  if (s.compare(0, p.size(), p) != 0 || s.size() == p.size()) return -1;
  for (std::size_t i = p.size(); i < s.size(); ++i)
    if (s[i] < '0' || s[i] > '9') return -1;
  return std::atoi(s.c_str() + p.size());
}
/// catch by type: which exception is behind `ep`?
Thrown decode(std::exception_ptr ep)
{
  Thrown r;
  if (!ep)
  {
    r.text = "null exception_ptr";
    return r;
  }
  try
  {
    std::rethrow_exception(ep);
  }
  catch (const std::nested_exception &n)
  {
    // outer part: the same object is also a TaskError or a PlainError
    try
    {
      throw;
    }
    catch (const TaskError &e)
    {
      r.kind = 6;
      r.id = e.id;
      try
      {
        n.rethrow_nested();
      }
      catch (const PlainError &in)
      {
        r.intact = in.id == e.id && in.payload == plainPayload(e.id);
      }
      catch (...)
      {
      }
    }
    catch (const PlainError &e)
    {
      r.kind = 7;
      r.id = e.id;
      try
      {
        n.rethrow_nested();
      }
      catch (int v)
      {
        r.intact = v == 1000 + e.id && e.payload == plainPayload(e.id);
      }
      catch (...)
      {
      }
    }
    catch (const std::exception &e)
    {
      r.kind = -1;
      r.text = e.what();
    }
    catch (...)
    {
      r.kind = -2;
    }
  }
  catch (const TaskError &e)
  {
    r.kind = 0;
    r.id = e.id;
    r.intact = std::string(e.what()) == "task-error-" + std::to_string(e.id);
  }
  catch (const PayloadError &e)
  {
    r.kind = 5;
    r.id = e.id;
    r.intact = e.text == "payload-" + std::to_string(e.id);
  }
  catch (const std::exception &e)
  {
    r.kind = -1;
    r.text = e.what();
  }
  catch (int v)
  {
    r.kind = 1;
    r.id = v - 1000;
    r.intact = true;
  }
  catch (const char *m)
  {
    r.kind = 2;
    r.text = m ? m : "(null)";
    r.id = idAfter(r.text, "cstr-");
    r.intact = r.id >= 0;
  }
  catch (const std::string &m)
  {
    r.kind = 3;
    r.text = m;
    r.id = idAfter(m, "str-");
    r.intact = r.id >= 0;
  }
  catch (const PlainError &e)
  {
    r.kind = 4;
    r.id = e.id;
    r.intact = e.payload == plainPayload(e.id);
  }
  catch (...)
  {
    r.kind = -2;
  }
  return r;
}
std::string thrownText(const Thrown &t)
{
  if (t.kind == -1) return "a different std::exception: " + t.text;
  if (t.kind == -2) return "an exception of an unknown type";
  return std::string(throwName(t.kind)) + " with id " + std::to_string(t.id) + (t.intact ? "" : " (payload/nested part damaged)");
}

enum Kind { kVoid = 0, kValue = 1, kThrow = 2, kNested = 3, kSleep = 4, kForkJoin = 5 };
enum Api { aEnqueue = 0, aTry = 1, aResult = 2 };
enum Status { sNotSubmitted = 0, sAccepted = 1, sRefused = 2, sUnknown = 3 };
enum Reason { rNone = 0, rFull = 1, rDraining = 2, rShutdown = 3, rTryFalse = 4 };

struct TaskRec
{
  int kind = kVoid;
  int api = aEnqueue;
  int sleepUs = 0;
  std::vector<int> children; // ids of tasks this body submits (kNested, kForkJoin)
  int throwKind = 0;  // kThrow: see throwName()
  std::string cstr;   // storage behind a thrown const char*
  int gapLockNth = 0, gapUs = 0; // after the body: scripted delay before the worker's n-th mutex lock
  std::atomic<int> exec{0};
  std::atomic<int> finished{0};
  std::atomic<int> status{sNotSubmitted};
  std::atomic<int> reason{rNone};
  std::future<long> fut;
  bool hasFut = false;
};

struct Ctx
{
  ThreadPool *pool = nullptr;
  std::size_t maxSize = 1, maxQueue = 1;
  std::uint64_t seed = 0;
  std::uint32_t oneIn = 0, maxDelay = 0;
  std::vector<std::unique_ptr<TaskRec>> tasks;
  std::atomic<int> go{0}, arrived{0};
  std::atomic<bool> quiesce{false};   // submitters stop issuing new submissions
  std::atomic<bool> stopBegun{false}; // set BEFORE drain/stop/shutdown/delete is called
  // even: the pool is meant to accept (0 = since construction, 2, 4, ... = since the harness entered the
  // start() of a restart); odd: a drain/stop/shutdown/destruction has been issued and not yet undone
  std::atomic<long> epoch{0};
  std::atomic<bool> afterStop{false}; // set AFTER stop()/shutdown()/delete returned
  std::atomic<long> started{0};       // bodies started (each start follows its pop from the queue)
  std::atomic<long> notRefused{0};    // submissions begun and not (yet) refused
  std::atomic<long> submittedTop{0};  // top-level submissions completed
  std::atomic<int> running{0}, maxRunning{0};
  std::atomic<int> inSubmit{0}, maxInSubmit{0};
  std::atomic<std::size_t> maxThreads{0};
  std::atomic<bool> afterDrain{false}; // set after drain() returned success (observation only, see notes)
  std::atomic<long> bodiesAfterDrain{0};
  std::atomic<long> lateBodies{0};
  std::atomic<int> lateId{-1};
  std::atomic<long> handlerCalls{0};
  std::atomic<long> unjustified{0};
  std::atomic<int> workerSeq{0};
  std::atomic<int> forkStuck{0};
  std::string forkStuckWhat;
  std::atomic<long> handlerForeign{0};
  std::string handlerForeignWhat;
  bool leak = false; // a worker may still be using this context: the owner must not free it
  std::mutex noteMu;
  std::string unjustifiedWhat; // first one
  std::string unknownWhat;
};

template <class A, class V> void atomicMax(A &a, V v)
{
  auto cur = a.load(std::memory_order_relaxed);
  while (v > cur && !a.compare_exchange_weak(cur, v)) {}
}

long expectedValue(int id) { return static_cast<long>(id) * 7 + 1; }

void submit(Ctx *cx, int id);
const char *apiName(int a);

[[noreturn]] void throwIt(TaskRec &t, int id)
{
  switch (t.throwKind)
  {
  case 1: throw 1000 + id;
  case 2: throw static_cast<const char *>(t.cstr.c_str());
  case 3: throw std::string("str-" + std::to_string(id));
  case 4: throw PlainError{id, plainPayload(id)};
  case 5: throw PayloadError(id);
  case 6:
    try
    {
      throw PlainError{id, plainPayload(id)};
    }
    catch (...)
    {
      std::throw_with_nested(TaskError(id));
    }
  case 7:
    try
    {
      throw 1000 + id;
    }
    catch (...)
    {
      std::throw_with_nested(PlainError{id, plainPayload(id)});
    }
  default: throw TaskError(id);
  }
}

/// onTaskError ("Optional handler for uncaught exceptions in tasks"): whatever it is given must be the
/// exception some throwing task of this pool really threw (type and value); how often it is called is
/// not part of C09 and not judged.
std::function<void(std::exception_ptr)> makeHandler(Ctx *cx)
{
  return [cx](std::exception_ptr ep)
  {
    cx->handlerCalls.fetch_add(1);
    Thrown th = decode(ep);
    bool ok = th.kind >= 0 && th.intact && th.id >= 0 && static_cast<std::size_t>(th.id) < cx->tasks.size();
    if (ok)
    {
      TaskRec &t = *cx->tasks[static_cast<std::size_t>(th.id)];
      ok = t.kind == kThrow && t.throwKind == th.kind;
    }
    if (!ok)
    {
      cx->handlerForeign.fetch_add(1);
      std::lock_guard<std::mutex> lk(cx->noteMu);
      if (cx->handlerForeignWhat.empty()) cx->handlerForeignWhat = "onTaskError received " + thrownText(th) + ", which no task of this pool threw";
    }
  };
}

/// future of an accepted task after the pool is gone: ready, and holding the task's value or exactly
/// the exception (type and value) its body threw. Returns {signature, what} or empty strings.
std::pair<std::string, std::string> checkFuture(TaskRec &t, int id)
{
  if (!t.fut.valid() || t.fut.wait_for(std::chrono::seconds(0)) != std::future_status::ready)
    return {"C09/future-not-ready", pbt::Fmt() << "future of task " << id << " is not ready after the pool was destroyed"};
  std::exception_ptr ep;
  long v = 0;
  try
  {
    v = t.fut.get();
  }
  catch (...)
  {
    ep = std::current_exception();
  }
  if (!ep)
  {
    if (t.kind == kThrow)
      return {"C09/future-wrong-result", pbt::Fmt() << "future of task " << id << " delivered the value " << v << " although the task threw " << throwName(t.throwKind)};
    if (v != expectedValue(id))
      return {"C09/future-wrong-result", pbt::Fmt() << "future of task " << id << " holds value " << v << ", expected " << expectedValue(id)};
    return {};
  }
  Thrown th = decode(ep);
  if (t.kind != kThrow)
    return {"C09/future-wrong-result", pbt::Fmt() << "future of task " << id << " (no exception thrown) rethrows " << thrownText(th)};
  if (th.kind != t.throwKind || th.id != id || !th.intact)
    return {"C09/future-wrong-result", pbt::Fmt() << "task " << id << " threw " << throwName(t.throwKind) << " with id " << id << ", future.get() rethrows " << thrownText(th)};
  return {};
}

long body(Ctx *cx, int id)
{
  TaskRec &t = *cx->tasks[static_cast<std::size_t>(id)];
  int cur = cx->running.fetch_add(1, std::memory_order_acq_rel) + 1;
  atomicMax(cx->maxRunning, cur);
  if (cx->afterStop.load(std::memory_order_acquire))
  {
    cx->lateBodies.fetch_add(1);
    cx->lateId.store(id);
  }
  if (cx->afterDrain.load(std::memory_order_acquire)) cx->bodiesAfterDrain.fetch_add(1);
  cx->started.fetch_add(1, std::memory_order_acq_rel);
  t.exec.fetch_add(1, std::memory_order_acq_rel);
  // pool workers are created by iora: arm the perturbation for this worker thread lazily
  if (cx->oneIn && !sched::ts().armed && sched::ts().points == 0)
  {
    sched::ThreadState &s = sched::ts();
    s.rng = (cx->seed + 77) * 0x9e3779b97f4a7c15ULL ^ (static_cast<std::uint64_t>(cx->workerSeq.fetch_add(1) + 1) * 0xbf58476d1ce4e5b9ULL);
    s.maxDelayUs = cx->maxDelay;
    s.oneIn = cx->oneIn * 2;
    s.points = sched::kAllPoints;
    s.armed = true;
  }
  atomicMax(cx->maxThreads, cx->pool->getTotalThreadCount());
  switch (t.kind)
  {
  case kSleep: sched::sleepUs(static_cast<std::uint32_t>(t.sleepUs)); break;
  case kNested:
    for (int ch : t.children) submit(cx, ch);
    break;
  case kForkJoin:
    // fork a child into the same pool and wait for it. Generated only where the unchanged pool must
    // get a worker to the child: maxSize >= 2, the queue cannot be full, every other task of the plan
    // is short and never waits, at most one fork-join parent per pool. Then either the submission
    // spawns a worker (_threads.size() < maxSize) or another registered - hence live - worker exists
    // that is idle (woken by the notify, or finds the task at its timeout) or finishes a short task.
    for (int ch : t.children)
    {
      submit(cx, ch);
      TaskRec &k = *cx->tasks[static_cast<std::size_t>(ch)];
      if (k.status.load(std::memory_order_acquire) != sAccepted) continue; // refused (shutdown began): nothing to wait for
      if (!c10::waitBounded(c10::kBoundSeconds, [&] { return k.finished.load(std::memory_order_acquire) > 0; }))
      {
        cx->forkStuck.fetch_add(1);
        std::lock_guard<std::mutex> lk(cx->noteMu);
        if (cx->forkStuckWhat.empty())
          cx->forkStuckWhat = pbt::Fmt() << "task " << id << " submitted child task " << ch << " (" << apiName(k.api) << ", accepted) from inside a worker and waited "
                                         << c10::kBoundSeconds << " s (canary-guarded): the child " << (k.exec.load() ? "started but did not finish" : "was never started")
                                         << "; maxSize " << cx->maxSize << ", threads now " << cx->pool->getTotalThreadCount() << ", pending "
                                         << cx->pool->getPendingTaskCount();
      }
    }
    break;
  default: break;
  }
  if (cx->afterStop.load(std::memory_order_acquire))
  {
    cx->lateBodies.fetch_add(1);
    cx->lateId.store(id);
  }
  t.finished.fetch_add(1, std::memory_order_acq_rel);
  cx->running.fetch_sub(1, std::memory_order_acq_rel);
  if (t.gapUs) sched::scriptLockDelay(static_cast<std::uint32_t>(t.gapLockNth), static_cast<std::uint32_t>(t.gapUs));
  if (t.kind == kThrow) throwIt(t, id);
  return expectedValue(id);
}

void submit(Ctx *cx, int id)
{
  TaskRec &t = *cx->tasks[static_cast<std::size_t>(id)];
  const long startedBefore = cx->started.load(std::memory_order_acquire);
  cx->notRefused.fetch_add(1, std::memory_order_acq_rel);
  int conc = cx->inSubmit.fetch_add(1, std::memory_order_acq_rel) + 1;
  atomicMax(cx->maxInSubmit, conc);
  int reason = rNone;
  bool accepted = false, unknown = false;
  std::string msg;
  // "the pool is open": no drain/stop/shutdown/destruction outstanding when the call starts, and - after a
  // restart - the harness itself has seen getState() == Running since start() was entered
  const long epochBefore = cx->epoch.load(std::memory_order_acquire);
  const bool sawOpen = (epochBefore % 2 == 0) && (epochBefore == 0 || cx->pool->getState() == iora::common::LifecycleState::Running);
  try
  {
    switch (t.api)
    {
    case aEnqueue:
      cx->pool->enqueue(body, cx, id);
      accepted = true;
      break;
    case aTry:
      accepted = cx->pool->tryEnqueue(body, cx, id);
      if (!accepted) reason = rTryFalse;
      break;
    default:
      t.fut = cx->pool->enqueueWithResult(body, cx, id);
      t.hasFut = true;
      accepted = true;
      break;
    }
  }
  catch (const std::runtime_error &e)
  {
    msg = e.what();
    if (msg == "ThreadPool task queue is full") reason = rFull;
    else if (msg == "ThreadPool is draining and not accepting new work") reason = rDraining;
    else if (msg == "ThreadPool is shutting down") reason = rShutdown;
    else unknown = true;
  }
  catch (const std::exception &e)
  {
    msg = e.what();
    unknown = true;
  }
  cx->inSubmit.fetch_sub(1, std::memory_order_acq_rel);
  if (accepted)
  {
    t.status.store(sAccepted, std::memory_order_release);
    return;
  }
  if (unknown)
  {
    t.status.store(sUnknown, std::memory_order_release);
    std::lock_guard<std::mutex> lk(cx->noteMu);
    if (cx->unknownWhat.empty()) cx->unknownWhat = msg;
    return; // stays counted in notRefused: we do not know whether it was queued
  }
  // ---- refused: can the stated (or only possible) reason be proven false? ------------------------
  const long nonRefusedAfter = cx->notRefused.load(std::memory_order_acquire); // includes this call
  // justified by a stop-like call unless the pool was seen open before the call and nothing was issued since
  const bool stopBegunAfter = !(sawOpen && cx->epoch.load(std::memory_order_acquire) == epochBefore);
  cx->notRefused.fetch_sub(1, std::memory_order_acq_rel);
  t.reason.store(reason);
  t.status.store(sRefused, std::memory_order_release);
  // tasks pending at the instant of the refusal <= pushes so far - pops so far
  //   pushes so far <= submissions begun and never refused (read after the call, minus this one)
  //   pops so far   >= bodies started before the call began
  const long pendingUpper = nonRefusedAfter - 1 - startedBefore;
  const bool provablyNotFull = pendingUpper < static_cast<long>(cx->maxQueue);
  bool bad = false;
  if (reason == rFull) bad = provablyNotFull;
  else if (reason == rDraining || reason == rShutdown) bad = !stopBegunAfter;
  else bad = provablyNotFull && !stopBegunAfter; // tryEnqueue == false: any of the three reasons
  if (bad)
  {
    cx->unjustified.fetch_add(1);
    std::lock_guard<std::mutex> lk(cx->noteMu);
    if (cx->unjustifiedWhat.empty())
      cx->unjustifiedWhat = pbt::Fmt() << "task " << id << " refused (" << (reason == rTryFalse ? std::string("tryEnqueue returned false") : msg)
                                       << ") although at most " << pendingUpper << " tasks could be pending (maxQueueSize " << cx->maxQueue
                                       << ") and drain/stop/shutdown/destruction had " << (stopBegunAfter ? "" : "not ") << "begun"
                                       << (epochBefore > 0 ? " (restarted pool: getState() == Running was observed after start() had been entered)" : "");
  }
}

/// Main-thread check made immediately after stop()/shutdown()/~ThreadPool returned: is there a task
/// whose submission had been accepted (status published by its submitter) and whose body has not
/// finished? One-sided: a task the harness does not yet know to be accepted is not judged.
std::string unfinishedAccepted(Ctx &cx)
{
  for (std::size_t i = 0; i < cx.tasks.size(); ++i)
  {
    TaskRec &t = *cx.tasks[i];
    if (t.status.load(std::memory_order_acquire) != sAccepted) continue;
    if (t.finished.load(std::memory_order_acquire) == 0)
      return pbt::Fmt() << "task " << i << " had been accepted and " << (t.exec.load() ? "was still running" : "had not started");
  }
  return std::string();
}

void beginStop(Ctx &cx)
{
  cx.stopBegun.store(true, std::memory_order_release);
  if (cx.epoch.load(std::memory_order_acquire) % 2 == 0) cx.epoch.fetch_add(1, std::memory_order_acq_rel);
}

// ---- restart cycles: reset() is only allowed from Stopped, start() only from Reset, i.e. the one legal
// sequence is stop() -> reset() -> start(). The wave's submitters poll getState() and submit the moment it
// says Running. All wave tasks are created before the pool runs (cx.tasks must not grow under the workers).
struct RestartPlan
{
  int cycles = 0;
  std::vector<std::vector<std::vector<int>>> waves; // [cycle][submitter] -> task ids
  std::vector<int> stopDelayUs;                     // per cycle: pause between start() and the next stop()
  std::vector<char> joinBeforeStop;                 // per cycle: let the wave finish submitting first
  bool perturbStart = false;                        // seeded delay before every mutex lock inside start()
  std::uint64_t seed = 0;
};
struct RestartOutcome
{
  std::string early; // violation text (stop returned with unfinished accepted work)
  std::string label;
  int done = 0;
};
void restartCycles(Ctx &cx, const RestartPlan &rp, RestartOutcome &out)
{
  using iora::common::LifecycleState;
  for (int cyc = 0; cyc < rp.cycles; ++cyc)
  {
    auto rr = cx.pool->reset();
    if (!rr.success)
    {
      out.label = "reset() not possible: " + rr.message.substr(0, 40);
      return;
    }
    const auto &wave = rp.waves[static_cast<std::size_t>(cyc)];
    std::atomic<bool> abortWave{false};
    std::atomic<int> ready{0};
    const long openEpoch = cx.epoch.load(std::memory_order_acquire) + 1; // even
    std::vector<std::thread> th;
    for (std::size_t s = 0; s < wave.size(); ++s)
      th.emplace_back(
        [&, s]
        {
          ready.fetch_add(1, std::memory_order_acq_rel);
          // wait for "start() entered", then for Running - but never beyond the next stop (a slow thread
          // then simply submits late and collects justified refusals)
          while (cx.epoch.load(std::memory_order_acquire) < openEpoch && !abortWave.load(std::memory_order_acquire)) {}
          while (cx.pool->getState() != LifecycleState::Running && cx.epoch.load(std::memory_order_acquire) == openEpoch &&
                 !abortWave.load(std::memory_order_acquire))
          {
          }
          if (abortWave.load(std::memory_order_acquire)) return;
          for (int id : wave[s]) submit(&cx, id); // the moment the pool says Running
          atomicMax(cx.maxThreads, cx.pool->getTotalThreadCount());
        });
    while (ready.load(std::memory_order_acquire) < static_cast<int>(wave.size())) std::this_thread::yield();
    cx.afterStop.store(false, std::memory_order_release);
    cx.stopBegun.store(false, std::memory_order_release);
    cx.epoch.store(openEpoch, std::memory_order_release); // "start() entered"
    iora::common::LifecycleResult sr;
    {
      sched::Arm arm(rp.seed, 700u + static_cast<std::uint32_t>(cyc), 300, (rp.perturbStart && sched::kInterposed) ? 1 : 0, sched::kMutexLock);
      sr = cx.pool->start();
    }
    auto joinWave = [&]
    {
      for (auto &t : th)
        if (t.joinable()) t.join();
    };
    if (!sr.success)
    {
      abortWave.store(true, std::memory_order_release);
      joinWave();
      out.label = "start() not possible: " + sr.message.substr(0, 40);
      beginStop(cx);
      return;
    }
    if (rp.joinBeforeStop[static_cast<std::size_t>(cyc)]) joinWave();
    if (rp.stopDelayUs[static_cast<std::size_t>(cyc)]) sched::sleepUs(static_cast<std::uint32_t>(rp.stopDelayUs[static_cast<std::size_t>(cyc)]));
    beginStop(cx);
    auto st = cx.pool->stop();
    if (st.success)
    {
      cx.afterStop.store(true, std::memory_order_release);
      out.early = unfinishedAccepted(cx);
      if (!out.early.empty()) out.early += " when the stop() of restart cycle " + std::to_string(cyc + 1) + " returned success";
    }
    joinWave();
    ++out.done;
    if (!st.success)
    {
      out.label = "stop() of a restart cycle reported failure";
      return;
    }
    if (!out.early.empty()) return;
  }
}

struct SubOp
{
  int task;
  int pause; // 0..999 selector
};

void pauseBefore(int sel, int idleMs)
{
  if (sel < 520) return; // burst
  if (sel < 640)
    std::this_thread::yield();
  else if (sel < 840)
    sched::spin(static_cast<std::uint32_t>((sel * 41) % 4000));
  else if (sel < 940)
    sched::sleepUs(static_cast<std::uint32_t>((sel * 17) % 400));
  else // longer than the idle timeout: workers above the minimum exit meanwhile
    sched::sleepUs(static_cast<std::uint32_t>(idleMs * 1000 + 300 + (sel * 29) % 2500));
}
const char *pauseName(int sel) { return sel < 520 ? "" : sel < 640 ? "~y" : sel < 840 ? "~s" : sel < 940 ? "~z" : "~IDLE"; }
const char *kindName(int k)
{
  static const char *n[] = {"void", "value", "throw", "nested", "sleep", "forkjoin"};
  return n[k];
}
const char *apiName(int a)
{
  static const char *n[] = {"enqueue", "tryEnqueue", "enqueueWithResult"};
  return n[a];
}

struct Plan
{
  std::size_t initial = 0, maxSize = 1, maxQueue = 1;
  int idleMs = 1;
  int mode = 0; // ThreadPool::ShutdownMode IMMEDIATE / GRACEFUL
  int endMode = 0; // 0 destructor 1 stop() 2 shutdown() 3 drain() then destructor 4 drain() then stop()
  long trigger = 0; // controller acts when this many top-level submissions completed
  int endDelaySel = 0;
  std::uint64_t seed = 0;
  std::uint32_t oneIn = 0, maxDelay = 0;
  RestartPlan restart;            // after a successful stop(): reset() -> start() -> wave -> stop(), 0-2 times
  std::uint32_t secondLockUs = 0; // scripted delay before the 2nd mutex lock of a submission (the one after the spawn decision)
  std::vector<std::vector<SubOp>> subs;
};

/// executes a plan; all verdicts go to `c`
void run(Plan &pl, Ctx &cx, pbt::Case &c)
{
  iora::core::Logger::setLevel(iora::core::Logger::Level::Fatal);
  cx.maxSize = pl.maxSize;
  cx.maxQueue = pl.maxQueue;
  cx.seed = pl.seed;
  cx.oneIn = sched::kInterposed ? pl.oneIn : 0;
  cx.maxDelay = pl.maxDelay;
  Ctx *cxp = &cx;
  auto handler = makeHandler(cxp);
  cx.pool = new ThreadPool(pl.initial, pl.maxSize, std::chrono::milliseconds(pl.idleMs), pl.maxQueue, handler,
                           pl.mode ? ThreadPool::ShutdownMode::GRACEFUL : ThreadPool::ShutdownMode::IMMEDIATE);
  atomicMax(cx.maxThreads, cx.pool->getTotalThreadCount());
  std::atomic<bool> idleExitSeen{false};
  std::vector<std::thread> th;
  std::atomic<int> subsDone{0};
  for (std::size_t s = 0; s < pl.subs.size(); ++s)
    th.emplace_back(
      [&, s]
      {
        sched::Arm arm(pl.seed, static_cast<std::uint32_t>(s), pl.maxDelay, sched::kInterposed ? pl.oneIn : 0);
        cx.arrived.fetch_add(1, std::memory_order_acq_rel);
        while (cx.go.load(std::memory_order_acquire) == 0) {}
        std::size_t lastCount = 0;
        for (auto &op : pl.subs[s])
        {
          if (cx.quiesce.load(std::memory_order_acquire)) break;
          pauseBefore(op.pause, pl.idleMs);
          if (cx.quiesce.load(std::memory_order_acquire)) break;
          if (pl.secondLockUs && (op.pause % 2) == 0) sched::scriptLockDelay(2, pl.secondLockUs);
          submit(&cx, op.task);
          sched::scriptLockDelay(0, 0);
          cx.submittedTop.fetch_add(1, std::memory_order_acq_rel);
          std::size_t n = cx.pool->getTotalThreadCount(); // the pool outlives every submitter thread
          atomicMax(cx.maxThreads, n);
          if (n < lastCount && !cx.stopBegun.load()) idleExitSeen.store(true);
          lastCount = n;
        }
        subsDone.fetch_add(1, std::memory_order_acq_rel);
      });
  // real barrier: release only when every submitter is spinning on `go`
  while (cx.arrived.load(std::memory_order_acquire) < static_cast<int>(pl.subs.size())) std::this_thread::yield();
  cx.go.store(1, std::memory_order_release);

  // ---- controller --------------------------------------------------------------------------------
  const int nSubs = static_cast<int>(pl.subs.size());
  while (cx.submittedTop.load(std::memory_order_acquire) < pl.trigger && subsDone.load(std::memory_order_acquire) < nSubs)
    std::this_thread::yield();
  if (pl.endDelaySel >= 300)
  {
    if (pl.endDelaySel < 600)
      sched::spin(static_cast<std::uint32_t>((pl.endDelaySel * 53) % 5000));
    else if (pl.endDelaySel < 900)
      sched::sleepUs(static_cast<std::uint32_t>((pl.endDelaySel * 19) % 1500));
    else
      sched::sleepUs(static_cast<std::uint32_t>(pl.idleMs * 1000 + 500)); // let the extra workers time out first
  }
  auto joinSubs = [&]
  {
    for (auto &t : th) t.join();
    th.clear();
  };
  bool pendingAtStop = false;
  bool stopFailed = false;
  std::string stopMsg, earlyWhat;
  if (pl.endMode == 0)
  {
    // destruction needs the external callers out of the object (C++ lifetime rule); nested
    // submissions from the pool's own workers, queued tasks and running tasks stay in flight
    cx.quiesce.store(true, std::memory_order_release);
    joinSubs();
  }
  pendingAtStop = cx.pool->getPendingTaskCount() > 0;
  beginStop(cx);
  switch (pl.endMode)
  {
  case 1:
  {
    auto r = cx.pool->stop();
    if (r.success)
    {
      cx.afterStop.store(true, std::memory_order_release);
      earlyWhat = unfinishedAccepted(cx);
      if (!earlyWhat.empty()) earlyWhat += " when stop() returned success";
    }
    else
    {
      stopFailed = true;
      stopMsg = r.message;
    }
    break;
  }
  case 2:
    cx.pool->shutdown();
    cx.afterStop.store(true, std::memory_order_release);
    earlyWhat = unfinishedAccepted(cx);
    if (!earlyWhat.empty()) earlyWhat += " when shutdown() returned";
    break;
  case 3:
  case 4:
  {
    auto r = cx.pool->drain(20000);
    if (!r.success)
    {
      stopFailed = true;
      stopMsg = r.message;
    }
    else
      cx.afterDrain.store(true, std::memory_order_release);
    break;
  }
  default: break;
  }
  if (pl.endMode != 0)
  {
    // submitters that are still going now collect refusals; then they leave the object
    joinSubs();
  }
  if (pl.endMode == 4)
  {
    auto r = cx.pool->stop();
    if (r.success)
    {
      cx.afterStop.store(true, std::memory_order_release);
      if (earlyWhat.empty())
      {
        earlyWhat = unfinishedAccepted(cx);
        if (!earlyWhat.empty()) earlyWhat += " when stop() (after drain()) returned success";
      }
    }
    else
    {
      stopFailed = true;
      stopMsg = r.message;
    }
  }
  int restartsDone = 0;
  std::string restartLabel;
  if (earlyWhat.empty() && !stopFailed && (pl.endMode == 1 || pl.endMode == 4) && pl.restart.cycles > 0)
  {
    RestartOutcome ro;
    restartCycles(cx, pl.restart, ro);
    earlyWhat = ro.early;
    restartsDone = ro.done;
    restartLabel = ro.label;
  }
  if (!earlyWhat.empty())
  {
    // a worker is still alive behind the pool's back: do not destroy the pool or the context under it
    for (auto &t : th)
      if (t.joinable()) t.join();
    cx.leak = true;
    c.fail("C09/stop-returned-before-accepted-task-finished", earlyWhat);
    return;
  }
  atomicMax(cx.maxThreads, cx.pool->getTotalThreadCount());
  delete cx.pool;
  cx.afterStop.store(true, std::memory_order_release);
  // a moment for anything that wrongly survived the destructor to show itself (one-sided: only
  // ever turns a pass into a fail when a body really runs after the return)
  sched::sleepUs(300);

  // ---- oracle ------------------------------------------------------------------------------------
  if (!cx.unknownWhat.empty())
  {
    c.inconclusive("submission threw an undocumented exception: " + cx.unknownWhat);
    return;
  }
  if (cx.forkStuck.load() > 0)
  {
    c.failTimed("C09/accepted-child-not-run-while-parent-waits", cx.forkStuckWhat);
    return;
  }
  if (cx.maxThreads.load() > pl.maxSize)
  {
    c.fail("C09/thread-count-exceeds-max", pbt::Fmt() << "getTotalThreadCount() returned " << cx.maxThreads.load() << " with maxSize " << pl.maxSize);
    return;
  }
  if (static_cast<std::size_t>(cx.maxRunning.load()) > pl.maxSize)
  {
    c.fail("C09/concurrent-bodies-exceed-max", pbt::Fmt() << cx.maxRunning.load() << " task bodies were running at the same time with maxSize " << pl.maxSize);
    return;
  }
  if (cx.lateBodies.load() > 0)
  {
    c.fail("C09/task-running-after-stop-returned", pbt::Fmt() << "task " << cx.lateId.load() << " started or was still running after "
                                                              << (pl.endMode == 1 || pl.endMode == 4 ? "stop()" : pl.endMode == 2 ? "shutdown()" : "~ThreadPool()")
                                                              << " had returned");
    return;
  }
  long accepted = 0, refused = 0, futs = 0, reasons[5] = {0, 0, 0, 0, 0}, thrownByType[kThrowKinds] = {0, 0, 0, 0, 0, 0, 0, 0};
  for (std::size_t i = 0; i < cx.tasks.size(); ++i)
  {
    TaskRec &t = *cx.tasks[i];
    int st = t.status.load(std::memory_order_acquire);
    int ex = t.exec.load(std::memory_order_acquire);
    if (st == sAccepted)
    {
      ++accepted;
      if (ex == 0 || t.finished.load() == 0)
      {
        if (ex != 0) cx.leak = true; // its worker is still running and will touch the context
        c.fail("C09/accepted-task-not-run", pbt::Fmt() << "task " << i << " (" << kindName(t.kind) << " via " << apiName(t.api)
                                                       << ") was accepted but had not " << (ex ? "finished" : "run") << " when ~ThreadPool() returned");
        return;
      }
      if (ex > 1)
      {
        c.fail("C09/task-ran-twice", pbt::Fmt() << "task " << i << " ran " << ex << " times");
        return;
      }
      if (t.hasFut)
      {
        ++futs;
        auto fr = checkFuture(t, static_cast<int>(i));
        if (!fr.first.empty())
        {
          c.fail(fr.first, fr.second);
          return;
        }
        if (t.kind == kThrow) ++thrownByType[t.throwKind];
      }
    }
    else if (st == sRefused || st == sNotSubmitted)
    {
      if (st == sRefused)
      {
        ++refused;
        ++reasons[t.reason.load()];
      }
      if (ex != 0)
      {
        c.fail("C09/refused-task-ran", pbt::Fmt() << "task " << i << " ran although its submission was "
                                                  << (st == sRefused ? "refused" : "never made"));
        return;
      }
    }
  }
  if (cx.unjustified.load() > 0)
  {
    c.fail("C09/refused-without-documented-reason", cx.unjustifiedWhat);
    return;
  }
  if (cx.handlerForeign.load() > 0)
  {
    c.fail("C09/handler-foreign-exception", cx.handlerForeignWhat);
    return;
  }
  for (int k = 0; k < kThrowKinds; ++k)
    if (thrownByType[k]) c.label(std::string("future rethrew ") + throwName(k));
  // ---- classification ----------------------------------------------------------------------------
  static const char *endNames[] = {"end: destructor", "end: stop()", "end: shutdown()", "end: drain() + destructor", "end: drain() + stop()"};
  c.label(endNames[pl.endMode]);
  if (pendingAtStop) c.label("shutdown started with a non-empty queue");
  if (cx.maxInSubmit.load() >= 2) c.label(">=2 submitters inside a submission at the same time");
  if (idleExitSeen.load()) c.label("worker idle-exit observed between submissions");
  if (refused) c.label("some submissions refused");
  if (reasons[rFull] + reasons[rTryFalse]) c.label("refused: queue full / tryEnqueue false");
  if (reasons[rDraining]) c.label("refused: draining");
  if (reasons[rShutdown]) c.label("refused: shutting down");
  if (futs) c.label("futures checked");
  if (cx.handlerCalls.load()) c.label("error handler called");
  for (auto &t : cx.tasks)
    if (t->kind == kForkJoin && t->exec.load())
    {
      bool childRan = !t->children.empty() && cx.tasks[static_cast<std::size_t>(t->children[0])]->exec.load() > 0;
      c.label(childRan ? "fork-join parent waited for its child" : "fork-join parent ran, child refused");
    }
  // not part of C09's statement (it speaks of stop/destruction): drain() polls "active == 0 && pending == 0",
  // and a worker that has popped a task but not yet counted itself active is invisible to it
  if (cx.bodiesAfterDrain.load()) c.label("observation: a task body started after drain() had reported completion");
  if (restartsDone) c.label("restart cycles (stop -> reset -> start -> wave -> stop)");
  if (!restartLabel.empty()) c.label(restartLabel);
  if (stopFailed) c.label("drain()/stop() reported failure: " + stopMsg.substr(0, 40));
  if (static_cast<std::size_t>(cx.maxRunning.load()) == pl.maxSize) c.label("bodies reached maxSize concurrency");
  if (cx.maxThreads.load() == pl.maxSize) c.label("thread count reached maxSize");
  if (accepted == 0) c.label("no task accepted");
  if (pendingAtStop || cx.maxInSubmit.load() >= 2 || idleExitSeen.load()) c.nontrivial(pbt::hash64(c.description));
}

int addTask(Ctx &cx, int kind, int api, int sleepUs)
{
  auto t = std::make_unique<TaskRec>();
  t->kind = kind;
  t->api = api;
  t->sleepUs = sleepUs;
  t->cstr = "cstr-" + std::to_string(cx.tasks.size());
  cx.tasks.push_back(std::move(t));
  return static_cast<int>(cx.tasks.size()) - 1;
}

void generated(pbt::Src &src, pbt::Case &c)
{
  pbt::watchdog(150, "C09/shutdown-stalled");
  Plan pl;
  pl.maxSize = static_cast<std::size_t>(src.range(1, 4));
  pl.initial = static_cast<std::size_t>(src.range(0, 3));
  if (pl.initial > pl.maxSize) pl.initial = pl.maxSize; // initialSize is the minimum, maxSize the hard limit
  pl.idleMs = static_cast<int>(src.weighted({4, 2, 1, 1, 1}) == 0 ? 1 : src.range(1, 20));
  pl.maxQueue = static_cast<std::size_t>(src.oneOf<int>({1, 2, 3, 4, 8, 16, 32, 64}));
  pl.mode = static_cast<int>(src.range(0, 1));
  pl.endMode = static_cast<int>(src.weighted({4, 3, 2, 1, 1}));
  pl.endDelaySel = static_cast<int>(src.range(0, 999));
  pl.seed = static_cast<std::uint64_t>(src.range(0, 0x7fffffff));
  pl.oneIn = static_cast<std::uint32_t>(src.oneOf<int>({0, 0, 4, 16, 64}));
  pl.maxDelay = static_cast<std::uint32_t>(src.oneOf<int>({50, 300, 300, 2500}));
  pl.secondLockUs = static_cast<std::uint32_t>(src.oneOf<int>({0, 0, 0, 150, 1500, 4000}));
  const int nSubs = static_cast<int>(src.range(1, 8));
  auto cxp = std::make_unique<Ctx>();
  Ctx &cx = *cxp;
  pbt::Fmt d;
  long total = 0;
  std::vector<std::vector<pbt::Row>> scripts;
  for (int s = 0; s < nSubs; ++s)
  {
    auto rows = src.rows(24, 4, 0, 999); // [kind, api, pause, childSpec]
    if (rows.empty()) rows.push_back(pbt::Row{0, 0, 0, 0});
    total += static_cast<long>(rows.size());
    scripts.push_back(std::move(rows));
  }
  pl.trigger = src.coin(1, 4) ? total : src.range(0, total);
  d << "pool(initial=" << pl.initial << ", max=" << pl.maxSize << ", idle=" << pl.idleMs << "ms, queue=" << pl.maxQueue
    << (pl.mode ? ", GRACEFUL" : ", IMMEDIATE") << ") end=" << pl.endMode << " after " << pl.trigger << "/" << total
    << " submissions, endDelay=" << pl.endDelaySel << " perturb=1/" << pl.oneIn << "x" << pl.maxDelay << "us seed=" << pl.seed
    << " secondLockDelay=" << pl.secondLockUs << "us\n";
  for (int s = 0; s < nSubs; ++s)
  {
    std::vector<SubOp> ops;
    d << " S" << s << ":";
    for (auto &r : scripts[static_cast<std::size_t>(s)])
    {
      static const int kinds[] = {kVoid, kVoid, kValue, kValue, kThrow, kNested, kNested, kSleep, kSleep, kVoid};
      int kind = kinds[r[0] % 10];
      int api = static_cast<int>(r[1] % 3);
      int sleepUs = 30 + static_cast<int>((r[3] * 7) % 600);
      int id = addTask(cx, kind, api, sleepUs);
      cx.tasks[static_cast<std::size_t>(id)]->throwKind = static_cast<int>((r[3] / 3) % kThrowKinds);
      d << " " << kindName(kind) << (kind == kThrow ? std::string("<") + throwName(static_cast<int>((r[3] / 3) % kThrowKinds)) + ">" : std::string()) << "/"
        << apiName(api)[0] << (api == aResult ? "R" : "");
      if (kind == kNested)
      {
        int nch = 1 + static_cast<int>(r[3] % 3);
        d << "{";
        for (int k = 0; k < nch; ++k)
        {
          static const int ck[] = {kVoid, kValue, kThrow, kSleep};
          int ckind = ck[(r[3] / (3 + k)) % 4];
          int capi = static_cast<int>((r[3] / (7 + k)) % 3);
          int cid = addTask(cx, ckind, capi, 30 + static_cast<int>((r[3] * 11) % 400));
          cx.tasks[static_cast<std::size_t>(cid)]->throwKind = static_cast<int>((r[3] / (11 + k)) % kThrowKinds);
          cx.tasks[static_cast<std::size_t>(id)]->children.push_back(cid);
          d << kindName(ckind) << "/" << apiName(capi)[0] << (capi == aResult ? "R" : "") << (k + 1 < nch ? "," : "");
        }
        d << "}";
      }
      d << pauseName(static_cast<int>(r[2]));
      ops.push_back(SubOp{id, static_cast<int>(r[2])});
    }
    d << "\n";
    pl.subs.push_back(std::move(ops));
  }
  // restart cycles behind a stop()-type end (tasks created now: the task table must not grow later)
  {
    const int cycles = static_cast<int>(src.weighted({4, 2, 1}));
    pl.restart.seed = pl.seed;
    pl.restart.perturbStart = src.coin(1, 2);
    for (int cyc = 0; cyc < 2; ++cyc)
    {
      const int ns = static_cast<int>(src.range(1, 3));
      const int nt = static_cast<int>(src.range(1, 3));
      const int spec = static_cast<int>(src.range(0, 999));
      const int sd = static_cast<int>(src.oneOf<int>({0, 0, 200, 2000}));
      const bool jb = src.coin(2, 3);
      if (cyc >= cycles || !(pl.endMode == 1 || pl.endMode == 4)) continue;
      std::vector<std::vector<int>> wave;
      for (int sI = 0; sI < ns; ++sI)
      {
        std::vector<int> ids;
        for (int k = 0; k < nt; ++k)
        {
          static const int wk[] = {kVoid, kValue, kThrow, kSleep};
          int id = addTask(cx, wk[(spec / (1 + sI + k)) % 4], (spec / (3 + sI * 3 + k)) % 3, 100);
          cx.tasks[static_cast<std::size_t>(id)]->throwKind = (spec / (2 + k)) % kThrowKinds;
          ids.push_back(id);
        }
        wave.push_back(ids);
      }
      pl.restart.waves.push_back(wave);
      pl.restart.stopDelayUs.push_back(sd);
      pl.restart.joinBeforeStop.push_back(jb ? 1 : 0);
      ++pl.restart.cycles;
      d << " restart cycle " << (cyc + 1) << ": " << ns << " submitter(s) x " << nt << " task(s) the moment getState()==Running" << (jb ? ", wave completes" : "")
        << ", " << sd << " us, stop()\n";
    }
  }
  // at most ONE fork-join parent per plan, only where a worker is provably available for the child:
  // maxSize >= 2, the queue can never be full (all tasks of the plan fit), all other tasks are short
  {
    const bool want = src.coin(1, 3);
    const std::int64_t sub = src.range(0, nSubs - 1);
    const std::int64_t pos = src.range(0, 23);
    const int capi = static_cast<int>(src.range(0, 2));
    if (want && pl.maxSize >= 2 && cx.tasks.size() + 1 <= pl.maxQueue)
    {
      auto &ops = pl.subs[static_cast<std::size_t>(sub)];
      TaskRec &t = *cx.tasks[static_cast<std::size_t>(ops[static_cast<std::size_t>(pos) % ops.size()].task)];
      if (t.kind == kVoid || t.kind == kValue || t.kind == kSleep)
      {
        t.kind = kForkJoin;
        int cid = addTask(cx, kValue, capi, 0);
        // addTask may have moved nothing: tasks are held by unique_ptr, `t` stays valid
        t.children.push_back(cid);
        d << " fork-join: task " << ops[static_cast<std::size_t>(pos) % ops.size()].task << " of S" << sub << " forks child " << cid << " via "
          << apiName(capi) << " and waits for it\n";
      }
    }
  }
  c.describe(d.str());
  run(pl, cx, c);
  if (cx.leak) cxp.release();
}

// Fixed case for finding C09-1: the spawn decision is taken under the lock, the spawn happens after
// it. ThreadPool(0, 2, ...) and 8 submitters released together: every one of them sees
// _threads.size() < maxSize and spawns.
void barrierBurst(pbt::Case &c, std::size_t maxSize, int nSubs, int endMode)
{
  pbt::watchdog(150, "C09/shutdown-stalled");
  Plan pl;
  pl.initial = 0;
  pl.maxSize = maxSize;
  pl.idleMs = 50;
  pl.maxQueue = 64;
  pl.endMode = endMode;
  pl.endDelaySel = 0;
  // the second pthread_mutex_lock of every submission - the one inside spawnWorker(), after the
  // spawn decision - is preceded by a scripted 3 ms delay: all submitters decide before the
  // first worker is registered
  pl.seed = 20260925;
  pl.oneIn = 0;
  pl.secondLockUs = 3000;
  auto cxp = std::make_unique<Ctx>();
  for (int s = 0; s < nSubs; ++s)
  {
    std::vector<SubOp> ops;
    for (int k = 0; k < 3; ++k) ops.push_back(SubOp{addTask(*cxp, k == 1 ? kSleep : kVoid, k % 3, 200), 0});
    pl.subs.push_back(ops);
  }
  pl.trigger = nSubs * 3;
  c.describe(pbt::Fmt() << "ThreadPool(0, " << maxSize << ", 50ms, 64): " << nSubs << " submitters released from a barrier, 3 submissions each, then "
                        << (endMode == 0 ? "destruction" : "stop()"));
  run(pl, *cxp, c);
  if (cxp->leak) cxp.release();
}

// Second consequence of the same defect (finding C09-1): the worker is registered in _threads only
// after the spawner re-acquires the mutex. With a 1 ms idle timeout the new worker can run its
// task, time out and leave before that (it does not find itself in the map), so the spawner
// registers a dead thread: _threads.size() == maxSize with no live worker, and every later
// submission is accepted but never executed.
void idleExitBeforeRegistration(pbt::Case &c)
{
  pbt::watchdog(150, "C09/shutdown-stalled");
  Plan pl;
  pl.initial = 0;
  pl.maxSize = 1;
  pl.idleMs = 1;
  pl.maxQueue = 64;
  pl.endMode = 0;
  pl.seed = 20260926;
  pl.secondLockUs = 6000;
  auto cxp = std::make_unique<Ctx>();
  std::vector<SubOp> ops;
  ops.push_back(SubOp{addTask(*cxp, kVoid, aEnqueue, 0), 0});
  ops.push_back(SubOp{addTask(*cxp, kValue, aResult, 0), 0});
  ops.push_back(SubOp{addTask(*cxp, kVoid, aTry, 0), 0});
  pl.subs.push_back(ops);
  pl.trigger = 3;
  c.describe("ThreadPool(0, 1, 1ms, 64): one submitter; the thread that spawns the first worker is delayed 6 ms between creating "
             "it and registering it; two more submissions follow; then destruction");
  run(pl, *cxp, c);
  if (cxp->leak) cxp.release();
}


// ================================================================================ pool_slow
// Work that outlasts every internal time bound of the shutdown paths. Read from thread_pool.hpp:
//   shutdown():  poll "active == 0 && pending == 0" every 50 ms for at most 5000 ms ("proceeding
//                anyway"), sleep 10 ms, re-check, poll again for at most 1000 ms, then join
//   ~ThreadPool: phase 2 barrier <= ~200 ms (+5 ms), phase 3 drain poll <= 5000 ms, phase 4 join
//   drain(t):    poll for at most t ms (stop() uses the default 30 000 ms), failure on timeout;
//                stop() from Running gives up when its drain() fails, stop() from Draining goes
//                straight to shutdown()
// so the join is what really waits. A scenario keeps every worker busy with a task that still
// needs R ms when the end call is made, R just beyond 5000 (first bound), just beyond
// 5000+10+1000 (second bound) or well beyond both, plus short tasks queued behind it. One case runs
// six scenarios concurrently (they sleep), so a case costs ~max(R) wall time and no CPU.
struct SlowPlan
{
  std::size_t initial = 1, maxSize = 1;
  int idleMs = 5;
  int mode = 0;
  int endMode = 0; // 0 destructor 1 stop() 2 shutdown() 3 drain(short)+destructor 4 drain(short)+stop()
  int longMs = 7000;
  int longApi = 0;
  int nShort = 1;
  int shortSpec = 0;
  int offsetMs = 0;  // delay between "long tasks running" and the end call
  int drainMs = 100; // short drain timeout (modes 3, 4)
};
struct SlowResult
{
  std::string sig, what, label;
  bool inconclusive = false;
  bool timed = false;
};
const char *slowEndName(int m)
{
  static const char *n[] = {"~ThreadPool()", "stop()", "shutdown()", "drain(short)+~ThreadPool()", "drain(short)+stop()"};
  return n[m];
}

/// everything that is checked once the pool object is gone (scenario runners of pool_slow / pool_edge)
void verifyDestroyed(Ctx &cx, std::size_t maxSize, const char *endName, SlowResult &res)
{
  sched::sleepUs(300);
  if (cx.lateBodies.load() > 0)
  {
    res.sig = "C09/task-running-after-stop-returned";
    res.what = pbt::Fmt() << "task " << cx.lateId.load() << " started or was still running after " << endName << " had returned";
    return;
  }
  if (!cx.unknownWhat.empty())
  {
    res.inconclusive = true;
    return;
  }
  for (std::size_t i = 0; i < cx.tasks.size(); ++i)
  {
    TaskRec &t = *cx.tasks[i];
    int st = t.status.load(), ex = t.exec.load();
    if (st == sAccepted && ex != 1)
    {
      res.sig = ex ? "C09/task-ran-twice" : "C09/accepted-task-not-run";
      res.what = pbt::Fmt() << "task " << i << " was accepted and ran " << ex << " times";
      return;
    }
    if (st != sAccepted && ex != 0)
    {
      res.sig = "C09/refused-task-ran";
      res.what = pbt::Fmt() << "task " << i << " ran although its submission was refused";
      return;
    }
    if (st == sAccepted && t.hasFut)
    {
      auto fr = checkFuture(t, static_cast<int>(i));
      if (!fr.first.empty())
      {
        res.sig = fr.first;
        res.what = fr.second;
        return;
      }
    }
  }
  if (cx.handlerForeign.load() > 0)
  {
    res.sig = "C09/handler-foreign-exception";
    res.what = cx.handlerForeignWhat;
    return;
  }
  if (cx.unjustified.load() > 0)
  {
    res.sig = "C09/refused-without-documented-reason";
    res.what = cx.unjustifiedWhat;
    return;
  }
  if (static_cast<std::size_t>(cx.maxRunning.load()) > maxSize || cx.maxThreads.load() > maxSize)
  {
    res.sig = "C09/thread-count-exceeds-max";
    res.what = pbt::Fmt() << cx.maxRunning.load() << " concurrent bodies / " << cx.maxThreads.load() << " threads with maxSize " << maxSize;
    return;
  }
  if (cx.forkStuck.load() > 0)
  {
    res.sig = "C09/accepted-child-not-run-while-parent-waits";
    res.what = cx.forkStuckWhat;
    res.timed = true;
  }
}

void runSlow(const SlowPlan &pl, SlowResult &res)
{
  auto cxp = std::make_unique<Ctx>();
  Ctx &cx = *cxp;
  cx.maxSize = pl.maxSize;
  cx.maxQueue = 16;
  Ctx *cxr = &cx;
  auto handler = makeHandler(cxr);
  std::vector<int> longIds, shortIds;
  for (std::size_t i = 0; i < pl.maxSize; ++i) longIds.push_back(addTask(cx, kSleep, (pl.longApi + static_cast<int>(i)) % 3, pl.longMs * 1000));
  for (int i = 0; i < pl.nShort; ++i)
  {
    static const int ck[] = {kValue, kVoid, kThrow, kSleep};
    shortIds.push_back(addTask(cx, ck[(pl.shortSpec / (1 + i)) % 4], (pl.shortSpec / (5 + i)) % 3, 200));
    cx.tasks[static_cast<std::size_t>(shortIds.back())]->throwKind = (pl.shortSpec / (2 + i)) % kThrowKinds;
  }
  cx.pool = new ThreadPool(pl.initial, pl.maxSize, std::chrono::milliseconds(pl.idleMs), cx.maxQueue, handler,
                           pl.mode ? ThreadPool::ShutdownMode::GRACEFUL : ThreadPool::ShutdownMode::IMMEDIATE);
  for (int id : longIds) submit(&cx, id);
  // every worker is inside a long task before the short ones are queued behind them
  for (int spins = 0;; ++spins)
  {
    bool all = true;
    for (int id : longIds)
      if (cx.tasks[static_cast<std::size_t>(id)]->status.load() == sAccepted && cx.tasks[static_cast<std::size_t>(id)]->exec.load() == 0) all = false;
    if (all) break;
    sched::sleepUs(200);
  }
  for (int id : shortIds) submit(&cx, id);
  if (pl.offsetMs) sched::sleepUs(static_cast<std::uint32_t>(pl.offsetMs) * 1000);
  beginStop(cx);
  std::string early;
  auto judge = [&](const char *call)
  {
    cx.afterStop.store(true, std::memory_order_release);
    early = unfinishedAccepted(cx);
    if (!early.empty()) early += std::string(" when ") + call + " returned";
  };
  bool stopFailed = false;
  switch (pl.endMode)
  {
  case 1:
  {
    auto r = cx.pool->stop();
    if (r.success) judge("stop() (success, Stopped)");
    else stopFailed = true;
    break;
  }
  case 2:
    cx.pool->shutdown();
    judge("shutdown()");
    break;
  case 3:
  case 4:
  {
    auto r = cx.pool->drain(static_cast<std::uint32_t>(pl.drainMs));
    (void)r; // times out by construction; no claim is attached to drain()
    if (pl.endMode == 4)
    {
      auto r2 = cx.pool->stop();
      if (r2.success) judge("stop() from Draining (success, Stopped)");
      else stopFailed = true;
    }
    break;
  }
  default: break;
  }
  if (!early.empty())
  {
    // a detached worker is still using the pool and the context: leave both alone
    cxp.release();
    res.sig = "C09/stop-returned-before-accepted-task-finished";
    res.what = early;
    return;
  }
  delete cx.pool;
  judge("~ThreadPool()");
  if (!early.empty())
  {
    cxp.release();
    res.sig = "C09/accepted-task-not-run";
    res.what = early;
    return;
  }
  verifyDestroyed(cx, pl.maxSize, slowEndName(pl.endMode), res);
  if (!res.sig.empty()) return;
  if (stopFailed) res.label = "stop() reported failure (no claim attached)";
}

std::string slowText(const SlowPlan &p)
{
  return pbt::Fmt() << "[pool(initial=" << p.initial << ", max=" << p.maxSize << ", idle=" << p.idleMs << "ms) " << p.maxSize << " task(s) of "
                    << p.longMs << " ms + " << p.nShort << " queued short task(s); " << p.offsetMs << " ms later " << slowEndName(p.endMode)
                    << (p.endMode >= 3 ? " drainTimeout=" + std::to_string(p.drainMs) + "ms" : std::string()) << "]";
}

void runSlowCase(std::vector<SlowPlan> &plans, pbt::Case &c)
{
  iora::core::Logger::setLevel(iora::core::Logger::Level::Fatal);
  std::string d = "pool_slow:";
  for (auto &p : plans) d += " " + slowText(p);
  c.describe(d);
  std::vector<SlowResult> res(plans.size());
  std::vector<std::thread> th;
  for (std::size_t i = 0; i < plans.size(); ++i) th.emplace_back([&, i] { runSlow(plans[i], res[i]); });
  for (auto &t : th) t.join();
  bool inconclusive = false;
  for (std::size_t i = 0; i < plans.size(); ++i)
  {
    if (!res[i].sig.empty())
    {
      c.fail(res[i].sig, slowText(plans[i]) + ": " + res[i].what);
      return;
    }
    inconclusive = inconclusive || res[i].inconclusive;
    if (!res[i].label.empty()) c.label(res[i].label);
    c.label(std::string("end: ") + slowEndName(plans[i].endMode));
    int remaining = plans[i].longMs - plans[i].offsetMs;
    c.label(remaining > 6100 ? "remaining work beyond shutdown()'s 5 s + 1 s polls" : remaining > 5000 ? "remaining work beyond the 5 s poll" : "remaining work < 5 s");
  }
  if (inconclusive) c.inconclusive("submission threw an undocumented exception");
  c.nontrivial(pbt::hash64(d));
}

void generatedSlow(pbt::Src &src, pbt::Case &c)
{
  pbt::watchdog(180, "C09/shutdown-stalled");
  static const int modes[] = {2, 4, 1, 0, 3, 2, 4};
  const int rot = static_cast<int>(src.range(0, 6));
  std::vector<SlowPlan> plans;
  for (int i = 0; i < 6; ++i)
  {
    SlowPlan p;
    p.endMode = modes[(rot + i) % 7];
    p.maxSize = static_cast<std::size_t>(src.range(1, 2));
    p.initial = static_cast<std::size_t>(src.range(0, static_cast<std::int64_t>(p.maxSize)));
    p.idleMs = static_cast<int>(src.oneOf<int>({1, 5, 20}));
    p.mode = static_cast<int>(src.range(0, 1));
    // remaining work at the end call: just beyond the 5 s poll, just beyond 5 s + 10 ms + 1 s, well beyond
    switch (src.weighted({1, 2, 3}))
    {
    case 0: p.longMs = static_cast<int>(src.range(5250, 5900)); break;
    case 1: p.longMs = static_cast<int>(src.range(6400, 7000)); break;
    default: p.longMs = static_cast<int>(src.range(7200, 8800)); break;
    }
    p.offsetMs = static_cast<int>(src.oneOf<int>({0, 0, 20, 100, 250}));
    p.longMs += p.offsetMs; // the class above is about what is left when the end call is made
    p.longApi = static_cast<int>(src.range(0, 2));
    p.nShort = static_cast<int>(src.range(1, 3));
    p.shortSpec = static_cast<int>(src.range(0, 999));
    p.drainMs = static_cast<int>(src.oneOf<int>({1, 60, 300, 1200}));
    plans.push_back(p);
  }
  runSlowCase(plans, c);
}

// Deterministic shape for the seeded/hand-made change "shutdown() lets the workers go when its
// completion polls time out": explicit shutdown() and drain(100)+stop() on a pool whose only worker
// still needs 7 s, with a future-returning task queued behind it.
void slowRegression(pbt::Case &c)
{
  pbt::watchdog(180, "C09/shutdown-stalled");
  std::vector<SlowPlan> plans(2);
  plans[0].endMode = 2;
  plans[1].endMode = 4;
  for (auto &p : plans)
  {
    p.initial = 1;
    p.maxSize = 1;
    p.idleMs = 5;
    p.longMs = 7000;
    p.longApi = aEnqueue;
    p.nShort = 2;
    p.drainMs = 100;
  }
  plans[0].shortSpec = 11; // queued: sleep via enqueueWithResult (future), void via tryEnqueue
  plans[1].shortSpec = 10; // queued: throwing via enqueueWithResult (future), void via tryEnqueue
  runSlowCase(plans, c);
}

// ================================================================================ pool_edge
// Two narrow shapes, several small pools per case, one after the other:
//  idle : pool(0, max 1-2, idle 1-5 ms). `max` warm-up tasks bring up all workers; when they have
//         finished, the scenario thread sleeps one idle timeout plus an offset and makes the LAST
//         submission of the plan right where the workers give up (idle-timeout exit); nothing is
//         submitted afterwards; then destruction / shutdown(). With interposition each warm-up body
//         scripts a delay before its worker's 2nd mutex lock after the body (1st = top of the worker
//         loop; a 2nd one exists only if the worker takes the pool mutex again before it leaves),
//         which holds a retiring worker in any unlocked gap of its exit path while the submission
//         lands. Unchanged code: exit decision and de-registration happen under one lock hold, so the
//         submission either finds the worker waiting (and wakes it) or finds it gone (and spawns).
//  fork : pool(0-1, max 2-3): a fork-join parent (see kForkJoin), alone or next to a few short tasks.
struct EdgePlan
{
  int shape = 0; // 0 idle, 1 fork
  std::size_t initial = 0, maxSize = 1;
  int idleMs = 1;
  int gapUs = 0;       // scripted delay (idle shape, interposed builds)
  int offsetUs = 0;    // final submission = warm-up finished + idle timeout + offset
  int finalKind = kValue, finalApi = aResult;
  int endMode = 0;     // 0 destructor, 2 shutdown()
  int endDelayUs = 0;
  int parentApi = 0, childApi = 2;
  int nBefore = 0, nAfter = 0; // short tasks around the fork-join parent
  bool letWorkersExit = false; // fork shape: pause > idle timeout between the short tasks and the parent
  bool waitParentStarted = false; // fork shape: the end call is not made before the parent body runs
  // restart shape (2): a few tasks, stop(), then 1-3 x [reset(), start(), wave of submitters that submit the
  // moment getState() == Running, stop()]; initialSize up to 8 widens start()'s spawn loop
  int cycles = 1, waveSubs = 2, waveTasks = 2, waveSpec = 0;
  bool perturbStart = true;
};

std::string edgeText(const EdgePlan &p)
{
  pbt::Fmt f;
  if (p.shape == 2)
    f << "[restart: pool(" << p.initial << "," << p.maxSize << ",idle=" << p.idleMs << "ms) 2 tasks, stop(), " << p.cycles << " x {reset(), start()"
      << (p.perturbStart ? " with delayed locks" : "") << ", " << p.waveSubs << " submitter(s) x " << p.waveTasks
      << " task(s) the moment getState()==Running, stop()}, then ~ThreadPool()]";
  else if (p.shape == 0)
    f << "[idle: pool(0," << p.maxSize << ",idle=" << p.idleMs << "ms) " << p.maxSize << " warm-up task(s), last submission (" << kindName(p.finalKind) << " via "
      << apiName(p.finalApi) << ") " << p.offsetUs << " us after the idle timeout, retiring workers held " << p.gapUs << " us, then "
      << (p.endMode ? "shutdown()" : "~ThreadPool()") << "]";
  else
    f << "[fork: pool(" << p.initial << "," << p.maxSize << ",idle=" << p.idleMs << "ms) " << p.nBefore << " short task(s)" << (p.letWorkersExit ? ", pause > idle" : "")
      << ", fork-join parent via " << apiName(p.parentApi) << " (child via " << apiName(p.childApi) << "), " << p.nAfter << " short task(s), " << (p.waitParentStarted ? "wait until the parent runs, " : "") << p.endDelayUs << " us, then "
      << (p.endMode ? "shutdown()" : "~ThreadPool()") << "]";
  return f.str();
}

void runEdge(const EdgePlan &pl, SlowResult &res)
{
  auto cxp = std::make_unique<Ctx>();
  Ctx &cx = *cxp;
  cx.maxSize = pl.maxSize;
  cx.maxQueue = 32;
  Ctx *cxr = &cx;
  auto handler = makeHandler(cxr);
  cx.pool = new ThreadPool(pl.initial, pl.maxSize, std::chrono::milliseconds(pl.idleMs), cx.maxQueue, handler);
  auto waitFinished = [&](const std::vector<int> &ids)
  {
    for (;;)
    {
      bool all = true;
      for (int id : ids)
        if (cx.tasks[static_cast<std::size_t>(id)]->status.load() == sAccepted && cx.tasks[static_cast<std::size_t>(id)]->finished.load() == 0) all = false;
      if (all) return;
      sched::sleepUs(30);
    }
  };
  if (pl.shape == 2)
  {
    RestartPlan rp;
    rp.seed = static_cast<std::uint64_t>(pl.waveSpec) + 17;
    rp.perturbStart = pl.perturbStart;
    std::vector<int> first{addTask(cx, kValue, aResult, 0), addTask(cx, kVoid, aEnqueue, 0)};
    for (int cyc = 0; cyc < pl.cycles; ++cyc)
    {
      std::vector<std::vector<int>> wave;
      for (int sI = 0; sI < pl.waveSubs; ++sI)
      {
        std::vector<int> ids;
        for (int k = 0; k < pl.waveTasks; ++k)
        {
          static const int wk[] = {kValue, kVoid, kThrow, kSleep};
          int id = addTask(cx, wk[(pl.waveSpec / (1 + sI + k + cyc)) % 4], (pl.waveSpec / (3 + sI * 3 + k) + cyc) % 3, 100);
          cx.tasks[static_cast<std::size_t>(id)]->throwKind = (pl.waveSpec / (2 + k)) % kThrowKinds;
          ids.push_back(id);
        }
        wave.push_back(ids);
      }
      rp.waves.push_back(wave);
      rp.stopDelayUs.push_back((pl.waveSpec / (5 + cyc)) % 3 == 0 ? 500 : 0);
      rp.joinBeforeStop.push_back((pl.waveSpec / (7 + cyc)) % 3 != 0 ? 1 : 0);
      ++rp.cycles;
    }
    for (int id : first) submit(&cx, id);
    beginStop(cx);
    auto st = cx.pool->stop();
    std::string early;
    if (st.success)
    {
      cx.afterStop.store(true, std::memory_order_release);
      early = unfinishedAccepted(cx);
      if (early.empty())
      {
        RestartOutcome ro;
        restartCycles(cx, rp, ro);
        early = ro.early;
        res.label = ro.label;
      }
    }
    if (!early.empty())
    {
      cxp.release();
      res.sig = "C09/stop-returned-before-accepted-task-finished";
      res.what = early;
      return;
    }
  }
  else if (pl.shape == 0)
  {
    std::vector<int> warm;
    for (std::size_t i = 0; i < pl.maxSize; ++i)
    {
      int id = addTask(cx, kVoid, aEnqueue, 0);
      cx.tasks[static_cast<std::size_t>(id)]->gapLockNth = 2;
      cx.tasks[static_cast<std::size_t>(id)]->gapUs = sched::kInterposed ? pl.gapUs : 0;
      warm.push_back(id);
    }
    int fin = addTask(cx, pl.finalKind, pl.finalApi, 100);
    cx.tasks[static_cast<std::size_t>(fin)]->throwKind = (pl.offsetUs < 0 ? -pl.offsetUs : pl.offsetUs) % kThrowKinds;
    for (int id : warm) submit(&cx, id);
    waitFinished(warm);
    int us = pl.idleMs * 1000 + pl.offsetUs;
    if (us > 0) sched::sleepUs(static_cast<std::uint32_t>(us));
    submit(&cx, fin); // the last submission of this pool's life
  }
  else
  {
    std::vector<int> before;
    for (int i = 0; i < pl.nBefore; ++i) before.push_back(addTask(cx, i % 2 ? kSleep : kVoid, i % 3, 150));
    int parent = addTask(cx, kForkJoin, pl.parentApi, 0);
    int child = addTask(cx, kValue, pl.childApi, 0);
    cx.tasks[static_cast<std::size_t>(parent)]->children.push_back(child);
    std::vector<int> after;
    for (int i = 0; i < pl.nAfter; ++i) after.push_back(addTask(cx, i % 2 ? kVoid : kSleep, (i + 1) % 3, 100));
    for (int id : before) submit(&cx, id);
    if (pl.letWorkersExit)
    {
      waitFinished(before);
      sched::sleepUs(static_cast<std::uint32_t>(pl.idleMs * 1000 + 1500));
    }
    submit(&cx, parent);
    for (int id : after) submit(&cx, id);
    if (pl.waitParentStarted)
      while (cx.tasks[static_cast<std::size_t>(parent)]->status.load() == sAccepted && cx.tasks[static_cast<std::size_t>(parent)]->exec.load() == 0) sched::sleepUs(30);
  }
  if (pl.endDelayUs) sched::sleepUs(static_cast<std::uint32_t>(pl.endDelayUs));
  beginStop(cx);
  std::string early;
  if (pl.endMode == 2)
  {
    cx.pool->shutdown();
    cx.afterStop.store(true, std::memory_order_release);
    early = unfinishedAccepted(cx);
    if (!early.empty())
    {
      cxp.release();
      res.sig = "C09/stop-returned-before-accepted-task-finished";
      res.what = early + " when shutdown() returned";
      return;
    }
  }
  delete cx.pool;
  cx.afterStop.store(true, std::memory_order_release);
  early = unfinishedAccepted(cx);
  if (!early.empty())
  {
    // nobody is left to run it (or a worker survived the destructor): keep the context alive either way
    cxp.release();
    res.sig = "C09/accepted-task-not-run";
    res.what = early + " when ~ThreadPool() returned";
    return;
  }
  verifyDestroyed(cx, pl.maxSize, pl.endMode ? "shutdown()" : "~ThreadPool()", res);
}

void runEdgeCase(std::vector<EdgePlan> &plans, pbt::Case &c)
{
  iora::core::Logger::setLevel(iora::core::Logger::Level::Fatal);
  std::string d = "pool_edge:";
  for (auto &p : plans) d += " " + edgeText(p);
  c.describe(d);
  bool inconclusive = false;
  for (auto &p : plans)
  {
    SlowResult res;
    runEdge(p, res);
    if (!res.sig.empty())
    {
      if (res.timed) c.failTimed(res.sig, edgeText(p) + ": " + res.what);
      else c.fail(res.sig, edgeText(p) + ": " + res.what);
      return;
    }
    inconclusive = inconclusive || res.inconclusive;
    c.label(p.shape == 2 ? "restart cycles" : p.shape == 0 ? (p.gapUs && sched::kInterposed ? "idle boundary, retiring worker held" : "idle boundary, natural timing") : "fork-join parent");
    if (!res.label.empty()) c.label(res.label);
  }
  if (inconclusive) c.inconclusive("submission threw an undocumented exception");
  c.nontrivial(pbt::hash64(d));
}

void generatedEdge(pbt::Src &src, pbt::Case &c)
{
  pbt::watchdog(150, "C09/shutdown-stalled");
  std::vector<EdgePlan> plans;
  for (int i = 0; i < 6; ++i)
  {
    EdgePlan p;
    p.shape = i < 4 ? 0 : 1;
    p.endMode = src.coin(1, 3) ? 2 : 0;
    p.endDelayUs = static_cast<int>(src.oneOf<int>({0, 0, 100, 1000, 3000}));
    if (p.shape == 0)
    {
      p.initial = 0;
      p.maxSize = static_cast<std::size_t>(src.range(1, 2));
      p.idleMs = static_cast<int>(src.oneOf<int>({1, 1, 2, 3, 5}));
      p.gapUs = static_cast<int>(src.oneOf<int>({0, 2000, 4000, 4000, 6000}));
      if (p.gapUs && sched::kInterposed)
        p.offsetUs = static_cast<int>(p.gapUs * src.range(15, 80) / 100); // inside the held interval
      else
        p.offsetUs = static_cast<int>(src.range(-300, 800));               // around the natural boundary
      static const int fk[] = {kValue, kVoid, kThrow, kSleep};
      p.finalKind = fk[src.range(0, 3)];
      p.finalApi = static_cast<int>(src.range(0, 2));
    }
    else
    {
      p.maxSize = static_cast<std::size_t>(src.range(2, 3));
      p.initial = static_cast<std::size_t>(src.range(0, 1));
      p.idleMs = static_cast<int>(src.oneOf<int>({2, 5, 20}));
      p.parentApi = static_cast<int>(src.range(0, 2));
      p.childApi = static_cast<int>(src.range(0, 2));
      p.nBefore = static_cast<int>(src.weighted({3, 1, 1, 1}));
      p.nAfter = static_cast<int>(src.weighted({3, 1, 1, 1}));
      p.letWorkersExit = src.coin(1, 2);
      p.waitParentStarted = src.coin(2, 3);
    }
    plans.push_back(p);
  }
  {
    EdgePlan p;
    p.shape = 2;
    p.endMode = 0;
    p.maxSize = 8;
    p.initial = static_cast<std::size_t>(src.range(1, 8));
    p.idleMs = 20;
    p.cycles = static_cast<int>(src.range(1, 3));
    p.waveSubs = static_cast<int>(src.range(1, 4));
    p.waveTasks = static_cast<int>(src.range(1, 3));
    p.waveSpec = static_cast<int>(src.range(0, 999));
    p.perturbStart = src.coin(3, 4);
    plans.push_back(p);
  }
  runEdgeCase(plans, c);
}

// Deterministic shapes (replays/C09/regress-last_submission_at_idle_exit.json, ...fork_join_child_runs...)
void idleExitRegression(pbt::Case &c)
{
  pbt::watchdog(150, "C09/shutdown-stalled");
  std::vector<EdgePlan> plans;
  for (int i = 0; i < 6; ++i)
  {
    EdgePlan p;
    p.shape = 0;
    p.maxSize = static_cast<std::size_t>(1 + i % 2);
    p.idleMs = 1 + i % 3;
    p.gapUs = 6000;
    p.offsetUs = 2000 + 500 * i;
    p.finalKind = kValue;
    p.finalApi = i % 3;
    p.endMode = 0;
    plans.push_back(p);
  }
  runEdgeCase(plans, c);
}
void restartRegression(pbt::Case &c)
{
  pbt::watchdog(150, "C09/shutdown-stalled");
  std::vector<EdgePlan> plans;
  for (int i = 0; i < 3; ++i)
  {
    EdgePlan p;
    p.shape = 2;
    p.initial = 8;
    p.maxSize = 8;
    p.idleMs = 20;
    p.cycles = 2;
    p.waveSubs = 3;
    p.waveTasks = 2;
    p.waveSpec = 100 + 37 * i;
    p.perturbStart = true;
    plans.push_back(p);
  }
  runEdgeCase(plans, c);
}
void forkJoinRegression(pbt::Case &c)
{
  pbt::watchdog(150, "C09/shutdown-stalled");
  std::vector<EdgePlan> plans;
  for (int i = 0; i < 3; ++i)
  {
    EdgePlan p;
    p.shape = 1;
    p.initial = 0;
    p.maxSize = 2;
    p.idleMs = 20;
    p.parentApi = i;
    p.childApi = (i + 2) % 3;
    p.waitParentStarted = true;
    p.endDelayUs = 2000;
    p.endMode = 0;
    plans.push_back(p);
  }
  runEdgeCase(plans, c);
}

// Every throw kind through every API: futures must rethrow exactly what the task threw; throwing
// fire-and-forget tasks must not cost the pool a worker or a later task.
void throwKindsRegression(pbt::Case &c)
{
  pbt::watchdog(150, "C09/shutdown-stalled");
  Plan pl;
  pl.initial = 1;
  pl.maxSize = 2;
  pl.idleMs = 20;
  pl.maxQueue = 64;
  pl.endMode = 0;
  auto cxp = std::make_unique<Ctx>();
  std::vector<SubOp> ops;
  for (int api = 2; api >= 0; --api)
    for (int k = 0; k < kThrowKinds; ++k)
    {
      int id = addTask(*cxp, kThrow, api, 0);
      cxp->tasks[static_cast<std::size_t>(id)]->throwKind = k;
      ops.push_back(SubOp{id, 0});
      ops.push_back(SubOp{addTask(*cxp, kValue, aResult, 0), 0}); // a later task behind every throwing one
    }
  pl.subs.push_back(ops);
  pl.trigger = static_cast<long>(ops.size());
  c.describe("pool(1,2,20ms,64): the 8 throw kinds (TaskError, int, const char*, std::string, PlainError, PayloadError, two nested forms) via "
             "enqueueWithResult, tryEnqueue and enqueue, each followed by a value task with a future; then destruction");
  run(pl, *cxp, c);
  if (cxp->leak) cxp.release();
}

} // namespace c09

PBT_REGRESSION(worker_idle_exit_before_registration) { c09::idleExitBeforeRegistration(c); }
PBT_PROPERTY(pool) { c09::generated(src, c); }
PBT_PROPERTY(pool_slow) { c09::generatedSlow(src, c); }
PBT_PROPERTY(pool_edge) { c09::generatedEdge(src, c); }
PBT_REGRESSION(restarted_pool_accepts_as_soon_as_it_reports_running) { c09::restartRegression(c); }
PBT_REGRESSION(future_rethrows_exactly_what_the_task_threw) { c09::throwKindsRegression(c); }
PBT_REGRESSION(last_submission_at_idle_exit) { c09::idleExitRegression(c); }
PBT_REGRESSION(fork_join_child_runs_while_parent_waits) { c09::forkJoinRegression(c); }
PBT_REGRESSION(stop_waits_for_task_longer_than_internal_polls) { c09::slowRegression(c); }
PBT_REGRESSION(max_threads_barrier_submitters) { c09::barrierBurst(c, 2, 8, 0); }
PBT_REGRESSION(max_threads_barrier_submitters_max1_stop) { c09::barrierBurst(c, 1, 8, 1); }

PBT_MAIN()
