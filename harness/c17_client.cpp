// C17 - the HTTP client transmits a non-idempotent request at most once.
//
// A real iora::network::HttpClient talks to a SCRIPTED RAW-SOCKET SERVER (one poll()
// loop thread, harness/common/c16_rawhttp.hpp, no iora code). The script says, per
// exchange (= per request that starts to arrive, in arrival order), where the exchange
// fails: refuse the connect, RST right after accept, consume k request octets then
// FIN / RST / close-with-unread-data / go silent, answer up to octet j then FIN / RST /
// go silent, answer with a deterministic framing violation, or answer completely (keep-
// alive, 'Connection: close', surplus octets, HTTP/1.0, close-delimited ...).
// Every logical request carries a unique token in its path, so the server can count on
// how many connections each request showed up.
//   * non-idempotent method: <= 1 exchange carried >= 1 octet of it
//   * idempotent method: <= budget + 1 exchanges
//   * after a deterministic framing error has been delivered: no further exchange
//   * a connection that carried a failure / close signal / surplus octets never sees
//     the start of another request; no request starts before the previous response
//     was written completely (no interleaving under concurrent callers)
//   * every call returns (value or exception) within the sum of its configured
//     time-outs and back-offs plus a generous slack (watchdog)
#include "pbt.hpp"
#include "c16_rawhttp.hpp"

#include <iora/network/http_client.hpp>

#include <atomic>
#include <condition_variable>
#include <map>
#include <mutex>
#include <thread>

using iora::network::HttpClient;
using namespace rawhttp;

namespace
{

// HttpClient's public API offers GET / HEAD / POST / DELETE only; the retry rule is keyed on
// the method token, so PUT / PATCH / non-canonical tokens go through the private
// performRequest(). Explicit template instantiation may name private members ([temp.spec]/6).
using PerformFn = HttpClient::Response (HttpClient::*)(const std::string &, const std::string &,
                                                       const std::string &,
                                                       const std::map<std::string, std::string> &, int);
template <PerformFn F> struct StealPerform
{
  friend PerformFn stolenPerform() { return F; }
};
PerformFn stolenPerform();
template struct StealPerform<&HttpClient::performRequest>;

bool idempotent(const std::string &m)
{
  // RFC 9110 9.2.2 (and HttpClient's own documentation): exact, case-sensitive
  return m == "GET" || m == "HEAD" || m == "PUT" || m == "DELETE" || m == "OPTIONS" || m == "TRACE";
}

// ------------------------------------------------------------------------ the script
enum class Then
{
  Keep,        // leave the connection open and wait for the next request
  Fin,         // shutdown(SHUT_WR), keep draining
  Rst,         // SO_LINGER 0 close
  Stall,       // say nothing more, keep the connection open
  CloseUnread  // close() while request octets are unread (kernel answers with RST)
};
const char *thenName(Then t)
{
  static const char *n[] = {"keep", "FIN", "RST", "stall", "close-unread"};
  return n[static_cast<int>(t)];
}

enum Framing
{
  ByLength = 0,
  Chunked,
  CloseDelimited,
  NoContent204,
  NotModified304
};

// Connection header forms of a scripted response: up to two field lines
struct ConnForm
{
  const char *l1, *l2;
};
constexpr int kConnForms = 14;
inline const ConnForm &connForm(int k)
{
  static const ConnForm f[kConnForms] = {{"", ""}, {"keep-alive", ""}, {"close", ""}, {"Close", ""}, {"foo, close", ""},
                                         {"x-close-hint", ""}, {"CLOSE , te", ""}, {"keep-alive, close", ""}, {"Keep-Alive", ""},
                                         {"X-Trace", ""}, {"TE, x-trace", ""}, {"x-trace", "close"}, {"close", "x-trace"},
                                         {"keep-alive", "x-trace"}};
  return f[k];
}
inline bool fieldHasToken(const char *v, const char *tok) { return listHasToken(v, tok); }
/// close signal by RFC 9112 9.3/9.6 (all field lines combined; HTTP/1.0 without keep-alive is not persistent)
inline bool rfcCloseSignal(int k, int version)
{
  const ConnForm &f = connForm(k);
  bool close = fieldHasToken(f.l1, "close") || fieldHasToken(f.l2, "close");
  bool keep = fieldHasToken(f.l1, "keep-alive") || fieldHasToken(f.l2, "keep-alive");
  return close || (version == 10 && !keep);
}
/// what the unchanged HttpClient makes of it (checked on /repo: its header map keeps the LAST field line only)
inline bool clientCloseSignal(int k, int version)
{
  const ConnForm &f = connForm(k);
  const char *last = f.l2[0] ? f.l2 : f.l1;
  return fieldHasToken(last, "close") || (version == 10 && !fieldHasToken(last, "keep-alive"));
}
/// the oracle demands "next request on a new connection" only where both agree on a close signal;
/// where they disagree the outcome is recorded (label), no verdict
inline bool demandedCloseSignal(int k, int version) { return rfcCloseSignal(k, version) && clientCloseSignal(k, version); }
inline bool disputedCloseSignal(int k, int version) { return rfcCloseSignal(k, version) != clientCloseSignal(k, version); }

struct RespSpec
{
  int status = 200;
  int framing = ByLength;
  std::size_t bodySize = 2;
  int version = 11;      // 11 or 10
  int connHeader = 0;    // index into connForm()
  std::size_t surplus = 0;
  bool interim100 = false;
  int malformed = 0;     // 0 = well-formed; else a deterministic framing violation
};

struct Action
{
  bool acceptRst = false; // RST right after accept (no octet is read)
  long consumeSel = -1;   // -1: consume the whole request; else k = 1 + consumeSel % requestSize
  bool respond = true;
  RespSpec resp;
  long cutSel = -1;       // -1: write the whole response; else j = cutSel % (size + 1)
  Then then = Then::Keep;
  int delayMs = 0;
};

// kinds 1-26 are deterministic framing violations for the unchanged client (read off
// HttpClient::parseHeaderBlock / determineFraming / advanceChunked and confirmed by the regression
// `malformed_status_line_not_retried` on /repo); kinds 27-28 are status lines a strict reader
// rejects but this client accepts - no verdict, the outcome is only recorded (labels).
const char *malformedName(int m)
{
  static const char *n[] = {"-", "bad status line", "HTTP/2.0", "status '2x0'", "header without colon", "obs-fold",
                            "Content-Length: abc", "Content-Length: 5, 6", "two different Content-Length",
                            "Content-Length and Transfer-Encoding", "chunk-size 'zz'", "chunk-size '5 x'",
                            "chunk data without CRLF", "Content-Length 99999999999999999999",
                            "version HTTP/1.10", "version HTTP/1", "version HTTP/1.x", "version HTTP/11", "version HTTP/1.1.1",
                            "version http/1.1", "version HTTP1.1 (no slash)", "two spaces before the status code",
                            "leading space", "status code 2000", "status code +200", "empty version 'HTTP/ 200'",
                            "HTAB instead of SP after the version",
                            "lenient: status code 20", "lenient: two spaces after the status code",
                            // 29..40: a chunk-size line that declares more than the client's response cap
                            "chunk 1 declares cap+1", "chunk 1 declares cap+1, some data", "chunk 2 declares cap+1", "chunk 2 declares cap+1, some data",
                            "chunk 1 declares 1 GiB", "chunk 1 declares 1 GiB, some data", "chunk 2 declares 1 GiB", "chunk 2 declares 1 GiB, some data",
                            "chunk 1 declares 2^63", "chunk 1 declares 2^63, some data", "chunk 2 declares 2^63", "chunk 2 declares 2^63, some data"};
  return n[m];
}
constexpr int kMalformedKinds = 40;
constexpr int kFirstLenientKind = 27;
constexpr int kFirstOversizedChunkKind = 29;
constexpr std::size_t kDefaultResponseCap = 16 * 1024 * 1024; // max(Config::maxResponseBytes, jsonConfig.maxPayloadSize) by default
inline bool lenientKind(int m) { return m == 27 || m == 28; }
inline bool oversizedChunkKind(int m) { return m >= kFirstOversizedChunkKind && m <= 40; }
inline bool statusLineKind(int m) { return (m >= 1 && m <= 3) || (m >= 14 && m < kFirstLenientKind); }

// Is response kind `m` a framing violation for a request with this method? (HEAD and
// bodyless statuses are framed without looking at the length fields.)
bool malformedApplies(int m, const std::string &method, const RespSpec &s)
{
  if (m == 0 || lenientKind(m)) return false;
  if (m <= 5 || m == 8 || statusLineKind(m)) return true; // status line / header syntax / conflicting duplicate: always
  bool bodyless = method == "HEAD" || s.framing == NoContent204 || s.framing == NotModified304;
  return !bodyless;
}

std::string bodyFor(const std::string &tok, std::size_t n)
{
  std::string unit = "{" + tok + "}";
  std::string s;
  while (s.size() < n) s += unit;
  s.resize(n);
  return s;
}

struct Rendered
{
  std::string bytes;
  std::size_t surplusFrom = 0; // offset where surplus octets start (== size if none)
  std::size_t headerEnd = 0;   // offset just behind the header block of the final response
  bool closeSignal = false;    // the peer must not reuse the connection
  bool closeDelimited = false;
  bool framingError = false;
  int status = 0;
};

Rendered render(const RespSpec &s, const std::string &method, const std::string &tok, std::size_t cap = kDefaultResponseCap)
{
  Rendered r;
  const bool head = method == "HEAD";
  std::string out;
  if (s.interim100) out += "HTTP/1.1 100 Continue\r\n\r\n";
  int status = s.status;
  int framing = s.framing;
  if (framing == NoContent204) status = 204;
  if (framing == NotModified304) status = 304;
  r.status = status;
  std::string ver = s.version == 10 ? "HTTP/1.0" : "HTTP/1.1";
  std::string statusLine = ver + " " + std::to_string(status) + " Scripted";
  if (s.malformed == 1) statusLine = "HTP/1.1 " + std::to_string(status) + " Scripted";
  if (s.malformed == 2) statusLine = "HTTP/2.0 " + std::to_string(status) + " Scripted";
  if (s.malformed == 3) statusLine = ver + " 2x0 Scripted";
  {
    const std::string code = std::to_string(status), tail = " " + code + " Scripted";
    switch (s.malformed)
    {
    case 14: statusLine = "HTTP/1.10" + tail; break;
    case 15: statusLine = "HTTP/1" + tail; break;
    case 16: statusLine = "HTTP/1.x" + tail; break;
    case 17: statusLine = "HTTP/11" + tail; break;
    case 18: statusLine = "HTTP/1.1.1" + tail; break;
    case 19: statusLine = "http/1.1" + tail; break;
    case 20: statusLine = "HTTP1.1" + tail; break;
    case 21: statusLine = ver + " " + tail; break;
    case 22: statusLine = " " + ver + tail; break;
    case 23: statusLine = ver + " 2000 Scripted"; break;
    case 24: statusLine = ver + " +" + code + " Scripted"; break;
    case 25: statusLine = "HTTP/" + tail; break;
    case 26: statusLine = ver + "\t" + code + " Scripted"; break;
    case 27: statusLine = ver + " 20 Scripted"; break;
    case 28: statusLine = ver + " " + code + "  Scripted"; break;
    default: break;
    }
  }
  out += statusLine + "\r\n";
  out += "X-Token: " + tok + "\r\n";
  if (s.malformed == 4) out += "this line has no colon\r\n";
  if (s.malformed == 5) out += "X-Folded: a\r\n  continued\r\n";
  if (s.connHeader)
  {
    const ConnForm &cf = connForm(s.connHeader);
    out += std::string(s.connHeader % 2 ? "Connection: " : "connection: ") + cf.l1 + "\r\n";
    if (cf.l2[0]) out += std::string(s.connHeader % 2 ? "CONNECTION: " : "Connection: ") + cf.l2 + "\r\n";
  }
  std::string body = bodyFor(tok, s.bodySize);
  bool bodyless = head || framing == NoContent204 || framing == NotModified304;
  std::string payload;
  switch (framing)
  {
  case ByLength:
  case NotModified304:
    if (s.malformed == 6) out += "Content-Length: abc\r\n";
    else if (s.malformed == 7) out += "Content-Length: " + std::to_string(body.size()) + ", " + std::to_string(body.size() + 1) + "\r\n";
    else if (s.malformed == 8) out += "Content-Length: " + std::to_string(body.size()) + "\r\nContent-Length: " + std::to_string(body.size() + 3) + "\r\n";
    else if (s.malformed == 9) out += "Content-Length: " + std::to_string(body.size()) + "\r\nTransfer-Encoding: chunked\r\n";
    else if (s.malformed == 13) out += "Content-Length: 99999999999999999999\r\n";
    else out += "Content-Length: " + std::to_string(body.size()) + "\r\n";
    payload = body;
    break;
  case Chunked:
  {
    out += "Transfer-Encoding: chunked\r\n";
    if (s.malformed == 8) out += "Content-Length: 1\r\nContent-Length: 2\r\n";
    if (s.malformed == 9) out += "Content-Length: " + std::to_string(body.size()) + "\r\n";
    std::size_t off = 0, n = 0;
    int idx = 0;
    while (off < body.size())
    {
      n = std::min<std::size_t>(body.size() - off, 1 + (off * 5 + 3) % 37);
      char b[32];
      std::snprintf(b, sizeof b, "%zx", n);
      std::string sizeLine = b;
      if (idx == 0 && s.malformed == 10) sizeLine = "zz";
      if (idx == 0 && s.malformed == 11) sizeLine += " x";
      payload += sizeLine + "\r\n";
      payload.append(body, off, n);
      payload += (idx == 0 && s.malformed == 12) ? "XY" : "\r\n";
      off += n;
      ++idx;
    }
    if (body.empty() && (s.malformed >= 10 && s.malformed <= 12)) payload += "zz\r\n";
    payload += "0\r\n\r\n";
    if (oversizedChunkKind(s.malformed))
    {
      // [one valid chunk] + a size line beyond the cap [+ a few data octets]; nothing else follows
      int v = s.malformed - kFirstOversizedChunkKind;
      unsigned long long declared = v / 4 == 0 ? static_cast<unsigned long long>(cap) + 1 : v / 4 == 1 ? 0x40000000ULL : 0x8000000000000000ULL;
      if (declared <= cap) declared = static_cast<unsigned long long>(cap) + 1;
      char b[32];
      std::snprintf(b, sizeof b, (v % 2) ? "%llX" : "%llx", declared);
      payload.clear();
      if ((v / 2) % 2) payload += "5\r\nhello\r\n";
      payload += std::string(b) + "\r\n";
      if (v % 2) payload += "partial";
    }
    break;
  }
  case CloseDelimited:
    payload = body;
    if (s.malformed == 6) out += "Content-Length: abc\r\n";
    if (s.malformed == 8) out += "Content-Length: 1\r\nContent-Length: 2\r\n";
    break;
  case NoContent204:
    if (s.malformed == 8) out += "Content-Length: 1\r\nContent-Length: 2\r\n";
    break;
  }
  out += "\r\n";
  r.headerEnd = out.size();
  if (!bodyless) out += payload;
  r.surplusFrom = out.size();
  if (s.surplus)
  {
    std::string extra = "HTTP/1.1 200 Surplus\r\nContent-Length: 0\r\n\r\n";
    while (extra.size() < s.surplus) extra += extra;
    extra.resize(s.surplus);
    out += extra;
  }
  r.bytes = std::move(out);
  r.framingError = malformedApplies(s.malformed, method, s);
  r.closeDelimited = !bodyless && framing == CloseDelimited && !r.framingError;
  r.closeSignal = demandedCloseSignal(s.connHeader, s.version) || r.closeDelimited || s.surplus > 0 || r.framingError;
  return r;
}

// ---------------------------------------------------------------- logical requests
struct Logical
{
  std::string method = "GET";
  int budget = 0;
  std::size_t bodySize = 0;
  int refuseMs = 0; // the port refuses connections for this long after the call starts
  std::string token;
  int caller = 0;
  int entry = 0; // POST only: 0 post(), 1 postJson(), 2 postStream(), 3 postJsonAsync() - the body then travels as a JSON string
};

struct CallOutcome
{
  bool returned = false;
  int status = 0;
  std::string errKind; // "", "framing", "not-sent", "other"
  std::string errWhat;
  double ms = 0;
};

struct Plan
{
  std::vector<Logical> reqs;
  std::vector<Action> script;
  int callers = 1;
  int requestTimeoutMs = 250;
  std::size_t capBytes = 0; // 0: the client's default response cap (16 MiB); else maxResponseBytes = jsonConfig.maxPayloadSize = capBytes
  bool reuse = true;
};

// --------------------------------------------------------------------------- server
struct Exchange
{
  int conn = -1;
  int action = -1;
  std::string token, method;
  bool headerSeen = false;
  std::size_t total = 0;     // size of the request once the header block is known
  std::size_t received = 0;  // octets consumed for this exchange
  std::size_t k = 0;         // consumption target
  bool requestComplete = false;
  std::string requestProblem;
  bool responseWritten = false; // every octet the script wanted was written
  bool responseComplete = false; // ... and that was the complete response (no cut)
  bool acceptableToPeer = false; // the peer may legitimately take what was written for a complete response
  int malformedKind = 0;         // script entry's malformed kind (0 = none)
  bool anyStatus = false;        // lenient status line: whatever status the peer reports is fine
  bool framingErrorDelivered = false;
  bool wellFormedDelivered = false;
  int statusSent = 0;
  std::string faultDesc;
  bool fault = false; // anything but a complete well-formed keep-alive answer
  double tStartMs = 0;
  std::string raw; // consumed request octets
};

struct Violation
{
  std::string sig, what;
};

class Server
{
public:
  explicit Server(const Plan &p) : plan(p) {}
  bool start()
  {
    if (!port.open()) return false;
    if (!port.startListening()) return false;
    t0 = Clock::now();
    th = std::thread([this] { loop(); });
    return true;
  }
  void stop()
  {
    quit.store(true);
    if (th.joinable()) th.join();
  }
  /// stop accepting now (synchronously) and resume `ms` later
  void refuseFor(int ms)
  {
    std::unique_lock<std::mutex> lk(mu);
    refuseReq = ms;
    cv.wait(lk, [this] { return refuseReq == 0; });
  }
  std::uint16_t portNo() const { return port.port; }

  // results (read after stop())
  std::vector<Exchange> exchanges;
  std::vector<Violation> violations;
  int acceptRsts = 0;
  int accepted = 0;
  std::string problem; // harness-level trouble (not a verdict)
  std::vector<std::string> notes; // observations without verdict (labels)

private:
  enum class St
  {
    Idle,     // waiting for the first octet of a request
    Reading,  // consuming up to k octets
    Delay,    // request consumed, response scheduled
    Tail,     // response written before the whole request was consumed: swallow the rest
    Drain,    // poisoned or finished: swallow and watch
    Closed
  };
  struct Conn
  {
    int fd = -1;
    int idx = 0;
    St st = St::Idle;
    int ex = -1;
    Action act;
    bool poisoned = false;
    std::string poisonWhy;
    bool finSent = false;
    double respondAt = 0;
    std::size_t extraAfter = 0; // octets beyond the current request seen while poisoned / before the response
    bool reuseReported = false;
    std::string disputedForm; // last answer carried a Connection form on which RFC and client disagree
  };

  const Plan &plan;
  SwitchablePort port;
  std::thread th;
  std::atomic<bool> quit{false};
  std::mutex mu;
  std::condition_variable cv;
  int refuseReq = 0;
  double resumeAt = -1;
  Clock::time_point t0;
  std::vector<Conn> conns;
  std::size_t nextAction = 0;

  double now() const { return msSince(t0); }

  Action takeAction(int &idx)
  {
    idx = static_cast<int>(nextAction);
    if (nextAction < plan.script.size()) return plan.script[nextAction++];
    ++nextAction;
    return Action{}; // default: complete 200 keep-alive
  }
  bool nextIsAcceptRst() const { return nextAction < plan.script.size() && plan.script[nextAction].acceptRst; }

  void violate(const std::string &sig, const std::string &what)
  {
    violations.push_back(Violation{sig, what});
  }

  void poison(Conn &c, const std::string &why)
  {
    if (!c.poisoned)
    {
      c.poisoned = true;
      c.poisonWhy = why;
    }
  }

  void closeConn(Conn &c, bool rst)
  {
    if (c.fd >= 0)
    {
      if (rst) closeRst(c.fd);
      else ::close(c.fd);
    }
    c.fd = -1;
    c.st = St::Closed;
  }

  // first octet(s) of a new request are readable on an idle connection
  void beginExchange(Conn &c)
  {
    std::string peek(262144, '\0');
    ssize_t n = ::recv(c.fd, peek.data(), peek.size(), MSG_PEEK | MSG_DONTWAIT);
    if (n == 0)
    {
      closeConn(c, false); // peer closed an idle connection
      return;
    }
    if (n < 0)
    {
      if (errno == EAGAIN || errno == EWOULDBLOCK || errno == EINTR) return;
      closeConn(c, false);
      return;
    }
    peek.resize(static_cast<std::size_t>(n));
    // the request line is enough to attribute the exchange
    Exchange ex;
    ex.conn = c.idx;
    ex.tStartMs = now();
    auto le = peek.find("\r\n");
    if (le != std::string::npos)
    {
      auto p1 = peek.find(' ');
      auto p2 = p1 == std::string::npos ? p1 : peek.find(' ', p1 + 1);
      if (p1 != std::string::npos && p2 != std::string::npos && p2 < le)
      {
        ex.method = peek.substr(0, p1);
        std::string target = peek.substr(p1 + 1, p2 - p1 - 1);
        if (target.rfind("/t/", 0) == 0) ex.token = target.substr(3);
      }
    }
    RawRequest rq;
    std::string err;
    std::size_t need = 0;
    Frame f = frameRequest(peek, rq, err, &need);
    if (f == Frame::Malformed) ex.requestProblem = err;
    if (need > 0)
    {
      ex.headerSeen = true;
      ex.total = need;
    }
    else if (f == Frame::NeedMore && peek.size() < 200000)
    {
      // header block not complete yet: come back when more has arrived
      // (HttpClient writes the request with one send; this is a transient state)
      return;
    }
    if (c.poisoned && !c.reuseReported)
    {
      c.reuseReported = true;
      violate("C17/reuse-after-" + c.poisonWhy,
              pbt::Fmt() << "request " << ex.method << " " << ex.token << " starts on connection #" << c.idx
                         << ", which must not be reused (" << c.poisonWhy << ")");
    }
    if (!c.disputedForm.empty())
    {
      notes.push_back("no verdict: " + c.disputedForm + " -> connection reused");
      c.disputedForm.clear();
    }
    int ai = -1;
    c.act = takeAction(ai);
    ex.action = ai;
    if (ex.total == 0) ex.total = peek.size(); // unframeable: treat what is there as the request
    ex.k = c.act.consumeSel < 0 ? ex.total : 1 + static_cast<std::size_t>(c.act.consumeSel) % ex.total;
    exchanges.push_back(std::move(ex));
    c.ex = static_cast<int>(exchanges.size()) - 1;
    c.st = St::Reading;
    c.extraAfter = 0;
    consume(c);
  }

  void consume(Conn &c)
  {
    Exchange &ex = exchanges[static_cast<std::size_t>(c.ex)];
    while (ex.received < ex.k)
    {
      char buf[65536];
      std::size_t want = std::min(sizeof buf, ex.k - ex.received);
      ssize_t n = ::recv(c.fd, buf, want, MSG_DONTWAIT);
      if (n > 0)
      {
        ex.raw.append(buf, static_cast<std::size_t>(n));
        ex.received += static_cast<std::size_t>(n);
        continue;
      }
      if (n == 0)
      {
        ex.faultDesc = "peer closed while the request was being read";
        closeConn(c, false);
        return;
      }
      if (errno == EAGAIN || errno == EWOULDBLOCK || errno == EINTR) return; // wait for more
      closeConn(c, false);
      return;
    }
    if (ex.k == ex.total)
    {
      RawRequest rq;
      std::string err;
      Frame f = frameRequest(ex.raw, rq, err);
      if (f == Frame::Complete && rq.wireBytes == ex.raw.size())
        ex.requestComplete = true;
      else if (ex.requestProblem.empty())
        ex.requestProblem = f == Frame::Malformed ? err : "request does not frame to its announced size";
      if (ex.requestComplete)
      {
        if (const std::string *ch = rq.header("Connection"))
          if (listHasToken(*ch, "close")) poison(c, "own-connection-close");
      }
    }
    c.respondAt = now() + c.act.delayMs;
    c.st = St::Delay;
  }

  // is there anything readable beyond what this exchange is entitled to?
  bool strayOctetsPending(Conn &c)
  {
    char b[1];
    ssize_t n = ::recv(c.fd, b, 1, MSG_PEEK | MSG_DONTWAIT);
    return n > 0;
  }

  void act(Conn &c)
  {
    Exchange &ex = exchanges[static_cast<std::size_t>(c.ex)];
    const Action &a = c.act;
    bool wholeRequest = ex.k == ex.total;
    if (wholeRequest && strayOctetsPending(c))
    {
      violate("C17/request-before-previous-response",
              pbt::Fmt() << "connection #" << c.idx << ": more octets arrived after the complete request " << ex.method << " "
                         << ex.token << " before its response was written (two requests interleave on one connection)");
    }
    Rendered r;
    std::size_t j = 0;
    bool wrote = true;
    if (a.respond)
    {
      r = render(a.resp, ex.method, ex.token.empty() ? "unknown" : ex.token, plan.capBytes ? plan.capBytes : kDefaultResponseCap);
      j = a.cutSel < 0 ? r.bytes.size() : static_cast<std::size_t>(a.cutSel) % (r.bytes.size() + 1);
      if (j > 0)
      {
        // one send() so that a small response and its surplus octets arrive together
        std::size_t w = sendAll(c.fd, r.bytes.data(), j, 3000);
        wrote = w == j;
      }
      ex.statusSent = r.status;
      ex.malformedKind = a.resp.malformed;
      ex.anyStatus = lenientKind(a.resp.malformed);
    }
    bool complete = a.respond && wrote && j >= r.surplusFrom; // the whole message (surplus may be cut)
    // going silent after a complete answer is just an idle persistent connection
    Then then = (a.then == Then::Stall && complete && wholeRequest) ? Then::Keep : a.then;
    ex.responseWritten = wrote;
    ex.responseComplete = complete;
    // a close-delimited body ends wherever the connection ends: a cut behind the header block is
    // indistinguishable from a shorter body
    bool closeDelimitedCut = a.respond && wrote && !complete && j >= r.headerEnd && r.closeDelimited && then != Then::Stall &&
                             then != Then::Keep;
    ex.acceptableToPeer = (complete && !r.framingError) || closeDelimitedCut;
    pbt::Fmt fd;
    if (!wholeRequest) fd << "read " << ex.k << "/" << ex.total << " request octets; ";
    if (!a.respond) fd << "no response; ";
    else if (!complete) fd << "response cut at " << j << "/" << r.bytes.size() << (r.closeDelimited ? " (close-delimited)" : "") << "; ";
    else
    {
      if (r.framingError) fd << "framing violation (" << malformedName(a.resp.malformed) << "); ";
      if (a.resp.surplus && j > r.surplusFrom) fd << "surplus octets; ";
      if (r.closeDelimited) fd << "close-delimited body; ";
      else if (r.closeSignal && !r.framingError && !(a.resp.surplus && j > r.surplusFrom)) fd << "close signal; ";
    }
    fd << "then " << thenName(then);
    ex.faultDesc = fd;

    bool surplusSent = a.respond && wrote && a.resp.surplus > 0 && j > r.surplusFrom;
    bool closeSignal = demandedCloseSignal(a.resp.connHeader, a.resp.version) || r.closeDelimited || r.framingError;
    // the exchange ended, as far as the peer can tell, with a complete reusable answer
    bool cleanAnswer = wholeRequest && complete && !closeSignal && !surplusSent;
    bool earlyCleanAnswer = !wholeRequest && complete && !closeSignal && !surplusSent;
    ex.fault = !(cleanAnswer && then == Then::Keep);
    if (complete && r.framingError && (then == Then::Keep || then == Then::Fin)) ex.framingErrorDelivered = wholeRequest;
    if (!cleanAnswer && !earlyCleanAnswer)
    {
      // reasons the peer has seen by the time its exchange ended
      std::string why = !a.respond           ? "no-response"
                        : !complete          ? "truncated-response"
                        : r.framingError     ? "framing-error"
                        : surplusSent        ? "surplus-octets"
                        : r.closeDelimited   ? "close-delimited-body"
                                             : "close-signal";
      poison(c, why);
    }
    if (complete && !r.framingError && disputedCloseSignal(a.resp.connHeader, a.resp.version))
    {
      c.disputedForm = pbt::Fmt() << "HTTP/" << (a.resp.version == 10 ? "1.0" : "1.1") << " Connection:'" << connForm(a.resp.connHeader).l1 << "'+'"
                                  << connForm(a.resp.connHeader).l2 << "' (RFC: " << (rfcCloseSignal(a.resp.connHeader, a.resp.version) ? "close" : "persistent")
                                  << ", client: " << (clientCloseSignal(a.resp.connHeader, a.resp.version) ? "close" : "persistent") << ")";
      notes.push_back("no verdict: " + c.disputedForm + " delivered");
    }
    else
      c.disputedForm.clear();
    switch (then)
    {
    case Then::Keep:
      if (!wholeRequest)
        c.st = St::Tail;
      else if (!complete)
        c.st = St::Drain; // the peer can only time out on this one
      else
        c.st = St::Idle;
      break;
    case Then::Fin:
      ::shutdown(c.fd, SHUT_WR);
      c.finSent = true;
      // after a clean answer the peer may not have noticed the FIN when it sends the next request:
      // that request is an exchange like any other (its answer cannot be written any more)
      c.st = !wholeRequest ? St::Tail : (cleanAnswer ? St::Idle : St::Drain);
      break;
    case Then::Stall:
      c.st = wholeRequest ? St::Drain : St::Tail;
      break;
    case Then::Rst:
      closeConn(c, true);
      break;
    case Then::CloseUnread:
      closeConn(c, false);
      break;
    }
  }

  // swallow octets on a connection that is not waiting for a request start
  void swallow(Conn &c)
  {
    Exchange *ex = c.ex >= 0 ? &exchanges[static_cast<std::size_t>(c.ex)] : nullptr;
    for (;;)
    {
      char buf[65536];
      std::size_t want = sizeof buf;
      if (ex && c.st == St::Tail) want = std::min(want, ex->total - ex->received); // not one octet of the next request
      ssize_t n = ::recv(c.fd, buf, want, MSG_DONTWAIT);
      if (n > 0)
      {
        std::size_t got = static_cast<std::size_t>(n);
        if (ex && c.st == St::Tail)
        {
          ex->received += got;
          if (ex->received == ex->total)
          {
            // the whole request has arrived: idle again if the answer left the connection usable
            bool silent = c.act.then == Then::Stall && !ex->responseComplete;
            c.st = (c.poisoned || silent || (c.finSent && c.poisoned)) ? St::Drain : St::Idle;
            if (c.st == St::Idle) return;
          }
          continue;
        }
        c.extraAfter += got;
        if (c.poisoned && !c.reuseReported)
        {
          // octets that belong to no request we know: the start of another request on a connection
          // whose last exchange ended - visibly for the peer - in a failure / close signal
          c.reuseReported = true;
          violate("C17/reuse-after-" + c.poisonWhy, pbt::Fmt() << "connection #" << c.idx << ": " << got
                                                                << " octets of another request arrived although the connection must not be reused ("
                                                                << c.poisonWhy << "): " << pbt::show(std::string_view(buf, got), 60));
        }
        continue;
      }
      if (n == 0)
      {
        closeConn(c, false);
        return;
      }
      if (errno == EAGAIN || errno == EWOULDBLOCK || errno == EINTR) return;
      closeConn(c, false);
      return;
    }
  }

  void loop()
  {
    for (;;)
    {
      if (quit.load()) break;
      {
        std::lock_guard<std::mutex> lk(mu);
        if (refuseReq > 0)
        {
          port.stopListening();
          resumeAt = now() + refuseReq;
          refuseReq = 0;
          cv.notify_all();
        }
      }
      if (resumeAt >= 0 && now() >= resumeAt)
      {
        if (!port.startListening()) problem = "could not re-open the listener";
        resumeAt = -1;
      }
      std::vector<pollfd> pf;
      std::vector<int> who;
      if (port.listening())
      {
        pf.push_back(pollfd{port.listenFd, POLLIN, 0});
        who.push_back(-1);
      }
      int timeout = 5;
      for (auto &c : conns)
      {
        if (c.fd < 0) continue;
        if (c.st == St::Delay)
        {
          double left = c.respondAt - now();
          if (left <= 0) timeout = 0;
          else if (left < timeout) timeout = static_cast<int>(left) + 1;
          continue; // do not poll: nothing may be consumed before the response
        }
        pf.push_back(pollfd{c.fd, POLLIN, 0});
        who.push_back(c.idx);
      }
      if (pf.empty())
        std::this_thread::sleep_for(std::chrono::milliseconds(timeout > 0 ? 1 : 0));
      else
        ::poll(pf.data(), pf.size(), timeout);
      for (std::size_t i = 0; i < pf.size(); ++i)
      {
        if (!pf[i].revents) continue;
        if (who[i] < 0)
        {
          for (;;)
          {
            int fd = ::accept4(port.listenFd, nullptr, nullptr, SOCK_CLOEXEC);
            if (fd < 0) break;
            ++accepted;
            if (nextIsAcceptRst())
            {
              int ai;
              takeAction(ai);
              ++acceptRsts;
              closeRst(fd);
              continue;
            }
            int one = 1;
            ::setsockopt(fd, IPPROTO_TCP, TCP_NODELAY, &one, sizeof one);
            Conn c;
            c.fd = fd;
            c.idx = static_cast<int>(conns.size());
            conns.push_back(c);
          }
          continue;
        }
        Conn &c = conns[static_cast<std::size_t>(who[i])];
        if (c.fd < 0) continue;
        switch (c.st)
        {
        case St::Idle: beginExchange(c); break;
        case St::Reading: consume(c); break;
        case St::Tail:
        case St::Drain: swallow(c); break;
        default: break;
        }
      }
      for (auto &c : conns)
        if (c.fd >= 0 && c.st == St::Delay && now() >= c.respondAt) act(c);
    }
    for (auto &c : conns)
      if (c.fd >= 0) closeConn(c, false);
    port.close();
  }
};

// ------------------------------------------------------------------------ execution
std::string describe(const Plan &p)
{
  pbt::Fmt f;
  f << "callers=" << p.callers << " requestTimeout=" << p.requestTimeoutMs << "ms reuseConnections=" << (p.reuse ? "yes" : "no");
  if (p.capBytes) f << " responseCap=" << p.capBytes;
  f << "\n requests:";
  for (auto &l : p.reqs)
  {
    f << " [" << l.token << " " << l.method << " budget=" << l.budget;
    if (l.entry) f << (l.entry == 1 ? " via postJson" : l.entry == 2 ? " via postStream" : " via postJsonAsync");
    if (l.bodySize) f << " body=" << l.bodySize;
    if (l.refuseMs) f << " refuse=" << l.refuseMs << "ms";
    if (p.callers > 1) f << " @" << l.caller;
    f << "]";
  }
  f << "\n script:";
  for (auto &a : p.script)
  {
    f << " {";
    if (a.acceptRst) f << "accept-then-RST";
    else
    {
      if (a.consumeSel >= 0) f << "read k=1+" << a.consumeSel << "%len; ";
      if (!a.respond) f << "no response";
      else
      {
        f << a.resp.status << (a.resp.version == 10 ? " HTTP/1.0" : "");
        static const char *fr[] = {"CL", "chunked", "close-delimited", "204", "304"};
        f << " " << fr[a.resp.framing] << " " << a.resp.bodySize << "B";
        if (a.resp.connHeader)
        {
          f << " Connection:'" << connForm(a.resp.connHeader).l1 << "'";
          if (connForm(a.resp.connHeader).l2[0]) f << "+'" << connForm(a.resp.connHeader).l2 << "'";
        }
        if (a.resp.interim100) f << " +100";
        if (a.resp.surplus) f << " surplus=" << a.resp.surplus;
        if (a.resp.malformed) f << " MALFORMED(" << malformedName(a.resp.malformed) << ")";
        if (a.cutSel >= 0) f << " cut j=" << a.cutSel << "%(len+1)";
      }
      if (a.delayMs) f << " delay=" << a.delayMs << "ms";
      f << " then " << thenName(a.then);
    }
    f << "}";
  }
  return f;
}

HttpClient::Response doCall(HttpClient &cl, const Logical &l, const std::string &url, const std::string &body)
{
  std::map<std::string, std::string> hdr{{"X-Token", l.token}};
  if (l.method == "GET") return cl.get(url, hdr, l.budget);
  if (l.method == "HEAD") return cl.head(url, hdr, l.budget);
  if (l.method == "DELETE") return cl.deleteRequest(url, hdr, l.budget);
  if (l.method == "POST")
  {
    switch (l.entry)
    {
    case 1: return cl.postJson(url, iora::parsers::Json(body), hdr, l.budget);
    case 2:
    {
      // postStream returns nothing: report "some 2xx" (status -1 = unknown to the oracle)
      cl.postStream(url, iora::parsers::Json(body), hdr, [](const std::string &) {}, l.budget);
      HttpClient::Response r;
      r.statusCode = -1;
      return r;
    }
    case 3: return cl.postJsonAsync(url, iora::parsers::Json(body), hdr, l.budget).get();
    default: return cl.post(url, body, hdr, l.budget);
    }
  }
  return (cl.*stolenPerform())(l.method, url, body, hdr, l.budget);
}
// the request body as it must appear on the wire (the JSON entry points send the body as a JSON string;
// bodyFor() produces only characters that need no escaping)
std::string wireBody(const Logical &l)
{
  std::string b = bodyFor("q" + l.token, l.bodySize);
  return (l.method == "POST" && l.entry != 0) ? "\"" + b + "\"" : b;
}

void execute(const Plan &plan, pbt::Case &c)
{
  iora::core::Logger::setLevel(iora::core::Logger::Level::Fatal);
  c.describe(describe(plan));
  // Bounded wait: every attempt is bounded by connect (<= 200 ms) + receive time-out, plus the
  // back-off 100*2^n + <100 ms; the slack on top is >= 100x the configured receive time-out.
  double legit = 0;
  for (auto &l : plan.reqs)
  {
    legit += (l.budget + 1) * (200.0 + plan.requestTimeoutMs + 200.0) + l.refuseMs;
    for (int a = 0; a < l.budget; ++a) legit += (1 << a) * 100 + 100;
  }
  double slack = 25000.0; // 100 x the 250 ms receive time-out used whenever the script lets the peer go silent
  pbt::watchdog((legit + slack) / 1000.0, "C17/call-does-not-return");

  Server srv(plan);
  if (!srv.start())
  {
    c.inconclusive("could not open a loopback listener");
    return;
  }
  std::vector<CallOutcome> out(plan.reqs.size());
  {
    HttpClient::Config cfg;
    cfg.connectTimeout = std::chrono::milliseconds(200);
    cfg.requestTimeout = std::chrono::milliseconds(plan.requestTimeoutMs);
    cfg.reuseConnections = plan.reuse;
    if (plan.capBytes)
    {
      cfg.maxResponseBytes = plan.capBytes;
      cfg.jsonConfig.maxPayloadSize = plan.capBytes;
    }
    HttpClient client(cfg);
    const std::string base = "http://127.0.0.1:" + std::to_string(srv.portNo()) + "/t/";
    auto callerFn = [&](int who)
    {
      for (std::size_t i = 0; i < plan.reqs.size(); ++i)
      {
        const Logical &l = plan.reqs[i];
        if (l.caller != who) continue;
        if (l.refuseMs > 0 && plan.callers == 1) srv.refuseFor(l.refuseMs);
        std::string body = bodyFor("q" + l.token, l.bodySize);
        auto t0 = Clock::now();
        CallOutcome &o = out[i];
        try
        {
          auto r = doCall(client, l, base + l.token, body);
          o.returned = true;
          o.status = r.statusCode;
        }
        catch (const iora::network::HttpFramingError &e)
        {
          o.errKind = "framing";
          o.errWhat = e.what();
        }
        catch (const iora::network::HttpRequestNotSentError &e)
        {
          o.errKind = "not-sent";
          o.errWhat = e.what();
        }
        catch (const std::exception &e)
        {
          o.errKind = "other";
          o.errWhat = e.what();
        }
        o.ms = msSince(t0);
      }
    };
    std::vector<std::thread> th;
    for (int w = 0; w < plan.callers; ++w) th.emplace_back(callerFn, w);
    for (auto &t : th) t.join();
    // give a wrongly scheduled late retry / reuse no chance to hide: nothing is pending
    // once every call has returned, so the server can stop right away
  }
  srv.stop();
  pbt::watchdog(0, "");

  if (!srv.problem.empty())
  {
    c.inconclusive(srv.problem);
    return;
  }

  // ---- oracle -----------------------------------------------------------------------
  bool anyFaultAfterByte = false;
  std::map<std::string, std::vector<const Exchange *>> byTok;
  int unattributed = 0;
  for (auto &ex : srv.exchanges)
  {
    if (ex.fault && ex.received > 0) anyFaultAfterByte = true;
    if (ex.token.empty()) ++unattributed;
    else byTok[ex.token].push_back(&ex);
    if (!ex.faultDesc.empty() && ex.fault)
    {
      // class labels
      if (ex.k < ex.total) c.label("fault: request read partially");
      if (ex.framingErrorDelivered) c.label("fault: framing violation delivered");
      if (ex.responseWritten && !ex.responseComplete && ex.statusSent) c.label("fault: response truncated");
    }
  }
  if (srv.acceptRsts) c.label("fault: accept-then-RST");
  if (unattributed) c.label("exchange without readable token");
  for (auto &n : srv.notes) c.label(n);
  for (auto &v : srv.violations)
  {
    c.fail(v.sig, v.what);
  }
  for (std::size_t i = 0; i < plan.reqs.size(); ++i)
  {
    const Logical &l = plan.reqs[i];
    const CallOutcome &o = out[i];
    auto it = byTok.find(l.token);
    std::size_t attempts = it == byTok.end() ? 0 : it->second.size();
    bool idem = idempotent(l.method);
    c.label(std::string("method: ") + (idem ? "idempotent " : "non-idempotent ") + l.method);
    c.label(pbt::Fmt() << "budget " << l.budget);
    c.label(pbt::Fmt() << "wire attempts " << (attempts >= 4 ? std::string(">=4") : std::to_string(attempts)));
    c.label("outcome: " + (o.returned ? std::string("response") : o.errKind));
    pbt::Fmt hist;
    if (it != byTok.end())
      for (auto *ex : it->second) hist << " [conn#" << ex->conn << " action " << ex->action << ": " << ex->faultDesc << "]";
    if (!idem && attempts > 1)
      c.fail("C17/non-idempotent-resent", pbt::Fmt() << l.method << " " << l.token << " (budget " << l.budget << ") reached the wire in "
                                                     << attempts << " attempts:" << hist.str());
    if (idem && attempts > static_cast<std::size_t>(l.budget) + 1)
      c.fail("C17/retry-budget-exceeded", pbt::Fmt() << l.method << " " << l.token << " was attempted " << attempts
                                                     << " times with a retry budget of " << l.budget << ":" << hist.str());
    if (it != byTok.end())
    {
      // A malformed response that the script delivered completely (deterministic by construction: the
      // same octets would come back every time) ends the request: no further exchange may follow,
      // whatever exception type the caller got to see. Sound only when no attempt of this call can
      // have ended by a time-out: the whole call took less than one receive time-out.
      for (std::size_t a = 0; a + 1 < it->second.size(); ++a)
        if (it->second[a]->framingErrorDelivered && o.ms < plan.requestTimeoutMs)
          c.fail("C17/framing-error-retried",
                 pbt::Fmt() << l.method << " " << l.token << " (budget " << l.budget << "): attempt " << a
                            << " was answered with a deterministic framing violation (" << malformedName(it->second[a]->malformedKind)
                            << "), yet " << it->second.size() - a - 1 << " more attempt(s) followed; caller saw "
                            << (o.returned ? "a response" : o.errKind + " '" + o.errWhat + "'") << ":" << hist.str());
      for (auto *ex : it->second)
      {
        if (ex->framingErrorDelivered && statusLineKind(ex->malformedKind)) c.label("fault: malformed status line delivered");
        if (ex->framingErrorDelivered && oversizedChunkKind(ex->malformedKind)) c.label("fault: chunk-size beyond the response cap delivered");
        if (lenientKind(ex->malformedKind) && ex->responseComplete)
          c.label(pbt::Fmt() << malformedName(ex->malformedKind) << " -> " << (o.returned ? "accepted, status " + std::to_string(o.status) : "rejected (" + o.errKind + ")")
                             << ", " << it->second.size() << " attempt(s)");
      }
      for (auto *ex : it->second)
      {
        if (ex->k == ex->total && !ex->requestProblem.empty())
          c.fail("C17/garbled-request", pbt::Fmt() << l.method << " " << l.token << ": the request on connection #" << ex->conn
                                                   << " is not a well-formed HTTP/1.1 request: " << ex->requestProblem);
        if (ex->requestComplete)
        {
          RawRequest rq;
          std::string err;
          frameRequest(ex->raw, rq, err);
          std::string wantBody = wireBody(l);
          const std::string *xt = rq.header("X-Token");
          if (rq.method != l.method || rq.target != "/t/" + l.token || rq.body != wantBody || !xt || *xt != l.token)
            c.fail("C17/garbled-request", pbt::Fmt() << l.method << " " << l.token << ": request on connection #" << ex->conn
                                                     << " differs from what the caller asked for (method '" << rq.method << "', target '"
                                                     << rq.target << "', body " << rq.body.size() << " octets)");
        }
      }
    }
    if (o.returned && o.status >= 0)
    {
      bool found = false;
      if (it != byTok.end())
        for (auto *ex : it->second)
          if (ex->acceptableToPeer && (ex->statusSent == o.status || ex->anyStatus)) found = true;
      if (!found)
        c.fail("C17/response-from-nowhere", pbt::Fmt() << l.method << " " << l.token << " returned status " << o.status
                                                       << " but no complete response with that status was written for it:" << hist.str());
    }
  }
  if (anyFaultAfterByte) c.nontrivial(pbt::hash64(describe(plan)));
}

Action genAction(pbt::Src &src, const pbt::Row &r)
{
  // r = [kind, consumeSel, respKind, cutSel, thenSel, misc, size, delaySel]
  Action a;
  int kind = static_cast<int>(r[0] % 100);
  (void)src;
  if (kind < 6)
  {
    a.acceptRst = true;
    return a;
  }
  static const Then faultThen[] = {Then::Fin, Then::Rst, Then::Stall, Then::CloseUnread};
  if (kind < 26)
  {
    // consume k request octets, then FIN / RST / stall / close with unread octets
    a.consumeSel = r[1];
    a.respond = false;
    a.then = faultThen[r[4] % 4];
    return a;
  }
  RespSpec &s = a.resp;
  static const int statuses[] = {200, 200, 201, 202, 203, 400, 404, 500, 503, 502, 504, 503};
  s.status = statuses[r[5] % 12];
  s.framing = static_cast<int>((r[2] / 7) % 5);
  if ((r[2] / 7) % 11 >= 5) s.framing = ByLength;
  switch (r[6] % 6)
  {
  case 0: s.bodySize = 0; break;
  case 1: case 2: case 3: s.bodySize = 1 + static_cast<std::size_t>(r[6] / 6) % 200; break;
  case 4: s.bodySize = 200 + static_cast<std::size_t>(r[6] / 6) % 3000; break;
  default: s.bodySize = 9000 + static_cast<std::size_t>(r[6] / 6) % 30000; break;
  }
  s.interim100 = (r[5] / 12) % 10 == 0;
  a.delayMs = (r[7] % 4 == 0) ? static_cast<int>(r[7] / 4) % 40 : 0;
  if (kind < 31)
  {
    // early answer: respond after k octets of the request
    a.consumeSel = r[1];
  }
  if (kind < 50)
  {
    // respond up to octet j, then FIN / RST / stall
    a.cutSel = r[3];
    static const Then t3[] = {Then::Fin, Then::Rst, Then::Stall};
    a.then = t3[r[4] % 3];
    return a;
  }
  if (kind < 62)
  {
    s.malformed = 1 + static_cast<int>(r[2] % kMalformedKinds);
    if (s.malformed >= 10 && s.malformed <= 12) s.framing = Chunked;
    if ((s.malformed == 6 || s.malformed == 7 || s.malformed == 13) ) s.framing = ByLength;
    if (s.malformed == 9 && s.framing != Chunked) s.framing = ByLength;
    static const Then t2[] = {Then::Keep, Then::Keep, Then::Fin, Then::Stall};
    a.then = t2[r[4] % 4];
    if (oversizedChunkKind(s.malformed))
    {
      // the peer closes or goes silent behind the offending size line (RST: no verdict - it may
      // destroy the line before the client has read it)
      s.framing = Chunked;
      static const Then t6[] = {Then::Fin, Then::Fin, Then::Fin, Then::Keep, Then::Stall, Then::Rst};
      a.then = t6[r[4] % 6];
    }
    return a;
  }
  // complete answers
  if (kind < 72)
  {
    static const int closeForms[] = {2, 3, 4, 6, 7, 11};
    s.connHeader = closeForms[r[2] % 6];
  }
  else if (kind < 77)
    s.surplus = 1 + static_cast<std::size_t>(r[2] % 60);
  else if (kind < 85)
  {
    // HTTP/1.0 x every Connection form (absent, keep-alive, close, lists, option-only tokens, two field lines)
    s.version = 10;
    s.connHeader = static_cast<int>(r[2] % kConnForms);
    if (s.framing == Chunked) s.framing = ByLength;
  }
  else if (kind < 89)
  {
    static const int keepForms[] = {1, 5, 9, 10, 8, 12, 13};
    s.connHeader = keepForms[r[2] % 7];
  }
  if (s.surplus && s.bodySize > 2000) s.bodySize %= 2000; // response + surplus stay within one segment / one read
  static const Then tc[] = {Then::Keep, Then::Keep, Then::Keep, Then::Keep, Then::Fin, Then::Rst};
  a.then = tc[r[4] % 6];
  if (s.framing == CloseDelimited) a.then = (r[4] % 6 == 5) ? Then::Rst : Then::Fin;
  return a;
}

} // namespace

// ------------------------------------------------------------------------------ exchange
PBT_PROPERTY(exchange)
{
  Plan plan;
  plan.callers = static_cast<int>(src.weighted({6, 2, 1, 1})) + 1;
  plan.reuse = !src.coin(1, 8);
  auto reqRows = src.rows(5, 5, 0, (1 << 20) - 1);
  if (reqRows.empty()) reqRows.push_back(pbt::Row{src.range(0, 99), src.range(0, 3), 0, 0, 0});
  static const char *methods[] = {"GET", "HEAD", "PUT", "DELETE", "POST", "POST", "POST", "PATCH", "PATCH", "get", "Post", "OPTIONS", "PURGE"};
  int seq = 0;
  for (auto &r : reqRows)
  {
    Logical l;
    l.method = methods[r[0] % 13];
    l.budget = static_cast<int>(r[1] % 4);
    if (l.method != "GET" && l.method != "HEAD" && l.method != "DELETE" && l.method != "OPTIONS")
      l.bodySize = (r[2] % 3 == 0) ? 0 : (r[2] % 3 == 1 ? 1 + static_cast<std::size_t>(r[2] / 3) % 400 : 20000 + static_cast<std::size_t>(r[2] / 3) % 300000);
    if (plan.callers == 1 && r[3] % 6 == 0) l.refuseMs = static_cast<int>(50 + (r[3] / 6) % 300);
    if (l.method == "POST") l.entry = static_cast<int>((r[4] % 8 < 5) ? 0 : r[4] % 8 - 4); // 3/8 of the POSTs use postJson / postStream / postJsonAsync
    if (l.entry) c.label(l.entry == 1 ? "entry point: postJson" : l.entry == 2 ? "entry point: postStream" : "entry point: postJsonAsync");
    l.token = pbt::Fmt() << "r" << seq;
    l.caller = seq % plan.callers;
    ++seq;
    plan.reqs.push_back(l);
  }
  auto rows = src.rows(8, 8, 0, (1 << 20) - 1);
  bool anyStall = false, anyFraming = false;
  for (auto &r : rows)
  {
    Action a = genAction(src, r);
    if (a.then == Then::Stall || (a.resp.framing == CloseDelimited && a.then == Then::Keep) || (a.cutSel >= 0 && a.then == Then::Keep))
      anyStall = true;
    if (a.resp.malformed) anyFraming = true;
    plan.script.push_back(a);
  }
  // Receive time-out: short when the script lets the peer go silent (every silent attempt costs
  // one time-out), long otherwise - a long time-out is what makes "no attempt timed out" a sound
  // premise for the framing-error rule under machine load.
  if (src.coin(1, 6))
  {
    // a small configured response cap: every scripted body stays well inside it
    plan.capBytes = 4096;
    for (auto &a : plan.script)
    {
      a.resp.bodySize %= 1500;
      a.resp.interim100 = false;
    }
    c.label("small response cap (4096)");
  }
  plan.requestTimeoutMs = anyStall ? static_cast<int>(src.oneOf<int>({200, 250, 300})) : 2500;
  if (anyStall) c.label("script contains a silent peer");
  if (anyFraming) c.label("script contains a framing violation");
  c.label(pbt::Fmt() << "callers: " << plan.callers);
  if (!plan.reuse) c.label("reuseConnections=false");
  execute(plan, c);
}

// ---------------------------------------------------------------------- fixed regressions
namespace
{
Logical L(const char *m, int budget, const char *tok, std::size_t body = 0)
{
  Logical l;
  l.method = m;
  l.budget = budget;
  l.token = tok;
  l.bodySize = body;
  return l;
}
Action faultAfterRead(long consumeSel, Then t)
{
  Action a;
  a.consumeSel = consumeSel;
  a.respond = false;
  a.then = t;
  return a;
}
Action ok(int connHeader = 0, std::size_t surplus = 0)
{
  Action a;
  a.resp.connHeader = connHeader;
  a.resp.surplus = surplus;
  return a;
}
} // namespace

// the server reads the whole POST and closes without answering: not one more attempt
PBT_REGRESSION(post_not_resent_after_fin)
{
  Plan p;
  p.requestTimeoutMs = 2500;
  p.reqs.push_back(L("POST", 3, "p1", 10));
  p.script = {faultAfterRead(-1, Then::Fin), ok(), ok()};
  execute(p, c);
}
PBT_REGRESSION(patch_not_resent_after_rst_mid_request)
{
  Plan p;
  p.requestTimeoutMs = 2500;
  p.reqs.push_back(L("PATCH", 2, "p2", 100));
  p.script = {faultAfterRead(7, Then::Rst), ok(), ok()};
  execute(p, c);
}
PBT_REGRESSION(get_retried_within_budget)
{
  Plan p;
  p.requestTimeoutMs = 2500;
  p.reqs.push_back(L("GET", 2, "g1"));
  p.script = {faultAfterRead(-1, Then::Rst), faultAfterRead(-1, Then::Fin), faultAfterRead(-1, Then::Rst), faultAfterRead(-1, Then::Rst),
              faultAfterRead(-1, Then::Rst)};
  execute(p, c);
}
PBT_REGRESSION(framing_error_not_retried)
{
  Plan p;
  p.requestTimeoutMs = 2500;
  p.reqs.push_back(L("GET", 3, "f1"));
  Action bad;
  bad.resp.framing = Chunked;
  bad.resp.malformed = 10;
  bad.resp.bodySize = 20;
  p.script = {bad, ok(), ok()};
  execute(p, c);
}
// every malformed status line (incl. version tokens that are not HTTP/D.D) is a deterministic
// framing error: one attempt, although GET with budget 2 could be retried (seeded change C17-E)
PBT_REGRESSION(malformed_status_line_not_retried)
{
  Plan p;
  p.requestTimeoutMs = 2500;
  for (int kind : {14, 15, 16, 17, 18, 19, 20, 21, 22, 23, 24, 25, 26, 1, 2, 3})
  {
    p.reqs.push_back(L(kind % 2 ? "GET" : "PUT", 2, ""));
    p.reqs.back().token = "m" + std::to_string(kind);
    if (p.reqs.back().method == "PUT") p.reqs.back().bodySize = 4;
    Action bad;
    bad.resp.malformed = kind;
    bad.resp.bodySize = 12;
    p.script.push_back(bad);
  }
  execute(p, c);
}

// a chunk-size line that declares more than the response cap is a framing error the moment it
// arrives, also when the peer then closes / goes silent: one attempt (seeded change C17-H)
namespace
{
void oversizedChunkPlan(Plan &p)
{
  p.requestTimeoutMs = 2500;
  static const Then thens[] = {Then::Fin, Then::Fin, Then::Keep, Then::Fin};
  for (int kind = kFirstOversizedChunkKind; kind <= 40; ++kind)
  {
    p.reqs.push_back(L(kind % 2 ? "GET" : "PUT", 2, ""));
    p.reqs.back().token = "o" + std::to_string(kind);
    if (p.reqs.back().method == "PUT") p.reqs.back().bodySize = 4;
    Action bad;
    bad.resp.framing = Chunked;
    bad.resp.malformed = kind;
    bad.resp.bodySize = 12;
    bad.then = thens[kind % 4];
    p.script.push_back(bad);
  }
}
} // namespace
PBT_REGRESSION(oversized_chunk_not_retried)
{
  Plan p;
  oversizedChunkPlan(p);
  execute(p, c);
}
PBT_REGRESSION(oversized_chunk_small_cap_not_retried)
{
  Plan p;
  oversizedChunkPlan(p);
  p.capBytes = 4096;
  execute(p, c);
}

// HTTP/1.0 without keep-alive is not persistent, whatever other Connection options it carries; a close
// token counts in a list and in the last of two field lines (seeded change C17-I)
PBT_REGRESSION(no_reuse_after_http10_and_listed_close)
{
  Plan p;
  p.requestTimeoutMs = 2500;
  struct F { int version, form; };
  static const F forms[] = {{10, 9}, {10, 10}, {10, 5}, {10, 0}, {10, 12}, {10, 7}, {10, 2}, {11, 7}, {11, 11}, {11, 4}, {11, 6}};
  int i = 0;
  for (auto &f : forms)
  {
    p.reqs.push_back(L(i % 3 == 2 ? "POST" : "GET", 0, "", i % 3 == 2 ? 5 : 0));
    p.reqs.back().token = "h" + std::to_string(i++);
    Action a;
    a.resp.version = f.version;
    a.resp.connHeader = f.form;
    a.resp.bodySize = 10;
    p.script.push_back(a);
  }
  p.reqs.push_back(L("GET", 0, "last"));
  execute(p, c);
}
// ... and the forms that keep a connection persistent do not make the client fail
PBT_REGRESSION(persistent_forms_answered)
{
  Plan p;
  p.requestTimeoutMs = 2500;
  struct F { int version, form; };
  static const F forms[] = {{10, 1}, {10, 8}, {11, 9}, {11, 10}, {11, 5}, {11, 8}, {10, 13}, {11, 12}, {11, 13}};
  int i = 0;
  for (auto &f : forms)
  {
    p.reqs.push_back(L("GET", 0, ""));
    p.reqs.back().token = "k" + std::to_string(i++);
    Action a;
    a.resp.version = f.version;
    a.resp.connHeader = f.form;
    a.resp.bodySize = 10;
    p.script.push_back(a);
  }
  execute(p, c);
}

// a POST that was sent completely and answered by a complete 5xx is not sent again, through any of
// the public POST entry points (seeded change C17-J: postStream)
PBT_REGRESSION(post_entry_points_not_resent_after_5xx)
{
  Plan p;
  p.requestTimeoutMs = 2500;
  static const int st[] = {503, 502, 504, 500};
  for (int e = 0; e < 4; ++e)
  {
    p.reqs.push_back(L("POST", 2, "", 6));
    p.reqs.back().token = "e" + std::to_string(e);
    p.reqs.back().entry = e;
    Action a;
    a.resp.status = st[e];
    a.resp.bodySize = 5;
    p.script.push_back(a);
  }
  execute(p, c);
}

PBT_REGRESSION(no_reuse_after_close_signal_and_surplus)
{
  Plan p;
  p.requestTimeoutMs = 2500;
  p.reqs.push_back(L("GET", 0, "a"));
  p.reqs.push_back(L("GET", 0, "b"));
  p.reqs.push_back(L("POST", 0, "c", 5));
  p.reqs.push_back(L("GET", 0, "d"));
  p.script = {ok(2), ok(0, 7), ok(), ok()};
  execute(p, c);
}
PBT_REGRESSION(silent_peer_times_out)
{
  Plan p;
  p.requestTimeoutMs = 250;
  p.reqs.push_back(L("GET", 1, "s1"));
  p.reqs.push_back(L("POST", 2, "s2", 3));
  p.script = {faultAfterRead(-1, Then::Stall), faultAfterRead(3, Then::Stall), faultAfterRead(-1, Then::Stall), ok()};
  execute(p, c);
}
PBT_REGRESSION(concurrent_callers_share_one_connection)
{
  Plan p;
  p.requestTimeoutMs = 2500;
  p.callers = 4;
  for (int i = 0; i < 8; ++i)
  {
    Logical l = L(i % 2 ? "POST" : "GET", 1, "", i % 2 ? 50 : 0);
    l.token = "k" + std::to_string(i);
    l.caller = i % 4;
    p.reqs.push_back(l);
  }
  Action slow = ok();
  slow.delayMs = 30;
  p.script = {slow, slow, ok(), slow, ok(2), slow, slow, ok()};
  execute(p, c);
}

PBT_MAIN()
