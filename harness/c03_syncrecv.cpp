// C03 - Synchronous receive is a lossless ordered stream that drains before EOF.
//
//   seq  : sequential model-based histories over a scripted fake engine. The harness
//          thread is both the application and the "I/O thread": Deliver(chunk),
//          Receive(bufLen, timeout 0), SetMode(Async|Sync|Disabled), Close, late Receive,
//          maxSyncReceiveBuffer in {8,64,1 MiB}, 1-2 sessions. Every operation is compared
//          with a reference model (arrival stream + mode + buffer + sticky overflow +
//          closed); the model itself is checked against the global statement (handed
//          bytes are a subsequence of arrival order, each at most once; the only missing
//          bytes arrived while Disabled / were dropped by an overflow / are still
//          buffered; after an overflow the reader sees only bytes buffered before it).
//   conc : a scripted fake I/O thread delivers chunks / close with generated micro-delays
//          while an application thread is parked in receiveSync (real timeouts) or is
//          flushing a mode switch. Oracles that hold for every interleaving:
//          prefix/concatenation equality, drain-before-close, callback order = arrival
//          order, sticky overflow without a hidden gap. Built with ASan+UBSan and TSan.
#include "pbt.hpp"
#include "c03_fake_engine.hpp"

#include <iora/core/logger.hpp>

#include <algorithm>
#include <atomic>
#include <condition_variable>
#include <mutex>
#include <thread>
#include <cstring>
#include <deque>
#include <memory>

// schedule perturbation (harness/c03_sched.cpp); absent in TSan builds
extern "C" void c03_sched_enable(std::uint64_t seed) __attribute__((weak));
extern "C" void c03_sched_disable() __attribute__((weak));

namespace net = iora::network;
using fakeeng::FakeEngine;
using net::ReadMode;
using net::SessionId;
using net::TransportError;

namespace
{

const char *modeName(ReadMode m)
{
  return m == ReadMode::Async ? "Async" : m == ReadMode::Sync ? "Sync" : "Disabled";
}
const char *errName(TransportError e)
{
  switch (e)
  {
  case TransportError::None: return "None";
  case TransportError::PeerClosed: return "PeerClosed";
  case TransportError::Timeout: return "Timeout";
  case TransportError::BufferOverflow: return "BufferOverflow";
  case TransportError::ShuttingDown: return "ShuttingDown";
  case TransportError::Cancelled: return "Cancelled";
  default: return "other";
  }
}

// every code the engines really pass to onClose for a session that may have delivered data (tcp_engine.hpp /
// udp_engine.hpp closeNow + shutdownDrain call sites): orderly peer close, application close / shutdown /
// listener gone (Unknown), write-stall and connect timeouts, socket and TLS I/O errors, back-pressure,
// GC (idle / max age), connect errors, and ShuttingDown for a connect accepted during the drain.
// Index 0 stays PeerClosed (older saved cases use 0).
struct CloseReason
{
  TransportError code;
  const char *msg;
};
const CloseReason kCloseReasons[] = {
  {TransportError::PeerClosed, "peer closed"},
  {TransportError::Unknown, "closed by app"},
  {TransportError::Unknown, "shutdown"},
  {TransportError::Timeout, "Write stall timeout"},
  {TransportError::Socket, "Connection reset by peer"},
  {TransportError::TLSIO, "tls read error"},
  {TransportError::TLSHandshake, "TLS handshake timeout"},
  {TransportError::WriteBackpressure, "write queue overflow"},
  {TransportError::GCClosed, "GC safety-net timeout"},
  {TransportError::Connect, "Connection refused"},
  {TransportError::ShuttingDown, "transport shutting down"},
  {TransportError::PeerClosed, "Connection closed by peer (EPOLLHUP/EPOLLERR)"},
};
constexpr std::size_t kNCloseReasons = sizeof kCloseReasons / sizeof kCloseReasons[0];

// the arrival stream of session k: byte i is a pure function of (k, i); any 251
// consecutive bytes are pairwise different, so a shifted / reordered / duplicated
// hand-over cannot coincide with the expected bytes
inline std::uint8_t arrivalByte(unsigned k, std::uint64_t i)
{
  return static_cast<std::uint8_t>((i + 97u * k) % 251u);
}
std::string arrivalBytes(unsigned k, std::uint64_t from, std::uint64_t n)
{
  std::string s;
  s.reserve(n);
  for (std::uint64_t i = 0; i < n; ++i) s.push_back(static_cast<char>(arrivalByte(k, from + i)));
  return s;
}

void quietLogs()
{
  static bool once = [] {
    iora::core::Logger::setLevel(iora::core::Logger::Level::Fatal);
    return true;
  }();
  (void)once;
}

enum class Fate : std::uint8_t
{
  Buffered,
  HandedRecv,
  HandedCb,
  DroppedDisabled,
  DroppedOverflow
};

// ------------------------------------------------------------------ reference model
struct Model
{
  unsigned k = 0; // session index (selects the arrival stream)
  ReadMode mode = ReadMode::Async;
  bool everSync = false; // a receive buffer exists (created by Sync mode or a receive)
  std::deque<std::uint64_t> buf; // arrival indices awaiting receiveSync
  bool overflow = false;
  bool closed = false;
  bool eofReported = false;     // PeerClosed was returned once (entry reclaimed by the code)
  bool maybeReclaimed = false;  // the tombstone GC may have dropped the (closed, empty) entry
  std::uint64_t next = 0;       // next arrival index
  std::uint64_t firstDropByOverflow = ~0ull;
  std::vector<Fate> fate;       // per arrival index
  std::vector<std::uint64_t> handed; // arrival indices in hand-over order
  std::vector<std::uint64_t> handedAfterOverflowByRecv;
};

struct Harness
{
  std::shared_ptr<net::Transport> tr;
  FakeEngine *eng = nullptr;
  struct CbRec
  {
    SessionId sid;
    std::string bytes;
  };
  std::vector<CbRec> cbLog;
  std::size_t cap = 0;

  explicit Harness(std::size_t maxBuf, std::size_t gcThreshold)
  {
    quietLogs();
    net::TransportConfig cfg;
    cfg.maxSyncReceiveBuffer = maxBuf;
    cfg.syncBufferGcThreshold = gcThreshold;
    cap = maxBuf;
    auto e = std::make_unique<FakeEngine>();
    eng = e.get();
    tr = net::test::TransportEngineInjector::withEngine(std::move(e), cfg);
    tr->onData([this](SessionId sid, iora::core::BufferView d, std::chrono::steady_clock::time_point) {
      cbLog.push_back(CbRec{sid, std::string(reinterpret_cast<const char *>(d.data()), d.size())});
    });
    tr->start();
  }
};

struct RecvOut
{
  bool ok = false;
  std::string bytes;
  TransportError code = TransportError::None;
  std::size_t lenAfter = 0;
};

RecvOut doReceive(net::Transport &tr, SessionId sid, std::size_t bufLen, std::chrono::milliseconds tmo,
                  net::CancellationToken *token = nullptr)
{
  // exact-size heap buffer: ASan sees any write beyond what the caller offered
  std::unique_ptr<std::uint8_t[]> b(new std::uint8_t[bufLen ? bufLen : 1]);
  std::size_t len = bufLen;
  auto r = token ? tr.receiveSyncCancellable(sid, b.get(), len, *token, tmo) : tr.receiveSync(sid, b.get(), len, tmo);
  RecvOut o;
  o.lenAfter = len;
  if (r.isOk())
  {
    o.ok = true;
    std::size_t n = r.value();
    if (n > bufLen) n = bufLen; // reported below as a mismatch through lenAfter/value
    o.bytes.assign(reinterpret_cast<const char *>(b.get()), n);
    if (r.value() != len || r.value() > bufLen) o.code = TransportError::Unknown; // inconsistent count
  }
  else
    o.code = r.error().code;
  return o;
}

std::string idxBytes(unsigned k, const std::deque<std::uint64_t> &q, std::size_t n)
{
  std::string s;
  for (std::size_t i = 0; i < n && i < q.size(); ++i) s.push_back(static_cast<char>(arrivalByte(k, q[i])));
  return s;
}

// the model's view of the global statement; returns "" if consistent
std::string modelSelfCheck(const Model &m)
{
  std::vector<char> seen(m.next, 0);
  std::uint64_t last = 0;
  bool first = true;
  for (auto i : m.handed)
  {
    if (i >= m.next) return "handed an index that never arrived";
    if (seen[i]) return "byte handed twice";
    seen[i] = 1;
    if (!first && i <= last) return "hand-over order is not arrival order";
    last = i;
    first = false;
  }
  for (std::uint64_t i = 0; i < m.next; ++i)
  {
    if (seen[i]) continue;
    Fate f = m.fate[i];
    if (f != Fate::DroppedDisabled && f != Fate::DroppedOverflow && f != Fate::Buffered)
      return "a byte is missing without an admissible reason";
  }
  for (auto i : m.handedAfterOverflowByRecv)
    if (i > m.firstDropByOverflow) return "reader got a byte that arrived after the overflow gap";
  return "";
}

} // namespace

// ============================================================================ seq
static void runSequential(pbt::Case &c, std::size_t cap, unsigned nsess, std::size_t gcThr,
                          const std::vector<pbt::Row> &ops, bool finalDrain)
{
  Harness h(cap, gcThr);
  std::vector<Model> ms(nsess);
  std::vector<SessionId> sids(nsess);
  for (unsigned k = 0; k < nsess; ++k)
  {
    ms[k].k = k;
    sids[k] = h.eng->openSession();
  }
  const bool knownS1 = pbt::isKnown("C03/post-overflow-bytes-returned-as-data");
  const bool knownS2 = pbt::isKnown("C03/switch-to-async-leaves-buffered-bytes");

  pbt::Fmt desc;
  struct DescribeAtExit
  {
    pbt::Case &c;
    pbt::Fmt &d;
    ~DescribeAtExit() { c.describe(d.str()); }
  } describeAtExit{c, desc};
  desc << "cap=" << cap << " sessions=" << nsess << " gc=" << gcThr << " ops:";
  bool sawSwitch = false, sawClose = false, sawOverflowNonEmpty = false, sawFlush = false;
  bool sawNonPeerCloseWithData = false;
  bool sawPartial = false, sawLate = false, sawStickyRepeat = false, sawEof = false, sawDisabledDrop = false;
  unsigned overflowErrs = 0;

  auto receiveStep = [&](unsigned k, std::size_t bufLen, const char *tag) -> bool
  {
    Model &m = ms[k];
    desc << " " << tag << "(s" << k << "," << bufLen << ")";
    RecvOut out = doReceive(*h.tr, sids[k], bufLen, std::chrono::milliseconds{0});
    m.everSync = true; // receiveSync creates the buffer entry
    if (m.closed) sawLate = true;
    // ---- expectation
    if (!m.buf.empty())
    {
      std::size_t n = std::min(bufLen, m.buf.size());
      std::string exp = idxBytes(m.k, m.buf, n);
      if (n < m.buf.size() && n > 0) sawPartial = true;
      desc << "=" << (out.ok ? std::to_string(out.bytes.size()) + "B" : errName(out.code));
      if (!out.ok || out.bytes != exp || out.code != TransportError::None || out.lenAfter != n)
      {
        std::string what = pbt::Fmt() << "receiveSync(len=" << bufLen << ") with " << m.buf.size()
                                      << " bytes buffered: expected " << n << " bytes [" << pbt::hex(exp, 24)
                                      << "], got "
                                      << (out.ok ? "ok " + std::to_string(out.bytes.size()) + "B [" + pbt::hex(out.bytes, 24) + "] len=" + std::to_string(out.lenAfter)
                                                 : std::string("error ") + errName(out.code));
        if (m.overflow && out.ok)
          c.fail("C03/post-overflow-bytes-returned-as-data", what + " (bytes that arrived after the overflow gap)");
        else
          c.fail("C03/receive-data-mismatch", what);
        return false;
      }
      for (std::size_t i = 0; i < n; ++i)
      {
        std::uint64_t idx = m.buf.front();
        m.buf.pop_front();
        m.fate[idx] = Fate::HandedRecv;
        m.handed.push_back(idx);
        if (m.overflow) m.handedAfterOverflowByRecv.push_back(idx);
      }
      return true;
    }
    // empty buffer: overflow (sticky) before PeerClosed before Timeout
    std::vector<TransportError> allowed;
    if (m.maybeReclaimed || m.eofReported)
    {
      // the closed, drained entry may have been reclaimed: a fresh entry times out
      allowed = {TransportError::Timeout};
      if (m.overflow) allowed.push_back(TransportError::BufferOverflow);
      else allowed.push_back(TransportError::PeerClosed);
      if (m.eofReported && !m.overflow) allowed = {TransportError::Timeout, TransportError::PeerClosed};
    }
    else if (m.overflow)
      allowed = {TransportError::BufferOverflow};
    else if (m.closed)
      allowed = {TransportError::PeerClosed};
    else
      allowed = {TransportError::Timeout};
    desc << "=" << (out.ok ? std::to_string(out.bytes.size()) + "B" : errName(out.code));
    bool okCode = !out.ok && std::find(allowed.begin(), allowed.end(), out.code) != allowed.end();
    if (!okCode)
    {
      std::string what = pbt::Fmt() << "receiveSync(len=" << bufLen << ") with an empty buffer (overflow=" << m.overflow
                                    << " closed=" << m.closed << "): expected " << errName(allowed[0]) << ", got "
                                    << (out.ok ? "ok " + std::to_string(out.bytes.size()) + "B [" + pbt::hex(out.bytes, 24) + "]"
                                               : std::string("error ") + errName(out.code));
      if (m.overflow && out.ok)
        c.fail("C03/post-overflow-bytes-returned-as-data", what + " (bytes that arrived after the overflow gap)");
      else if (out.ok)
        c.fail("C03/receive-returned-unexpected-bytes", what);
      else if (m.overflow)
        c.fail("C03/overflow-not-sticky", what);
      else if (m.closed && out.code != TransportError::PeerClosed)
        c.fail("C03/close-not-reported", what);
      else
        c.fail("C03/receive-error-mismatch", what);
      return false;
    }
    if (out.code == TransportError::BufferOverflow)
    {
      if (++overflowErrs > 1) sawStickyRepeat = true;
    }
    if (out.code == TransportError::PeerClosed)
    {
      m.eofReported = true;
      sawEof = true;
    }
    return true;
  };

  for (auto &row : ops)
  {
    unsigned k = static_cast<unsigned>(row[1]) % nsess;
    Model &m = ms[k];
    SessionId sid = sids[k];
    int op = static_cast<int>(row[0] % 20);
    if (op < 8) // ------------------------------------------------------------ Deliver
    {
      if (m.closed) continue; // an engine delivers nothing after onClose
      std::size_t len;
      if (cap <= 8) len = 1 + static_cast<std::size_t>(row[2]) % 12;
      else if (cap <= 64) len = 1 + static_cast<std::size_t>(row[2]) % 80;
      else len = (row[3] % 40 == 0) ? 300000 + static_cast<std::size_t>(row[2]) * 4 : 1 + static_cast<std::size_t>(row[2]) % 300;
      if (knownS1 && m.mode == ReadMode::Sync && m.overflow)
      {
        c.label("excluded: deliver after overflow (known finding)");
        continue;
      }
      std::string chunk = arrivalBytes(m.k, m.next, len);
      desc << " D(s" << k << "," << len << ")";
      std::size_t cbBefore = h.cbLog.size();
      // exact-size heap copy: the engine's buffer is only valid during the callback
      std::unique_ptr<char[]> heap(new char[len]);
      std::memcpy(heap.get(), chunk.data(), len);
      if (!h.eng->fireData(sid, heap.get(), len))
      {
        c.fail("harness/fake-refused-data", "fake engine refused a legal delivery");
        return;
      }
      heap.reset();
      std::uint64_t from = m.next;
      m.next += len;
      m.fate.resize(m.next, Fate::Buffered);
      std::size_t expectCb = 0;
      if (m.mode == ReadMode::Async)
      {
        expectCb = 1;
        for (std::uint64_t i = from; i < m.next; ++i)
        {
          m.fate[i] = Fate::HandedCb;
          m.handed.push_back(i);
        }
      }
      else if (m.mode == ReadMode::Disabled)
      {
        sawDisabledDrop = true;
        for (std::uint64_t i = from; i < m.next; ++i) m.fate[i] = Fate::DroppedDisabled;
      }
      else
      {
        if (m.overflow || m.buf.size() + len > cap)
        {
          if (!m.overflow && !m.buf.empty()) sawOverflowNonEmpty = true;
          m.overflow = true;
          if (m.firstDropByOverflow == ~0ull) m.firstDropByOverflow = from;
          for (std::uint64_t i = from; i < m.next; ++i) m.fate[i] = Fate::DroppedOverflow;
          desc << "!ovf";
        }
        else
          for (std::uint64_t i = from; i < m.next; ++i) m.buf.push_back(i);
      }
      std::size_t got = h.cbLog.size() - cbBefore;
      if (got != expectCb || (expectCb == 1 && (h.cbLog.back().sid != sid || h.cbLog.back().bytes != chunk)))
      {
        c.fail(m.mode == ReadMode::Async ? "C03/async-delivery-mismatch"
               : m.mode == ReadMode::Disabled ? "C03/disabled-session-delivered"
                                              : "C03/sync-mode-invoked-callback",
               pbt::Fmt() << "delivery of " << len << " bytes in mode " << modeName(m.mode) << ": expected "
                          << expectCb << " data callback(s), observed " << got);
        return;
      }
    }
    else if (op < 14) // ------------------------------------------------------ Receive
    {
      static const std::size_t lens[] = {0, 1, 2, 3, 5, 7, 8, 9, 16, 63, 64, 65, 100, 1000, 5000};
      std::size_t bufLen = lens[static_cast<std::size_t>(row[2]) % (sizeof lens / sizeof lens[0])];
      if (row[3] % 16 == 0 && m.buf.size() > 5000) bufLen = 1u << 20; // larger than anything buffered
      if (!receiveStep(k, bufLen, "R")) return;
    }
    else if (op < 19) // ------------------------------------------------------ SetMode
    {
      if (m.closed) continue; // mode switches after the close are not part of the statement
      ReadMode target = static_cast<ReadMode>(row[2] % 3);
      if (knownS2 && target == ReadMode::Async && m.mode == ReadMode::Disabled && !m.buf.empty())
      {
        c.label("excluded: Disabled->Async with buffered bytes (known finding)");
        continue;
      }
      desc << " M(s" << k << "," << modeName(target) << ")";
      std::size_t cbBefore = h.cbLog.size();
      bool ret = h.tr->setReadMode(sid, target);
      if (!ret)
      {
        // (only generated for sessions whose close has NOT been delivered: a refusal on a closed session
        // would be legal - the statement does not ask for mode switches after the close)
        c.fail("C03/setReadMode-refused", pbt::Fmt() << "setReadMode(" << modeName(target) << ") returned false for an open session");
        return;
      }
      if (target != m.mode) sawSwitch = true;
      std::string expectFlush;
      if (target == ReadMode::Async && !m.buf.empty())
      {
        expectFlush = idxBytes(m.k, m.buf, m.buf.size());
        sawFlush = true;
      }
      std::string gotFlush;
      bool foreign = false;
      for (std::size_t i = cbBefore; i < h.cbLog.size(); ++i)
      {
        if (h.cbLog[i].sid != sid) foreign = true;
        gotFlush += h.cbLog[i].bytes;
      }
      if (gotFlush != expectFlush || foreign)
      {
        std::string what = pbt::Fmt() << "setReadMode(" << modeName(m.mode) << "->" << modeName(target) << ") with "
                                      << m.buf.size() << " buffered bytes: expected the data callback to receive ["
                                      << pbt::hex(expectFlush, 24) << "], it received [" << pbt::hex(gotFlush, 24) << "]";
        if (gotFlush.empty() && m.mode == ReadMode::Disabled)
          c.fail("C03/switch-to-async-leaves-buffered-bytes", what);
        else
          c.fail("C03/flush-mismatch", what);
        return;
      }
      if (target == ReadMode::Async)
      {
        for (auto idx : m.buf)
        {
          m.fate[idx] = Fate::HandedCb;
          m.handed.push_back(idx);
        }
        m.buf.clear();
      }
      if (target == ReadMode::Sync) m.everSync = true;
      m.mode = target;
      ReadMode rm;
      if (!h.tr->getReadMode(sid, rm) || rm != target)
      {
        c.fail("C03/mode-not-applied", pbt::Fmt() << "getReadMode after setReadMode(" << modeName(target) << ") disagrees");
        return;
      }
    }
    else // ------------------------------------------------------------------- Close
    {
      if (m.closed) continue;
      const CloseReason &why = kCloseReasons[static_cast<std::size_t>(row[2]) % kNCloseReasons];
      desc << " C(s" << k << "," << why.msg << ")";
      if (!m.buf.empty()) sawClose = true;
      if (!m.buf.empty() && why.code != TransportError::PeerClosed) sawNonPeerCloseWithData = true;
      std::size_t cbBefore = h.cbLog.size();
      h.eng->fireClose(sid, why.code, why.msg);
      if (h.cbLog.size() != cbBefore)
      {
        c.fail("C03/close-invoked-data-callback", "onClose caused a data callback");
        return;
      }
      m.closed = true;
      m.mode = ReadMode::Async; // the mode entry is dropped with the session
      // the tombstone GC (run from another session's close) may reclaim closed, drained entries
      if (gcThr < 8)
        for (auto &o : ms)
          if (&o != &m && o.closed && o.buf.empty()) o.maybeReclaimed = true;
    }
  }

  if (finalDrain)
  {
    // everything the model still holds must come out of late/ordinary receives, then the error
    for (unsigned k = 0; k < nsess; ++k)
    {
      for (int guard = 0; guard < 4096; ++guard)
      {
        bool hadData = !ms[k].buf.empty();
        std::size_t bl = ms[k].buf.size() > 4096 ? (1u << 20) : 7;
        if (!receiveStep(k, bl, "F")) return;
        if (!hadData) break;
      }
    }
  }
  for (auto &m : ms)
  {
    std::string why = modelSelfCheck(m);
    if (!why.empty())
    {
      c.fail("harness/model-violates-statement", why);
      return;
    }
  }
  if (sawSwitch) c.label("mode switch");
  if (sawFlush) c.label("flush with buffered bytes");
  if (sawClose) c.label("close with buffered bytes");
  if (sawNonPeerCloseWithData) c.label("close with buffered bytes, reason other than PeerClosed");
  if (sawOverflowNonEmpty) c.label("overflow with non-empty buffer");
  if (overflowErrs) c.label("BufferOverflow reported");
  if (sawStickyRepeat) c.label("BufferOverflow reported again (sticky)");
  if (sawPartial) c.label("partial receive (len < buffered)");
  if (sawLate) c.label("late receive after close");
  if (sawEof) c.label("PeerClosed reported");
  if (sawDisabledDrop) c.label("bytes arrived while Disabled");
  if (sawFlush || sawClose || sawOverflowNonEmpty)
  {
    std::uint64_t d = pbt::hashMix(cap, nsess);
    for (auto &r : ops)
      for (auto x : r) d = pbt::hashMix(d, static_cast<std::uint64_t>(x));
    c.nontrivial(d);
  }
}

PBT_PROPERTY(seq)
{
  std::size_t cap = src.oneOf<std::size_t>({8, 8, 64, 64, 1u << 20});
  unsigned nsess = static_cast<unsigned>(src.range(1, 2));
  std::size_t gcThr = src.coin(1, 4) ? 0 : 1024;
  auto ops = src.rows(60, 4, 0, 65535);
  runSequential(c, cap, nsess, gcThr, ops, src.coin(3, 4));
}


// =========================================================================== conc
namespace
{

struct ConcPlan
{
  int variant = 0; // 0 sync-only lossless, 1 sync/async switches lossless, 2 small cap (overflow), 3 with Disabled
  std::size_t cap = 1u << 20;
  struct Io
  {
    unsigned delayUs;
    std::size_t len;     // 0 for a cancel item
    bool cancel = false; // the I/O thread calls cancel() on the reader's current token instead of delivering
  };
  std::vector<Io> io;
  bool close = false;
  unsigned closeDelayUs = 0;
  std::size_t closeReason = 0; // index into kCloseReasons
  struct App
  {
    int kind; // 0 receive, 1 setmode, 2 pause, 3 receiveSyncCancellable (len, tmoMs as for 0)
    std::size_t len;
    unsigned tmoMs;
    ReadMode mode;
    unsigned pauseUs;
  };
  std::vector<App> app;
  bool startSync = true;
  bool closeAfterParked = false; // the close is held back until the application parks in its final receive
  std::uint64_t perturbSeed = 0; // != 0: seeded yields/sleeps at mutex operations of both threads
  unsigned flushCbDelayUs = 0;   // the application's data callback is slow when it runs on the application
                                 // thread (i.e. during a flush): widens the flush window for arrivals
};

struct Handed
{
  bool viaCb;
  std::string bytes;
};

} // namespace

static void runConcurrent(pbt::Case &c, const ConcPlan &p)
{
  pbt::watchdog(60, "C03/conc-case-stuck");
  quietLogs();
  net::TransportConfig cfg;
  cfg.maxSyncReceiveBuffer = p.cap;
  auto e = std::make_unique<FakeEngine>();
  FakeEngine *eng = e.get();
  auto tr = net::test::TransportEngineInjector::withEngine(std::move(e), cfg);

  std::mutex logMu;
  std::vector<Handed> log; // hand-over order
  std::atomic<std::uint64_t> clk{0};
  const std::thread::id appThread = std::this_thread::get_id();
  tr->onData([&](SessionId, iora::core::BufferView d, std::chrono::steady_clock::time_point) {
    {
      std::lock_guard<std::mutex> lk(logMu);
      log.push_back(Handed{true, std::string(reinterpret_cast<const char *>(d.data()), d.size())});
    }
    if (p.flushCbDelayUs && std::this_thread::get_id() == appThread)
      std::this_thread::sleep_for(std::chrono::microseconds(p.flushCbDelayUs));
  });
  tr->start();
  SessionId sid = eng->openSession();
  if (p.startSync) tr->setReadMode(sid, ReadMode::Sync);
  std::atomic<bool> parking{false};

  std::string arrival;
  for (auto &x : p.io) arrival += arrivalBytes(0, arrival.size(), x.len);
  // the reader's current cancellation token; the scripted I/O thread cancels whatever is current
  std::mutex tokMu;
  auto curToken = std::make_shared<net::CancellationToken>();
  unsigned nCancelIssued = 0;

  struct ChunkStamp
  {
    std::uint64_t from, len, s0, s1;
  };
  std::vector<ChunkStamp> stamps(p.io.size());
  std::atomic<std::uint64_t> closeFiredAtNs{0};
  std::atomic<bool> closeDispatchBegun{false}; // set by the I/O thread right BEFORE it hands onClose to the transport
  std::atomic<bool> ioDone{false};
  auto nowNs = [] {
    return static_cast<std::uint64_t>(std::chrono::duration_cast<std::chrono::nanoseconds>(
                                        std::chrono::steady_clock::now().time_since_epoch())
                                        .count());
  };

  std::thread io;
  // the scripted I/O thread; Transport regards it as the engine's I/O thread
  std::mutex startMu;
  std::condition_variable startCv;
  bool go = false;
  {
    io = std::thread([&] {
      {
        std::unique_lock<std::mutex> lk(startMu);
        startCv.wait(lk, [&] { return go; });
      }
      if (p.perturbSeed && c03_sched_enable) c03_sched_enable(p.perturbSeed * 2 + 1);
      std::uint64_t off = 0;
      for (std::size_t i = 0; i < p.io.size(); ++i)
      {
        if (p.io[i].delayUs) std::this_thread::sleep_for(std::chrono::microseconds(p.io[i].delayUs));
        if (p.io[i].cancel)
        {
          std::shared_ptr<net::CancellationToken> t;
          {
            std::lock_guard<std::mutex> lk(tokMu);
            t = curToken;
            ++nCancelIssued;
          }
          t->cancel();
          stamps[i].from = off;
          stamps[i].len = 0;
          stamps[i].s0 = stamps[i].s1 = ++clk;
          continue;
        }
        std::unique_ptr<char[]> heap(new char[p.io[i].len]);
        std::memcpy(heap.get(), arrival.data() + off, p.io[i].len);
        stamps[i].from = off;
        stamps[i].len = p.io[i].len;
        stamps[i].s0 = ++clk;
        eng->fireData(sid, heap.get(), p.io[i].len);
        stamps[i].s1 = ++clk;
        off += p.io[i].len;
      }
      if (p.close)
      {
        if (p.closeAfterParked)
        {
          // hold the close back until the application is (almost certainly) parked in receiveSync
          for (int i = 0; i < 200000 && !parking.load(); ++i) std::this_thread::sleep_for(std::chrono::microseconds(50));
          std::this_thread::sleep_for(std::chrono::milliseconds(3));
        }
        if (p.closeDelayUs) std::this_thread::sleep_for(std::chrono::microseconds(p.closeDelayUs));
        closeDispatchBegun.store(true);
        eng->fireClose(sid, kCloseReasons[p.closeReason % kNCloseReasons].code, kCloseReasons[p.closeReason % kNCloseReasons].msg);
        closeFiredAtNs.store(nowNs());
      }
      ioDone.store(true);
      if (c03_sched_disable) c03_sched_disable();
    });
    eng->setIoThreadId(io.get_id());
    {
      std::lock_guard<std::mutex> lk(startMu);
      go = true;
    }
    startCv.notify_all();
  }

  // ---- application thread = this thread
  struct Window
  {
    std::uint64_t b, e;
  };
  std::vector<Window> disabledWin;
  bool inDisabled = false;
  std::size_t recvLen = 0; // bytes obtained through receiveSync
  bool overflowSeen = false, eofSeen = false;
  unsigned nData = 0, nTimeout = 0, nFlushBytes = 0, nRefusedAfterClose = 0;
  std::string failSig, failWhat;
  auto fail = [&](const std::string &sig, const std::string &what) {
    if (failSig.empty())
    {
      failSig = sig;
      failWhat = what;
    }
  };
  auto handedLenLocked = [&] {
    std::size_t n = 0;
    for (auto &h : log) n += h.bytes.size();
    return n;
  };

  unsigned nCancelledCalls = 0, nCancellableData = 0;
  auto receive = [&](std::size_t len, unsigned tmoMs, bool cancellable = false) -> TransportError
  {
    auto t0 = std::chrono::steady_clock::now();
    std::uint64_t startNs = nowNs();
    std::shared_ptr<net::CancellationToken> tok;
    if (cancellable)
    {
      std::lock_guard<std::mutex> lk(tokMu);
      tok = curToken;
    }
    RecvOut out = doReceive(*tr, sid, len, std::chrono::milliseconds{tmoMs}, tok.get());
    auto el = std::chrono::steady_clock::now() - t0;
    bool tokenWasCancelled = tok && tok->isCancelled();
    if (tokenWasCancelled)
    {
      std::lock_guard<std::mutex> lk(tokMu);
      if (curToken == tok) curToken = std::make_shared<net::CancellationToken>(); // a fresh token for later calls
    }
    if (out.ok && cancellable) ++nCancellableData;
    if (!out.ok && out.code == TransportError::Cancelled)
    {
      // a cancelled call hands nothing over - and must not have consumed anything: whatever it would have
      // returned has to come out of the later reads (judged by the stream oracles below)
      if (!tokenWasCancelled)
        fail("C03/cancelled-without-cancel", "receiveSyncCancellable returned Cancelled although cancel() was never called on its token");
      ++nCancelledCalls;
      return out.code;
    }
    {
      // lost wake-up: the call was already in progress when onClose was delivered and still
      // returned (whatever it returned) more than 1.5 s after it - only its own timeout ended it
      std::uint64_t cf = closeFiredAtNs.load(), endNs = nowNs();
      // ... and it ended at its own deadline (a late but real wake-up ends earlier): tmoMs >= 2000 only
      bool ranToDeadline = tmoMs >= 2000 && el >= std::chrono::milliseconds(tmoMs) - std::chrono::milliseconds(50);
      if (!out.ok && ranToDeadline && cf != 0 && startNs < cf && endNs > cf && endNs - cf > 1500000000ull && failSig.empty())
      {
        failSig = "C03/parked-receiver-not-woken-by-close";
        failWhat = pbt::Fmt() << "receiveSync(timeout " << tmoMs << " ms) was parked when onClose was delivered and returned "
                              << errName(out.code) << " only " << (endNs - cf) / 1000000 << " ms later (after "
                              << std::chrono::duration_cast<std::chrono::milliseconds>(el).count() << " ms in the call)";
        c.failTimed(failSig, failWhat);
      }
    }
    if (out.ok)
    {
      if (out.code != TransportError::None || out.lenAfter != out.bytes.size())
        fail("C03/receive-count-inconsistent", "receiveSync result value, len out-parameter and buffer disagree");
      if (out.bytes.empty() && len != 0)
        fail("C03/receive-ok-with-zero-bytes", "receiveSync returned ok(0) for a non-empty caller buffer");
      {
        std::lock_guard<std::mutex> lk(logMu);
        log.push_back(Handed{false, out.bytes});
      }
      recvLen += out.bytes.size();
      ++nData;
      if (overflowSeen)
        fail("C03/overflow-not-sticky", "receiveSync returned data after it had reported BufferOverflow");
      if (eofSeen && !out.bytes.empty())
        fail("C03/data-after-peer-closed", "receiveSync returned data after it had reported PeerClosed");
      return TransportError::None;
    }
    switch (out.code)
    {
    case TransportError::Timeout:
      ++nTimeout;
      // (the cancellable wrapper may report its own Timeout without having polled receiveSync at all)
      if (overflowSeen && !cancellable) fail("C03/overflow-not-sticky", "receiveSync returned Timeout after BufferOverflow");
      break;
    case TransportError::BufferOverflow:
      overflowSeen = true;
      if (p.variant != 2) fail("C03/spurious-overflow", "BufferOverflow reported although the bound (1 MiB) cannot be reached");
      break;
    case TransportError::PeerClosed:
      if (!p.close) fail("C03/spurious-peer-closed", "PeerClosed reported although the engine never closed the session");
      if (overflowSeen) fail("C03/overflow-not-sticky", "PeerClosed reported after BufferOverflow");
      if (!eofSeen && (p.variant == 0 || p.variant == 1 || p.variant == 2))
      {
        // drain-before-close: everything that arrived before the close must have been handed over
        std::lock_guard<std::mutex> lk(logMu);
        std::size_t h = handedLenLocked();
        if (h != arrival.size())
          fail(p.variant == 2 ? "C03/overflow-gap-reported-as-clean-eof" : "C03/peer-closed-before-drained",
               pbt::Fmt() << "PeerClosed reported after " << h << " of " << arrival.size()
                          << " bytes that arrived before the close had been handed over");
      }
      eofSeen = true;
      break;
    default:
      fail("C03/receive-unexpected-error", std::string("receiveSync returned ") + errName(out.code));
    }
    return out.code;
  };

  if (p.perturbSeed && c03_sched_enable) c03_sched_enable(p.perturbSeed * 2);
  for (auto &a : p.app)
  {
    if (!failSig.empty()) break;
    if (a.kind == 0)
      receive(a.len, a.tmoMs);
    else if (a.kind == 3)
      receive(a.len, a.tmoMs, true);
    else if (a.kind == 1)
    {
      bool openedWindow = false;
      if (a.mode == ReadMode::Disabled && !inDisabled)
      {
        disabledWin.push_back(Window{++clk, ~0ull});
        inDisabled = true;
        openedWindow = true;
      }
      std::size_t before;
      {
        std::lock_guard<std::mutex> lk(logMu);
        before = log.size();
      }
      bool applied = tr->setReadMode(sid, a.mode);
      if (!applied)
      {
        // A switch may be refused for a session whose close has been (or is being) delivered - the
        // statement does not ask for mode switches on a closed session. The flag is read AFTER the
        // call returned and is set by the I/O thread BEFORE it dispatches onClose: if it is still
        // false the session was provably open during the whole call. A refused switch changes nothing.
        if (!closeDispatchBegun.load())
          fail("C03/setReadMode-refused", pbt::Fmt() << "setReadMode(" << modeName(a.mode)
                                                     << ") returned false for a session whose close had not been dispatched yet");
        else
          ++nRefusedAfterClose;
        if (openedWindow)
        {
          disabledWin.pop_back();
          inDisabled = false;
        }
      }
      if (applied && a.mode != ReadMode::Disabled && inDisabled)
      {
        disabledWin.back().e = ++clk;
        inDisabled = false;
      }
      if (a.mode == ReadMode::Async)
      {
        std::lock_guard<std::mutex> lk(logMu);
        for (std::size_t i = before; i < log.size(); ++i) nFlushBytes += log[i].bytes.size();
      }
    }
    else
      std::this_thread::sleep_for(std::chrono::microseconds(a.pauseUs));
  }
  // park for the end of the stream: data keeps coming out, then the terminal condition
  parking.store(true);
  if (failSig.empty() && p.close && !eofSeen)
  {
    for (int guard = 0; guard < 100000 && failSig.empty(); ++guard)
    {
      TransportError r = receive(64, 3000);
      if (r != TransportError::None) break;
    }
  }
  if (c03_sched_disable) c03_sched_disable();
  io.join();
  // final drain with timeout 0: whatever is still buffered comes out in order
  for (int guard = 0; guard < 100000 && failSig.empty(); ++guard)
  {
    TransportError r = receive(97, 0);
    if (r != TransportError::None) break;
  }
  eng->setIoThreadId(std::thread::id{});

  // ---- stream oracles over the hand-over log
  std::string handed;
  {
    std::lock_guard<std::mutex> lk(logMu);
    for (auto &h : log) handed += h.bytes;
  }
  if (failSig.empty())
  {
    if (p.variant == 3)
    {
      // arrival bytes are pairwise different (<= 250 bytes): value == arrival index
      long last = -1;
      std::vector<char> seen(arrival.size(), 0);
      for (unsigned char ch : handed)
      {
        if (ch >= arrival.size() || seen[ch])
        {
          fail("C03/byte-handed-twice-or-foreign", pbt::Fmt() << "byte #" << int(ch) << " handed twice or never arrived");
          break;
        }
        seen[ch] = 1;
        if (static_cast<long>(ch) <= last)
        {
          fail("C03/hand-over-order-not-arrival-order",
               pbt::Fmt() << "byte #" << int(ch) << " handed after byte #" << last);
          break;
        }
        last = ch;
      }
      if (failSig.empty())
        for (auto &st : stamps)
        {
          bool mayDrop = false;
          for (auto &w : disabledWin)
            if (!(st.s1 < w.b || st.s0 > w.e)) mayDrop = true;
          if (mayDrop) continue;
          for (std::uint64_t i = st.from; i < st.from + st.len; ++i)
            if (!seen[i])
            {
              fail("C03/byte-lost-outside-disabled",
                   pbt::Fmt() << "byte #" << i << " arrived while the session was not Disabled and was never handed over");
              break;
            }
          if (!failSig.empty()) break;
        }
    }
    else
    {
      bool isPrefix = handed.size() <= arrival.size() && arrival.compare(0, handed.size(), handed) == 0;
      if (!isPrefix)
      {
        std::size_t i = 0;
        while (i < handed.size() && i < arrival.size() && handed[i] == arrival[i]) ++i;
        fail(overflowSeen || p.variant == 2 ? "C03/post-overflow-bytes-returned-as-data" : "C03/stream-not-in-arrival-order",
             pbt::Fmt() << "handed stream deviates from the arrival stream at offset " << i << " (handed " << handed.size()
                        << " bytes, arrived " << arrival.size() << "): expected [" << pbt::hex(arrival.substr(i, 12))
                        << "] got [" << pbt::hex(handed.substr(i, 12)) << "]");
      }
      else if (handed.size() != arrival.size() && !overflowSeen)
        fail(p.variant == 2 ? "C03/overflow-gap-not-reported" : "C03/bytes-lost",
             pbt::Fmt() << handed.size() << " of " << arrival.size()
                        << " arrived bytes were handed over and no overflow was reported");
    }
  }
  tr.reset();

  pbt::Fmt d;
  d << "variant=" << p.variant << " cap=" << p.cap << " startSync=" << p.startSync;
  if (p.closeAfterParked) d << " close-after-parked";
  if (p.flushCbDelayUs) d << " flushCbDelay=" << p.flushCbDelayUs << "us";
  if (p.perturbSeed) d << " perturb=" << p.perturbSeed;
  d << " io:";
  for (auto &x : p.io)
  {
    if (x.cancel) d << " +" << x.delayUs << "us/cancel()";
    else d << " +" << x.delayUs << "us/" << x.len << "B";
  }
  if (p.close) d << " +" << p.closeDelayUs << "us/close(" << kCloseReasons[p.closeReason % kNCloseReasons].msg << ")";
  d << " app:";
  for (auto &a : p.app)
  {
    if (a.kind == 0) d << " R(" << a.len << "," << a.tmoMs << "ms)";
    else if (a.kind == 3) d << " RC(" << a.len << "," << a.tmoMs << "ms)";
    else if (a.kind == 1) d << " M(" << modeName(a.mode) << ")";
    else d << " P(" << a.pauseUs << "us)";
  }
  d << " => handed " << handed.size() << "/" << arrival.size() << (overflowSeen ? " overflow" : "") << (eofSeen ? " eof" : "");
  c.describe(d.str());
  if (!failSig.empty())
  {
    if (!c.failed()) c.fail(failSig, failWhat);
    return;
  }
  c.label(pbt::Fmt() << "variant " << p.variant);
  if (nData) c.label("receive returned data");
  if (nTimeout) c.label("receive timed out");
  if (eofSeen) c.label("PeerClosed after full drain");
  if (eofSeen && kCloseReasons[p.closeReason % kNCloseReasons].code != TransportError::PeerClosed)
    c.label("drained up to a close with a reason other than PeerClosed");
  if (overflowSeen) c.label("BufferOverflow reported");
  if (nFlushBytes) c.label("flush handed buffered bytes");
  if (nCancelledCalls) c.label("receiveSyncCancellable returned Cancelled");
  if (nCancellableData) c.label("receiveSyncCancellable returned data");
  if (nCancellableData && nCancelIssued) c.label("cancel() issued in a case where a cancellable receive returned data");
  if (!disabledWin.empty()) c.label("Disabled window");
  if (nRefusedAfterClose) c.label("mode switch refused after the close");
  if (p.closeAfterParked && eofSeen) c.label("close delivered to a parked receiver");
  if (!p.io.empty() && (nData || nFlushBytes))
  {
    std::uint64_t h = pbt::hash64(d.str().substr(0, d.str().find(" => ")));
    c.nontrivial(h);
  }
}

static ConcPlan genConc(pbt::Src &src)
{
  ConcPlan p;
  p.variant = static_cast<int>(src.weighted({4, 4, 3, 2}));
  // known-finding exclusions by construction
  const bool knownS1 = pbt::isKnown("C03/post-overflow-bytes-returned-as-data");
  const bool knownS2 = pbt::isKnown("C03/switch-to-async-leaves-buffered-bytes");
  if (knownS1 && p.variant == 2) p.variant = 0; // no overflow schedules
  p.cap = p.variant == 2 ? src.oneOf<std::size_t>({8, 64}) : (1u << 20);
  const bool useCancellable = src.coin(1, 2); // the reader uses receiveSyncCancellable for a share of its receives
  auto io = src.rows(24, 2, 0, 65535);
  std::size_t total = 0;
  for (auto &r : io)
  {
    ConcPlan::Io x;
    x.delayUs = static_cast<unsigned>(r[0] % 4 == 0 ? 0 : r[0] % 300);
    std::size_t maxLen = p.variant == 2 ? (p.cap == 8 ? 6 : 40) : (p.variant == 3 ? 16 : 200);
    x.len = 1 + static_cast<std::size_t>(r[1]) % maxLen;
    if (p.variant == 3 && total + x.len > 250) break;
    total += x.len;
    // cancel() on the reader's current token right before / right after this chunk (same polling slice)
    bool withCancel = useCancellable && (r[0] / 512) % 4 == 0;
    ConcPlan::Io cx{static_cast<unsigned>((r[0] / 8192) % 3 == 0 ? 0 : (r[0] / 64) % 60), 0, true};
    if (withCancel && (r[0] / 4096) % 2 == 0) p.io.push_back(cx);
    p.io.push_back(x);
    if (withCancel && (r[0] / 4096) % 2 == 1) p.io.push_back(cx);
  }
  p.close = src.coin(2, 3);
  p.closeDelayUs = static_cast<unsigned>(src.range(0, 300));
  p.closeReason = src.coin(1, 3) ? 0 : static_cast<std::size_t>(src.range(0, static_cast<std::int64_t>(kNCloseReasons) - 1));
  p.closeAfterParked = p.close && src.coin(1, 5);
  p.perturbSeed = src.coin(2, 3) ? static_cast<std::uint64_t>(src.range(1, 1 << 20)) : 0;
  p.flushCbDelayUs = (p.variant == 1 || p.variant == 3) ? src.oneOf<unsigned>({0, 30, 120, 300}) : 0;
  p.startSync = p.variant == 0 || p.variant == 2 || src.coin();
  auto app = src.rows(24, 3, 0, 65535);
  for (auto &r : app)
  {
    ConcPlan::App a{};
    int k = static_cast<int>(r[0] % 10);
    static const std::size_t lens[] = {1, 3, 8, 64, 1000};
    static const unsigned tmos[] = {0, 1, 2, 10};
    bool switching = p.variant == 1 || p.variant == 3;
    if ((switching ? k < 4 : k < 6) || p.variant == 0 || (p.variant == 2 && k < 8))
    {
      a.kind = 0;
      a.len = lens[static_cast<std::size_t>(r[1]) % 5];
      a.tmoMs = tmos[static_cast<std::size_t>(r[2]) % 4];
      if (useCancellable && (r[0] / 16) % 2 == 0)
      {
        static const unsigned ctmos[] = {1, 2, 10, 50}; // (a zero timeout never polls)
        a.kind = 3;
        a.tmoMs = ctmos[static_cast<std::size_t>(r[2]) % 4];
      }
      if (k >= 8)
      {
        a.kind = 2;
        a.pauseUs = static_cast<unsigned>(r[1] % 400);
      }
    }
    else if (k < 8 && p.variant != 2)
    {
      a.kind = 1;
      int m = static_cast<int>(r[1] % (p.variant == 3 ? 3 : 2));
      a.mode = m == 0 ? ReadMode::Async : m == 1 ? ReadMode::Sync : ReadMode::Disabled;
      if (knownS2 && a.mode == ReadMode::Async)
      {
        // never enter Async directly from Disabled: go through Sync (which flushes)
        ReadMode last = p.startSync ? ReadMode::Sync : ReadMode::Async;
        for (auto &prev : p.app)
          if (prev.kind == 1) last = prev.mode;
        if (last == ReadMode::Disabled)
        {
          ConcPlan::App viaSync = a;
          viaSync.mode = ReadMode::Sync;
          p.app.push_back(viaSync);
        }
      }
    }
    else
    {
      a.kind = 2;
      a.pauseUs = static_cast<unsigned>(r[1] % 700);
    }
    p.app.push_back(a);
  }
  return p;
}

PBT_PROPERTY(conc)
{
  ConcPlan p = genConc(src);
  runConcurrent(c, p);
}

PBT_REGRESSION(conc_drain_before_close)
{
  ConcPlan p;
  p.variant = 0;
  p.io = {{0, 100}, {50, 3}, {0, 200}};
  p.close = true;
  p.closeDelayUs = 0;
  p.app = {{0, 8, 10, ReadMode::Sync, 0}, {0, 64, 10, ReadMode::Sync, 0}, {0, 1000, 10, ReadMode::Sync, 0}};
  runConcurrent(c, p);
}
PBT_REGRESSION(conc_close_wakes_parked_receiver)
{
  ConcPlan p;
  p.variant = 0;
  p.io = {{0, 10}};
  p.close = true;
  p.closeAfterParked = true;
  p.app = {{0, 64, 10, ReadMode::Sync, 0}};
  runConcurrent(c, p);
}
PBT_REGRESSION(conc_cancel_right_after_data_in_one_slice)
{
  // the reader is parked in receiveSyncCancellable (one 100 ms polling slice); the I/O thread delivers 10 bytes
  // and calls cancel() immediately afterwards, before the woken reader has run. Whatever the call returns, no
  // byte may disappear: either it returns the bytes, or it returns Cancelled and the bytes come out of later reads.
  ConcPlan p;
  p.variant = 0;
  p.io = {{4000, 10}, {0, 0, true}, {3000, 5}, {0, 0, true}, {2000, 7}};
  p.close = true;
  p.closeDelayUs = 200;
  p.app = {{3, 64, 50, ReadMode::Sync, 0}, {3, 64, 50, ReadMode::Sync, 0}, {3, 64, 50, ReadMode::Sync, 0}, {0, 64, 10, ReadMode::Sync, 0}};
  runConcurrent(c, p);
}
PBT_REGRESSION(conc_cancel_before_data_and_idle)
{
  ConcPlan p;
  p.variant = 0;
  p.io = {{2000, 0, true}, {0, 6}, {3000, 0, true}, {3000, 4}};
  p.close = true;
  p.app = {{3, 8, 50, ReadMode::Sync, 0}, {3, 8, 10, ReadMode::Sync, 0}, {2, 0, 0, ReadMode::Sync, 4000}, {3, 8, 10, ReadMode::Sync, 0}};
  runConcurrent(c, p);
}
PBT_REGRESSION(conc_overflow_no_hidden_gap)
{
  ConcPlan p;
  p.variant = 2;
  p.cap = 8;
  p.io = {{0, 6}, {0, 4}, {0, 2}, {200, 2}};
  p.close = true;
  p.closeDelayUs = 100;
  p.app = {{2, 0, 0, ReadMode::Sync, 2000}, {0, 64, 10, ReadMode::Sync, 0}, {0, 64, 10, ReadMode::Sync, 0}};
  runConcurrent(c, p);
}


// ============================================================================ e2e
// Small end-to-end sample through the real TcpEngine: validates what the fake assumes
// (one I/O thread, data in order, then close) and the drain-before-close path when the
// last bytes and the FIN arrive together. The peer is a raw POSIX socket.
#include <arpa/inet.h>
#include <netinet/in.h>
#include <poll.h>
#include <sys/socket.h>
#include <unistd.h>

PBT_PROPERTY(e2e)
{
  pbt::watchdog(90, "C03/e2e-case-stuck");
  quietLogs();
  // ---- plan
  auto chunks = src.rows(12, 2, 0, 65535);
  std::size_t readChunk = src.oneOf<std::size_t>({5, 64, 4096, 65536});
  auto appOps = src.rows(10, 3, 0, 65535);
  bool switchModes = src.coin(1, 3);
  std::string stream;
  std::vector<std::pair<unsigned, std::size_t>> sendPlan;
  for (auto &r : chunks)
  {
    std::size_t len = 1 + static_cast<std::size_t>(r[1]) % 700;
    sendPlan.emplace_back(static_cast<unsigned>(r[0] % 3 == 0 ? 0 : r[0] % 400), len);
    stream += arrivalBytes(0, stream.size(), len);
  }
  unsigned finDelayUs = static_cast<unsigned>(src.range(0, 300));
  // how the session ends: 0 the peer sends FIN right after its last byte; 1 the application calls close(sid),
  // 2 the application calls stop(), 3 the peer resets the connection - in 1..3 only AFTER the engine has read
  // (and therefore delivered through onData) every byte, so everything the peer sent "arrived before the close"
  int closeKind = static_cast<int>(src.weighted({5, 2, 2, 2}));
  static const char *closeKindName[] = {"peer-FIN", "app-close", "stop()", "peer-RST"};

  // ---- raw peer. The listening socket lives for the whole process (binding a fresh port per case
  // would exhaust the ephemeral range through TIME_WAIT in long runs); its accept queue is drained
  // at the start of every case, nothing else is shared between cases.
  struct Listener
  {
    int fd = -1;
    std::uint16_t port = 0;
    Listener()
    {
      fd = ::socket(AF_INET, SOCK_STREAM | SOCK_CLOEXEC | SOCK_NONBLOCK, 0);
      sockaddr_in a{};
      a.sin_family = AF_INET;
      a.sin_addr.s_addr = htonl(INADDR_LOOPBACK);
      socklen_t al = sizeof a;
      if (fd < 0 || ::bind(fd, reinterpret_cast<sockaddr *>(&a), sizeof a) != 0 || ::listen(fd, 16) != 0 ||
          ::getsockname(fd, reinterpret_cast<sockaddr *>(&a), &al) != 0)
      {
        if (fd >= 0) ::close(fd);
        fd = -1;
        return;
      }
      port = ntohs(a.sin_port);
    }
  };
  static Listener listener;
  if (listener.fd < 0)
  {
    c.inconclusive("raw listener setup failed");
    return;
  }
  const int lfd = listener.fd;
  const std::uint16_t port = listener.port;
  for (;;)
  {
    int stale = ::accept4(lfd, nullptr, nullptr, SOCK_CLOEXEC);
    if (stale < 0) break;
    ::close(stale);
  }
  std::atomic<bool> peerFailed{false};
  std::atomic<std::uint64_t> finSentNs{0};
  std::atomic<bool> peerMayFinish{false};
  auto nowNs = [] {
    return static_cast<std::uint64_t>(
      std::chrono::duration_cast<std::chrono::nanoseconds>(std::chrono::steady_clock::now().time_since_epoch()).count());
  };
  std::thread peer([&] {
    pollfd pf{lfd, POLLIN, 0};
    if (::poll(&pf, 1, 20000) <= 0)
    {
      peerFailed.store(true);
      return;
    }
    int fd = ::accept4(lfd, nullptr, nullptr, SOCK_CLOEXEC);
    if (fd < 0)
    {
      peerFailed.store(true);
      return;
    }
    std::size_t off = 0;
    for (auto &sp : sendPlan)
    {
      if (sp.first) std::this_thread::sleep_for(std::chrono::microseconds(sp.first));
      std::size_t done = 0;
      while (done < sp.second)
      {
        ssize_t n = ::send(fd, stream.data() + off + done, sp.second - done, MSG_NOSIGNAL);
        if (n <= 0)
        {
          peerFailed.store(true);
          ::close(fd);
          return;
        }
        done += static_cast<std::size_t>(n);
      }
      off += sp.second;
    }
    if (closeKind != 0)
    {
      for (int i = 0; i < 600000 && !peerMayFinish.load(); ++i) std::this_thread::sleep_for(std::chrono::microseconds(50));
      if (closeKind == 3)
      {
        linger lg{1, 0};
        ::setsockopt(fd, SOL_SOCKET, SO_LINGER, &lg, sizeof lg);
        ::close(fd); // RST
        finSentNs.store(nowNs());
        return;
      }
    }
    else
    {
      if (finDelayUs) std::this_thread::sleep_for(std::chrono::microseconds(finDelayUs));
      ::shutdown(fd, SHUT_WR); // FIN after the last byte
      finSentNs.store(nowNs());
    }
    char buf[64];
    pollfd rp{fd, POLLIN, 0};
    // wait (bounded) for the other side to go away so that close() does not reset unread data
    for (int i = 0; i < 200; ++i)
    {
      if (::poll(&rp, 1, 50) > 0 && ::recv(fd, buf, sizeof buf, 0) <= 0) break;
    }
    ::close(fd);
  });

  net::TransportConfig cfg;
  cfg.ioReadChunk = readChunk;
  auto tr = net::Transport::tcp(cfg);
  std::mutex logMu;
  std::string handed;
  std::size_t viaCb = 0;
  tr->onData([&](SessionId, iora::core::BufferView d, std::chrono::steady_clock::time_point) {
    std::lock_guard<std::mutex> lk(logMu);
    handed.append(reinterpret_cast<const char *>(d.data()), d.size());
    viaCb += d.size();
  });
  std::string failSig, failWhat;
  bool timed = false;
  bool eof = false;
  if (!tr->start().isOk())
  {
    peer.join();
    c.inconclusive("transport did not start");
    return;
  }
  auto cr = tr->connectSync("127.0.0.1", port, net::TlsMode::None, std::chrono::milliseconds{10000});
  if (!cr.isOk())
  {
    tr->stop();
    peer.join();
    c.inconclusive("connect to the raw peer failed");
    return;
  }
  SessionId sid = cr.value();
  tr->setReadMode(sid, ReadMode::Sync);
  auto receive = [&](std::size_t len, unsigned tmoMs) -> TransportError
  {
    RecvOut out = doReceive(*tr, sid, len, std::chrono::milliseconds{tmoMs});
    if (out.ok)
    {
      std::lock_guard<std::mutex> lk(logMu);
      handed += out.bytes;
      if (eof && failSig.empty())
      {
        failSig = "C03/data-after-peer-closed";
        failWhat = "receiveSync returned data after PeerClosed";
      }
      return TransportError::None;
    }
    if (out.code == TransportError::PeerClosed && !eof)
    {
      eof = true;
      std::lock_guard<std::mutex> lk(logMu);
      if (handed.size() != stream.size() && failSig.empty())
      {
        failSig = "C03/peer-closed-before-drained";
        failWhat = pbt::Fmt() << "real engine: PeerClosed reported after " << handed.size() << " of " << stream.size()
                              << " bytes the peer had sent before its FIN";
      }
    }
    else if (out.code == TransportError::Timeout && tmoMs >= 3000)
    {
      std::uint64_t fs = finSentNs.load();
      if (fs && nowNs() - fs > 2500000000ull && failSig.empty())
      {
        failSig = "C03/e2e-eof-not-reported";
        failWhat = "receiveSync(3 s) timed out although the peer had sent FIN more than 2.5 s earlier";
        timed = true;
      }
    }
    else if (out.code != TransportError::Timeout && out.code != TransportError::PeerClosed && failSig.empty())
    {
      failSig = "C03/receive-unexpected-error";
      failWhat = std::string("real engine: receiveSync returned ") + errName(out.code);
    }
    return out.code;
  };
  static const std::size_t lens[] = {1, 3, 8, 64, 1000, 70000};
  static const unsigned tmos[] = {0, 1, 2, 10};
  for (auto &r : appOps)
  {
    if (!failSig.empty() || eof) break;
    int k = static_cast<int>(r[0] % 8);
    if (switchModes && k >= 6)
      tr->setReadMode(sid, k == 6 ? ReadMode::Async : ReadMode::Sync);
    else
      receive(lens[static_cast<std::size_t>(r[1]) % 6], tmos[static_cast<std::size_t>(r[2]) % 4]);
  }
  bool allArrived = true;
  if (closeKind != 0 && failSig.empty())
  {
    // wait until the engine has read every byte: bytesIn is bumped before the chunk's onData, and both the Close
    // command / Shutdown and a later RST event are handled by the same I/O thread after that callback returned
    allArrived = false;
    for (int i = 0; i < 100000 && !peerFailed.load(); ++i)
    {
      if (tr->getStats().bytesIn >= stream.size())
      {
        allArrived = true;
        break;
      }
      std::this_thread::sleep_for(std::chrono::microseconds(100));
    }
    if (allArrived)
    {
      if (closeKind == 1) tr->close(sid);
      else if (closeKind == 2) tr->stop();
      if (closeKind != 3) finSentNs.store(nowNs());
    }
  }
  peerMayFinish.store(true);
  tr->setReadMode(sid, ReadMode::Sync); // (a no-op after the close: the late receives below still drain)
  for (int guard = 0; guard < 100000 && failSig.empty() && !eof && allArrived; ++guard)
  {
    TransportError r = receive(97, 3000);
    if (r != TransportError::None) break;
  }
  peer.join();
  tr->stop();
  c.describe(pbt::Fmt() << "e2e chunks=" << sendPlan.size() << " bytes=" << stream.size() << " ioReadChunk=" << readChunk
                        << " end=" << closeKindName[closeKind] << " finDelay=" << finDelayUs << "us switchModes=" << switchModes << " appOps=" << appOps.size()
                        << " => handed " << handed.size() << " (callback " << viaCb << ")" << (eof ? " eof" : ""));
  if (peerFailed.load())
  {
    c.inconclusive("raw peer could not deliver its script");
    return;
  }
  if (!allArrived)
  {
    c.inconclusive("engine did not read the whole stream in time");
    return;
  }
  if (failSig.empty())
  {
    bool prefix = handed.size() <= stream.size() && stream.compare(0, handed.size(), handed) == 0;
    if (!prefix)
    {
      failSig = "C03/stream-not-in-arrival-order";
      failWhat = "real engine: handed bytes are not a prefix of what the peer sent";
    }
    else if (eof && handed.size() != stream.size())
    {
      failSig = "C03/bytes-lost";
      failWhat = pbt::Fmt() << "real engine: " << handed.size() << " of " << stream.size() << " bytes handed over";
    }
  }
  if (!failSig.empty())
  {
    if (timed) c.failTimed(failSig, failWhat);
    else c.fail(failSig, failWhat);
    return;
  }
  if (eof) c.label("e2e: PeerClosed after full drain");
  if (eof) c.label(std::string("e2e: session ended by ") + closeKindName[closeKind]);
  if (viaCb) c.label("e2e: bytes through the callback");
  if (!stream.empty() && eof) c.nontrivial(pbt::hashMix(pbt::hash64(stream), pbt::hashMix(readChunk, appOps.size())));
}

// op rows: {opcode, session, a, b}; opcodes 0-7 Deliver(len from a), 8-13 Receive(lens[a]),
// 14-18 SetMode(a%3: Async,Sync,Disabled), 19 Close
PBT_REGRESSION(overflow_then_fitting_chunk)
{
  // S1: cap 8, Sync; AAAAAA (6) buffered, BBBB (4) overflows and is dropped, CC (2) fits.
  // The reader must get AAAAAA and then BufferOverflow - never AAAAAACC.
  std::vector<pbt::Row> ops = {{14, 0, 1, 0}, {0, 0, 5, 1}, {0, 0, 3, 1}, {0, 0, 1, 1}, {8, 0, 12, 0}, {8, 0, 12, 0}};
  runSequential(c, 8, 1, 1024, ops, true);
}
PBT_REGRESSION(sync_disabled_async_stale_bytes)
{
  // S2: Sync, 3 bytes buffered, ->Disabled, ->Async: the buffered bytes must reach the data
  // callback at the switch, before the bytes that arrive afterwards.
  std::vector<pbt::Row> ops = {{14, 0, 1, 0}, {0, 0, 2, 1}, {14, 0, 2, 0}, {14, 0, 0, 0}, {0, 0, 2, 1}, {14, 0, 1, 0}, {8, 0, 12, 0}};
  runSequential(c, 64, 1, 1024, ops, true);
}
PBT_REGRESSION(drain_before_eof_after_app_close)
{
  // bytes buffered in Sync mode with no reader parked, then the application's own close ("closed by app",
  // code Unknown) / a socket error: every byte that arrived before the close is still returned, then PeerClosed
  for (std::int64_t reason : {1, 4, 7, 8, 10})
  {
    std::vector<pbt::Row> ops = {{14, 0, 1, 0}, {0, 0, 9, 1}, {19, 0, reason, 0}, {8, 0, 3, 0}, {8, 0, 12, 0}, {8, 0, 12, 0}};
    runSequential(c, 64, 1, 1024, ops, true);
    if (c.failed()) return;
  }
}
PBT_REGRESSION(drain_before_peer_closed)
{
  std::vector<pbt::Row> ops = {{14, 0, 1, 0}, {0, 0, 9, 1}, {19, 0, 0, 0}, {8, 0, 3, 0}, {8, 0, 3, 0}, {8, 0, 12, 0}, {8, 0, 12, 0}};
  runSequential(c, 64, 1, 1024, ops, true);
}

PBT_MAIN()
