// C03 - Synchronous receive is a lossless ordered stream that drains before EOF.
//
//   seq  : sequential model-based histories over a scripted fake engine. The harness
//          thread is both the application and the "I/O thread": Deliver(chunk),
//          Receive(bufLen, timeout 0), SetMode(Async|Sync|Disabled), Close, late Receive,
//          maxSyncReceiveBuffer in {8,64,1 MiB}, 1-2 sessions. Every operation is compared
//          with a reference model (arrival stream + mode + buffer + sticky overflow +
//          closed); the model itself is checked against the global statement (handed
//          bytes are a subsequence of arrival order, each at most once; the only missing
//          bytes arrived while Disabled / were dropped by an overflow / are still
//          buffered; after an overflow the reader sees only bytes buffered before it).
//   conc : a scripted fake I/O thread delivers chunks / close with generated micro-delays
//          while an application thread is parked in receiveSync (real timeouts) or is
//          flushing a mode switch. Oracles that hold for every interleaving:
//          prefix/concatenation equality, drain-before-close, callback order = arrival
//          order, sticky overflow without a hidden gap. Built with ASan+UBSan and TSan.
#include "pbt.hpp"
#include "c03_fake_engine.hpp"

#include <iora/core/logger.hpp>

#include <algorithm>
#include <cstring>
#include <deque>
#include <memory>

namespace net = iora::network;
using fakeeng::FakeEngine;
using net::ReadMode;
using net::SessionId;
using net::TransportError;

namespace
{

const char *modeName(ReadMode m)
{
  return m == ReadMode::Async ? "Async" : m == ReadMode::Sync ? "Sync" : "Disabled";
}
const char *errName(TransportError e)
{
  switch (e)
  {
  case TransportError::None: return "None";
  case TransportError::PeerClosed: return "PeerClosed";
  case TransportError::Timeout: return "Timeout";
  case TransportError::BufferOverflow: return "BufferOverflow";
  case TransportError::ShuttingDown: return "ShuttingDown";
  case TransportError::Cancelled: return "Cancelled";
  default: return "other";
  }
}

// the arrival stream of session k: byte i is a pure function of (k, i); any 251
// consecutive bytes are pairwise different, so a shifted / reordered / duplicated
// hand-over cannot coincide with the expected bytes
inline std::uint8_t arrivalByte(unsigned k, std::uint64_t i)
{
  return static_cast<std::uint8_t>((i + 97u * k) % 251u);
}
std::string arrivalBytes(unsigned k, std::uint64_t from, std::uint64_t n)
{
  std::string s;
  s.reserve(n);
  for (std::uint64_t i = 0; i < n; ++i) s.push_back(static_cast<char>(arrivalByte(k, from + i)));
  return s;
}

void quietLogs()
{
  static bool once = [] {
    iora::core::Logger::setLevel(iora::core::Logger::Level::Fatal);
    return true;
  }();
  (void)once;
}

enum class Fate : std::uint8_t
{
  Buffered,
  HandedRecv,
  HandedCb,
  DroppedDisabled,
  DroppedOverflow
};

// ------------------------------------------------------------------ reference model
struct Model
{
  unsigned k = 0; // session index (selects the arrival stream)
  ReadMode mode = ReadMode::Async;
  bool everSync = false; // a receive buffer exists (created by Sync mode or a receive)
  std::deque<std::uint64_t> buf; // arrival indices awaiting receiveSync
  bool overflow = false;
  bool closed = false;
  bool eofReported = false;     // PeerClosed was returned once (entry reclaimed by the code)
  bool maybeReclaimed = false;  // the tombstone GC may have dropped the (closed, empty) entry
  std::uint64_t next = 0;       // next arrival index
  std::uint64_t firstDropByOverflow = ~0ull;
  std::vector<Fate> fate;       // per arrival index
  std::vector<std::uint64_t> handed; // arrival indices in hand-over order
  std::vector<std::uint64_t> handedAfterOverflowByRecv;
};

struct Harness
{
  std::shared_ptr<net::Transport> tr;
  FakeEngine *eng = nullptr;
  struct CbRec
  {
    SessionId sid;
    std::string bytes;
  };
  std::vector<CbRec> cbLog;
  std::size_t cap = 0;

  explicit Harness(std::size_t maxBuf, std::size_t gcThreshold)
  {
    quietLogs();
    net::TransportConfig cfg;
    cfg.maxSyncReceiveBuffer = maxBuf;
    cfg.syncBufferGcThreshold = gcThreshold;
    cap = maxBuf;
    auto e = std::make_unique<FakeEngine>();
    eng = e.get();
    tr = net::test::TransportEngineInjector::withEngine(std::move(e), cfg);
    tr->onData([this](SessionId sid, iora::core::BufferView d, std::chrono::steady_clock::time_point) {
      cbLog.push_back(CbRec{sid, std::string(reinterpret_cast<const char *>(d.data()), d.size())});
    });
    tr->start();
  }
};

struct RecvOut
{
  bool ok = false;
  std::string bytes;
  TransportError code = TransportError::None;
  std::size_t lenAfter = 0;
};

RecvOut doReceive(net::Transport &tr, SessionId sid, std::size_t bufLen, std::chrono::milliseconds tmo)
{
  // exact-size heap buffer: ASan sees any write beyond what the caller offered
  std::unique_ptr<std::uint8_t[]> b(new std::uint8_t[bufLen ? bufLen : 1]);
  std::size_t len = bufLen;
  auto r = tr.receiveSync(sid, b.get(), len, tmo);
  RecvOut o;
  o.lenAfter = len;
  if (r.isOk())
  {
    o.ok = true;
    std::size_t n = r.value();
    if (n > bufLen) n = bufLen; // reported below as a mismatch through lenAfter/value
    o.bytes.assign(reinterpret_cast<const char *>(b.get()), n);
    if (r.value() != len || r.value() > bufLen) o.code = TransportError::Unknown; // inconsistent count
  }
  else
    o.code = r.error().code;
  return o;
}

std::string idxBytes(unsigned k, const std::deque<std::uint64_t> &q, std::size_t n)
{
  std::string s;
  for (std::size_t i = 0; i < n && i < q.size(); ++i) s.push_back(static_cast<char>(arrivalByte(k, q[i])));
  return s;
}

// the model's view of the global statement; returns "" if consistent
std::string modelSelfCheck(const Model &m)
{
  std::vector<char> seen(m.next, 0);
  std::uint64_t last = 0;
  bool first = true;
  for (auto i : m.handed)
  {
    if (i >= m.next) return "handed an index that never arrived";
    if (seen[i]) return "byte handed twice";
    seen[i] = 1;
    if (!first && i <= last) return "hand-over order is not arrival order";
    last = i;
    first = false;
  }
  for (std::uint64_t i = 0; i < m.next; ++i)
  {
    if (seen[i]) continue;
    Fate f = m.fate[i];
    if (f != Fate::DroppedDisabled && f != Fate::DroppedOverflow && f != Fate::Buffered)
      return "a byte is missing without an admissible reason";
  }
  for (auto i : m.handedAfterOverflowByRecv)
    if (i > m.firstDropByOverflow) return "reader got a byte that arrived after the overflow gap";
  return "";
}

} // namespace

// ============================================================================ seq
static void runSequential(pbt::Case &c, std::size_t cap, unsigned nsess, std::size_t gcThr,
                          const std::vector<pbt::Row> &ops, bool finalDrain)
{
  Harness h(cap, gcThr);
  std::vector<Model> ms(nsess);
  std::vector<SessionId> sids(nsess);
  for (unsigned k = 0; k < nsess; ++k)
  {
    ms[k].k = k;
    sids[k] = h.eng->openSession();
  }
  const bool knownS1 = pbt::isKnown("C03/post-overflow-bytes-returned-as-data");
  const bool knownS2 = pbt::isKnown("C03/switch-to-async-leaves-buffered-bytes");

  pbt::Fmt desc;
  desc << "cap=" << cap << " sessions=" << nsess << " gc=" << gcThr << " ops:";
  bool sawSwitch = false, sawClose = false, sawOverflowNonEmpty = false, sawFlush = false;
  bool sawPartial = false, sawLate = false, sawStickyRepeat = false, sawEof = false, sawDisabledDrop = false;
  unsigned overflowErrs = 0;

  auto receiveStep = [&](unsigned k, std::size_t bufLen, const char *tag) -> bool
  {
    Model &m = ms[k];
    desc << " " << tag << "(s" << k << "," << bufLen << ")";
    RecvOut out = doReceive(*h.tr, sids[k], bufLen, std::chrono::milliseconds{0});
    m.everSync = true; // receiveSync creates the buffer entry
    if (m.closed) sawLate = true;
    // ---- expectation
    if (!m.buf.empty())
    {
      std::size_t n = std::min(bufLen, m.buf.size());
      std::string exp = idxBytes(m.k, m.buf, n);
      if (n < m.buf.size() && n > 0) sawPartial = true;
      desc << "=" << (out.ok ? std::to_string(out.bytes.size()) + "B" : errName(out.code));
      if (!out.ok || out.bytes != exp || out.code != TransportError::None || out.lenAfter != n)
      {
        std::string what = pbt::Fmt() << "receiveSync(len=" << bufLen << ") with " << m.buf.size()
                                      << " bytes buffered: expected " << n << " bytes [" << pbt::hex(exp, 24)
                                      << "], got "
                                      << (out.ok ? "ok " + std::to_string(out.bytes.size()) + "B [" + pbt::hex(out.bytes, 24) + "] len=" + std::to_string(out.lenAfter)
                                                 : std::string("error ") + errName(out.code));
        if (m.overflow && out.ok)
          c.fail("C03/post-overflow-bytes-returned-as-data", what + " (bytes that arrived after the overflow gap)");
        else
          c.fail("C03/receive-data-mismatch", what);
        return false;
      }
      for (std::size_t i = 0; i < n; ++i)
      {
        std::uint64_t idx = m.buf.front();
        m.buf.pop_front();
        m.fate[idx] = Fate::HandedRecv;
        m.handed.push_back(idx);
        if (m.overflow) m.handedAfterOverflowByRecv.push_back(idx);
      }
      return true;
    }
    // empty buffer: overflow (sticky) before PeerClosed before Timeout
    std::vector<TransportError> allowed;
    if (m.maybeReclaimed || m.eofReported)
    {
      // the closed, drained entry may have been reclaimed: a fresh entry times out
      allowed = {TransportError::Timeout};
      if (m.overflow) allowed.push_back(TransportError::BufferOverflow);
      else allowed.push_back(TransportError::PeerClosed);
      if (m.eofReported && !m.overflow) allowed = {TransportError::Timeout, TransportError::PeerClosed};
    }
    else if (m.overflow)
      allowed = {TransportError::BufferOverflow};
    else if (m.closed)
      allowed = {TransportError::PeerClosed};
    else
      allowed = {TransportError::Timeout};
    desc << "=" << (out.ok ? std::to_string(out.bytes.size()) + "B" : errName(out.code));
    bool okCode = !out.ok && std::find(allowed.begin(), allowed.end(), out.code) != allowed.end();
    if (!okCode)
    {
      std::string what = pbt::Fmt() << "receiveSync(len=" << bufLen << ") with an empty buffer (overflow=" << m.overflow
                                    << " closed=" << m.closed << "): expected " << errName(allowed[0]) << ", got "
                                    << (out.ok ? "ok " + std::to_string(out.bytes.size()) + "B [" + pbt::hex(out.bytes, 24) + "]"
                                               : std::string("error ") + errName(out.code));
      if (m.overflow && out.ok)
        c.fail("C03/post-overflow-bytes-returned-as-data", what + " (bytes that arrived after the overflow gap)");
      else if (out.ok)
        c.fail("C03/receive-returned-unexpected-bytes", what);
      else if (m.overflow)
        c.fail("C03/overflow-not-sticky", what);
      else if (m.closed && out.code != TransportError::PeerClosed)
        c.fail("C03/close-not-reported", what);
      else
        c.fail("C03/receive-error-mismatch", what);
      return false;
    }
    if (out.code == TransportError::BufferOverflow)
    {
      if (++overflowErrs > 1) sawStickyRepeat = true;
    }
    if (out.code == TransportError::PeerClosed)
    {
      m.eofReported = true;
      sawEof = true;
    }
    return true;
  };

  for (auto &row : ops)
  {
    unsigned k = static_cast<unsigned>(row[1]) % nsess;
    Model &m = ms[k];
    SessionId sid = sids[k];
    int op = static_cast<int>(row[0] % 20);
    if (op < 8) // ------------------------------------------------------------ Deliver
    {
      if (m.closed) continue; // an engine delivers nothing after onClose
      std::size_t len;
      if (cap <= 8) len = 1 + static_cast<std::size_t>(row[2]) % 12;
      else if (cap <= 64) len = 1 + static_cast<std::size_t>(row[2]) % 80;
      else len = (row[3] % 40 == 0) ? 300000 + static_cast<std::size_t>(row[2]) * 4 : 1 + static_cast<std::size_t>(row[2]) % 300;
      if (knownS1 && m.mode == ReadMode::Sync && m.overflow)
      {
        c.label("excluded: deliver after overflow (known finding)");
        continue;
      }
      std::string chunk = arrivalBytes(m.k, m.next, len);
      desc << " D(s" << k << "," << len << ")";
      std::size_t cbBefore = h.cbLog.size();
      // exact-size heap copy: the engine's buffer is only valid during the callback
      std::unique_ptr<char[]> heap(new char[len]);
      std::memcpy(heap.get(), chunk.data(), len);
      if (!h.eng->fireData(sid, heap.get(), len))
      {
        c.fail("harness/fake-refused-data", "fake engine refused a legal delivery");
        return;
      }
      heap.reset();
      std::uint64_t from = m.next;
      m.next += len;
      m.fate.resize(m.next, Fate::Buffered);
      std::size_t expectCb = 0;
      if (m.mode == ReadMode::Async)
      {
        expectCb = 1;
        for (std::uint64_t i = from; i < m.next; ++i)
        {
          m.fate[i] = Fate::HandedCb;
          m.handed.push_back(i);
        }
      }
      else if (m.mode == ReadMode::Disabled)
      {
        sawDisabledDrop = true;
        for (std::uint64_t i = from; i < m.next; ++i) m.fate[i] = Fate::DroppedDisabled;
      }
      else
      {
        if (m.overflow || m.buf.size() + len > cap)
        {
          if (!m.overflow && !m.buf.empty()) sawOverflowNonEmpty = true;
          m.overflow = true;
          if (m.firstDropByOverflow == ~0ull) m.firstDropByOverflow = from;
          for (std::uint64_t i = from; i < m.next; ++i) m.fate[i] = Fate::DroppedOverflow;
          desc << "!ovf";
        }
        else
          for (std::uint64_t i = from; i < m.next; ++i) m.buf.push_back(i);
      }
      std::size_t got = h.cbLog.size() - cbBefore;
      if (got != expectCb || (expectCb == 1 && (h.cbLog.back().sid != sid || h.cbLog.back().bytes != chunk)))
      {
        c.fail(m.mode == ReadMode::Async ? "C03/async-delivery-mismatch"
               : m.mode == ReadMode::Disabled ? "C03/disabled-session-delivered"
                                              : "C03/sync-mode-invoked-callback",
               pbt::Fmt() << "delivery of " << len << " bytes in mode " << modeName(m.mode) << ": expected "
                          << expectCb << " data callback(s), observed " << got);
        return;
      }
    }
    else if (op < 14) // ------------------------------------------------------ Receive
    {
      static const std::size_t lens[] = {0, 1, 2, 3, 5, 7, 8, 9, 16, 63, 64, 65, 100, 1000, 1 << 20};
      std::size_t bufLen = lens[static_cast<std::size_t>(row[2]) % (sizeof lens / sizeof lens[0])];
      if (!receiveStep(k, bufLen, "R")) return;
    }
    else if (op < 19) // ------------------------------------------------------ SetMode
    {
      if (m.closed) continue; // mode switches after the close are not part of the statement
      ReadMode target = static_cast<ReadMode>(row[2] % 3);
      if (knownS2 && target == ReadMode::Async && m.mode == ReadMode::Disabled && !m.buf.empty())
      {
        c.label("excluded: Disabled->Async with buffered bytes (known finding)");
        continue;
      }
      desc << " M(s" << k << "," << modeName(target) << ")";
      std::size_t cbBefore = h.cbLog.size();
      bool ret = h.tr->setReadMode(sid, target);
      if (!ret)
      {
        c.fail("C03/setReadMode-refused", pbt::Fmt() << "setReadMode(" << modeName(target) << ") returned false");
        return;
      }
      if (target != m.mode) sawSwitch = true;
      std::string expectFlush;
      if (target == ReadMode::Async && !m.buf.empty())
      {
        expectFlush = idxBytes(m.k, m.buf, m.buf.size());
        sawFlush = true;
      }
      std::string gotFlush;
      bool foreign = false;
      for (std::size_t i = cbBefore; i < h.cbLog.size(); ++i)
      {
        if (h.cbLog[i].sid != sid) foreign = true;
        gotFlush += h.cbLog[i].bytes;
      }
      if (gotFlush != expectFlush || foreign)
      {
        std::string what = pbt::Fmt() << "setReadMode(" << modeName(m.mode) << "->" << modeName(target) << ") with "
                                      << m.buf.size() << " buffered bytes: expected the data callback to receive ["
                                      << pbt::hex(expectFlush, 24) << "], it received [" << pbt::hex(gotFlush, 24) << "]";
        if (gotFlush.empty() && m.mode == ReadMode::Disabled)
          c.fail("C03/switch-to-async-leaves-buffered-bytes", what);
        else
          c.fail("C03/flush-mismatch", what);
        return;
      }
      if (target == ReadMode::Async)
      {
        for (auto idx : m.buf)
        {
          m.fate[idx] = Fate::HandedCb;
          m.handed.push_back(idx);
        }
        m.buf.clear();
      }
      if (target == ReadMode::Sync) m.everSync = true;
      m.mode = target;
      ReadMode rm;
      if (!h.tr->getReadMode(sid, rm) || rm != target)
      {
        c.fail("C03/mode-not-applied", pbt::Fmt() << "getReadMode after setReadMode(" << modeName(target) << ") disagrees");
        return;
      }
    }
    else // ------------------------------------------------------------------- Close
    {
      if (m.closed) continue;
      desc << " C(s" << k << ")";
      if (!m.buf.empty()) sawClose = true;
      std::size_t cbBefore = h.cbLog.size();
      h.eng->fireClose(sid, TransportError::PeerClosed, "peer closed");
      if (h.cbLog.size() != cbBefore)
      {
        c.fail("C03/close-invoked-data-callback", "onClose caused a data callback");
        return;
      }
      m.closed = true;
      m.mode = ReadMode::Async; // the mode entry is dropped with the session
      // the tombstone GC (run from another session's close) may reclaim closed, drained entries
      if (gcThr < 8)
        for (auto &o : ms)
          if (&o != &m && o.closed && o.buf.empty()) o.maybeReclaimed = true;
    }
  }

  if (finalDrain)
  {
    // everything the model still holds must come out of late/ordinary receives, then the error
    for (unsigned k = 0; k < nsess; ++k)
    {
      for (int guard = 0; guard < 4096; ++guard)
      {
        bool hadData = !ms[k].buf.empty();
        std::size_t bl = ms[k].buf.size() > 4096 ? (1u << 20) : 7;
        if (!receiveStep(k, bl, "F")) return;
        if (!hadData) break;
      }
    }
  }
  for (auto &m : ms)
  {
    std::string why = modelSelfCheck(m);
    if (!why.empty())
    {
      c.fail("harness/model-violates-statement", why);
      return;
    }
  }
  c.describe(desc.str());
  if (sawSwitch) c.label("mode switch");
  if (sawFlush) c.label("flush with buffered bytes");
  if (sawClose) c.label("close with buffered bytes");
  if (sawOverflowNonEmpty) c.label("overflow with non-empty buffer");
  if (overflowErrs) c.label("BufferOverflow reported");
  if (sawStickyRepeat) c.label("BufferOverflow reported again (sticky)");
  if (sawPartial) c.label("partial receive (len < buffered)");
  if (sawLate) c.label("late receive after close");
  if (sawEof) c.label("PeerClosed reported");
  if (sawDisabledDrop) c.label("bytes arrived while Disabled");
  if (sawFlush || sawClose || sawOverflowNonEmpty)
  {
    std::uint64_t d = pbt::hashMix(cap, nsess);
    for (auto &r : ops)
      for (auto x : r) d = pbt::hashMix(d, static_cast<std::uint64_t>(x));
    c.nontrivial(d);
  }
}

PBT_PROPERTY(seq)
{
  std::size_t cap = src.oneOf<std::size_t>({8, 8, 64, 64, 1u << 20});
  unsigned nsess = static_cast<unsigned>(src.range(1, 2));
  std::size_t gcThr = src.coin(1, 4) ? 0 : 1024;
  auto ops = src.rows(60, 4, 0, 65535);
  runSequential(c, cap, nsess, gcThr, ops, src.coin(3, 4));
}

// op rows: {opcode, session, a, b}; opcodes 0-7 Deliver(len from a), 8-13 Receive(lens[a]),
// 14-18 SetMode(a%3: Async,Sync,Disabled), 19 Close
PBT_REGRESSION(overflow_then_fitting_chunk)
{
  // S1: cap 8, Sync; AAAAAA (6) buffered, BBBB (4) overflows and is dropped, CC (2) fits.
  // The reader must get AAAAAA and then BufferOverflow - never AAAAAACC.
  std::vector<pbt::Row> ops = {{14, 0, 1, 0}, {0, 0, 5, 1}, {0, 0, 3, 1}, {0, 0, 1, 1}, {8, 0, 12, 0}, {8, 0, 12, 0}};
  runSequential(c, 8, 1, 1024, ops, true);
}
PBT_REGRESSION(sync_disabled_async_stale_bytes)
{
  // S2: Sync, 3 bytes buffered, ->Disabled, ->Async: the buffered bytes must reach the data
  // callback at the switch, before the bytes that arrive afterwards.
  std::vector<pbt::Row> ops = {{14, 0, 1, 0}, {0, 0, 2, 1}, {14, 0, 2, 0}, {14, 0, 0, 0}, {0, 0, 2, 1}, {14, 0, 1, 0}, {8, 0, 12, 0}};
  runSequential(c, 64, 1, 1024, ops, true);
}
PBT_REGRESSION(drain_before_peer_closed)
{
  std::vector<pbt::Row> ops = {{14, 0, 1, 0}, {0, 0, 9, 1}, {19, 0, 0, 0}, {8, 0, 3, 0}, {8, 0, 3, 0}, {8, 0, 12, 0}, {8, 0, 12, 0}};
  runSequential(c, 64, 1, 1024, ops, true);
}

PBT_MAIN()
