// C14 - the XML parser accepts only balanced documents and reports them faithfully.
//   construct : random document tree -> rendered text (prefixed names, ' and " quoting, predefined
//               entities and numeric character references in text and attribute values, CDATA,
//               comments, PIs, XML declaration, DOCTYPE with internal subset, random white space
//               between markup and inside tags) -> pull tokenizer, SAX driver and DOM builder must
//               each report exactly the generating tree (construction oracle), modulo the
//               documented white-space skipping
//   limits    : depth / attributes / name length / text span / token count around the document's
//               actual measures: every limit >= measure => accepted and reported faithfully,
//               some limit < measure => rejected by all three interfaces
//   mutate    : byte-level mutations of rendered documents (with planted entity declarations and
//               references to them) under random limits -> validity predicate of
//               common/c14_xml_check.hpp (balance by own stack, slices inside the buffer, limits
//               hold, nothing expanded, three interfaces agree, decodeEntities vs strict decoder)
//   prefixes  : every prefix of small generated documents, each in its own exact-size buffer,
//               through the same validity predicate (truncated constructs at end of input)
//   emit      : writes generated documents + expected + observed canonical event lists for the
//               expat cross-check (harness/c14_expat.py)
// Inputs are always handed to iora in exact-size heap buffers (ASan sees any over-read).
#include "pbt.hpp"
#include "c14_ref_xml.hpp"
#include "c14_xml_check.hpp"

#include <iora/parsers/xml.hpp>

#include <algorithm>
#include <cstring>
#include <memory>

#include <csignal>
#include <sys/time.h>
#include <unistd.h>

namespace ix = iora::parsers::xml;
using c14::ExactBuf;
using c14::Obs;
using refxml::Ev;

namespace
{

// Termination guard on *CPU time*. The parser is synchronous and CPU-bound, so an input on which it
// does not terminate burns user CPU time without bound, while a case that is merely starved does
// not. (A wall-clock watchdog is unusable here: under load average > 100 this machine stalled whole
// process groups for more than a minute - the kernel logged stalled workqueues - and every shard's
// 60 s watchdog fired at the same instant on cases that replay in 3 ms.) A normal case needs
// milliseconds of CPU (the heaviest fixed regression < 1 s); the bound is 30 s. On expiry the handler aborts; the
// pbt runtime's SIGABRT hook records the running case (signature "abort", the message below is part
// of the report).
void cpuGuardExpired(int)
{
  static const char msg[] = "C14 CPU-TIME GUARD [C14/arbitrary/no-termination]: the running case has used more CPU time than its bound "
                            "(normal: milliseconds) - parsing does not terminate on this input\n";
  ssize_t w = write(2, msg, sizeof msg - 1);
  (void)w;
  abort();
}
struct CpuGuard
{
  CpuGuard()
  {
    static const long bound = []
    {
      std::signal(SIGVTALRM, cpuGuardExpired);
      const char *e = std::getenv("C14_CPU_GUARD_SECONDS");
      long v = e ? std::atol(e) : 0;
      return v > 0 ? v : 30L;
    }();
    itimerval t{};
    t.it_value.tv_sec = bound;
    setitimer(ITIMER_VIRTUAL, &t, nullptr);
  }
  ~CpuGuard()
  {
    itimerval t{};
    setitimer(ITIMER_VIRTUAL, &t, nullptr);
  }
  CpuGuard(const CpuGuard &) = delete;
  CpuGuard &operator=(const CpuGuard &) = delete;
};

std::string trim(std::string_view s)
{
  std::size_t b = 0, e = s.size();
  while (b < e && refxml::isWs((unsigned char)s[b])) ++b;
  while (e > b && refxml::isWs((unsigned char)s[e - 1])) --e;
  return std::string(s.substr(b, e - b));
}

std::string optText(const ix::Options &o)
{
  return pbt::Fmt() << "opts{depth=" << o.maxDepth << ",attrs=" << o.maxAttrsPerElement << ",name=" << o.maxNameLength
                    << ",text=" << o.maxTextSpan << ",tokens=" << o.maxTotalTokens << "}";
}

// ---- expected events vs observed pull tokens ------------------------------------------
// returns "" when the observed tokens are exactly the expected events; `aspect` names the
// first difference for the failure signature
std::string cmpEvents(const std::vector<Ev> &exp, const std::vector<Obs> &got, std::string_view input, std::string &aspect)
{
  const auto base = reinterpret_cast<std::uintptr_t>(input.data());
  std::string dec;
  std::size_t n = std::min(exp.size(), got.size());
  for (std::size_t i = 0; i < n; ++i)
  {
    const Ev &e = exp[i];
    const Obs &t = got[i];
    std::string at = std::string(" [event #") + std::to_string(i) + " expected " + refxml::evKindName(e.k) + " '" + pbt::show(e.name.empty() ? e.raw : e.name, 40) +
                     "' at offset " + std::to_string(e.offset) + ", got " + c14::kindName(t.kind) + " name='" + pbt::show(t.name, 40) + "' text='" + pbt::show(t.text, 60) +
                     "' offset " + std::to_string(t.offset) + " depth " + std::to_string(t.depth) + "]";
    auto textIs = [&](std::string_view got_, bool &withLead)
    {
      withLead = false;
      if (got_ == e.raw) return true;
      if (!e.lead.empty() && got_.size() == e.lead.size() + e.raw.size() && got_.substr(0, e.lead.size()) == e.lead && got_.substr(e.lead.size()) == e.raw)
      {
        withLead = true;
        return true;
      }
      return false;
    };
    switch (e.k)
    {
    case Ev::XmlDecl:
    {
      if (t.kind == ix::TokenKind::ProcessingInstruction)
      {
        bool wl;
        if (t.name != "xml") { aspect = "xmldecl"; return "XML declaration reported as PI with target '" + std::string(t.name) + "'" + at; }
        if (!textIs(t.text, wl)) { aspect = "xmldecl"; return "XML declaration content differs" + at; }
      }
      else if (t.kind == ix::TokenKind::XmlDecl)
      {
        if (t.attrs.size() != e.attrs.size()) { aspect = "xmldecl"; return "XML declaration pseudo-attribute count differs" + at; }
        for (std::size_t k = 0; k < e.attrs.size(); ++k)
          if (t.attrs[k].name != e.attrs[k].name || t.attrs[k].value != e.attrs[k].raw) { aspect = "xmldecl"; return "XML declaration pseudo-attribute differs" + at; }
      }
      else { aspect = "kind-or-order"; return "XML declaration not reported as XmlDecl or PI 'xml'" + at; }
      if (t.offset != e.offset) { aspect = "offset"; return "token offset differs" + at; }
      break;
    }
    case Ev::Doctype:
    {
      if (t.kind != ix::TokenKind::Doctype) { aspect = "kind-or-order"; return "DOCTYPE not reported as Doctype token" + at; }
      if (t.offset != e.offset) { aspect = "offset"; return "token offset differs" + at; }
      auto within = [&](std::string_view v)
      {
        if (v.empty()) return true;
        auto p = reinterpret_cast<std::uintptr_t>(v.data());
        return p >= base + e.offset && p + v.size() <= base + e.end;
      };
      if (!within(t.text) || !within(t.name)) { aspect = "doctype"; return "Doctype slice lies outside the declaration" + at; }
      if (t.name.empty() && trim(t.text) != trim(e.raw)) { aspect = "doctype"; return "Doctype content differs: expected '" + pbt::show(trim(e.raw), 120) + "'" + at; }
      break;
    }
    case Ev::Start:
    case Ev::End:
    case Ev::Empty:
    {
      ix::TokenKind want = e.k == Ev::Start ? ix::TokenKind::StartElement : e.k == Ev::End ? ix::TokenKind::EndElement : ix::TokenKind::EmptyElement;
      if (t.kind != want) { aspect = "kind-or-order"; return "wrong token kind" + at; }
      if (t.name != e.name) { aspect = "name"; return "element name differs" + at; }
      if (t.offset != e.offset) { aspect = "offset"; return "token offset differs" + at; }
      if (t.selfClosing != (e.k == Ev::Empty)) { aspect = "selfclosing"; return "selfClosing flag wrong" + at; }
      if (t.attrs.size() != e.attrs.size()) { aspect = "attr"; return "attribute count " + std::to_string(t.attrs.size()) + " != " + std::to_string(e.attrs.size()) + at; }
      for (std::size_t k = 0; k < e.attrs.size(); ++k)
      {
        if (t.attrs[k].name != e.attrs[k].name) { aspect = "attr"; return "attribute #" + std::to_string(k) + " name '" + pbt::show(t.attrs[k].name, 40) + "' != '" + e.attrs[k].name + "'" + at; }
        if (t.attrs[k].value != e.attrs[k].raw) { aspect = "attr"; return "attribute " + e.attrs[k].name + " raw value '" + pbt::show(t.attrs[k].value, 80) + "' != '" + pbt::show(e.attrs[k].raw, 80) + "'" + at; }
        ix::Error er;
        if (!ix::Parser::decodeEntities(t.attrs[k].value, dec, &er)) { aspect = "decode"; return "decodeEntities failed (" + er.message + ") on attribute value '" + pbt::show(e.attrs[k].raw, 80) + "'" + at; }
        if (dec != e.attrs[k].decoded) { aspect = "decode"; return "attribute value '" + pbt::show(e.attrs[k].raw, 80) + "' decoded to '" + pbt::show(dec, 80) + "', expected '" + pbt::show(e.attrs[k].decoded, 80) + "'" + at; }
      }
      break;
    }
    case Ev::Text:
    {
      if (t.kind != ix::TokenKind::Text) { aspect = "kind-or-order"; return "wrong token kind" + at; }
      bool wl;
      if (!textIs(t.text, wl)) { aspect = "text"; return "text slice differs: expected '" + pbt::show(e.raw, 80) + "'" + (e.lead.empty() ? "" : " (optionally preceded by its leading white space)") + at; }
      if (t.offset != (wl ? e.leadOffset : e.offset)) { aspect = "offset"; return "token offset differs" + at; }
      ix::Error er;
      if (!ix::Parser::decodeEntities(t.text, dec, &er)) { aspect = "decode"; return "decodeEntities failed (" + er.message + ") on text '" + pbt::show(e.raw, 80) + "'" + at; }
      if (dec != (wl ? e.lead + e.decoded : e.decoded)) { aspect = "decode"; return "text '" + pbt::show(e.raw, 80) + "' decoded to '" + pbt::show(dec, 80) + "', expected '" + pbt::show(e.decoded, 80) + "'" + at; }
      break;
    }
    case Ev::CData:
    case Ev::Comment:
    {
      ix::TokenKind want = e.k == Ev::CData ? ix::TokenKind::CData : ix::TokenKind::Comment;
      if (t.kind != want) { aspect = "kind-or-order"; return "wrong token kind" + at; }
      if (t.text != e.raw) { aspect = e.k == Ev::CData ? "cdata" : "comment"; return "content differs: expected '" + pbt::show(e.raw, 80) + "'" + at; }
      if (t.offset != e.offset) { aspect = "offset"; return "token offset differs" + at; }
      break;
    }
    case Ev::PI:
    {
      if (t.kind != ix::TokenKind::ProcessingInstruction) { aspect = "kind-or-order"; return "wrong token kind" + at; }
      bool wl;
      if (t.name != e.name) { aspect = "pi"; return "PI target differs" + at; }
      if (!textIs(t.text, wl)) { aspect = "pi"; return "PI data differs: expected '" + pbt::show(e.lead + e.raw, 80) + "'" + at; }
      if (t.offset != e.offset) { aspect = "offset"; return "token offset differs" + at; }
      break;
    }
    }
    if (e.k != Ev::XmlDecl && e.k != Ev::Doctype && t.depth != e.depth) { aspect = "depth"; return "depth " + std::to_string(t.depth) + " != " + std::to_string(e.depth) + at; }
    if (e.k == Ev::Start || e.k == Ev::End || e.k == Ev::Empty)
    {
      // prefix / local-name split (no URI resolution): at the first colon
      ix::Token tk;
      tk.name = t.name;
      auto sp = tk.splitQName();
      auto c = e.name.find(':');
      std::string px = c == std::string::npos ? "" : e.name.substr(0, c), loc = c == std::string::npos ? e.name : e.name.substr(c + 1);
      if (sp.first != px || sp.second != loc) { aspect = "qname"; return "splitQName gives '" + std::string(sp.first) + "' / '" + std::string(sp.second) + "'" + at; }
    }
  }
  if (got.size() < exp.size())
  {
    aspect = "kind-or-order";
    return std::string("token stream ends early: missing ") + refxml::evKindName(exp[got.size()].k) + " '" + pbt::show(exp[got.size()].name.empty() ? exp[got.size()].raw : exp[got.size()].name, 40) + "' (event #" + std::to_string(got.size()) + ")";
  }
  if (got.size() > exp.size())
  {
    aspect = "kind-or-order";
    return std::string("unexpected extra token ") + c14::kindName(got[exp.size()].kind) + " text='" + pbt::show(got[exp.size()].text, 60) + "' name='" + pbt::show(got[exp.size()].name, 40) + "' at offset " + std::to_string(got[exp.size()].offset);
  }
  return "";
}

// ---- expected events vs DOM ------------------------------------------------------------
std::string cmpDom(const ix::Node &doc, const std::vector<Ev> &exp, std::string &aspect)
{
  if (doc.type != ix::NodeType::Document) { aspect = "structure"; return "root node is not a Document"; }
  struct Frame { const ix::Node *n; std::size_t next; std::string textAcc; };
  std::vector<Frame> st{{&doc, 0, {}}};
  auto peek = [&]() -> const ix::Node *
  {
    Frame &f = st.back();
    return f.next < f.n->children.size() ? f.n->children[f.next].get() : nullptr;
  };
  for (std::size_t i = 0; i < exp.size(); ++i)
  {
    const Ev &e = exp[i];
    std::string at = std::string(" [event #") + std::to_string(i) + " " + refxml::evKindName(e.k) + " '" + pbt::show(e.name.empty() ? e.raw : e.name, 40) + "']";
    const ix::Node *c = peek();
    switch (e.k)
    {
    case Ev::XmlDecl:
      // may or may not appear in the DOM (as PI 'xml')
      if (c && c->type == ix::NodeType::ProcessingInstruction && c->name == "xml") ++st.back().next;
      break;
    case Ev::Doctype: break;
    case Ev::Start:
    case Ev::Empty:
    {
      if (!c || c->type != ix::NodeType::Element) { aspect = "structure"; return "DOM lacks the element" + at; }
      ++st.back().next;
      if (c->name != e.name) { aspect = "name"; return "DOM element name '" + pbt::show(c->name, 40) + "'" + at; }
      if (c->attributes.size() != e.attrs.size()) { aspect = "attr"; return "DOM attribute count " + std::to_string(c->attributes.size()) + " != " + std::to_string(e.attrs.size()) + at; }
      for (std::size_t k = 0; k < e.attrs.size(); ++k)
      {
        if (c->attributes[k].name != e.attrs[k].name) { aspect = "attr"; return "DOM attribute name '" + pbt::show(c->attributes[k].name, 40) + "' != '" + e.attrs[k].name + "'" + at; }
        if (c->attributes[k].value != e.attrs[k].decoded) { aspect = "attr-value"; return "DOM attribute " + e.attrs[k].name + " = '" + pbt::show(c->attributes[k].value, 80) + "', expected '" + pbt::show(e.attrs[k].decoded, 80) + "' (written '" + pbt::show(e.attrs[k].raw, 80) + "')" + at; }
        if (c->getAttribute(e.attrs[k].name) != e.attrs[k].decoded) { aspect = "attr-value"; return "getAttribute(" + e.attrs[k].name + ") differs" + at; }
      }
      if (e.k == Ev::Start) st.push_back(Frame{c, 0, {}});
      else if (!c->children.empty()) { aspect = "structure"; return "DOM node of an empty element has children" + at; }
      break;
    }
    case Ev::End:
      if (st.size() <= 1) { aspect = "structure"; return "internal: end without start" + at; }
      if (c) { aspect = "structure"; return "DOM element has an extra child (type " + std::to_string((int)c->type) + " '" + pbt::show(c->name.empty() ? c->value : c->name, 40) + "') before" + at; }
      if (st.back().n->name != e.name) { aspect = "structure"; return "internal: nesting" + at; }
      if (st.back().n->getTextContent() != st.back().textAcc) { aspect = "text-content"; return "getTextContent() = '" + pbt::show(st.back().n->getTextContent(), 80) + "', expected '" + pbt::show(st.back().textAcc, 80) + "'" + at; }
      st.pop_back();
      break;
    case Ev::Text:
      if (!c || c->type != ix::NodeType::Text) { aspect = "structure"; return "DOM lacks the text node" + at; }
      ++st.back().next;
      if (c->value != e.decoded && c->value != e.lead + e.decoded) { aspect = "text"; return "DOM text '" + pbt::show(c->value, 80) + "', expected '" + pbt::show(e.decoded, 80) + "' (written '" + pbt::show(e.raw, 80) + "')" + at; }
      st.back().textAcc += c->value;
      break;
    case Ev::CData:
      if (!c || c->type != ix::NodeType::CData) { aspect = "structure"; return "DOM lacks the CDATA node" + at; }
      ++st.back().next;
      if (c->value != e.raw) { aspect = "cdata"; return "DOM CDATA '" + pbt::show(c->value, 80) + "', expected '" + pbt::show(e.raw, 80) + "'" + at; }
      st.back().textAcc += c->value;
      break;
    case Ev::Comment:
      if (!c || c->type != ix::NodeType::Comment) { aspect = "structure"; return "DOM lacks the comment node" + at; }
      ++st.back().next;
      if (c->value != e.raw) { aspect = "comment"; return "DOM comment '" + pbt::show(c->value, 80) + "', expected '" + pbt::show(e.raw, 80) + "'" + at; }
      break;
    case Ev::PI:
      if (!c || c->type != ix::NodeType::ProcessingInstruction) { aspect = "structure"; return "DOM lacks the PI node" + at; }
      ++st.back().next;
      if (c->name != e.name || (c->value != e.raw && c->value != e.lead + e.raw)) { aspect = "pi"; return "DOM PI '" + pbt::show(c->name, 40) + "' '" + pbt::show(c->value, 80) + "'" + at; }
      break;
    }
  }
  if (st.size() != 1 || peek()) { aspect = "structure"; return "DOM document has extra children"; }
  return "";
}

// first child element by name, through the DOM's own helper, against the expected events
std::string cmpChildByName(const ix::Node &doc, const std::vector<Ev> &exp)
{
  // only the root level is probed: the first top-level element is the root
  for (auto &e : exp)
    if (e.k == Ev::Start || e.k == Ev::Empty)
    {
      const ix::Node *r = doc.childByName(e.name);
      if (!r || r->type != ix::NodeType::Element || r->name != e.name) return "childByName('" + e.name + "') on the document does not return the root element";
      return "";
    }
  return "";
}

void labelFeatures(pbt::Case &c, const refxml::Features &f)
{
  if (f.entities) c.label("predefined entity");
  if (f.charRefs) c.label("numeric char ref");
  if (f.hexUpper) c.label("upper-case hex char ref");
  if (f.cdata) c.label("CDATA");
  if (f.comments) c.label("comment");
  if (f.pis) c.label("PI");
  if (f.decl) c.label("XML declaration");
  if (f.doctype) c.label("DOCTYPE");
  if (f.subset) c.label("DOCTYPE internal subset");
  if (f.doctypeInnerQuotes) c.label("DOCTYPE literal/comment/PI holding the other quote character");
  if (f.doctypeOddQuotes) c.label("DOCTYPE with an odd total of quote characters");
  if (f.prefixes) c.label("prefixed name");
  if (f.nonAscii) c.label("non-ASCII text");
  if (f.astral) c.label("astral code point");
  if (f.leadWs) c.label("raw white space before text run");
  if (f.leadRefWs) c.label("text starting with white space char ref");
  if (f.interWs) c.label("white space between markup");
  if (f.tagWs) c.label("unusual white space inside tag");
  if (f.singleQuote) c.label("single-quoted attribute");
  if (f.emptyElems) c.label("empty-element tag");
  if (f.maxAttrs > 16) c.label("more than 16 attributes");
  if (f.maxDepth >= 2) c.label("nesting>=2");
}

bool nontrivialDoc(const refxml::Features &f)
{
  return f.maxDepth >= 2 && (f.entities || f.charRefs || f.cdata || f.comments || f.pis);
}

/// all three interfaces against the expected events; reports the first difference
bool faithful(pbt::Case &c, std::string_view in, const ix::Options &opt, const refxml::Rendered &r, unsigned saxMask, const std::string &sigRoot)
{
  c14::PullRun pr = c14::runPull(in, opt);
  if (!pr.ok)
  {
    c.fail(sigRoot + "/pull/rejected-valid", "well-formed document rejected: " + pr.err + " at offset " + std::to_string(pr.errOffset));
    return false;
  }
  std::string aspect, why = cmpEvents(r.evs, pr.toks, in, aspect);
  if (!why.empty())
  {
    c.fail(sigRoot + "/pull/" + aspect, why);
    return false;
  }
  c14::SaxRun sr = c14::runSaxAll(in, opt, saxMask);
  why = c14::saxAgrees(pr.toks, sr, true, saxMask);
  if (!why.empty())
  {
    c.fail(sigRoot + "/sax", why);
    return false;
  }
  ix::Parser p(in, opt);
  ix::Error e;
  auto doc = ix::DomBuilder::build(p, &e);
  if (!doc)
  {
    c.fail(sigRoot + "/dom/rejected-valid", "DomBuilder returned null for a well-formed document: " + e.message);
    return false;
  }
  why = cmpDom(*doc, r.evs, aspect);
  if (!why.empty())
  {
    c.fail(sigRoot + "/dom/" + aspect, why);
    return false;
  }
  why = cmpChildByName(*doc, r.evs);
  if (!why.empty())
  {
    c.fail(sigRoot + "/dom/child-by-name", why);
    return false;
  }
  return true;
}

c14::Report reportTo(pbt::Case &c)
{
  c14::Report rep;
  rep.fail = [&c](const std::string &sig, const std::string &what) { c.fail(sig, what); };
  rep.label = [&c](const std::string &l) { c.label(l); };
  return rep;
}

} // namespace

// -------------------------------------------------------------------------- construct
PBT_PROPERTY(construct)
{
  CpuGuard cpuGuard;
  refxml::GenOpts go;
  go.maxDepth = 5;
  go.maxKids = 5;
  refxml::Doc d = refxml::genDoc(src, go);
  refxml::RenderOpts ro;
  ro.wsPct = (int)src.oneOf<std::int64_t>({0, 15, 30, 60});
  refxml::Rendered r = refxml::render(src, d, ro);
  unsigned saxMask = src.coin(1, 4) ? (unsigned)src.range(0, (1 << 11) - 1) : ~0u;
  c.describe(r.text);
  labelFeatures(c, r.f);
  if (saxMask != ~0u) c.label("SAX with a subset of callbacks");
  if (nontrivialDoc(r.f)) c.nontrivial(pbt::hash64(r.text));
  ExactBuf buf(r.text);
  ix::Options opt;
  opt.namespaceProcessing = src.coin(); // prefix/local split only; must not change what is reported
  faithful(c, buf.view(), opt, r, saxMask, "C14/construct");
}

// ----------------------------------------------------------------------------- limits
namespace
{
struct Measure
{
  std::size_t lo = 0, hi = 0; // smallest / largest reading of the document's measure
};

// purpose-built document with an exact measure `n` for limit `which`
// 0 depth, 1 attributes, 2 name length, 3 text span (text run), 4 text span (attribute value), 5 tokens
std::string buildProbe(pbt::Src &src, int which, std::size_t n, Measure &m)
{
  std::string t;
  m.lo = m.hi = n;
  auto nameOf = [](std::size_t i) { return std::string(1, (char)('a' + i % 26)) + (i >= 26 ? std::to_string(i / 26) : ""); };
  switch (which)
  {
  case 0: // n >= 1 nested elements, innermost either <x/> or <x>t</x>
  {
    bool leafEmpty = src.coin();
    bool ws = src.coin(1, 3);
    std::vector<std::string> names;
    for (std::size_t i = 0; i + 1 < n; ++i)
    {
      names.push_back(nameOf(i));
      t += "<" + names.back() + ">" + (ws ? "\n" : "");
    }
    t += leafEmpty ? "<leaf/>" : "<leaf>t</leaf>";
    for (std::size_t i = names.size(); i-- > 0;) t += (ws ? "\n" : "") + std::string("</") + names[i] + ">";
    break;
  }
  case 1: // n attributes on one element (root or nested, empty-element tag or start tag)
  {
    bool nested = src.coin(), empty = src.coin();
    char q = src.coin() ? '"' : '\'';
    std::string e = "<e";
    for (std::size_t i = 0; i < n; ++i) e += " " + nameOf(i) + "=" + q + (i % 3 ? "v" : "") + q;
    e += empty ? "/>" : ">x</e>";
    t = nested ? "<r>" + e + "</r>" : e;
    break;
  }
  case 2: // a name of exactly n >= 1 bytes: element / empty element / attribute / PI target
  {
    std::string nm(n, 'n');
    for (std::size_t i = 1; i < n; i += 3) nm[i] = "-._:9"[i % 5];
    switch (src.range(0, 3))
    {
    case 0: t = "<" + nm + ">x</" + nm + ">"; break;
    case 1: t = "<r><" + nm + "/></r>"; break;
    case 2: t = "<r " + nm + "='1'/>"; break;
    default: t = "<r><?" + nm + " d?></r>"; break;
    }
    break;
  }
  case 3: // text run of exactly n >= 1 raw bytes (no leading white space), optionally with references
  case 4: // attribute value of exactly n raw bytes
  {
    std::string raw;
    std::size_t decoded = 0;
    bool refs = src.coin(1, 3);
    while (raw.size() < n)
    {
      std::size_t left = n - raw.size();
      if (refs && left >= 5 && src.coin(1, 3)) { raw += "&amp;"; ++decoded; }
      else if (refs && left >= 6 && src.coin(1, 3)) { raw += "&#x41;"; ++decoded; }
      else { raw += (char)('a' + raw.size() % 26); ++decoded; }
    }
    m.lo = decoded;
    m.hi = n;
    if (which == 3)
    {
      switch (src.range(0, 2))
      {
      case 0: t = "<r>" + raw + "</r>"; break;
      case 1: t = "<r>" + raw + "<c/></r>"; break;
      default: t = "<r><c/>" + raw + "</r>"; break;
      }
    }
    else
      t = std::string("<r a=") + (src.coin() ? "\"" + raw + "\"" : "'" + raw + "'") + (src.coin() ? "/>" : "></r>");
    break;
  }
  default: // exactly n >= 1 tokens
  {
    m.hi = n + 1; // under the reading that the end-of-input token counts as well
    if (n == 1) { t = "<r/>"; break; }
    t = "<r>";
    bool prevText = false;
    for (std::size_t i = 0; i + 2 < n; ++i)
    {
      auto k = src.weighted({4, prevText ? 0 : 3, 1, 1, 1});
      t += k == 0 ? "<c/>" : k == 1 ? "t" : k == 2 ? "<!--c-->" : k == 3 ? "<?p d?>" : "<![CDATA[d]]>";
      prevText = (k == 1);
    }
    t += "</r>";
    break;
  }
  }
  return t;
}

std::size_t &limitField(ix::Options &o, int which)
{
  switch (which)
  {
  case 0: return o.maxDepth;
  case 1: return o.maxAttrsPerElement;
  case 2: return o.maxNameLength;
  case 3:
  case 4: return o.maxTextSpan;
  default: return o.maxTotalTokens;
  }
}
const char *limitName(int which)
{
  static const char *n[] = {"depth", "attrs", "name", "text", "attr-value", "tokens"};
  return n[which];
}
} // namespace

PBT_PROPERTY(limits)
{
  CpuGuard cpuGuard;
  ix::Options opt;
  std::string text;
  bool mustAccept = true, mustReject = false;
  std::string why; // which limit decides
  refxml::Rendered r;
  bool haveTree = false;
  if (src.coin(3, 5))
  {
    // purpose-built probe of one limit around its boundary
    int which = (int)src.range(0, 5);
    std::size_t L;
    bool deflt = which <= 2 && src.coin(1, 12);
    if (deflt) L = limitField(opt, which); // probe the default value itself (256 / 256 / 1024)
    else L = (std::size_t)src.range(0, 40);
    std::size_t n;
    if (src.coin(3, 4)) n = (std::size_t)std::max<std::int64_t>(0, (std::int64_t)L + src.range(-3, 3));
    else n = (std::size_t)src.range(0, (std::int64_t)L * 2 + 3);
    if (n == 0 && which != 1 && which != 4) n = 1; // a document has at least one element / name / token
    Measure m;
    text = buildProbe(src, which, n, m);
    limitField(opt, which) = L;
    bool unbounded = which == 5 && L == 0;
    mustAccept = unbounded || m.hi <= L;
    mustReject = !unbounded && m.lo > L;
    why = pbt::Fmt() << limitName(which) << " limit " << L << ", measure " << m.lo << (m.hi != m.lo ? ".." + std::to_string(m.hi) : std::string());
    c.label(std::string("probe ") + limitName(which) + (deflt ? " (default value)" : ""));
    c.nontrivial(pbt::hashMix(pbt::hash64(text), pbt::hashMix((std::uint64_t)which, L)));
  }
  else
  {
    // random document, every limit either default or set around the document's measure
    refxml::GenOpts go;
    go.maxDepth = 4;
    go.maxKids = 4;
    refxml::Doc d = refxml::genDoc(src, go);
    refxml::RenderOpts ro;
    ro.wsPct = (int)src.oneOf<std::int64_t>({0, 30});
    r = refxml::render(src, d, ro);
    haveTree = true;
    text = r.text;
    const refxml::Features &f = r.f;
    std::size_t declAttrs = 0, declName = 0;
    for (auto &e : r.evs)
      if (e.k == Ev::XmlDecl)
      {
        declAttrs = e.attrs.size();
        for (auto &a : e.attrs) declName = std::max(declName, a.name.size());
      }
    Measure ms[5] = {{(std::size_t)f.maxDepth, (std::size_t)f.maxDepth},
                     {f.maxAttrs, std::max(f.maxAttrs, declAttrs)},
                     {f.maxName, std::max(f.maxName, declName)},
                     {f.textLo, f.textHi},
                     {f.tokens, f.tokens + f.wsGaps + 1}};
    static const int fieldOf[5] = {0, 1, 2, 3, 5};
    bool any = false;
    for (int k = 0; k < 5; ++k)
    {
      if (!src.coin(2, 5)) continue;
      any = true;
      const Measure &m = ms[k];
      std::size_t ref = src.coin() ? m.lo : m.hi;
      std::size_t L = (std::size_t)std::max<std::int64_t>(0, (std::int64_t)ref + src.range(-3, 3));
      limitField(opt, fieldOf[k]) = L;
      bool unbounded = k == 4 && L == 0;
      if (!unbounded && m.hi > L) mustAccept = false;
      if (!unbounded && m.lo > L) mustReject = true;
      why += std::string(why.empty() ? "" : "; ") + limitName(fieldOf[k]) + " limit " + std::to_string(L) + " measure " + std::to_string(m.lo) + (m.hi != m.lo ? ".." + std::to_string(m.hi) : std::string());
    }
    c.label(any ? "random document, limits around its measures" : "random document, default limits");
    if (nontrivialDoc(f)) c.nontrivial(pbt::hashMix(pbt::hash64(text), pbt::hash64(optText(opt))));
  }
  c.describe(optText(opt) + " expect=" + (mustAccept ? "accept" : mustReject ? "reject" : "either") + " (" + why + ") doc=" + pbt::show(text, 1200));
  c.label(mustAccept ? "all limits hold => must accept" : mustReject ? "a limit is exceeded => must reject" : "at the boundary (no verdict)");

  ExactBuf buf(text);
  auto rep = reportTo(c);
  c14::Outcome o = c14::checkArbitrary(buf.view(), opt, rep); // includes: limits hold on what was accepted, 3 APIs agree
  if (c.failed()) return;
  if (mustAccept && !o.accepted)
  {
    c14::PullRun pr = c14::runPull(buf.view(), opt);
    c.fail("C14/limits/inside-rejected", "document within every configured limit rejected: " + pr.err + " (" + why + ")");
    return;
  }
  if (mustReject && o.accepted)
  {
    c.fail("C14/limits/beyond-accepted", "document accepted although a configured limit is exceeded (" + why + ")");
    return;
  }
  if (mustAccept && haveTree) faithful(c, buf.view(), opt, r, ~0u, "C14/limits");
}

// ----------------------------------------------------------------------------- mutate
namespace
{
void mutateText(std::string &text, const std::vector<pbt::Row> &muts)
{
  static const char interesting[] = "<>/&;\"'][-?!= \n\t#x:abcd\x00\x7f\x80\xff\xc3";
  static const char *const frags[] = {"<!--", "-->", "<![CDATA[", "]]>", "<?", "?>", "<!DOCTYPE", "&#x", "&lt;", "</", "/>", "&#", "<a>", "</a>", "<b/>",
                                      "<!", "]>", " a='", "=\"", "&amp;", "<!ENTITY", "--", "&#x110000;", "&#0;", "&#xD800;", "<![CDATA[]]>", "<?xml ?>", "< ", " < ", "<<", "<1", "> <", "<a ", "/ >", "' '"};
  static const char *const refs[] = {"&e1;", "&ent;", "&xxe;", "&ext;", "&big;", "&undefined;", "&pe;", "%pe;", "&e1", "&#65;", "&LT;", "&amp;e1;", "&e1;&e1;"};
  for (auto &m : muts)
  {
    if (text.empty()) break;
    std::size_t pos = (std::size_t)m[1] % text.size();
    std::size_t v = (std::size_t)m[2];
    switch (m[0] % 10)
    {
    case 0: text.erase(pos, 1); break;
    case 1: text.insert(pos, 1, interesting[v % (sizeof(interesting) - 1)]); break;
    case 2: text[pos] = interesting[v % (sizeof(interesting) - 1)]; break;
    case 3:
    {
      // truncate: at a random position, or right after the next syntactically special character
      if (v & 1)
      {
        std::size_t p = text.find_first_of("</!-[?&#='\"]>; ", pos);
        if (p != std::string::npos) pos = p + 1;
      }
      text.resize(pos);
      break;
    }
    case 4: text.insert(pos, text.substr(pos, v % 12)); break;
    case 5: text.insert(pos, frags[v % (sizeof(frags) / sizeof(frags[0]))]); break;
    case 6:
    {
      // reference to a declared / external / undefined entity right after the next '>' or quote
      std::size_t p = text.find_first_of(">\"'", pos);
      p = p == std::string::npos ? pos : p + 1;
      text.insert(p, refs[v % (sizeof(refs) / sizeof(refs[0]))]);
      break;
    }
    case 7:
    {
      // rename: first name character of the next tag
      std::size_t p = text.find('<', pos);
      if (p == std::string::npos) p = text.find('<');
      if (p == std::string::npos) break;
      ++p;
      if (p < text.size() && text[p] == '/') ++p;
      if (p < text.size()) text[p] = "abcd"[v % 4];
      break;
    }
    case 8: text.erase(pos, v % 9); break;
    default:
    {
      std::size_t from = v % text.size();
      text.insert(pos, text.substr(from, (v >> 8) % 16));
      break;
    }
    }
  }
}
} // namespace

PBT_PROPERTY(mutate)
{
  CpuGuard cpuGuard;
  refxml::GenOpts go;
  go.maxDepth = 4;
  go.maxKids = 4;
  refxml::Doc d = refxml::genDoc(src, go);
  if (src.coin())
  {
    // make sure there are entity declarations to (not) expand
    d.doctype = true;
    d.subset = true;
    d.subsetItems.push_back(std::string("<!ENTITY e1 \"") + refxml::kMarker + " internal\">");
    d.subsetItems.push_back(std::string("<!ENTITY ext SYSTEM \"file:///") + refxml::kMarker + "\">");
  }
  refxml::RenderOpts ro;
  ro.wsPct = (int)src.oneOf<std::int64_t>({0, 30});
  refxml::Rendered r = refxml::render(src, d, ro);
  std::string text = r.text;
  auto muts = src.rows(6, 3, 0, 1 << 16);
  if (muts.empty() && src.coin(2, 3)) muts.push_back(pbt::Row{src.range(0, 1 << 16), src.range(0, 1 << 16), src.range(0, 1 << 16)});
  mutateText(text, muts);
  ix::Options opt;
  if (src.coin(1, 3))
  {
    if (src.coin()) opt.maxDepth = (std::size_t)src.range(0, r.f.maxDepth + 2);
    if (src.coin()) opt.maxAttrsPerElement = (std::size_t)src.range(0, (std::int64_t)r.f.maxAttrs + 2);
    if (src.coin()) opt.maxNameLength = (std::size_t)src.range(0, (std::int64_t)r.f.maxName + 2);
    if (src.coin()) opt.maxTextSpan = (std::size_t)src.range(0, (std::int64_t)r.f.textHi + 2);
    if (src.coin()) opt.maxTotalTokens = (std::size_t)src.range(0, (std::int64_t)r.f.tokens + 3);
    c.label("small limits");
  }
  c.describe(optText(opt) + " mutations=" + std::to_string(muts.size()) + " doc=" + pbt::show(text, 1400));
  if (nontrivialDoc(r.f)) c.nontrivial(pbt::hashMix(pbt::hash64(text), pbt::hash64(optText(opt))));
  c.label("mutations: " + std::to_string(muts.size()));

  ExactBuf buf(text);
  auto rep = reportTo(c);
  c14::Outcome o = c14::checkArbitrary(buf.view(), opt, rep);
  if (c.failed()) return;
  c.label(o.accepted ? "accepted" : "rejected");
  if (o.accepted && !muts.empty()) c.label("accepted after mutation");
  if (o.accepted && o.maxDepth >= 2) c.label("accepted with nesting>=2");
  if (o.undecodable) c.label("has undecodable reference (undefined entity / bad char ref)");
}

// --------------------------------------------------------------------------- prefixes
// Every prefix of a (small) generated document, and the document cut in two with a few bytes
// removed, each in its own exact-size buffer: no cursor helper may read past a truncated
// construct, and whatever is still accepted is balanced.
PBT_PROPERTY(prefixes)
{
  CpuGuard cpuGuard;
  refxml::GenOpts go;
  go.maxDepth = 3;
  go.maxKids = 3;
  go.manyAttrs = false;
  go.longNames = false;
  refxml::Doc d = refxml::genDoc(src, go);
  refxml::RenderOpts ro;
  ro.wsPct = 15;
  refxml::Rendered r = refxml::render(src, d, ro);
  const std::string &text = r.text;
  ix::Options opt;
  if (src.coin(1, 4)) opt.maxTotalTokens = (std::size_t)src.range(1, (std::int64_t)r.f.tokens + 1);
  c.describe(optText(opt) + " every prefix of: " + pbt::show(text, 1400));
  if (nontrivialDoc(r.f)) c.nontrivial(pbt::hash64(text));
  auto rep = reportTo(c);
  std::size_t accepted = 0;
  for (std::size_t n = 0; n <= text.size() && !c.failed(); ++n)
  {
    ExactBuf buf(std::string_view(text).substr(0, n));
    if (c14::checkArbitrary(buf.view(), opt, rep).accepted) ++accepted;
    if (c.failed()) c.describe(optText(opt) + " prefix of " + std::to_string(n) + " bytes: " + pbt::show(std::string_view(text).substr(0, n), 1400));
  }
  c.label(accepted > 1 ? "several prefixes accepted" : accepted == 1 ? "one prefix accepted" : "no prefix accepted");
}

// ------------------------------------------------------------------------------- emit
namespace
{
std::string hx(std::string_view s) { return pbt::hex(s, 1u << 30); }

std::string stripLead(std::string s)
{
  std::size_t b = 0;
  while (b < s.size() && refxml::isWs((unsigned char)s[b])) ++b;
  return s.substr(b);
}
} // namespace

PBT_PROPERTY(emit)
{
  CpuGuard cpuGuard;
  static FILE *f = [] { const char *p = std::getenv("C14_EMIT"); return p ? std::fopen(p, "w") : nullptr; }();
  refxml::GenOpts go;
  go.maxDepth = 4;
  go.maxKids = 4;
  refxml::Doc d = refxml::genDoc(src, go);
  refxml::RenderOpts ro;
  ro.wsPct = (int)src.oneOf<std::int64_t>({0, 30, 60});
  refxml::Rendered r = refxml::render(src, d, ro);
  c.describe(r.text);
  if (nontrivialDoc(r.f)) c.nontrivial(pbt::hash64(r.text));
  // canonical event list: X decl, D doctype, S start, E end, T text, C cdata, M comment, P pi;
  // text with leading white space stripped (and dropped when empty), empty-element = S + E
  std::string ce, ci;
  for (auto &e : r.evs)
  {
    switch (e.k)
    {
    case Ev::XmlDecl: break;
    case Ev::Doctype: break;
    case Ev::Start:
    case Ev::Empty:
      ce += "S:" + hx(e.name);
      for (auto &a : e.attrs) ce += ":" + hx(a.name) + "=" + hx(a.decoded);
      ce += "|";
      if (e.k == Ev::Empty) ce += "E:" + hx(e.name) + "|";
      break;
    case Ev::End: ce += "E:" + hx(e.name) + "|"; break;
    case Ev::Text:
    {
      std::string t = stripLead(e.decoded);
      if (!t.empty()) ce += "T:" + hx(t) + "|";
      break;
    }
    case Ev::CData: ce += "C:" + hx(e.raw) + "|"; break;
    case Ev::Comment: ce += "M:" + hx(e.raw) + "|"; break;
    case Ev::PI: ce += "P:" + hx(e.name) + ":" + hx(e.raw) + "|"; break;
    }
  }
  ExactBuf buf(r.text);
  c14::PullRun pr = c14::runPull(buf.view(), ix::Options{});
  if (!pr.ok) ci = "REJECTED";
  else
  {
    std::string dec;
    for (auto &t : pr.toks)
    {
      switch (t.kind)
      {
      case ix::TokenKind::StartElement:
      case ix::TokenKind::EmptyElement:
        ci += "S:" + hx(t.name);
        for (auto &a : t.attrs)
        {
          if (!ix::Parser::decodeEntities(a.value, dec)) dec = "<undecodable>";
          ci += ":" + hx(a.name) + "=" + hx(dec);
        }
        ci += "|";
        if (t.kind == ix::TokenKind::EmptyElement) ci += "E:" + hx(t.name) + "|";
        break;
      case ix::TokenKind::EndElement: ci += "E:" + hx(t.name) + "|"; break;
      case ix::TokenKind::Text:
      {
        if (!ix::Parser::decodeEntities(t.text, dec)) dec = "<undecodable>";
        std::string s = stripLead(dec);
        if (!s.empty()) ci += "T:" + hx(s) + "|";
        break;
      }
      case ix::TokenKind::CData: ci += "C:" + hx(t.text) + "|"; break;
      case ix::TokenKind::Comment: ci += "M:" + hx(t.text) + "|"; break;
      case ix::TokenKind::ProcessingInstruction:
        if (t.name == "xml") break; // the XML declaration
        ci += "P:" + hx(t.name) + ":" + hx(stripLead(std::string(t.text))) + "|";
        break;
      default: break;
      }
    }
  }
  if (f)
  {
    std::fprintf(f, "%s\t%s\t%s\n", hx(r.text).c_str(), ce.c_str(), ci.c_str());
    std::fflush(f);
  }
}

// ------------------------------------------------------------------ fixed regressions
namespace
{
// every interface must refuse `text`
void expectRejected(pbt::Case &c, const std::string &text, const std::string &sig)
{
  ExactBuf buf(text);
  auto rep = reportTo(c);
  c14::Outcome o = c14::checkArbitrary(buf.view(), ix::Options{}, rep);
  if (c.failed()) return;
  if (o.accepted) c.fail(sig, "accepted: " + pbt::show(text, 200));
}
void expectAccepted(pbt::Case &c, const std::string &text, const ix::Options &opt, const std::string &sig)
{
  ExactBuf buf(text);
  auto rep = reportTo(c);
  c14::Outcome o = c14::checkArbitrary(buf.view(), opt, rep);
  if (c.failed()) return;
  if (!o.accepted) c.fail(sig, "rejected under " + optText(opt) + ": " + pbt::show(text, 200) + " : " + c14::runPull(buf.view(), opt).err);
}
void expectRejectedOpt(pbt::Case &c, const std::string &text, const ix::Options &opt, const std::string &sig)
{
  ExactBuf buf(text);
  auto rep = reportTo(c);
  c14::Outcome o = c14::checkArbitrary(buf.view(), opt, rep);
  if (c.failed()) return;
  if (o.accepted) c.fail(sig, "accepted under " + optText(opt) + ": " + pbt::show(text, 200));
}

const char *const kRichDoc =
  "<?xml version=\"1.0\" encoding='UTF-8'?>\n"
  "<!-- head --><!DOCTYPE p:root SYSTEM \"x.dtd\" [ <!ENTITY e1 \"XXEMARKERxq7 > v\"> <!ENTITY ext SYSTEM 'file:///XXEMARKERxq7'> ]>\n"
  "<p:root xmlns:p='urn:p' a = \"1 &lt; 2 &amp;&#x20AC;&#8364;\" b='&quot;q&apos;'>\n"
  "  <item id=\"7\">t&#65;&#x42;x &gt; y<![CDATA[ <raw> & ]] ]]><!--c - c--><?pi  d ? d?></item>\n"
  "  <empty/><a:b.c-d_e \t\n k='v'\n></a:b.c-d_e >&#32;lead\n"
  "</p:root>\n<?tail?><!---->";
} // namespace

PBT_REGRESSION(unbalanced_rejected)
{
  CpuGuard cpuGuard;
  c.describe("mismatched / unclosed / stray end tags must be rejected by pull, SAX and DOM");
  for (const char *t : {"<a><b></a></b>", "<a></b>", "<a:b></a:c>", "<a></a><b>", "</a>", "<a/></a>", "<a><b></b>", "<a></a></a>", "<a></A>", "<a><b/></b></a>",
                        "<a>x</ab>", "<ab>x</a>", "<a></a:a>", "<r><a><b><c></b></c></a></r>"})
  {
    expectRejected(c, t, "C14/accepted/mismatched-end-tag");
    if (c.failed()) return;
  }
}

PBT_REGRESSION(doctype_quote_characters)
{
  CpuGuard cpuGuard;
  // well-formed DOCTYPEs whose literals / comments / PIs hold the *other* quote character (odd and
  // even counts), followed by a body with quote characters: the DOCTYPE ends at its own '>' and
  // every element behind it is reported. Expected element/text sequence written by hand.
  c.describe("DOCTYPE literals, comments and PIs containing quote characters");
  struct T { const char *doc; const char *doctype; std::vector<std::string> rest; };
  const std::vector<T> cases = {
    {"<!DOCTYPE r SYSTEM \"o'brien.dtd\"><r a=\"1\">it's<b/></r>", "r SYSTEM \"o'brien.dtd\"", {"S:r", "T:it's", "M:b", "E:r"}},
    {"<!DOCTYPE r SYSTEM 'say \"hi.dtd'><r><a/>\"<b/></r>", "r SYSTEM 'say \"hi.dtd'", {"S:r", "M:a", "T:\"", "M:b", "E:r"}},
    {"<!DOCTYPE r PUBLIC \"-//O'Reilly//DTD x//EN\" \"x.dtd\"><r><a k='v'/>'<b/></r>", "r PUBLIC \"-//O'Reilly//DTD x//EN\" \"x.dtd\"", {"S:r", "M:a", "T:'", "M:b", "E:r"}},
    {"<!DOCTYPE r [<!ENTITY e 'say \"hi'>]><r><c k=\"v\"/></r>", "r [<!ENTITY e 'say \"hi'>]", {"S:r", "M:c", "E:r"}},
    {"<!DOCTYPE r [<!ENTITY e \"it's > 'x\">]><r>t</r>", "r [<!ENTITY e \"it's > 'x\">]", {"S:r", "T:t", "E:r"}},
    {"<!DOCTYPE r [<!-- don't -->]><r/>", "r [<!-- don't -->]", {"M:r"}},
    {"<!DOCTYPE r [<!-- don't --><?p say \"hi?>]><r><x/>\"<y a='1'/></r>", "r [<!-- don't --><?p say \"hi?>]", {"S:r", "M:x", "T:\"", "M:y", "E:r"}},
    {"<!DOCTYPE r [<!ENTITY a \"'\"><!ENTITY b '\"'>]><r><z/></r><!--'-->", "r [<!ENTITY a \"'\"><!ENTITY b '\"'>]", {"S:r", "M:z", "E:r", "C:'"}},
  };
  auto rep = reportTo(c);
  for (auto &t : cases)
  {
    ExactBuf buf{std::string_view(t.doc)};
    c14::PullRun pr = c14::runPull(buf.view(), ix::Options{});
    if (!pr.ok) { c.fail("C14/construct/pull/rejected-valid", std::string(t.doc) + " rejected: " + pr.err); return; }
    std::vector<std::string> got;
    std::string dt;
    for (auto &k : pr.toks)
    {
      switch (k.kind)
      {
      case ix::TokenKind::Doctype: dt = trim(k.text); break;
      case ix::TokenKind::StartElement: got.push_back("S:" + std::string(k.name)); break;
      case ix::TokenKind::EmptyElement: got.push_back("M:" + std::string(k.name)); break;
      case ix::TokenKind::EndElement: got.push_back("E:" + std::string(k.name)); break;
      case ix::TokenKind::Text: got.push_back("T:" + std::string(k.text)); break;
      case ix::TokenKind::Comment: got.push_back("C:" + std::string(k.text)); break;
      default: got.push_back("?"); break;
      }
    }
    if (dt != t.doctype) { c.fail("C14/construct/pull/doctype", std::string(t.doc) + ": Doctype content reported as '" + pbt::show(dt, 120) + "'"); return; }
    if (got != t.rest)
    {
      std::string g;
      for (auto &x : got) g += x + " ";
      c.fail("C14/construct/pull/kind-or-order", std::string(t.doc) + ": tokens behind the DOCTYPE are: " + pbt::show(g, 200));
      return;
    }
    c14::checkArbitrary(buf.view(), ix::Options{}, rep); // SAX / DOM agreement, extents, balance
    if (c.failed()) return;
  }
}

PBT_REGRESSION(rich_document_faithful)
{
  CpuGuard cpuGuard;
  // hand-written expectations for one feature-rich document (independent of the generator)
  std::string text = kRichDoc;
  c.describe(text);
  ExactBuf buf(text);
  c14::PullRun pr = c14::runPull(buf.view(), ix::Options{});
  if (!pr.ok) { c.fail("C14/construct/pull/rejected-valid", pr.err); return; }
  struct X { ix::TokenKind k; const char *name; const char *text; std::size_t depth; };
  const X want[] = {
    {ix::TokenKind::ProcessingInstruction, "xml", " version=\"1.0\" encoding='UTF-8'", 0},
    {ix::TokenKind::Comment, "", " head ", 0},
    {ix::TokenKind::Doctype, "", nullptr, 0},
    {ix::TokenKind::StartElement, "p:root", "", 1},
    {ix::TokenKind::StartElement, "item", "", 2},
    {ix::TokenKind::Text, "", "t&#65;&#x42;x &gt; y", 2},
    {ix::TokenKind::CData, "", " <raw> & ]] ", 2},
    {ix::TokenKind::Comment, "", "c - c", 2},
    {ix::TokenKind::ProcessingInstruction, "pi", "  d ? d", 2},
    {ix::TokenKind::EndElement, "item", "", 2},
    {ix::TokenKind::EmptyElement, "empty", "", 2},
    {ix::TokenKind::StartElement, "a:b.c-d_e", "", 2},
    {ix::TokenKind::EndElement, "a:b.c-d_e", "", 2},
    {ix::TokenKind::Text, "", "&#32;lead\n", 1},
    {ix::TokenKind::EndElement, "p:root", "", 1},
    {ix::TokenKind::ProcessingInstruction, "tail", "", 0},
    {ix::TokenKind::Comment, "", "", 0},
  };
  std::size_t n = sizeof(want) / sizeof(want[0]);
  if (pr.toks.size() != n) { c.fail("C14/construct/pull/kind-or-order", pbt::Fmt() << "expected " << n << " tokens, got " << pr.toks.size()); return; }
  for (std::size_t i = 0; i < n; ++i)
  {
    const Obs &t = pr.toks[i];
    bool xmlAsDecl = i == 0 && t.kind == ix::TokenKind::XmlDecl;
    if (!xmlAsDecl && (t.kind != want[i].k || t.name != want[i].name || (want[i].text && t.text != want[i].text && trim(t.text) != trim(want[i].text)) || t.depth != want[i].depth))
    {
      c.fail("C14/construct/pull/kind-or-order", pbt::Fmt() << "token #" << i << ": got " << c14::kindName(t.kind) << " name='" << std::string(t.name) << "' text='" << pbt::show(t.text, 80) << "' depth " << t.depth);
      return;
    }
  }
  const Obs &root = pr.toks[3];
  std::string dec;
  if (root.attrs.size() != 3 || root.attrs[0].name != "xmlns:p" || root.attrs[1].name != "a" || root.attrs[2].name != "b" || root.attrs[1].value != "1 &lt; 2 &amp;&#x20AC;&#8364;")
  { c.fail("C14/construct/pull/attr", "root attributes wrong"); return; }
  if (!ix::Parser::decodeEntities(root.attrs[1].value, dec) || dec != "1 < 2 &\xe2\x82\xac\xe2\x82\xac") { c.fail("C14/construct/pull/decode", "attribute a decodes to " + pbt::show(dec, 80)); return; }
  if (!ix::Parser::decodeEntities(root.attrs[2].value, dec) || dec != "\"q'") { c.fail("C14/construct/pull/decode", "attribute b decodes to " + pbt::show(dec, 80)); return; }
  if (!ix::Parser::decodeEntities(pr.toks[5].text, dec) || dec != "tABx > y") { c.fail("C14/construct/pull/decode", "text decodes to " + pbt::show(dec, 80)); return; }
  if (!ix::Parser::decodeEntities(pr.toks[13].text, dec) || dec != " lead\n") { c.fail("C14/construct/pull/decode", "text decodes to " + pbt::show(dec, 80)); return; }
  // the validity predicate (SAX + DOM agreement, slices, balance) on the same document
  auto rep = reportTo(c);
  c14::checkArbitrary(buf.view(), ix::Options{}, rep);
}

PBT_REGRESSION(all_prefixes_and_deletions)
{
  CpuGuard cpuGuard;
  // every truncation and every single-byte deletion of a feature-rich document, each in its
  // own exact-size buffer: no over-read, and whatever is accepted is balanced
  std::string text = kRichDoc;
  c.describe("every prefix and every single-byte deletion of: " + text);
  auto rep = reportTo(c);
  std::size_t accepted = 0;
  for (std::size_t n = 0; n <= text.size() && !c.failed(); ++n)
  {
    ExactBuf buf(std::string_view(text).substr(0, n));
    if (c14::checkArbitrary(buf.view(), ix::Options{}, rep).accepted) ++accepted;
  }
  for (std::size_t i = 0; i < text.size() && !c.failed(); ++i)
  {
    std::string t = text;
    t.erase(i, 1);
    ExactBuf buf(t);
    c14::checkArbitrary(buf.view(), ix::Options{}, rep);
  }
  // truncated constructs at the very end of the buffer
  for (const char *t : {"<", "<!", "<!-", "<!--", "<!--x", "<!--x-", "<!--x--", "<![", "<![CDATA", "<![CDATA[", "<![CDATA[x]", "<![CDATA[x]]", "<?", "<?x", "<?x ?",
                        "<!D", "<!DOCTYPE", "<!DOCTYPE ", "<!DOCTYPE r [", "<!DOCTYPE r []", "<a", "<a ", "<a b", "<a b=", "<a b='", "<a b='x", "<a b='x'", "<a/", "</", "</a",
                        "</a ", "<a>&", "<a>&#", "<a b='&#x", "&", "x", " ", ""})
  {
    if (c.failed()) break;
    ExactBuf buf{std::string_view(t)};
    c14::checkArbitrary(buf.view(), ix::Options{}, rep);
  }
  (void)accepted;
}

PBT_REGRESSION(char_refs_and_entities)
{
  CpuGuard cpuGuard;
  c.describe("decodeEntities on the five predefined entities and numeric references at the UTF-8 length boundaries");
  struct T { const char *raw; const char *want; };
  const T ok[] = {{"&lt;&gt;&amp;&apos;&quot;", "<>&'\""}, {"&#60;&#x3c;&#x3C;&#062;", "<<<>"}, {"&#x7F;&#x80;", "\x7f\xc2\x80"}, {"&#x7ff;&#x800;", "\xdf\xbf\xe0\xa0\x80"},
                  {"&#xFFFD;&#x10000;", "\xef\xbf\xbd\xf0\x90\x80\x80"}, {"&#x10FFFF;", "\xf4\x8f\xbf\xbf"}, {"&#xD7FF;&#xE000;", "\xed\x9f\xbf\xee\x80\x80"},
                  {"&#9;&#10;&#13;&#32;", "\t\n\r "}, {"a&amp;amp;b", "a&amp;b"}, {"&#0000065;&#x000041;", "AA"}, {"&#1114111;", "\xf4\x8f\xbf\xbf"}, {"no refs", "no refs"}, {"", ""}};
  std::string dec;
  for (auto &t : ok)
  {
    ix::Error e;
    if (!ix::Parser::decodeEntities(t.raw, dec, &e)) { c.fail("C14/decode/rejected-valid", std::string(t.raw) + ": " + e.message); return; }
    if (dec != t.want) { c.fail("C14/decode/wrong-value", std::string(t.raw) + " decoded to " + pbt::show(dec, 80)); return; }
  }
  for (const char *bad : {"&e1;", "&ext;", "&nbsp;", "&LT;", "&Amp;", "&amp", "&", "&;", "&#xD800;", "&#xDFFF;", "&#x110000;", "&#1114112;", "&#;", "&#xZ;", "&#12a;", "&lt"})
  {
    if (ix::Parser::decodeEntities(bad, dec)) { c.fail("C14/decode/undefined-entity-replaced", std::string(bad) + " decoded to " + pbt::show(dec, 80)); return; }
  }
}

PBT_REGRESSION(no_entity_expansion)
{
  CpuGuard cpuGuard;
  std::string text = "<?xml version='1.0'?><!DOCTYPE r [<!ENTITY e1 \"XXEMARKERxq7\"><!ENTITY ext SYSTEM \"file:///XXEMARKERxq7\">]><r a='&e1;'>&e1;&ext;<b>&amp;</b></r>";
  c.describe(text);
  ExactBuf buf(text);
  auto rep = reportTo(c);
  c14::Outcome o = c14::checkArbitrary(buf.view(), ix::Options{}, rep);
  if (c.failed()) return;
  if (!o.accepted) { c.fail("C14/construct/pull/rejected-valid", "tokenizer rejected a document that merely refers to declared entities"); return; }
  c14::PullRun pr = c14::runPull(buf.view(), ix::Options{});
  for (auto &t : pr.toks)
  {
    if (t.kind == ix::TokenKind::Text && t.text.find("XXEMARKER") != std::string_view::npos) { c.fail("C14/decode/entity-expanded", "text token contains replacement text"); return; }
    for (auto &a : t.attrs)
      if (a.value.find("XXEMARKER") != std::string_view::npos) { c.fail("C14/decode/entity-expanded", "attribute contains replacement text"); return; }
  }
  ix::Parser p(buf.view());
  auto doc = ix::DomBuilder::build(p);
  if (doc && c14::domContains(*doc, "XXEMARKER")) c.fail("C14/decode/entity-expanded", "DOM contains replacement text");
}

PBT_REGRESSION(limits_exact)
{
  CpuGuard cpuGuard;
  c.describe("each limit: measure == limit accepted, measure == limit + 1 rejected (token limit: N < limit accepted, N > limit rejected)");
  auto nest = [](std::size_t n, bool leafEmpty)
  {
    std::string t;
    for (std::size_t i = 0; i + 1 < n; ++i) t += "<e>";
    t += leafEmpty ? "<l/>" : "<l>x</l>";
    for (std::size_t i = 0; i + 1 < n; ++i) t += "</e>";
    return t;
  };
  auto attrs = [](std::size_t n)
  {
    std::string t = "<e";
    for (std::size_t i = 0; i < n; ++i) t += " a" + std::to_string(i) + "='v'";
    return t + "/>";
  };
  for (std::size_t L : {std::size_t(1), std::size_t(2), std::size_t(3), std::size_t(7), std::size_t(16), std::size_t(17), std::size_t(40), std::size_t(256)})
  {
    ix::Options o;
    o.maxDepth = L;
    for (bool le : {false, true})
    {
      expectAccepted(c, nest(L, le), o, "C14/limits/inside-rejected");
      expectRejectedOpt(c, nest(L + 1, le), o, "C14/limits/beyond-accepted");
    }
    ix::Options a;
    a.maxAttrsPerElement = L;
    expectAccepted(c, attrs(L), a, "C14/limits/inside-rejected");
    expectRejectedOpt(c, attrs(L + 1), a, "C14/limits/beyond-accepted");
    ix::Options nm;
    nm.maxNameLength = L;
    std::string in(L, 'n'), over(L + 1, 'n');
    expectAccepted(c, "<" + in + " " + in + "='1'><?" + in + "?></" + in + ">", nm, "C14/limits/inside-rejected");
    expectRejectedOpt(c, "<" + over + "/>", nm, "C14/limits/beyond-accepted");
    expectRejectedOpt(c, "<r " + over + "='1'/>", nm, "C14/limits/beyond-accepted");
    expectRejectedOpt(c, "<r><?" + over + "?></r>", nm, "C14/limits/beyond-accepted");
    ix::Options tx;
    tx.maxTextSpan = L;
    expectAccepted(c, "<r a='" + in + "'>" + in + "<c/>" + in + "</r>", tx, "C14/limits/inside-rejected");
    expectRejectedOpt(c, "<r>" + over + "</r>", tx, "C14/limits/beyond-accepted");
    expectRejectedOpt(c, "<r><c/>" + over + "</r>", tx, "C14/limits/beyond-accepted");
    expectRejectedOpt(c, "<r a=\"" + over + "\"/>", tx, "C14/limits/beyond-accepted");
    ix::Options tk;
    tk.maxTotalTokens = L + 1;
    std::string doc = "<r>"; // L tokens: start, L-2 children, end
    if (L == 1) doc = "<r/>";
    else
    {
      for (std::size_t i = 0; i + 2 < L; ++i) doc += "<c/>";
      doc += "</r>";
    }
    expectAccepted(c, doc, tk, "C14/limits/inside-rejected");
    tk.maxTotalTokens = L;
    expectRejectedOpt(c, doc + "<!--one more-->", tk, "C14/limits/beyond-accepted");
    if (c.failed()) return;
  }
  // the default text limit of 1 MiB
  {
    std::string big((1u << 20), 'x');
    expectAccepted(c, "<r>" + big + "</r>", ix::Options{}, "C14/limits/inside-rejected");
    expectRejectedOpt(c, "<r>" + big + "y</r>", ix::Options{}, "C14/limits/beyond-accepted");
    expectRejectedOpt(c, "<r a='" + big + "y'/>", ix::Options{}, "C14/limits/beyond-accepted");
  }
  // zero means "nothing of this kind" (tokens: unbounded)
  {
    ix::Options z;
    z.maxTotalTokens = 0;
    expectAccepted(c, "<r><a/><a/><a/><a/></r>", z, "C14/limits/inside-rejected");
    ix::Options d0;
    d0.maxDepth = 0;
    expectRejectedOpt(c, "<r/>", d0, "C14/limits/beyond-accepted");
    ix::Options a0;
    a0.maxAttrsPerElement = 0;
    expectAccepted(c, "<r/>", a0, "C14/limits/inside-rejected");
    expectRejectedOpt(c, "<r a='1'/>", a0, "C14/limits/beyond-accepted");
  }
}

PBT_MAIN()
