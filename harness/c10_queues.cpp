// C10 - bounded queues are FIFO, lossless, capacity-bounded and race-free (ASan+UBSan unit).
//   bq_model   : sequential history on BlockingQueue<std::string> vs a std::deque model
//                (non-blocking, 0 ms-timed and provably non-blocking "blocking" ops, close)
//   ring_model : sequential history on RingBuffer<T,N> (N=1,2,4,8) / DynamicRingBuffer<T>
//                (requested capacity 0..9) vs a std::deque model: single + batch ops,
//                wrap-around, peek, clear, resize up/down (documented: oldest dropped)
//   bq_conc    : P x C threads, blocking/timed/non-blocking ops, size() sampler, close() at a
//                generated instant or balanced workload; seeded schedule perturbation
//   bq_wake    : focused wake-up rounds (callers blocked on empty/full queue; feed j; close)
// The SPSC ring under ThreadSanitizer lives in c10_spsc.cpp.
#define C10_SCHED_INTERPOSE 1
#include "c10_bq.hpp"

#include <iora/core/ring_buffer.hpp>

#include <deque>

using iora::core::BlockingQueue;
using iora::core::DynamicRingBuffer;
using iora::core::RingBuffer;

namespace
{

std::string valueOf(long n, std::int64_t shape)
{
  // short (SSO) and long (heap) strings, all distinct
  std::string s = "v" + std::to_string(n);
  if (shape % 3 == 1) s += std::string(static_cast<std::size_t>(20 + shape % 40), 'x');
  if (shape % 3 == 2) s += "#";
  return s;
}

// ============================================================================== bq_model
void bqModel(pbt::Src &src, pbt::Case &c)
{
  pbt::watchdog(30, "C10/bq/model-call-blocked");
  const std::size_t cap = static_cast<std::size_t>(src.range(1, 8));
  auto ops = src.rows(240, 3, 0, 999);
  BlockingQueue<std::string> q(cap);
  std::deque<std::string> m;
  bool closed = false;
  long n = 0;
  bool wasFull = false, closedWithItems = false, takeAfterClose = false;
  pbt::Fmt d;
  d << "bq_model cap=" << cap << ":";
  std::string trace;
  auto bad = [&](const char *sig, const std::string &what)
  {
    c.describe(d.str());
    c.fail(sig, what + " | history: " + d.str());
  };
  const auto zero = std::chrono::milliseconds(0);
  if (q.capacity() != cap)
  {
    bad("C10/bq/model/capacity", "capacity() differs from the constructor argument");
    return;
  }
  for (std::size_t i = 0; i <= ops.size(); ++i)
  {
    pbt::Row r = i < ops.size() ? ops[i] : pbt::Row{10, 0, 0}; // always end with close
    int op = static_cast<int>(r[0] % 12);
    if (op == 10 && i < ops.size() && r[1] >= 200) op = 9;
    if ((op == 4 || op == 5) && !(closed || m.size() < cap)) op -= 4;  // would block: use the non-blocking form
    if (op == 8 && !(closed || !m.empty())) op = 6;                    // would block
    switch (op)
    {
    case 0: case 1: case 2: case 3: case 4: case 5:
    {
      std::string v = valueOf(n++, r[1]);
      bool expect = !closed && m.size() < cap;
      bool got = false;
      std::string tmp = v;
      switch (op)
      {
      case 0: got = q.tryQueue(v); break;
      case 1: got = q.tryQueue(std::move(tmp)); break;
      case 2: got = q.tryQueue(v, zero); break;
      case 3: got = q.tryQueue(std::move(tmp), zero); break;
      case 4: got = q.queue(v); break;
      default: got = q.queue(std::move(tmp)); break;
      }
      static const char *nm[] = {"tryQueue(c&)", "tryQueue(&&)", "tryQueue(c&,0ms)", "tryQueue(&&,0ms)", "queue(c&)", "queue(&&)"};
      d << " " << nm[op] << "=" << got;
      if (got != expect)
      {
        bad(closed ? "C10/bq/put-accepted-after-close" : (expect ? "C10/bq/put-refused-with-space" : "C10/bq/size-exceeds-capacity"),
            pbt::Fmt() << nm[op] << " returned " << got << ", model (size " << m.size() << "/" << cap << (closed ? ", closed" : "")
                       << ") expects " << expect);
        return;
      }
      if (got) m.push_back(v);
      if (m.size() == cap) wasFull = true;
      break;
    }
    case 6: case 7: case 8: case 11:
    {
      std::string out = "<untouched>";
      bool got = false;
      const char *nm = "";
      switch (op)
      {
      case 6: got = q.tryDequeue(out); nm = "tryDequeue"; break;
      case 7: got = q.dequeue(out, zero); nm = "dequeue(0ms)"; break;
      case 8: got = q.dequeue(out); nm = "dequeue()"; break;
      default:
        if (m.empty() && !closed)
        {
          got = q.dequeue(out, zero);
          nm = "dequeue(0ms)";
        }
        else
        {
          got = q.dequeue(out, std::chrono::milliseconds(1 + r[1] % 50));
          nm = "dequeue(t)";
        }
      }
      d << " " << nm << "=" << (got ? out.substr(0, 8) : std::string("false"));
      bool expect = !m.empty();
      if (got != expect)
      {
        bad(expect ? (closed ? "C10/bq/closed-items-not-retrievable" : "C10/bq/take-failed-with-items") : "C10/bq/foreign-item",
            pbt::Fmt() << nm << " returned " << got << " but the model holds " << m.size() << " items" << (closed ? " (closed)" : ""));
        return;
      }
      if (got)
      {
        if (out != m.front())
        {
          bad("C10/bq/fifo", pbt::Fmt() << nm << " returned " << pbt::show(out, 40) << ", FIFO order expects " << pbt::show(m.front(), 40));
          return;
        }
        m.pop_front();
        if (closed) takeAfterClose = true;
      }
      break;
    }
    case 9:
    {
      d << " observe";
      if (q.size() != m.size() || q.empty() != m.empty() || q.full() != (m.size() >= cap) || q.isClosed() != closed ||
          q.capacity() != cap)
      {
        bad("C10/bq/model/observers", pbt::Fmt() << "size/empty/full/isClosed = " << q.size() << "/" << q.empty() << "/" << q.full()
                                                 << "/" << q.isClosed() << ", model " << m.size() << "/" << m.empty() << "/"
                                                 << (m.size() >= cap) << "/" << closed);
        return;
      }
      break;
    }
    case 10:
      d << " close";
      q.close();
      if (!closed && !m.empty()) closedWithItems = true;
      closed = true;
      break;
    }
    if (q.size() > cap)
    {
      bad("C10/bq/size-exceeds-capacity", pbt::Fmt() << "size() " << q.size() << " > capacity " << cap);
      return;
    }
  }
  // closed: everything still queued comes out in order through the blocking form, then false
  while (!m.empty())
  {
    std::string out;
    if (!q.dequeue(out) || out != m.front())
    {
      bad("C10/bq/closed-items-not-retrievable", "dequeue() on the closed queue did not return the next queued item");
      return;
    }
    m.pop_front();
    takeAfterClose = true;
  }
  std::string out;
  if (q.dequeue(out) || q.tryDequeue(out) || q.dequeue(out, zero))
  {
    bad("C10/bq/take-from-closed-empty", "a take on the closed and empty queue returned true");
    return;
  }
  c.describe(d.str());
  if (wasFull) c.label("queue was full");
  if (closedWithItems) c.label("closed with items queued");
  if (takeAfterClose) c.label("items taken after close");
  if (wasFull || closedWithItems) c.nontrivial(pbt::hash64(d.str()));
}

// ============================================================================ ring_model
struct RingApi
{
  virtual ~RingApi() = default;
  virtual bool pushC(const std::string &) = 0;
  virtual bool pushM(std::string &&) = 0;
  virtual bool pop(std::string &) = 0;
  virtual bool peek(std::string &) = 0;
  virtual std::size_t pushBatch(const std::string *, std::size_t) = 0;
  virtual std::size_t popBatch(std::string *, std::size_t) = 0;
  virtual std::size_t size() = 0;
  virtual bool empty() = 0;
  virtual bool full() = 0;
  virtual std::size_t capacity() = 0;
  virtual void clear() = 0;
  virtual bool canResize() = 0;
  virtual std::size_t resize(std::size_t) = 0;
};
template <class R, bool Dyn> struct RingImpl : RingApi
{
  std::unique_ptr<R> r;
  explicit RingImpl(R *p) : r(p) {}
  bool pushC(const std::string &v) override { return r->tryPush(v); }
  bool pushM(std::string &&v) override { return r->tryPush(std::move(v)); }
  bool pop(std::string &o) override { return r->tryPop(o); }
  bool peek(std::string &o) override { return r->peek(o); }
  std::size_t pushBatch(const std::string *p, std::size_t n) override { return r->tryPushBatch(p, n); }
  std::size_t popBatch(std::string *p, std::size_t n) override { return r->tryPopBatch(p, n); }
  std::size_t size() override { return r->size(); }
  bool empty() override { return r->empty(); }
  bool full() override { return r->full(); }
  std::size_t capacity() override { return r->capacity(); }
  void clear() override { r->clear(); }
  bool canResize() override { return Dyn; }
  std::size_t resize(std::size_t n) override
  {
    if constexpr (Dyn)
      return r->resize(n);
    else
      return 0;
  }
};
std::size_t pow2(std::size_t v)
{
  std::size_t p = 1;
  while (p < v) p <<= 1;
  return p;
}

void ringModel(pbt::Src &src, pbt::Case &c)
{
  const int which = static_cast<int>(src.range(0, 7)); // 0..3 static 1,2,4,8; 4..7 dynamic
  std::unique_ptr<RingApi> ring;
  std::size_t cap = 0;
  pbt::Fmt d;
  if (which < 4)
  {
    cap = std::size_t(1) << which;
    switch (which)
    {
    case 0: ring.reset(new RingImpl<RingBuffer<std::string, 1>, false>(new RingBuffer<std::string, 1>())); break;
    case 1: ring.reset(new RingImpl<RingBuffer<std::string, 2>, false>(new RingBuffer<std::string, 2>())); break;
    case 2: ring.reset(new RingImpl<RingBuffer<std::string, 4>, false>(new RingBuffer<std::string, 4>())); break;
    default: ring.reset(new RingImpl<RingBuffer<std::string, 8>, false>(new RingBuffer<std::string, 8>())); break;
    }
    d << "ring_model RingBuffer<string," << cap << ">:";
  }
  else
  {
    std::size_t req = static_cast<std::size_t>(src.range(0, 9));
    cap = pow2(req);
    ring.reset(new RingImpl<DynamicRingBuffer<std::string>, true>(new DynamicRingBuffer<std::string>(req)));
    d << "ring_model DynamicRingBuffer<string>(" << req << "):";
  }
  auto ops = src.rows(260, 3, 0, 999);
  std::deque<std::string> m;
  long n = 0;
  std::size_t pushedSinceReset = 0;
  bool wrapped = false, resized = false, shrunkWithDrop = false, cleared = false, batchPartial = false;
  auto bad = [&](const char *sig, const std::string &what)
  {
    c.describe(d.str());
    c.fail(sig, what + " | history: " + d.str());
  };
  if (ring->capacity() != cap)
  {
    bad("C10/ring/capacity", pbt::Fmt() << "capacity() = " << ring->capacity() << ", documented rounding gives " << cap);
    return;
  }
  for (auto &r : ops)
  {
    int op = static_cast<int>(r[0] % 12);
    if (op == 7 && r[1] >= 250) op = 6;
    if (op == 8 && (!ring->canResize() || r[2] >= 600)) op = 4;
    switch (op)
    {
    case 0: case 1: case 10:
    {
      std::string v = valueOf(n++, r[1]);
      std::string tmp = v;
      bool got = (op == 1) ? ring->pushM(std::move(tmp)) : ring->pushC(v);
      bool expect = m.size() < cap;
      d << (op == 1 ? " push&&=" : " push=") << got;
      if (got != expect)
      {
        bad(expect ? "C10/ring/push-refused-with-space" : "C10/ring/size-exceeds-capacity",
            pbt::Fmt() << "tryPush returned " << got << " with " << m.size() << "/" << cap << " items held");
        return;
      }
      if (got)
      {
        m.push_back(v);
        ++pushedSinceReset;
      }
      break;
    }
    case 2: case 9: case 11:
    {
      std::string out = "<untouched>";
      if (op == 11)
      {
        std::string pk = "<untouched>";
        bool pg = ring->peek(pk);
        d << " peek=" << (pg ? pk.substr(0, 8) : std::string("false"));
        if (pg != !m.empty() || (pg && pk != m.front()))
        {
          bad("C10/ring/peek", pbt::Fmt() << "peek returned " << pg << "/" << pbt::show(pk, 30) << ", model front "
                                          << (m.empty() ? std::string("<empty>") : pbt::show(m.front(), 30)));
          return;
        }
      }
      bool got = ring->pop(out);
      d << " pop=" << (got ? out.substr(0, 8) : std::string("false"));
      if (got != !m.empty())
      {
        bad(got ? "C10/ring/foreign-item" : "C10/ring/lost-item",
            pbt::Fmt() << "tryPop returned " << got << " but the model holds " << m.size() << " items");
        return;
      }
      if (got)
      {
        if (out != m.front())
        {
          bad("C10/ring/fifo", pbt::Fmt() << "tryPop returned " << pbt::show(out, 40) << ", FIFO order expects " << pbt::show(m.front(), 40));
          return;
        }
        m.pop_front();
      }
      break;
    }
    case 3:
    {
      std::string pk = "<untouched>";
      bool pg = ring->peek(pk);
      d << " peek=" << (pg ? pk.substr(0, 8) : std::string("false"));
      if (pg != !m.empty() || (pg && pk != m.front()))
      {
        bad("C10/ring/peek", pbt::Fmt() << "peek returned " << pg << "/" << pbt::show(pk, 30) << ", model front "
                                        << (m.empty() ? std::string("<empty>") : pbt::show(m.front(), 30)));
        return;
      }
      break;
    }
    case 4:
    {
      std::size_t k = static_cast<std::size_t>(r[1] % 11);
      std::vector<std::string> items;
      for (std::size_t i = 0; i < k; ++i) items.push_back(valueOf(n++, r[2] + static_cast<std::int64_t>(i)));
      // exact-size heap array: ASan sees any read past `count`
      std::unique_ptr<std::string[]> arr(new std::string[k ? k : 1]);
      for (std::size_t i = 0; i < k; ++i) arr[i] = items[i];
      std::size_t got = ring->pushBatch(arr.get(), k);
      std::size_t expect = std::min(k, cap - m.size());
      d << " pushBatch(" << k << ")=" << got;
      if (got != expect)
      {
        bad(got > expect ? "C10/ring/size-exceeds-capacity" : "C10/ring/push-refused-with-space",
            pbt::Fmt() << "tryPushBatch(" << k << ") returned " << got << " with " << m.size() << "/" << cap << " held, expected " << expect);
        return;
      }
      for (std::size_t i = 0; i < got; ++i) m.push_back(items[i]);
      pushedSinceReset += got;
      if (got < k) batchPartial = true;
      break;
    }
    case 5:
    {
      std::size_t k = static_cast<std::size_t>(r[1] % 11);
      std::unique_ptr<std::string[]> arr(new std::string[k ? k : 1]);
      for (std::size_t i = 0; i < k; ++i) arr[i] = "<untouched>";
      std::size_t got = ring->popBatch(arr.get(), k);
      std::size_t expect = std::min(k, m.size());
      d << " popBatch(" << k << ")=" << got;
      if (got != expect)
      {
        bad(got > expect ? "C10/ring/foreign-item" : "C10/ring/lost-item",
            pbt::Fmt() << "tryPopBatch(" << k << ") returned " << got << " with " << m.size() << " held, expected " << expect);
        return;
      }
      for (std::size_t i = 0; i < got; ++i)
      {
        if (arr[i] != m.front())
        {
          bad("C10/ring/fifo", pbt::Fmt() << "tryPopBatch item " << i << " is " << pbt::show(arr[i], 40) << ", FIFO order expects "
                                          << pbt::show(m.front(), 40));
          return;
        }
        m.pop_front();
      }
      if (got < k) batchPartial = true;
      break;
    }
    case 6:
      d << " observe";
      if (ring->size() != m.size() || ring->empty() != m.empty() || ring->full() != (m.size() >= cap) || ring->capacity() != cap)
      {
        bad("C10/ring/observers", pbt::Fmt() << "size/empty/full/capacity = " << ring->size() << "/" << ring->empty() << "/"
                                             << ring->full() << "/" << ring->capacity() << ", model " << m.size() << "/" << m.empty()
                                             << "/" << (m.size() >= cap) << "/" << cap);
        return;
      }
      break;
    case 7:
      d << " clear";
      ring->clear();
      m.clear();
      pushedSinceReset = 0;
      cleared = true;
      break;
    case 8:
    {
      std::size_t req = static_cast<std::size_t>(r[1] % 10);
      std::size_t newCap = pow2(req);
      std::size_t expectDrop = m.size() > newCap ? m.size() - newCap : 0;
      std::size_t got = ring->resize(req);
      d << " resize(" << req << ")=" << got;
      if (got != expectDrop)
      {
        bad("C10/ring/resize-drop-count", pbt::Fmt() << "resize(" << req << ") reported " << got << " dropped items, holding " << m.size()
                                                     << " with new capacity " << newCap << " means " << expectDrop);
        return;
      }
      for (std::size_t i = 0; i < expectDrop; ++i) m.pop_front(); // documented: the oldest items are dropped
      if (expectDrop) shrunkWithDrop = true;
      cap = newCap;
      pushedSinceReset = m.size();
      resized = true;
      if (ring->capacity() != cap)
      {
        bad("C10/ring/capacity", pbt::Fmt() << "capacity() after resize(" << req << ") = " << ring->capacity() << ", expected " << cap);
        return;
      }
      break;
    }
    }
    if (pushedSinceReset > cap) wrapped = true;
    if (ring->size() > cap)
    {
      bad("C10/ring/size-exceeds-capacity", pbt::Fmt() << "size() " << ring->size() << " > capacity " << cap);
      return;
    }
  }
  // drain: everything still held comes out in order
  while (!m.empty())
  {
    std::string out;
    if (!ring->pop(out) || out != m.front())
    {
      bad("C10/ring/fifo", "final drain: tryPop did not return the next item of the model");
      return;
    }
    m.pop_front();
  }
  std::string out;
  if (ring->pop(out) || ring->peek(out) || !ring->empty())
  {
    bad("C10/ring/foreign-item", "an empty ring returned an item");
    return;
  }
  c.describe(d.str());
  if (wrapped) c.label("wrap-around");
  if (resized) c.label("resize");
  if (shrunkWithDrop) c.label("resize dropped oldest items (documented)");
  if (cleared) c.label("clear");
  if (batchPartial) c.label("partial batch");
  c.label(which < 4 ? "RingBuffer<T,N>" : "DynamicRingBuffer<T>");
  if (wrapped || resized) c.nontrivial(pbt::hash64(d.str()));
}

// Fixed schedule for finding C10-1 (close() changed the flag without the mutex): one caller has
// evaluated its wait predicate and is delayed 20 ms before it parks (scripted delay at the
// pthread_cond_wait entry, mutex held); close() is called 2 ms into that window.
void closeRace(pbt::Case &c, bool producerSide)
{
  pbt::watchdog(60, "C10/bq/case-stalled");
  struct S
  {
    c10::BQ q{1};
    std::atomic<int> inCall{0};
    std::atomic<bool> done{false};
    bool ok = true;
  };
  auto st = std::make_shared<S>();
  c.describe(std::string("close() 2 ms after a ") + (producerSide ? "queue() on a full queue" : "dequeue() on an empty queue") +
             " evaluated its predicate; the caller parks 18 ms later");
  if (producerSide && !st->q.tryQueue(c10::mk(9, 0)))
  {
    c.fail("C10/bq/put-refused-with-space", "tryQueue refused on an empty open queue");
    return;
  }
  std::thread t(
    [st, producerSide]
    {
      sched::scriptEntryDelay(20000);
      st->inCall.store(1, std::memory_order_release);
      c10::Item out;
      st->ok = producerSide ? st->q.queue(c10::mk(0, 1)) : st->q.dequeue(out);
      st->done.store(true, std::memory_order_release);
    });
  c10::waitBounded(c10::kBoundSeconds, [&] { return st->inCall.load(std::memory_order_acquire) != 0; });
  sched::sleepUs(2000);
  st->q.close();
  if (!c10::waitBounded(c10::kBoundSeconds, [&] { return st->done.load(std::memory_order_acquire); }))
  {
    c.failTimed("C10/bq/blocked-after-close",
                std::string("close() returned, yet after 4 s the caller is still inside ") + (producerSide ? "queue()" : "dequeue()"));
    t.detach(); // cannot be woken any more: a second close() is a no-op
    return;
  }
  t.join();
  if (st->ok) c.fail("C10/bq/closed-op-succeeded", "the blocked call returned true although nothing but close() happened");
}

// Fixed schedule for "close() in a transient state": two callers are parked on the same side, ONE
// releasing operation wakes one of them (notify_one), and close() runs at once - before the woken
// caller has re-acquired the mutex, so the queue is momentarily neither empty nor full. The other
// caller must still be woken by close(). Repeated on fresh queues (the woken caller occasionally wins
// the race for the mutex, then the state is no longer transient and the round proves nothing).
void closeTransient(pbt::Case &c, bool producerSide)
{
  pbt::watchdog(120, "C10/bq/case-stalled");
  c.describe(std::string("6 rounds: two ") + (producerSide ? "queue() callers parked on a full queue (cap 2), one tryDequeue()"
                                                           : "dequeue() callers parked on an empty queue (cap 2), one tryQueue()") +
             ", close() immediately afterwards");
  for (int round = 0; round < 6; ++round)
  {
    struct S
    {
      c10::BQ q{2};
      std::atomic<int> inCall{0}, done{0};
      bool ok[2] = {false, false};
      c10::Item got[2];
    };
    auto st = std::make_shared<S>();
    if (producerSide)
      for (int i = 0; i < 2; ++i)
        if (!st->q.tryQueue(c10::mk(9, i)))
        {
          c.fail("C10/bq/put-refused-with-space", "tryQueue refused on an open queue with space");
          return;
        }
    std::vector<std::thread> th;
    for (int w = 0; w < 2; ++w)
      th.emplace_back(
        [st, producerSide, w]
        {
          st->inCall.fetch_add(1, std::memory_order_acq_rel);
          st->ok[w] = producerSide ? st->q.queue(c10::mk(w, 100)) : st->q.dequeue(st->got[w]);
          st->done.fetch_add(1, std::memory_order_acq_rel);
        });
    c10::waitBounded(c10::kBoundSeconds, [&] { return st->inCall.load(std::memory_order_acquire) == 2; });
    sched::sleepUs(20000); // both are parked now
    c10::Item out;
    bool rel = producerSide ? st->q.tryDequeue(out) : st->q.tryQueue(c10::mk(9, 0));
    st->q.close();
    if (!rel)
    {
      c.fail("C10/bq/put-refused-with-space", "the releasing tryQueue/tryDequeue failed although it had room / an item");
      for (auto &t : th) t.join();
      return;
    }
    if (!c10::waitBounded(c10::kBoundSeconds, [&] { return st->done.load(std::memory_order_acquire) == 2; }))
    {
      c.failTimed("C10/bq/blocked-after-close",
                  pbt::Fmt() << "round " << round << ": close() returned right after one releasing operation; " << st->done.load()
                             << " of 2 parked " << (producerSide ? "producers" : "consumers") << " came back, queue size=" << st->q.size()
                             << " closed=" << st->q.isClosed());
      for (auto &t : th) t.detach(); // cannot be woken any more
      return;
    }
    for (auto &t : th) t.join();
    // queued items stay retrievable, nothing lost or invented
    int have = 0;
    c10::Item it;
    while (st->q.tryDequeue(it)) ++have;
    int want = producerSide ? 1 + (st->ok[0] ? 1 : 0) + (st->ok[1] ? 1 : 0) : 1 - (st->ok[0] ? 1 : 0) - (st->ok[1] ? 1 : 0);
    if (have != want || (st->ok[0] && st->ok[1]))
    {
      c.fail("C10/bq/lost-or-duplicated-item", pbt::Fmt() << "round " << round << ": " << have << " items left in the closed queue, expected " << want
                                                          << " (callers returned " << st->ok[0] << "/" << st->ok[1] << ")");
      return;
    }
  }
}

} // namespace

PBT_REGRESSION(close_wakes_consumer_about_to_park) { closeRace(c, false); }
PBT_REGRESSION(close_wakes_producer_about_to_park) { closeRace(c, true); }
PBT_REGRESSION(close_in_transient_state_wakes_second_consumer) { closeTransient(c, false); }
PBT_REGRESSION(close_in_transient_state_wakes_second_producer) { closeTransient(c, true); }

PBT_PROPERTY(bq_model) { bqModel(src, c); }
PBT_PROPERTY(ring_model) { ringModel(src, c); }
PBT_PROPERTY(bq_conc) { c10::bqConc(src, c, false); }
PBT_PROPERTY(bq_wake) { c10::bqWake(src, c, false); }

PBT_MAIN()
