// C16 - each HTTP request gets exactly one well-formed response, in order.
//
// A real iora::network::HttpServer is started on an ephemeral loopback port for
// every case. Raw POSIX client sockets (harness/common/c16_rawhttp.hpp, no iora
// code) send generated sequences of sequential / pipelined requests on 1-4
// connections in parallel and record the byte stream that comes back. The stream
// is split by an own strict HTTP/1.1 response framer and judged against the plan:
//   * number of responses == number of complete requests up to the closing point
//   * responses in request order; every handler echoes the request's unique token
//   * every response frames with exactly its Content-Length; the body of a
//     set_content() handler is byte-identical to what the handler set (so octets of
//     different responses cannot be interleaved unnoticed)
//   * HEAD / 204 / 304 responses are followed by no body octets
//   * a throwing handler yields 500
//   * an unparseable request yields an error status + EOF, or EOF, within B
//   * 'Connection: close' => that response is complete on the wire and EOF follows
#include "pbt.hpp"
#include "c16_rawhttp.hpp"

#include <iora/network/http_server.hpp>

#include <atomic>
#include <map>
#include <memory>
#include <mutex>
#include <thread>
#include <unordered_map>

using iora::network::HttpServer;
using namespace rawhttp;

namespace
{

// structural signatures
const char *SIG_REORDER = "C16/pipelined-reorder";
const char *SIG_CLOSE_TRUNC = "C16/close-truncates-response";
const char *SIG_BODYLESS_BODY = "C16/bodyless-status-with-body";
const char *SIG_BAD_CHUNK_STALL = "C16/bad-chunk-size-stalls";

constexpr int kBurstWaitMs = 10000; // B: a response to a 0-30 ms handler normally arrives within ~50 ms
constexpr std::size_t kMinFirstWrite = 4000; // below the smallest send buffer the kernel ever configures (tcp_wmem[0] = 4096)

enum class Kind
{
  Handler,     // routed to a registered/default handler: the response echoes the token
  Anon,        // answered by the server itself (OPTIONS, 404, 405, ...): no token
  Unparseable  // documented reject: error status + close, or close
};

enum Mode
{
  SetContent = 0,
  ThrowStd,
  ThrowInt,
  RawBodyWithLength,
  StatusOnly,
  SetContentThenThrow,
  SetContentMove,
  SetContentTwice,
  ThrowBeforeEcho,
  ModeCount
};
const char *modeName(int m)
{
  static const char *n[] = {"set_content", "throw-std", "throw-int", "raw-body+CL", "status-only",
                            "set_content-then-throw", "set_content(move)", "set_content-twice",
                            "throw-before-echo"};
  return n[m];
}

struct Behaviour
{
  int mode = SetContent;
  int status = 200;
  std::size_t bodySize = 0;
  int durMs = 0;
};

std::string makeBody(const std::string &tok, std::size_t n)
{
  std::string unit = "<" + tok + ">";
  std::string s;
  s.reserve(n + unit.size());
  while (s.size() < n) s += unit;
  s.resize(n);
  return s;
}

struct Item
{
  std::string wire;
  std::string token; // unique per request; empty only for requests that cannot carry one
  Kind kind = Kind::Handler;
  bool isHead = false;
  bool closes = false;      // Connection: close requested, or unparseable
  bool pipeNext = false;    // written back-to-back with the next item (same burst)
  Behaviour beh;
  int expectStatus = 0;     // Handler: exact status; Anon: 0 = any
  bool checkBody = false;   // body must equal expectBody
  std::string expectBody;
  bool expectLen = false;   // X-Len echo must equal reqBodyLen
  std::size_t reqBodyLen = 0;
  bool badChunk = false;
  std::string desc;
};

struct ConnPlan
{
  std::vector<Item> items;
  int mss = 0;      // 0 = default
  int rcvbuf = 0;   // 0 = default
  int readPauseUs = 0;
  std::size_t readChunk = 65536;
  std::vector<std::pair<std::size_t, int>> cuts; // (offset selector, pause us) applied per burst
  int startDelayMs = 0;
  int readDelayMs = 0; // pause between writing a burst and the first read (a peer that is slow to read)
};

struct Plan
{
  bool defaultHandler = false;
  int restartAfter = 0;       // > 0: that many connections are served first, then stop() + start() on the SAME server object
  bool upgradeSubclass = false; // the server is a subclass that accepts 'Upgrade: x-test' (onUpgradeRequest -> markSessionUpgraded)
  std::vector<ConnPlan> conns;
};

// ---- per-case table read by the (generic) handler -------------------------------
struct Table
{
  std::unordered_map<std::string, Behaviour> byTok;
  std::mutex mu;
  std::map<std::string, int> calls;
};

void genericHandler(Table *t, const HttpServer::Request &req, HttpServer::Response &res)
{
  std::string tok = req.get_header_value("X-Tok");
  auto it = t->byTok.find(tok);
  if (it == t->byTok.end())
  {
    res.status = 599;
    res.set_content("harness: unknown token '" + tok + "'", "text/plain");
    return;
  }
  {
    std::lock_guard<std::mutex> lk(t->mu);
    ++t->calls[tok];
  }
  const Behaviour &b = it->second;
  if (b.durMs > 0) std::this_thread::sleep_for(std::chrono::milliseconds(b.durMs));
  if (b.mode == ThrowBeforeEcho) throw std::runtime_error("handler failed early");
  res.set_header("X-Tok", tok);
  res.set_header("X-Len", std::to_string(req.body.size()));
  switch (b.mode)
  {
  case SetContent:
    res.status = b.status;
    res.set_content(makeBody(tok, b.bodySize), "application/octet-stream");
    break;
  case SetContentMove:
  {
    res.status = b.status;
    std::string body = makeBody(tok, b.bodySize);
    res.set_content(std::move(body), "application/octet-stream");
    break;
  }
  case SetContentTwice:
    res.status = b.status;
    res.set_content(std::string(b.bodySize * 2 + 17, '#'), "text/plain");
    res.set_content(makeBody(tok, b.bodySize), "application/octet-stream");
    break;
  case RawBodyWithLength:
    res.status = b.status;
    res.body = makeBody(tok, b.bodySize);
    res.set_header("Content-Length", std::to_string(b.bodySize));
    break;
  case StatusOnly:
    res.status = b.status;
    break;
  case ThrowStd:
    throw std::runtime_error("handler failed");
  case ThrowInt:
    throw 42;
  case SetContentThenThrow:
    res.status = b.status;
    res.set_content(makeBody(tok, b.bodySize), "application/octet-stream");
    throw std::logic_error("handler failed after set_content");
  default:
    break;
  }
}

// ---- what one client connection observed ----------------------------------------
struct Parsed
{
  std::vector<RawResponse> responses;
  std::size_t consumed = 0;
  bool malformed = false;
  std::string malformedWhy;
  RawResponse partial;      // filled when malformed at EOF inside a body
  bool partialAtEof = false;
};

struct ConnResult
{
  std::string stream;
  bool eof = false;
  bool reset = false;
  bool connectFailed = false;
  bool timedOut = false;       // a burst did not get its responses within B and no EOF came
  std::size_t sentItems = 0;   // items whose bytes were written completely
  bool sentinelSent = false;
  bool sendFailed = false;
  Parsed parsed;
  std::string note;
};

struct Runner
{
  const Plan &plan;
  Table table;
  std::unordered_map<std::string, const Item *> itemByTok;
  std::vector<ConnResult> results;
  std::uint16_t port = 0;
  std::string preRestartProblem;

  explicit Runner(const Plan &p) : plan(p) {}

  // incremental framing of one connection's stream
  void parseMore(const ConnPlan &cp, ConnResult &r, bool eof)
  {
    Parsed &ps = r.parsed;
    while (!ps.malformed)
    {
      std::string_view rest(r.stream.data() + ps.consumed, r.stream.size() - ps.consumed);
      if (rest.empty()) break;
      std::size_t index = ps.responses.size();
      auto isHead = [&](const RawResponse &resp) -> bool
      {
        if (const std::string *tok = resp.header("X-Tok"))
        {
          auto it = itemByTok.find(*tok);
          return it != itemByTok.end() && it->second->isHead;
        }
        // anonymous (server-generated) response: it answers one of the token-less
        // outcomes of the burst this position belongs to. If those agree on HEAD /
        // not-HEAD the answer does not depend on the order inside the burst;
        // otherwise fall back to the position (the generator never pipelines such a
        // mix while the reorder finding is open).
        if (index >= cp.items.size()) return false;
        std::size_t bs = index, be = index;
        while (bs > 0 && cp.items[bs - 1].pipeNext) --bs;
        while (be + 1 < cp.items.size() && cp.items[be].pipeNext) ++be;
        int heads = 0, others = 0;
        for (std::size_t k = bs; k <= be; ++k)
          if (cp.items[k].kind != Kind::Handler) (cp.items[k].isHead ? heads : others)++;
        if (heads == 0) return false;
        if (others == 0) return true;
        return cp.items[index].isHead;
      };
      RawResponse out;
      std::string err;
      Frame f = frameResponse(rest, eof, isHead, out, err);
      if (f == Frame::NeedMore) break;
      if (f == Frame::Malformed)
      {
        ps.malformed = true;
        ps.malformedWhy = err;
        if (eof && out.headBytes > 0 && out.hasContentLength)
        {
          ps.partial = out;
          ps.partialAtEof = true;
        }
        break;
      }
      ps.consumed += out.wireBytes;
      ps.responses.push_back(std::move(out));
    }
  }

  static std::string sentinelWire(const std::string &tok)
  {
    return "GET /e/a HTTP/1.1\r\nHost: c16\r\nX-Tok: " + tok + "\r\n\r\n";
  }

  void runConn(std::size_t ci)
  {
    const ConnPlan &cp = plan.conns[ci];
    ConnResult &r = results[ci];
    if (cp.startDelayMs) std::this_thread::sleep_for(std::chrono::milliseconds(cp.startDelayMs));
    int fd = ::socket(AF_INET, SOCK_STREAM | SOCK_CLOEXEC, 0);
    if (fd < 0)
    {
      r.connectFailed = true;
      return;
    }
    if (cp.mss > 0) ::setsockopt(fd, IPPROTO_TCP, TCP_MAXSEG, &cp.mss, sizeof cp.mss);
    if (cp.rcvbuf > 0) ::setsockopt(fd, SOL_SOCKET, SO_RCVBUF, &cp.rcvbuf, sizeof cp.rcvbuf);
    sockaddr_in sa{};
    sa.sin_family = AF_INET;
    sa.sin_port = htons(port);
    sa.sin_addr.s_addr = htonl(INADDR_LOOPBACK);
    if (::connect(fd, reinterpret_cast<sockaddr *>(&sa), sizeof sa) != 0)
    {
      r.connectFailed = true;
      r.note = std::string("connect: ") + std::strerror(errno);
      ::close(fd);
      return;
    }
    int one = 1;
    ::setsockopt(fd, IPPROTO_TCP, TCP_NODELAY, &one, sizeof one);

    auto readUntil = [&](std::size_t wantResponses, bool wantEof) -> bool
    {
      // true when the wanted state was reached, false on timeout
      auto t0 = Clock::now();
      int pauses = 0;
      for (;;)
      {
        if (r.parsed.malformed) return true;
        if (r.eof || r.reset) return true;
        if (!wantEof && r.parsed.responses.size() >= wantResponses) return true;
        int left = kBurstWaitMs - static_cast<int>(msSince(t0));
        if (left <= 0) return false;
        RecvStatus st = recvSome(fd, r.stream, left, cp.readChunk);
        if (st == RecvStatus::Eof) r.eof = true;
        else if (st == RecvStatus::Reset) r.reset = true;
        else if (st == RecvStatus::Timeout) return false;
        parseMore(cp, r, r.eof || r.reset);
        // a slow reader - but never so slow that the harness itself exceeds B (at most ~0.5 s of pauses per wait)
        if (st == RecvStatus::Data && cp.readPauseUs > 0 && ++pauses <= 150)
          std::this_thread::sleep_for(std::chrono::microseconds(cp.readPauseUs));
      }
    };

    std::size_t i = 0;
    bool closingSeen = false;
    std::size_t expected = 0; // responses expected so far (in-order model)
    while (i < cp.items.size() && !closingSeen)
    {
      // burst = items i..j written back-to-back
      std::size_t j = i;
      while (cp.items[j].pipeNext && j + 1 < cp.items.size()) ++j;
      std::string bytes;
      std::size_t expectInBurst = 0;
      for (std::size_t k = i; k <= j; ++k)
      {
        bytes += cp.items[k].wire;
        if (!closingSeen)
        {
          ++expectInBurst;
          if (cp.items[k].closes) closingSeen = true;
        }
      }
      // fragmentation of the burst
      std::vector<std::pair<std::size_t, int>> cuts;
      for (auto &c : cp.cuts)
        if (bytes.size() > 1) cuts.emplace_back(1 + c.first % (bytes.size() - 1), c.second);
      std::sort(cuts.begin(), cuts.end());
      std::size_t off = 0;
      bool ok = true;
      for (std::size_t c = 0; c <= cuts.size() && ok; ++c)
      {
        std::size_t end = c < cuts.size() ? cuts[c].first : bytes.size();
        if (end > off)
        {
          std::size_t w = sendAll(fd, bytes.data() + off, end - off);
          if (w != end - off) ok = false;
          off = end;
        }
        if (c < cuts.size() && cuts[c].second > 0)
          std::this_thread::sleep_for(std::chrono::microseconds(cuts[c].second));
      }
      if (!ok)
      {
        r.sendFailed = true; // the server closed under us: judged from what was read
        r.sentItems = j + 1;
        readUntil(0, true);
        ::close(fd);
        return;
      }
      r.sentItems = j + 1;
      expected += expectInBurst;
      if (cp.readDelayMs > 0) std::this_thread::sleep_for(std::chrono::milliseconds(cp.readDelayMs));
      bool reached = readUntil(expected, closingSeen);
      if (!reached)
      {
        r.timedOut = true;
        ::close(fd);
        return;
      }
      if (r.eof || r.reset || r.parsed.malformed) break;
      i = j + 1;
    }
    if (!closingSeen && !r.eof && !r.reset && !r.parsed.malformed)
    {
      // sentinel: proves that nothing else (a duplicate response, stray body octets)
      // was written before the connection is judged
      std::string tok = "S" + std::to_string(ci);
      std::string w = sentinelWire(tok);
      if (sendAll(fd, w.data(), w.size()) == w.size())
      {
        r.sentinelSent = true;
        if (!readUntil(expected + 1, false)) r.timedOut = true;
      }
      else
        r.sendFailed = true;
    }
    ::close(fd);
  }

  bool run(pbt::Case &c)
  {
    iora::core::Logger::setLevel(iora::core::Logger::Level::Fatal);
    results.resize(plan.conns.size());
    for (std::size_t ci = 0; ci < plan.conns.size(); ++ci)
    {
      for (auto &it : plan.conns[ci].items)
        if (!it.token.empty())
        {
          table.byTok[it.token] = it.beh;
          itemByTok[it.token] = &it;
        }
      table.byTok["S" + std::to_string(ci)] = Behaviour{SetContent, 200, 3, 0};
    }
    // a subclass using the documented upgrade seam: accepts 'Upgrade: x-test', swallows upgraded data
    struct UpgServer : HttpServer
    {
      using HttpServer::HttpServer;
      bool onUpgradeRequest(iora::network::SessionId sid, const Request &req, Response &res) override
      {
        if (req.get_header_value("Upgrade") != "x-test") return false;
        res.status = 101;
        res.headers.clear();
        res.body.clear();
        res.set_header("Upgrade", "x-test");
        res.set_header("Connection", "Upgrade");
        markSessionUpgraded(sid);
        return true;
      }
      void onUpgradedData(iora::network::SessionId, const std::uint8_t *, std::size_t) override {}
    };
    std::unique_ptr<HttpServer> srvPtr;
    if (plan.upgradeSubclass) srvPtr.reset(new UpgServer("127.0.0.1", 0));
    else srvPtr.reset(new HttpServer("127.0.0.1", 0));
    HttpServer &srv = *srvPtr;
    Table *t = &table;
    auto h = [t](const HttpServer::Request &rq, HttpServer::Response &rs) { genericHandler(t, rq, rs); };
    srv.onGet("/e/a", h);
    srv.onPost("/e/a", h);
    srv.onPut("/e/b", h);
    srv.onPatch("/e/b", h);
    srv.onDelete("/e/b", h);
    srv.onGet("/n/:id/x", h);
    srv.onDelete("/n/:id/x", h);
    srv.onPost("/n/:id", h);
    srv.onPut("/n/:id", h);
    srv.onGet("/w/*", h);
    srv.onPost("/w/*", h);
    srv.onPatch("/w/*", h);
    if (plan.defaultHandler) srv.setDefaultHandler(h);
    // HttpServer has no getter for the port it bound with port 0: take the listening socket that
    // appeared with start()
    auto startAndFindPort = [&]() -> bool
    {
      auto before = listeningSockets();
      srv.start();
      std::vector<std::pair<int, std::uint16_t>> fresh;
      for (auto &l : listeningSockets())
      {
        bool old = false;
        for (auto &b : before)
          if (b.first == l.first && b.second == l.second) old = true;
        if (!old) fresh.push_back(l);
      }
      if (fresh.size() != 1)
      {
        c.inconclusive("could not identify the server's listening socket");
        srv.stop();
        return false;
      }
      port = fresh[0].second;
      return true;
    };
    if (!startAndFindPort()) return false;
    if (plan.restartAfter > 0)
    {
      // first life of the server object: a few connections (upgrading, if the subclass can) that
      // are answered and go away; then the SAME object is stopped and started again
      table.byTok["pre"] = Behaviour{SetContent, 200, 3, 0};
      for (int k = 0; k < plan.restartAfter; ++k)
      {
        int fd = tcpConnect(port);
        if (fd < 0)
        {
          c.inconclusive("could not connect before the restart");
          srv.stop();
          return false;
        }
        std::string rq = "GET /e/a HTTP/1.1\r\nHost: c16.test\r\nX-Tok: pre\r\n";
        if (plan.upgradeSubclass) rq += "Connection: Upgrade\r\nUpgrade: x-test\r\n";
        rq += "\r\n";
        sendAll(fd, rq.data(), rq.size());
        std::string in;
        auto t0 = Clock::now();
        const char *want = plan.upgradeSubclass ? "HTTP/1.1 101 " : "HTTP/1.1 200 ";
        bool answered = false;
        while (msSince(t0) < kBurstWaitMs)
        {
          RecvStatus st = recvSome(fd, in, 200);
          if (in.find("\r\n\r\n") != std::string::npos)
          {
            answered = in.compare(0, 13, want) == 0;
            break;
          }
          if (st == RecvStatus::Eof || st == RecvStatus::Reset) break;
        }
        if (plan.upgradeSubclass && answered)
        {
          const char junk[] = "\x81\x05hello"; // upgraded-protocol octets: swallowed by the subclass
          sendAll(fd, junk, sizeof junk - 1);
          std::this_thread::sleep_for(std::chrono::milliseconds(2));
        }
        ::close(fd);
        if (!answered)
        {
          preRestartProblem = pbt::Fmt() << "connection " << k << " before the restart: expected '" << want << "...', got "
                                         << pbt::show(in, 80);
          break;
        }
      }
      std::this_thread::sleep_for(std::chrono::milliseconds(20)); // let the server see the disconnects
      srv.stop();
      if (!startAndFindPort()) return false;
    }
    std::vector<std::thread> th;
    for (std::size_t ci = 0; ci < plan.conns.size(); ++ci) th.emplace_back([this, ci] { runConn(ci); });
    for (auto &x : th) x.join();
    srv.stop();
    return true;
  }
};

// ---- oracle -------------------------------------------------------------------------
std::string showResp(const RawResponse &r)
{
  pbt::Fmt f;
  f << r.status;
  if (auto t = r.header("X-Tok")) f << " tok=" << *t;
  if (r.hasContentLength) f << " CL=" << r.contentLength;
  f << " body=" << r.body.size() << "B";
  if (r.connectionClose()) f << " close";
  return f;
}

// does response `r` answer item `e`? empty string = yes
std::string matchOne(const RawResponse &r, const Item &e, std::string &sig)
{
  const std::string *tok = r.header("X-Tok");
  switch (e.kind)
  {
  case Kind::Handler:
  {
    if (!tok || *tok != e.token)
    {
      sig = "C16/response-order";
      return "expected the response of request " + e.token + " (" + e.desc + "), got " + showResp(r);
    }
    if (r.status != e.expectStatus)
    {
      sig = e.expectStatus == 500 && e.beh.mode != SetContent ? "C16/throwing-handler-status" : "C16/handler-status";
      return pbt::Fmt() << "request " << e.token << " (" << e.desc << "): expected status " << e.expectStatus
                        << ", got " << showResp(r);
    }
    if (e.isHead)
    {
      if (!r.body.empty())
      {
        sig = "C16/head-with-body";
        return "HEAD response framed with body octets";
      }
    }
    else if (e.checkBody)
    {
      if (!r.hasContentLength)
      {
        sig = "C16/content-length-missing";
        return "request " + e.token + " (" + e.desc + "): response of a set_content handler has no Content-Length";
      }
      if (r.contentLength != e.expectBody.size() || r.body != e.expectBody)
      {
        sig = "C16/body-mismatch";
        std::size_t d = 0;
        while (d < r.body.size() && d < e.expectBody.size() && r.body[d] == e.expectBody[d]) ++d;
        return pbt::Fmt() << "request " << e.token << " (" << e.desc << "): body differs from what the handler set (Content-Length "
                          << r.contentLength << ", expected " << e.expectBody.size() << " octets, first difference at " << d << ")";
      }
    }
    if (e.expectLen)
    {
      const std::string *xl = r.header("X-Len");
      if (!xl || *xl != std::to_string(e.reqBodyLen))
      {
        sig = "C16/request-body-pairing";
        return "request " + e.token + ": handler saw a body of " + (xl ? *xl : std::string("?")) + " octets, sent " +
               std::to_string(e.reqBodyLen);
      }
    }
    return "";
  }
  case Kind::Anon:
    if (tok)
    {
      sig = "C16/response-order";
      return "expected a server-generated response for (" + e.desc + "), got " + showResp(r);
    }
    if (e.expectStatus != 0 && r.status != e.expectStatus)
    {
      sig = e.beh.mode == ThrowBeforeEcho ? "C16/throwing-handler-status" : "C16/anon-status";
      return pbt::Fmt() << "(" << e.desc << "): expected status " << e.expectStatus << ", got " << showResp(r);
    }
    if (e.isHead && !r.body.empty())
    {
      sig = "C16/head-with-body";
      return "HEAD response framed with body octets";
    }
    return "";
  case Kind::Unparseable:
    if (tok && *tok != e.token)
    {
      sig = "C16/response-order";
      return "expected an error response for (" + e.desc + "), got " + showResp(r);
    }
    // the request's own token comes back only if the server dispatched it to a handler, i.e. took
    // it for a well-formed request (the handler answers 200 for these tokens)
    if (tok || r.status < 400)
    {
      sig = (r.status >= 200 && r.status < 300) ? "C16/unparseable-request-answered-ok" : "C16/unparseable-accepted";
      return pbt::Fmt() << "(" << e.desc << "): the request cannot be parsed, yet it was "
                        << (tok ? "dispatched to a handler and " : "") << "answered with " << showResp(r);
    }
    return "";
  }
  return "";
}

struct Verdict
{
  std::string sig, what;
  bool timed = false;
  bool bad() const { return !sig.empty(); }
};

Verdict judgeConnInner(const Plan &plan, std::size_t ci, const ConnResult &r, std::string &reorderWhat)
{
  const ConnPlan &cp = plan.conns[ci];
  Verdict v;
  auto fail = [&](const std::string &sig, const std::string &what, bool timed = false)
  {
    if (v.sig.empty())
    {
      v.sig = sig;
      v.what = pbt::Fmt() << "connection " << ci << ": " << what;
      v.timed = timed;
    }
  };
  if (r.connectFailed)
  {
    fail("harness/connect-failed", "could not connect to the server: " + r.note);
    return v;
  }
  const auto &R = r.parsed.responses;
  std::size_t n = r.sentItems;
  // closing point among the items that were sent
  std::size_t closingIdx = n;
  for (std::size_t k = 0; k < n; ++k)
    if (cp.items[k].closes)
    {
      closingIdx = k;
      break;
    }
  bool hasClosing = closingIdx < n;
  std::size_t expectCount = hasClosing ? closingIdx + 1 : n + (r.sentinelSent ? 1 : 0);

  // ---- malformed stream ----------------------------------------------------------
  if (r.parsed.malformed)
  {
    std::size_t idx = R.size();
    // body octets after a response that must not have any
    std::string_view restBytes = std::string_view(r.stream).substr(r.parsed.consumed);
    bool startsLikeResponse = restBytes.substr(0, 5) == std::string_view("HTTP/").substr(0, std::min<std::size_t>(5, restBytes.size()));
    if (idx > 0 && R[idx - 1].bodyless && !startsLikeResponse)
    {
      const RawResponse &prev = R[idx - 1];
      bool byStatus = prev.status == 204 || prev.status == 304 || prev.status < 200;
      fail(byStatus ? SIG_BODYLESS_BODY : "C16/head-with-body",
           pbt::Fmt() << "response " << idx - 1 << " (" << showResp(prev) << ") must not have a body but is followed by octets that do not start a response: "
                      << pbt::show(std::string_view(r.stream).substr(r.parsed.consumed), 60));
      return v;
    }
    if (r.parsed.partialAtEof && hasClosing && idx == closingIdx && cp.items[idx].kind == Kind::Handler)
    {
      const Item &e = cp.items[idx];
      const RawResponse &p = r.parsed.partial;
      const std::string *tok = p.header("X-Tok");
      bool prefix = e.checkBody && tok && *tok == e.token && p.contentLength == e.expectBody.size() &&
                    p.body.size() < e.expectBody.size() &&
                    e.expectBody.compare(0, p.body.size(), p.body) == 0;
      if (prefix && p.headBytes + p.body.size() >= kMinFirstWrite)
      {
        fail(SIG_CLOSE_TRUNC, pbt::Fmt() << "response to the 'Connection: close' request " << e.token << " (" << e.desc
                                         << ") was cut by the close: " << p.body.size() << " of " << p.contentLength
                                         << " body octets arrived before EOF");
        return v;
      }
    }
    fail(r.parsed.partialAtEof || r.eof ? "C16/truncated-response" : "C16/malformed-response-stream",
         pbt::Fmt() << "after " << idx << " well-formed responses the stream does not frame: " << r.parsed.malformedWhy
                    << "; next octets: " << pbt::show(std::string_view(r.stream).substr(r.parsed.consumed), 80));
    return v;
  }

  // ---- the wait bound B expired: nothing else can be concluded from this connection ------
  if (r.timedOut && R.size() < expectCount)
  {
    std::size_t miss = R.size();
    const Item *mi = miss < n ? &cp.items[miss] : nullptr;
    if (mi && mi->kind == Kind::Unparseable)
      fail(mi->badChunk ? SIG_BAD_CHUNK_STALL : "C16/unparseable-no-response-no-close",
           pbt::Fmt() << "unparseable request (" << mi->desc << ") got neither an error response nor a close within "
                      << kBurstWaitMs << " ms",
           true);
    else
      fail("C16/no-response", pbt::Fmt() << "only " << R.size() << " of " << expectCount << " responses arrived within " << kBurstWaitMs
                                         << " ms and the connection stayed open; first unanswered (in request order): "
                                         << (mi ? mi->token + " (" + mi->desc + ")" : std::string("sentinel")),
           true);
    return v;
  }

  // ---- in-order matching -------------------------------------------------------------
  // A pipelined burst whose responses are exactly the expected multiset in another order is the
  // reorder shape (known finding): it is remembered and matching continues behind the burst, so
  // that it cannot hide a different failure on the same connection.
  for (std::size_t p = 0; p < R.size() && p < expectCount; ++p)
  {
    std::string sig, why;
    if (p < n)
      why = matchOne(R[p], cp.items[p], sig);
    else
    {
      // sentinel
      const std::string *tok = R[p].header("X-Tok");
      if (!tok || *tok != "S" + std::to_string(ci))
      {
        sig = "C16/extra-response";
        why = "expected the sentinel response, got " + showResp(R[p]) + " (an additional response was written)";
      }
    }
    if (why.empty()) continue;
    std::size_t bs = p, be = p;
    while (bs > 0 && bs - 1 < n && cp.items[bs - 1].pipeNext) --bs;
    while (be < n && be + 1 < n && cp.items[be].pipeNext) ++be;
    bool shape = p < n && be > bs && R.size() >= be + 1;
    for (std::size_t k = bs; shape && k <= be; ++k)
      if (cp.items[k].closes) shape = false;
    if (shape)
    {
      // perfect matching between the responses bs..be and the items bs..be
      std::size_t m = be - bs + 1;
      std::vector<std::vector<bool>> ok(m, std::vector<bool>(m, false));
      for (std::size_t q = 0; q < m; ++q)
        for (std::size_t k = 0; k < m; ++k)
        {
          std::string s2;
          ok[q][k] = matchOne(R[bs + q], cp.items[bs + k], s2).empty();
        }
      std::vector<bool> used(m, false);
      std::function<bool(std::size_t)> assign = [&](std::size_t q) -> bool
      {
        if (q == m) return true;
        for (std::size_t k = 0; k < m; ++k)
          if (!used[k] && ok[q][k])
          {
            used[k] = true;
            if (assign(q + 1)) return true;
            used[k] = false;
          }
        return false;
      };
      shape = assign(0);
    }
    if (!shape)
    {
      fail(sig, pbt::Fmt() << "response " << p << ": " << why);
      return v;
    }
    if (reorderWhat.empty())
    {
      pbt::Fmt f;
      f << "pipelined requests";
      for (std::size_t k = bs; k <= be; ++k) f << " " << cp.items[k].token << "(" << cp.items[k].beh.durMs << "ms)";
      f << " were answered in the order";
      for (std::size_t q = bs; q <= be; ++q)
      {
        auto t = R[q].header("X-Tok");
        f << " " << (t ? *t : std::string("<anon ") + std::to_string(R[q].status) + ">");
      }
      reorderWhat = f;
    }
    p = be; // continue behind the burst
  }

  // ---- counts / closing ---------------------------------------------------------------
  if (R.size() > expectCount)
  {
    fail("C16/extra-response", pbt::Fmt() << "expected " << expectCount << " responses, got " << R.size() << "; extra: "
                                          << showResp(R[expectCount]));
    return v;
  }
  if (r.parsed.consumed < r.stream.size() && (r.eof || r.reset))
  {
    fail("C16/truncated-response", "EOF inside a response header block");
    return v;
  }
  if (R.size() < expectCount)
  {
    std::size_t miss = R.size();
    bool missIsUnparseable = miss < n && cp.items[miss].kind == Kind::Unparseable;
    if (r.eof || r.reset)
    {
      if (!(missIsUnparseable && miss == closingIdx)) // EOF instead of an error response is allowed
      {
        fail("C16/missing-response",
             pbt::Fmt() << "connection closed after " << R.size() << " responses, expected " << expectCount
                        << "; first unanswered: "
                        << (miss < n ? cp.items[miss].token + " (" + cp.items[miss].desc + ")" : std::string("sentinel")));
        return v;
      }
    }
    else
    {
      const Item *mi = miss < n ? &cp.items[miss] : nullptr;
      if (mi && mi->kind == Kind::Unparseable)
        fail(mi->badChunk ? SIG_BAD_CHUNK_STALL : "C16/unparseable-no-response-no-close",
             pbt::Fmt() << "unparseable request (" << mi->desc << ") got neither an error response nor a close within "
                        << kBurstWaitMs << " ms",
             true);
      else
        fail("C16/no-response", pbt::Fmt() << "no response within " << kBurstWaitMs << " ms for "
                                           << (mi ? mi->token + " (" + mi->desc + ")" : std::string("sentinel")) << " after "
                                           << R.size() << " responses",
             true);
      return v;
    }
  }
  // a response that announces 'Connection: close' must be the last one and EOF must follow
  for (std::size_t p = 0; p < R.size(); ++p)
    if (R[p].connectionClose())
    {
      if (p + 1 != R.size())
      {
        fail("C16/response-after-close", pbt::Fmt() << "response " << p << " announced Connection: close but "
                                                    << R.size() - p - 1 << " more responses followed");
        return v;
      }
      if (!(r.eof || r.reset))
      {
        fail("C16/close-not-performed", pbt::Fmt() << "response " << p << " (" << showResp(R[p])
                                                   << ") announced Connection: close but the connection stayed open for "
                                                   << kBurstWaitMs << " ms",
             true);
        return v;
      }
    }
  if (hasClosing && !(r.eof || r.reset))
  {
    fail("C16/close-not-performed", pbt::Fmt() << "request " << closingIdx << " (" << cp.items[closingIdx].desc
                                               << ") asked for / forces a close but the connection stayed open for " << kBurstWaitMs << " ms",
         true);
    return v;
  }
  if (!hasClosing && (r.eof || r.reset) && !r.sendFailed && R.size() == expectCount && !r.sentinelSent && n > 0)
  {
    // closed although nobody asked: only visible when no sentinel was possible; not a
    // violation of the stated property (the server may close a persistent connection)
  }
  return v;
}

Verdict judgeConn(const Plan &plan, std::size_t ci, const ConnResult &r)
{
  std::string reorderWhat;
  Verdict v = judgeConnInner(plan, ci, r, reorderWhat);
  if (!v.bad() && !reorderWhat.empty())
  {
    v.sig = SIG_REORDER;
    v.what = pbt::Fmt() << "connection " << ci << ": " << reorderWhat;
  }
  return v;
}

// ---- plan rendering ------------------------------------------------------------------
std::string describePlan(const Plan &p)
{
  pbt::Fmt f;
  f << "default-handler=" << (p.defaultHandler ? "yes" : "no");
  if (p.restartAfter) f << " restart-after=" << p.restartAfter << (p.upgradeSubclass ? " upgrading connections (subclass accepts Upgrade: x-test)" : " plain connections");
  for (std::size_t ci = 0; ci < p.conns.size(); ++ci)
  {
    const ConnPlan &cp = p.conns[ci];
    f << "\n conn" << ci << " mss=" << cp.mss << " rcvbuf=" << cp.rcvbuf << " readPauseUs=" << cp.readPauseUs
      << " readDelayMs=" << cp.readDelayMs << " cuts=" << cp.cuts.size() << ":";
    for (auto &it : cp.items)
    {
      f << " [" << it.desc;
      if (it.closes && it.kind != Kind::Unparseable) f << " close";
      f << "]" << (it.pipeNext ? "+" : "");
    }
  }
  return f;
}

// ---- item builders -------------------------------------------------------------------
struct ReqSpec
{
  std::string method = "GET";
  std::string path = "/e/a";
  std::string version = "HTTP/1.1";
  bool host = true;
  bool close = false;
  int closeSpelling = 0;
  std::string body;
  bool hasBody = false;
  bool chunked = false;
  int headerCase = 0;
  int upgrade = 0; // 0 none; 1 h2c (curl --http2 style); 2 websocket; 3 unknown token, no Connection header; 4 TLS/1.2, lower-case
};

std::string casey(const std::string &name, int mode)
{
  std::string s = name;
  if (mode == 1)
    for (auto &ch : s) ch = static_cast<char>(std::tolower(static_cast<unsigned char>(ch)));
  else if (mode == 2)
    for (auto &ch : s) ch = static_cast<char>(std::toupper(static_cast<unsigned char>(ch)));
  return s;
}

std::string renderRequest(const ReqSpec &s, const std::string &tok)
{
  std::string w = s.method + " " + s.path + " " + s.version + "\r\n";
  if (s.host) w += casey("Host", s.headerCase) + ": c16.test\r\n";
  if (!tok.empty()) w += casey("X-Tok", s.headerCase) + ": " + tok + "\r\n";
  if (s.close)
  {
    static const char *sp[] = {"close", "Close", "CLOSE"};
    w += casey("Connection", s.headerCase) + ": " + sp[s.closeSpelling % 3] + "\r\n";
  }
  // an upgrade offer that a plain HttpServer does not accept: the request is answered as usual
  switch (s.close ? (s.upgrade ? 3 : 0) : s.upgrade) // (a closing request keeps its own Connection field)
  {
  case 1: w += "Connection: Upgrade, HTTP2-Settings\r\nUpgrade: h2c\r\nHTTP2-Settings: AAMAAABkAARAAAAAAAIAAAAA\r\n"; break;
  case 2: w += "Connection: Upgrade\r\nUpgrade: websocket\r\nSec-WebSocket-Key: dGhlIHNhbXBsZSBub25jZQ==\r\nSec-WebSocket-Version: 13\r\n"; break;
  case 3: w += "Upgrade: x-unknown/1.0\r\n"; break;
  case 4: w += "connection: upgrade\r\nupgrade: TLS/1.2\r\n"; break;
  default: break;
  }
  if (s.chunked)
  {
    w += casey("Transfer-Encoding", s.headerCase) + ": chunked\r\n\r\n";
    std::size_t off = 0;
    while (off < s.body.size())
    {
      std::size_t n = std::min<std::size_t>(s.body.size() - off, 1 + (off * 7 + 5) % 23);
      char b[32];
      std::snprintf(b, sizeof b, "%zx\r\n", n);
      w += b;
      w.append(s.body, off, n);
      w += "\r\n";
      off += n;
    }
    w += "0\r\n\r\n";
    return w;
  }
  if (s.hasBody) w += casey("Content-Length", s.headerCase) + ": " + std::to_string(s.body.size()) + "\r\n";
  w += "\r\n";
  if (s.hasBody) w += s.body;
  return w;
}

int expectedStatusOf(const Behaviour &b)
{
  switch (b.mode)
  {
  case ThrowStd:
  case ThrowInt:
  case SetContentThenThrow:
  case ThrowBeforeEcho:
    return 500;
  default:
    return b.status;
  }
}

Item handlerItem(const std::string &tok, const ReqSpec &rs, const Behaviour &b)
{
  Item it;
  it.token = tok;
  it.kind = b.mode == ThrowBeforeEcho ? Kind::Anon : Kind::Handler;
  it.isHead = rs.method == "HEAD";
  it.closes = rs.close;
  it.beh = b;
  it.expectStatus = expectedStatusOf(b);
  switch (b.mode)
  {
  case SetContent:
  case SetContentMove:
  case SetContentTwice:
  case RawBodyWithLength:
    it.checkBody = true;
    it.expectBody = makeBody(tok, b.bodySize);
    break;
  case ThrowStd:
  case ThrowInt:
  case SetContentThenThrow:
    it.checkBody = true;
    it.expectBody = "Internal Server Error";
    break;
  default:
    break;
  }
  if (it.expectStatus == 204 || it.expectStatus == 304)
  {
    it.checkBody = false; // bodyless by status
  }
  // (chunked bodies reach the handler decoded since /repo fa53c0e..59502df)
  if (rs.hasBody && b.mode != ThrowBeforeEcho)
  {
    it.expectLen = true;
    it.reqBodyLen = rs.body.size();
  }
  it.wire = renderRequest(rs, tok);
  it.desc = pbt::Fmt() << tok << " " << rs.method << " " << rs.path << (rs.version == "HTTP/1.0" ? " 1.0" : "")
                       << (rs.chunked ? " chunked" : "") << (rs.upgrade ? " Upgrade#" + std::to_string(rs.upgrade) : std::string())
                       << (rs.hasBody ? " body=" + std::to_string(rs.body.size()) : std::string())
                       << " -> " << modeName(b.mode) << " " << b.status << " " << b.bodySize << "B " << b.durMs << "ms";
  return it;
}

Item anonItem(const std::string &tok, const ReqSpec &rs, const std::string &why)
{
  Item it;
  it.token = tok;
  it.kind = Kind::Anon;
  it.isHead = rs.method == "HEAD";
  it.closes = rs.close;
  it.wire = renderRequest(rs, tok);
  it.desc = tok + " " + rs.method + " " + rs.path + (rs.upgrade ? " Upgrade#" + std::to_string(rs.upgrade) : std::string()) + " (" + why + ")";
  return it;
}

Item rawUnparseable(const std::string &wire, const std::string &why, bool badChunk = false)
{
  Item it;
  it.kind = Kind::Unparseable;
  it.closes = true;
  it.wire = wire;
  it.badChunk = badChunk;
  it.desc = "unparseable: " + why;
  return it;
}

constexpr int kUnparseableKinds = 24;

// chunk-size line of `extraDigits` + 16 hex digits whose value mod 2^64 is `low`
std::string overflowingChunkSize(const std::string &highDigits, std::uint64_t low, bool upper)
{
  char b[32];
  std::snprintf(b, sizeof b, upper ? "%016llX" : "%016llx", static_cast<unsigned long long>(low));
  return highDigits + b;
}

Item unparseableItemRaw(int sub, const std::string &tok)
{
  const std::string H = "Host: c16.test\r\nX-Tok: " + tok + "\r\n";
  const std::string CH = "POST /e/a HTTP/1.1\r\n" + H + "Transfer-Encoding: chunked\r\n\r\n";
  auto chunked = [&](const std::string &sizeLine, const std::string &rest, const std::string &why)
  { return rawUnparseable(CH + sizeLine + "\r\n" + rest, "chunked body, " + why + " (chunk-size '" + sizeLine + "')"); };
  switch (sub % kUnparseableKinds)
  {
  case 0: return rawUnparseable("get /e/a HTTP/1.1\r\n" + H + "\r\n", "lower-case method");
  case 1: return rawUnparseable("G(T /e/a HTTP/1.1\r\n" + H + "\r\n", "method is not a token");
  case 2: return rawUnparseable("GET /e/a HTTP/1.1\r\nX-Tok: " + tok + "\r\n\r\n", "HTTP/1.1 without Host");
  case 3: return rawUnparseable("GET /e/a HTTP/1.1\r\nHost: a\r\n" + H + "\r\n", "two Host fields");
  case 4: return rawUnparseable("GET /e/a HTTP/2.0\r\n" + H + "\r\n", "HTTP/2.0");
  case 5: return rawUnparseable("GET /e/a HTTP/1.1x\r\n" + H + "\r\n", "malformed version");
  case 6: return rawUnparseable("GET  /e/a HTTP/1.1\r\n" + H + "\r\n", "two spaces in the request line");
  case 7: return rawUnparseable("GET /e/a HTTP/1.1\r\n" + H + " folded: x\r\n\r\n", "obs-fold");
  case 8: return rawUnparseable(std::string("GET /e/\x01" "a HTTP/1.1\r\n") + H + "\r\n", "control character in target");
  case 9: return rawUnparseable("GET /" + std::string(9000, 'u') + " HTTP/1.1\r\n" + H + "\r\n", "request target of 9001 octets");
  case 10: return rawUnparseable("POST /e/a HTTP/1.1\r\n" + H + "Content-Length: abc\r\n\r\n", "Content-Length: abc");
  case 11: return rawUnparseable("POST /e/a HTTP/1.1\r\n" + H + "Content-Length: 99999999999\r\n\r\n", "Content-Length beyond the body limit");
  case 12: return rawUnparseable("GET /e/a\r\n" + H + "\r\n", "request line without version");
  case 13: return rawUnparseable("GET /e/a HTTP/1.1\r\nHost: \r\nX-Tok: " + tok + "\r\n\r\n", "empty Host value");
  case 14:
    return rawUnparseable(CH + "ZZ\r\nhello\r\n0\r\n\r\n", "chunked body with chunk-size 'ZZ'", true);
  // chunk sizes of 2^64 and more (17-20 hex digits) and 16-digit values near 2^64: the size is far
  // beyond every body limit; a parser that lets it wrap sees a small, plausible number instead
  case 15: return chunked(overflowingChunkSize("1", 100, false), "hello\r\n0\r\n\r\n", "size >= 2^64 whose low 64 bits (100) exceed the data that follows");
  case 16: return chunked(overflowingChunkSize("ABCD", 5, true), "hello\r\n0\r\n\r\n", "20-digit size whose low 64 bits equal the data length");
  case 17: return chunked(overflowingChunkSize("1", 5, false), "hello\r\n0\r\n\r\n", "size 2^64+5 in front of 5 data octets");
  case 18: return chunked(overflowingChunkSize("10", 0, false), "\r\n", "18-digit size whose low 64 bits are zero (looks like the last chunk)");
  case 19: return chunked("FFFFFFFFFFFFFFFF", "hello\r\n0\r\n\r\n", "size 2^64-1");
  case 20: return chunked("FFFFFFFFFFFFFFEC", "hello\r\n0\r\n\r\n", "size 2^64-20 (offset arithmetic wraps)");
  case 21: return chunked("8000000000000005", "hello\r\n0\r\n\r\n", "size 2^63+5");
  case 22: return chunked(overflowingChunkSize("aBc", 3000, false), "hello\r\n0\r\n\r\n", "19-digit size whose low 64 bits (3000) exceed the data that follows");
  default:
    return chunked("5", "hello\r\n" + overflowingChunkSize("f", 5, true) + "\r\nworld\r\n0\r\n\r\n",
                   "second chunk of size 15*2^64+5 in front of 5 data octets");
  }
}

Item unparseableItem(int sub, const std::string &tok)
{
  Item it = unparseableItemRaw(sub, tok);
  // if the server takes the request for well-formed and runs the handler, the handler answers 200
  // and echoes this token - which the oracle then sees (instead of an anonymous harness status)
  it.token = tok;
  it.beh = Behaviour{SetContent, 200, 3, 0};
  return it;
}

void labelAndRun(const Plan &plan, pbt::Case &c)
{
  c.describe(describePlan(plan));
  pbt::watchdog(120, "C16/case-hang");
  Runner run(plan);
  if (!run.run(c)) return;
  if (!run.preRestartProblem.empty()) c.fail("C16/pre-restart-exchange", run.preRestartProblem);
  // every connection is judged; a known-finding verdict on one connection must not hide a
  // different failure on another (Case::fail keeps the first non-known failure)
  for (std::size_t ci = 0; ci < plan.conns.size(); ++ci)
  {
    Verdict v = judgeConn(plan, ci, run.results[ci]);
    const ConnResult &r = run.results[ci];
    if (r.reset) c.label("connection ended with RST");
    if (r.sendFailed) c.label("send failed (server closed first)");
    if (!v.bad()) continue;
    if (v.timed) c.failTimed(v.sig, v.what);
    else c.fail(v.sig, v.what);
  }
}

} // namespace

// ----------------------------------------------------------------------------- serve
PBT_PROPERTY(serve)
{
  const bool knownReorder = pbt::isKnown(SIG_REORDER);
  const bool knownBodyless = pbt::isKnown(SIG_BODYLESS_BODY);
  const bool knownBadChunk = pbt::isKnown(SIG_BAD_CHUNK_STALL);
  Plan plan;
  plan.defaultHandler = src.coin();
  int nConn = static_cast<int>(src.sized(1, 4));
  if (src.coin(1, 4))
  {
    // restart dimension: the same server object serves 1-3 connections, is stopped and started again
    plan.restartAfter = static_cast<int>(src.range(1, 3));
    plan.upgradeSubclass = src.coin(2, 3);
    c.label(plan.upgradeSubclass ? "restart after upgraded sessions" : "restart after plain sessions");
  }
  bool ntPipeline = false, ntBigClose = false;
  int tokSeq = 0;
  for (int ci = 0; ci < nConn; ++ci)
  {
    ConnPlan cp;
    static const int mssOpt[] = {0, 0, 0, 0, 536, 536, 1400, 88};
    static const int rcvOpt[] = {0, 0, 0, 0, 0, 2048, 16384, 65536};
    cp.mss = mssOpt[src.range(0, 7)];
    cp.rcvbuf = rcvOpt[src.range(0, 7)];
    if (src.coin(1, 4))
    {
      cp.readPauseUs = static_cast<int>(src.range(100, 3000));
      cp.readChunk = static_cast<std::size_t>(src.oneOf<int>({512, 4096, 16384}));
    }
    auto cutRows = src.rows(3, 2, 0, 1 << 20);
    for (auto &cr : cutRows) cp.cuts.emplace_back(static_cast<std::size_t>(cr[0]), static_cast<int>(cr[1] % 2500));
    cp.startDelayMs = static_cast<int>(src.range(0, 3));
    if (src.coin(1, 5)) cp.readDelayMs = static_cast<int>(src.range(1, 60));
    auto rows = src.rows(8, 8, 0, (1 << 20) - 1);
    // no empty cases: the first connection always carries at least one request
    if (ci == 0 && rows.empty())
    {
      pbt::Row r0(8, 0);
      for (auto &x : r0) x = src.range(0, (1 << 20) - 1);
      rows.push_back(r0);
    }
    // 1 connection in 6: a dense pipeline of quick requests whose handlers finish at (almost) the same
    // instant on different workers - the schedule in which two responses would interleave on the wire
    const bool dense = src.coin(1, 6);
    if (dense)
    {
      c.label("dense pipeline of same-duration requests");
      std::size_t want = static_cast<std::size_t>(src.range(4, 8));
      while (rows.size() < want) rows.push_back(pbt::Row{0, 0, 0, 0, 0, 0, 0, 0});
      int dur = static_cast<int>(src.range(0, 3));
      for (std::size_t k = 0; k < rows.size(); ++k)
      {
        pbt::Row &r = rows[k];
        r[0] = (r[0] % 2) ? 80 : r[0] % 20;            // GET/HEAD on a handler route
        r[2] = (r[2] % 3 == 0) ? SetContentMove : SetContent;
        r[3] = r[3] % 5;                                // 200/201/202
        r[4] = (r[4] % 3) * 10 + 4 + (r[4] / 10 % 1000) * 10; // 100 B - 10 KiB
        r[5] = dur ? dur * 4 + 1 : 0;                    // every handler: the same duration
        r[6] = 1 | (7 << 2) | (r[6] & (3 << 7)) | (1 << 10);   // pipelined, keep-alive, HTTP/1.1
      }
    }
    bool closed = false;
    for (std::size_t ri = 0; ri < rows.size() && !closed; ++ri)
    {
      const pbt::Row &r = rows[ri];
      std::string tok = pbt::Fmt() << "c" << ci << "r" << tokSeq++;
      int kindSel = static_cast<int>(r[0] % 100);
      int flags = static_cast<int>(r[6]);
      bool pipeNext = (flags & 3) != 0; // 75 %: pipelining is the interesting case
      bool wantClose = ((flags >> 2) & 7) == 0; // 12.5 %
      ReqSpec rs;
      rs.close = wantClose;
      rs.closeSpelling = (flags >> 5) & 3;
      rs.headerCase = ((flags >> 7) & 7) < 3 ? ((flags >> 7) & 7) : 0;
      bool http10 = ((flags >> 10) & 15) == 0;
      if (((flags >> 15) & 31) < 4) rs.upgrade = 1 + ((flags >> 15) & 3); // 12.5 %: an Upgrade offer the server declines
      if (http10)
      {
        rs.version = "HTTP/1.0";
        rs.host = ((flags >> 14) & 1) != 0;
      }
      Behaviour b;
      b.mode = static_cast<int>(r[2] % 16);
      if (b.mode >= ModeCount) b.mode = SetContent;
      static const int statuses[] = {200, 200, 200, 201, 202, 400, 404, 409, 500, 503, 204, 304, 299, 451};
      b.status = statuses[r[3] % 14];
      switch (r[4] % 10)
      {
      case 0: b.bodySize = 0; break;
      case 1: case 2: case 3: b.bodySize = 1 + static_cast<std::size_t>(r[4] / 10) % 100; break;
      case 4: case 5: case 6: b.bodySize = 100 + static_cast<std::size_t>(r[4] / 10) % 16000; break;
      case 7: case 8: b.bodySize = 16000 + static_cast<std::size_t>(r[4] / 10) % 290000; break;
      default: b.bodySize = (r[4] / 10) % 3 == 0 ? 1500000 + static_cast<std::size_t>(r[4] / 10) % 2000000 : 60000 + static_cast<std::size_t>(r[4] / 10) % 8000; break;
      }
      // the property's second non-trivial class needs a close behind a response that does not fit the
      // socket buffers: one closing request in three gets a 150-300 KiB body (beyond the buffers at MSS 536/88)
      if (wantClose && r[4] % 3 == 0) b.bodySize = 150000 + static_cast<std::size_t>(r[4] / 10) % 150000;
      b.durMs = (r[5] % 4 == 0) ? 0 : static_cast<int>(r[5] / 4) % 31;
      if (b.status == 204 || b.status == 304)
      {
        // a handler that selects a bodyless status sets no content (or empty content)
        if (b.mode == StatusOnly && knownBodyless)
        {
          c.label("excluded: status-only 204/304 (known " + std::string(SIG_BODYLESS_BODY) + ")");
          b.mode = SetContent;
        }
        if (b.mode != StatusOnly && b.mode != ThrowStd && b.mode != ThrowInt && b.mode != ThrowBeforeEcho) b.mode = SetContent;
        if (b.mode == SetContent) b.bodySize = 0;
      }
      Item it;
      std::string reqBody;
      if (kindSel >= 20 && kindSel < 55)
      {
        std::size_t bl = (r[7] % 5 == 0) ? 0 : (r[7] % 5 == 1 ? 2000 + static_cast<std::size_t>(r[7] / 5) % 60000 : 1 + static_cast<std::size_t>(r[7] / 5) % 1500);
        reqBody = makeBody("q" + tok, bl);
      }
      if (kindSel < 20)
      {
        // GET / HEAD on the three route kinds
        rs.method = (kindSel % 4 == 3) ? "HEAD" : "GET";
        static const char *paths[] = {"/e/a", "/n/%s/x", "/w/%s/deep/er", "/e/a?x=1&tok=%s", "/w/%s"};
        char pb[128];
        std::snprintf(pb, sizeof pb, paths[r[1] % 5], tok.c_str());
        rs.path = pb;
        it = handlerItem(tok, rs, b);
      }
      else if (kindSel < 55)
      {
        struct MR { const char *m, *p; };
        static const MR mr[] = {{"POST", "/e/a"}, {"PUT", "/e/b"}, {"PATCH", "/e/b"}, {"DELETE", "/e/b"}, {"POST", "/n/%s"},
                                {"PUT", "/n/%s"}, {"DELETE", "/n/%s/x"}, {"POST", "/w/%s/up"}, {"PATCH", "/w/%s"}};
        const MR &m = mr[r[1] % 9];
        rs.method = m.m;
        char pb[128];
        std::snprintf(pb, sizeof pb, m.p, tok.c_str());
        rs.path = pb;
        rs.hasBody = true;
        rs.body = reqBody;
        if (kindSel >= 50 && !http10)
        {
          rs.chunked = true;
          if (rs.body.size() > 4000) rs.body.resize(4000);
        }
        it = handlerItem(tok, rs, b);
      }
      else if (kindSel < 60)
      {
        rs.method = "OPTIONS";
        rs.path = (r[1] % 2) ? "/e/a" : "/n/" + tok;
        it = anonItem(tok, rs, "auto OPTIONS");
      }
      else if (kindSel < 63)
      {
        rs.method = "OPTIONS";
        rs.path = "*";
        it = anonItem(tok, rs, "OPTIONS *");
      }
      else if (kindSel < 70)
      {
        static const char *ms[] = {"GET", "POST", "DELETE", "HEAD", "OPTIONS", "PUT"};
        rs.method = ms[r[1] % 6];
        rs.path = "/zz/" + tok;
        if (rs.method == "POST" || rs.method == "PUT")
        {
          rs.hasBody = true;
          rs.body = makeBody("q" + tok, static_cast<std::size_t>(r[7] % 300));
        }
        it = plan.defaultHandler ? handlerItem(tok, rs, b) : anonItem(tok, rs, "no route");
      }
      else if (kindSel < 75)
      {
        static const char *mp[][2] = {{"DELETE", "/e/a"}, {"GET", "/e/b"}, {"PATCH", "/n/x1"}, {"PUT", "/w/a/b"}, {"TRACE", "/e/a"}};
        rs.method = mp[r[1] % 5][0];
        rs.path = mp[r[1] % 5][1];
        it = anonItem(tok, rs, "method not allowed");
      }
      else if (kindSel < 78)
      {
        rs.method = "HEAD";
        rs.path = "/e/b"; // registered for PUT/PATCH/DELETE only
        it = anonItem(tok, rs, "HEAD on a path without GET");
      }
      else if (kindSel < 87)
      {
        // more GETs with a small response: keeps pipelines dense
        rs.method = "GET";
        rs.path = "/n/" + tok + "/x";
        if (b.bodySize > 4000) b.bodySize %= 4000;
        it = handlerItem(tok, rs, b);
      }
      else
      {
        int sub = static_cast<int>(r[7] % kUnparseableKinds);
        if (sub == 14 && knownBadChunk)
        {
          c.label("excluded: bad chunk-size (known " + std::string(SIG_BAD_CHUNK_STALL) + ")");
          sub = 10;
        }
        it = unparseableItem(sub, tok);
      }
      it.pipeNext = pipeNext;
      bool anonHead = it.kind == Kind::Anon && it.isHead;
      if (knownReorder && (it.closes || anonHead))
      {
        // a closing request (or one whose response can only be framed by position) is
        // only sent when nothing else is in flight while the reorder finding is open
        if (it.pipeNext || (!cp.items.empty() && cp.items.back().pipeNext))
          c.label("excluded: closing request de-pipelined (known " + std::string(SIG_REORDER) + ")");
        if (!cp.items.empty()) cp.items.back().pipeNext = false;
        it.pipeNext = false;
      }
      if (it.closes && !it.pipeNext) closed = true;
      // labels / non-trivial rule
      c.label(std::string("request: ") + (it.kind == Kind::Handler ? "handler" : it.kind == Kind::Anon ? "server-generated" : "unparseable"));
      if (it.kind != Kind::Unparseable)
      {
        if (it.kind == Kind::Handler || b.mode == ThrowBeforeEcho) c.label(std::string("handler mode: ") + modeName(b.mode));
        if (it.isHead) c.label("HEAD request");
        if (http10) c.label("HTTP/1.0 request");
        if (rs.upgrade) c.label("request with a declined Upgrade offer");
        if (rs.chunked) c.label("chunked request");
        if (it.closes) c.label("Connection: close request");
        std::size_t wireEstimate = it.isHead ? 0 : (it.checkBody ? it.expectBody.size() : 0);
        bool beyondBuffer = (cp.mss == 536 || cp.mss == 88) ? wireEstimate >= 128 * 1024 : wireEstimate >= 1400000;
        if (beyondBuffer) c.label("response larger than the socket buffer");
        if (beyondBuffer && it.closes)
        {
          ntBigClose = true;
          c.label("response larger than the socket buffer followed by close");
        }
      }
      cp.items.push_back(std::move(it));
    }
    if (!cp.items.empty()) cp.items.back().pipeNext = cp.items.back().pipeNext && false;
    // pipelined bursts with different handler durations
    for (std::size_t k = 0; k + 1 < cp.items.size(); ++k)
      if (cp.items[k].pipeNext && cp.items[k].beh.durMs != cp.items[k + 1].beh.durMs &&
          cp.items[k].kind != Kind::Unparseable && cp.items[k + 1].kind != Kind::Unparseable)
        ntPipeline = true;
    plan.conns.push_back(std::move(cp));
  }
  std::size_t total = 0, maxBurst = 0;
  for (auto &cp : plan.conns)
  {
    total += cp.items.size();
    std::size_t cur = 0;
    for (auto &it : cp.items)
    {
      ++cur;
      if (cur > maxBurst) maxBurst = cur;
      if (!it.pipeNext) cur = 0;
    }
  }
  c.label(pbt::Fmt() << "connections: " << plan.conns.size());
  c.label(pbt::Fmt() << "longest pipeline: " << (maxBurst >= 4 ? std::string(">=4") : std::to_string(maxBurst)));
  if (ntPipeline) c.label("non-trivial: >=2 requests in flight with different handler durations");
  if (total == 0) c.label("empty plan");
  if (ntPipeline || ntBigClose) c.nontrivial(pbt::hash64(describePlan(plan)));
  labelAndRun(plan, c);
}

// ---------------------------------------------------------------- fixed regressions
namespace
{
Behaviour beh(int mode, int status, std::size_t size, int dur)
{
  Behaviour b;
  b.mode = mode;
  b.status = status;
  b.bodySize = size;
  b.durMs = dur;
  return b;
}
Item get(const std::string &tok, const std::string &path, Behaviour b, bool close = false, const char *method = "GET")
{
  ReqSpec rs;
  rs.method = method;
  rs.path = path;
  rs.close = close;
  return handlerItem(tok, rs, b);
}
} // namespace

// S17 part 1: a slow request followed by a fast one on the same connection
PBT_REGRESSION(pipelined_slow_then_fast)
{
  Plan p;
  ConnPlan cp;
  Item a = get("slow", "/e/a", beh(SetContent, 200, 10, 150));
  a.pipeNext = true;
  cp.items.push_back(a);
  cp.items.push_back(get("fast", "/n/7/x", beh(SetContent, 200, 10, 0)));
  p.conns.push_back(cp);
  labelAndRun(p, c);
}

// S17 part 2: the close command queued behind a partially written response drops the rest
PBT_REGRESSION(large_response_then_close)
{
  Plan p;
  ConnPlan cp;
  cp.mss = 536; // a peer behind a small-MTU path: the kernel send buffer holds ~70 KiB
  cp.readDelayMs = 1000; // ... that starts reading late: the close is queued while most of the response waits in user space
  cp.rcvbuf = 16384; // ... with a small receive buffer: both kernel buffers together hold far less than the response
  cp.items.push_back(get("big", "/e/a", beh(SetContent, 200, 2 * 1024 * 1024, 0), true));
  p.conns.push_back(cp);
  labelAndRun(p, c);
}

// a handler that only selects 204 (or 304) must not put a body on the wire
PBT_REGRESSION(status_only_204)
{
  Plan p;
  ConnPlan cp;
  cp.items.push_back(get("nc", "/e/a", beh(StatusOnly, 204, 0, 0)));
  cp.items.push_back(get("next", "/e/a", beh(SetContent, 200, 5, 0)));
  p.conns.push_back(cp);
  labelAndRun(p, c);
}
PBT_REGRESSION(status_only_304)
{
  Plan p;
  ConnPlan cp;
  cp.items.push_back(get("nm", "/w/x/y", beh(StatusOnly, 304, 0, 0)));
  cp.items.push_back(get("next", "/e/a", beh(SetContent, 200, 5, 0)));
  p.conns.push_back(cp);
  labelAndRun(p, c);
}

// a complete chunked request whose chunk-size line is not hexadecimal
PBT_REGRESSION(bad_chunk_size)
{
  Plan p;
  ConnPlan cp;
  cp.items.push_back(get("ok", "/e/a", beh(SetContent, 200, 5, 0)));
  cp.items.push_back(unparseableItem(14, "bc"));
  p.conns.push_back(cp);
  labelAndRun(p, c);
}

// chunk sizes of 2^64 and more must be rejected, not reduced mod 2^64 (seeded change C16-D)
PBT_REGRESSION(chunk_size_overflow)
{
  Plan p;
  // kinds that a wrapping parser answers 200 first (data oracle), the ones it stalls on last (bounded wait)
  for (int sub : {17, 16, 18, 23, 19, 20, 21, 15, 22})
  {
    ConnPlan cp;
    cp.items.push_back(get("ok" + std::to_string(sub), "/e/a", beh(SetContent, 200, 5, 0)));
    cp.items.push_back(unparseableItem(sub, "ov" + std::to_string(sub)));
    p.conns.push_back(cp);
  }
  labelAndRun(p, c);
}

// a well-formed request with an Upgrade offer the server does not accept is routed and answered
// like any other (seeded change C16-I)
PBT_REGRESSION(declined_upgrade_is_answered)
{
  Plan p;
  ConnPlan cp;
  for (int u = 1; u <= 4; ++u)
  {
    ReqSpec rs;
    rs.upgrade = u;
    rs.path = u % 2 ? "/e/a" : "/w/up/grade";
    cp.items.push_back(handlerItem("u" + std::to_string(u), rs, beh(SetContent, 200, 20, 0)));
  }
  ReqSpec post;
  post.method = "POST";
  post.hasBody = true;
  post.body = "abc";
  post.upgrade = 1;
  cp.items.push_back(handlerItem("u5", post, beh(SetContent, 201, 7, 0)));
  p.conns.push_back(cp);
  labelAndRun(p, c);
}

// sessions that were upgraded (documented seam) and closed must not leave a mark that hits the
// sessions of the next life of the same server object (seeded change C16-J)
PBT_REGRESSION(restart_after_upgraded_sessions)
{
  Plan p;
  p.restartAfter = 2;
  p.upgradeSubclass = true;
  for (int k = 0; k < 3; ++k)
  {
    ConnPlan cp;
    cp.items.push_back(get("r" + std::to_string(k), "/e/a", beh(SetContent, 200, 9, 0)));
    p.conns.push_back(cp);
  }
  labelAndRun(p, c);
}
PBT_REGRESSION(restart_after_plain_sessions)
{
  Plan p;
  p.restartAfter = 2;
  ConnPlan cp;
  cp.items.push_back(get("x", "/e/a", beh(SetContent, 200, 9, 0)));
  cp.items.push_back(get("y", "/n/1/x", beh(ThrowStd, 200, 0, 0)));
  p.conns.push_back(cp);
  labelAndRun(p, c);
}

// passing baselines (sequential keep-alive, HEAD, throwing handlers, close)
PBT_REGRESSION(sequential_baseline)
{
  Plan p;
  ConnPlan cp;
  cp.items.push_back(get("a", "/e/a", beh(SetContent, 200, 100, 5)));
  cp.items.push_back(get("b", "/e/a", beh(SetContent, 201, 40000, 0), false, "HEAD"));
  cp.items.push_back(get("c", "/n/1/x", beh(ThrowStd, 200, 0, 0)));
  cp.items.push_back(get("d", "/w/q", beh(ThrowInt, 200, 0, 3)));
  cp.items.push_back(get("e", "/e/a", beh(RawBodyWithLength, 202, 777, 0)));
  cp.items.push_back(get("f", "/e/a", beh(SetContent, 200, 2000, 0), true));
  p.conns.push_back(cp);
  ConnPlan cp2;
  cp2.items.push_back(get("g", "/e/a", beh(SetContent, 200, 1, 0)));
  cp2.items.push_back(unparseableItem(0, "h"));
  p.conns.push_back(cp2);
  labelAndRun(p, c);
}

PBT_MAIN()
