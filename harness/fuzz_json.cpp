// libFuzzer target for C13: Json::parse on arbitrary bytes, limits taken from a prefix.
// Oracle: terminates; no sanitizer report; on error the offset lies inside the input;
// on success dump() is RFC 8259-valid (own validator) when all strings are valid UTF-8,
// and parse(dump(v)) == v.
#include "pbt_fuzz.hpp"
#include "ref_json.hpp"

#include <iora/parsers/json.hpp>

#include <cmath>
#include <functional>
#include <memory>

using iora::parsers::Json;
using iora::parsers::ParseLimits;

namespace pbt
{
// ref_json.hpp only needs these two helpers from the pbt runtime
std::uint64_t hash64(std::string_view s) { return pbtf::hash64(s); }
std::string show(std::string_view s, std::size_t n) { return std::string(s.substr(0, n)); }
} // namespace pbt

static bool utf8ok(const std::string &s)
{
  for (std::size_t i = 0; i < s.size();)
  {
    unsigned char c = (unsigned char)s[i];
    int n = c < 0x80 ? 1 : c >= 0xF0 ? 4 : c >= 0xE0 ? 3 : c >= 0xC2 ? 2 : 0;
    if (!n || c > 0xF4) return false;
    for (int k = 1; k < n; ++k)
      if (i + k >= s.size() || ((unsigned char)s[i + k] & 0xC0) != 0x80) return false;
    if (n == 3)
    {
      unsigned cp = ((c & 0x0F) << 12) | (((unsigned char)s[i + 1] & 0x3F) << 6) | ((unsigned char)s[i + 2] & 0x3F);
      if (cp < 0x800 || (cp >= 0xD800 && cp <= 0xDFFF)) return false;
    }
    if (n == 4)
    {
      unsigned cp = ((c & 0x07) << 18) | (((unsigned char)s[i + 1] & 0x3F) << 12) | (((unsigned char)s[i + 2] & 0x3F) << 6) |
                    ((unsigned char)s[i + 3] & 0x3F);
      if (cp < 0x10000 || cp > 0x10FFFF) return false;
    }
    i += n;
  }
  return true;
}

extern "C" int LLVMFuzzerTestOneInput(const uint8_t *data, size_t size)
{
  pbtf::count();
  ParseLimits lim;
  if (size >= 1 && (data[0] & 1))
  {
    // small limits from the first 4 bytes
    if (size < 4) return 0;
    lim.depthMax = data[0] >> 1 & 15;
    lim.arrayItemsMax = data[1] & 15;
    lim.membersMax = data[2] & 15;
    lim.stringLengthMax = data[3] & 31;
    data += 4;
    size -= 4;
  }
  else if (size >= 1)
  {
    ++data;
    --size;
  }
  // exact-size heap copy: any read past the end is visible to ASan
  std::unique_ptr<char[]> buf(new char[size ? size : 1]);
  std::memcpy(buf.get(), data, size);
  std::string_view text(buf.get(), size);
  auto r = Json::parse(text, lim);
  if (!r.ok)
  {
    if (r.error.where.offset > size)
      pbtf::fail("C13/mutate/error-offset-outside", "error offset " + std::to_string(r.error.where.offset) + " > size " + std::to_string(size));
    return 0;
  }
  bool finite = true, utf8 = true;
  std::function<void(const Json &)> scan = [&](const Json &x)
  {
    if (x.isDouble() && !std::isfinite(x.getDouble())) finite = false;
    if (x.isString() && !utf8ok(x.getString())) utf8 = false;
    if (x.isArray()) for (auto &e : x.getArray()) scan(e);
    if (x.isObject()) for (auto &e : x.getObject()) { if (!utf8ok(e.first)) utf8 = false; scan(e.second); }
  };
  scan(r.value);
  pbtf::nontrivial(pbtf::hash64(text), text);
  if (!finite) { pbtf::label("non-finite double (overflowing literal)"); return 0; }
  std::string d = r.value.dump();
  if (utf8)
  {
    std::string err;
    if (!refjson::validate(d, err)) pbtf::fail("C13/roundtrip/invalid-output", "dump of accepted value is not RFC 8259: " + err);
  }
  auto r2 = Json::parse(std::string_view(d), ParseLimits{});
  if (!r2.ok || !(r2.value == r.value)) pbtf::fail("C13/mutate/accepted-value-roundtrip", "accepted value does not round-trip");
  return 0;
}
