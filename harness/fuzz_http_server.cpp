// libFuzzer target for C15 (server side): bytes + cut pattern -> HttpServer::handleIncomingData.
// Input: byte0/byte1 select the segmentation (see c15::cutsFromPattern), the rest is the byte stream
// of one connection. Each input is executed twice in fresh sessions: unsegmented and segmented.
// Oracles inside the target:
//   * every call returns (libFuzzer -timeout catches an endless loop), nothing is thrown out of the
//     data callback, retained bytes never exceed the configured buffer cap;
//   * wherever the independent strict parser (c15_ref_http.hpp) gives a verdict: the complete valid
//     requests are handed to the handler exactly once each with decoded bodies, for both
//     segmentations; a message with invalid length information and everything behind it is never
//     handed over and the session does not sit on it.
#include "pbt_fuzz.hpp"
#include "c15_exec.hpp"

using namespace c15;

extern "C" int LLVMFuzzerTestOneInput(const uint8_t *data, size_t size)
{
  pbtf::count();
  if (size < 3) return 0;
  unsigned a = data[0], b = data[1];
  std::string wire(reinterpret_cast<const char *>(data + 2), size - 2);
  if (pbtf::isKnown("C15/server/call-does-not-return") || pbtf::isKnown("fuzz:timeout@fuzz_http_server"))
  {
    // exclusion by construction: >= 15 hex digits in a row can wrap the chunk position arithmetic
    std::size_t run = 0;
    for (unsigned char ch : wire)
    {
      run = refhttp::isHex(ch) ? run + 1 : 0;
      if (run >= 15) { pbtf::label("excluded: long hex run (known finding: endless loop)"); return 0; }
    }
  }
  refhttp::Parsed ps = refhttp::parseRequests(wire);
  ServerExpectation e = expectationFromParse(ps, wire);
  if (ps.tail == refhttp::Tail::BadLength && pbtf::isKnown("C15/server/invalid-length-stalls/" + ps.why)) e.requireRejected = false;
  Cuts cuts = cutsFromPattern(a, b, wire.size());
  ServerRun r0 = feedServer(wire, {});
  ServerRun r1 = feedServer(wire, cuts);
  server().quiesce();
  collect(r0);
  collect(r1);
  pbtf::label(std::string("tail ") + refhttp::tailName(ps.tail));
  bool chunked = false;
  for (auto &m : ps.msgs) chunked |= m.chunked;
  if (!ps.msgs.empty() && (chunked || ps.msgs.size() >= 2) && !cuts.empty())
    pbtf::nontrivial(pbtf::hash64(wire) ^ (a % 6), "pattern " + std::to_string(a % 6) + " stream " + refhttp::showBytes(wire, 300));
  bool knownSeen = false;
  KnownFn known = [](const std::string &s) { return pbtf::isKnown(s); };
  for (ServerRun *r : {&r0, &r1})
  {
    Failure f = judgeServerRun(*r, e, wire, known, [&](const std::string &) { knownSeen = true; });
    if (f.failed())
    {
      if (r == &r1 && f.sig.find("/invalid-length") == std::string::npos)
      {
        Failure f0 = judgeServerRun(r0, e, wire, known, [](const std::string &) {});
        if (!f0.failed()) f.sig += "@segmented-only";
      }
      if (pbtf::fail(f.sig, f.what)) return 0;
    }
  }
  if (knownSeen) pbtf::label("re-classified: chunked body handed over raw (known finding)");
  return 0;
}
