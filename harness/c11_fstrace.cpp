// c11_fstrace.cpp - strong definitions of the file-modifying libc entry points for the
// C11 harness executable (see harness/common/c11_fstrace.hpp). No dependency on iora.
#undef _FORTIFY_SOURCE
#include "c11_fstrace.hpp"

#include <atomic>
#include <cerrno>
#include <cstdarg>
#include <cstdio>
#include <cstring>
#include <dirent.h>
#include <dlfcn.h>
#include <fcntl.h>
#include <mutex>
#include <sys/stat.h>
#include <sys/types.h>
#include <sys/uio.h>
#include <unistd.h>

namespace
{

// ---- real functions ------------------------------------------------------------------
template <class F> F real(const char *name, std::atomic<void *> &slot)
{
  void *p = slot.load(std::memory_order_acquire);
  if (!p)
  {
    p = dlsym(RTLD_NEXT, name);
    if (!p)
    {
      const char msg[] = "c11_fstrace: dlsym(RTLD_NEXT) failed\n";
      (void)!::syscall(1 /*SYS_write*/, 2, msg, sizeof msg - 1);
      _exit(97);
    }
    slot.store(p, std::memory_order_release);
  }
  return reinterpret_cast<F>(p);
}
#define REAL(ret, name, ...)                                                               \
  static std::atomic<void *> slot_##name{nullptr};                                         \
  auto real_##name = real<ret (*)(__VA_ARGS__)>(#name, slot_##name)

// ---- tracer state --------------------------------------------------------------------
constexpr int kMaxFd = 4096;
std::atomic<bool> g_active{false};
std::atomic<int> g_fdTracked[kMaxFd]; // 0 = untracked, else 1 (details in g_fds under g_mu)
thread_local int t_bypass = 0;

struct FdState
{
  int inode = 0;
  bool append = false;
  bool writable = false;
  std::uint64_t pos = 0;
};

struct State
{
  std::mutex mu;
  std::string prefix; // "<dir>/"
  fstrace::Image img;
  std::vector<fstrace::Effect> effects;
  std::vector<std::string> unsupported;
  std::map<int, FdState> fds;
  std::atomic<int> op{-1};
  fstrace::Stats st;
};
State &S()
{
  static State *s = new State; // leaked on purpose (used from exit paths)
  return *s;
}

bool tracing() { return g_active.load(std::memory_order_acquire) && t_bypass == 0; }

// relative name if `path` lies directly below the traced directory, else empty
std::string relName(const char *path)
{
  if (!path) return {};
  State &s = S();
  std::size_t n = s.prefix.size();
  if (n == 0 || std::strncmp(path, s.prefix.c_str(), n) != 0) return {};
  return std::string(path + n);
}

void record(fstrace::Effect e, const char *api)
{
  State &s = S();
  e.op = s.op.load(std::memory_order_acquire);
  e.api = api;
  fstrace::apply(s.img, e);
  s.effects.push_back(std::move(e));
}

void trackFd(int fd, int inode, bool append, bool writable)
{
  if (fd < 0 || fd >= kMaxFd) return;
  State &s = S();
  FdState f;
  f.inode = inode;
  f.append = append;
  f.writable = writable;
  s.fds[fd] = f;
  g_fdTracked[fd].store(1, std::memory_order_release);
}

// called with the real open already done (fd >= 0); `existed` sampled before the open
void afterOpen(const std::string &name, int fd, int flags, const char *api)
{
  State &s = S();
  std::lock_guard<std::mutex> lk(s.mu);
  ++s.st.opens;
  const bool writable = (flags & O_ACCMODE) != O_RDONLY;
  auto it = s.img.paths.find(name);
  int inode;
  if (it == s.img.paths.end())
  {
    if (!(flags & O_CREAT))
    {
      s.unsupported.push_back(std::string(api) + ": opened a file the tracer does not know: " + name);
      return;
    }
    fstrace::Effect e;
    e.kind = fstrace::Effect::Create;
    e.name = name;
    e.inode = s.img.nextInode;
    inode = e.inode;
    record(std::move(e), api);
  }
  else
  {
    inode = it->second;
    if ((flags & O_TRUNC) && writable)
    {
      fstrace::Effect e;
      e.kind = fstrace::Effect::TruncOpen;
      e.name = name;
      e.inode = inode;
      record(std::move(e), api);
    }
  }
  trackFd(fd, inode, (flags & O_APPEND) != 0, writable);
}

int flagsOfMode(const char *mode)
{
  int flags = 0;
  bool plus = std::strchr(mode, '+') != nullptr;
  switch (mode[0])
  {
  case 'r': flags = plus ? O_RDWR : O_RDONLY; break;
  case 'w': flags = (plus ? O_RDWR : O_WRONLY) | O_CREAT | O_TRUNC; break;
  case 'a': flags = (plus ? O_RDWR : O_WRONLY) | O_CREAT | O_APPEND; break;
  default: flags = O_RDONLY; break;
  }
  if (std::strchr(mode, 'x')) flags |= O_EXCL;
  return flags;
}

void afterWrite(int fd, const char *data, std::size_t n, std::vector<std::size_t> segs, bool positional,
                std::uint64_t off, const char *api)
{
  State &s = S();
  std::lock_guard<std::mutex> lk(s.mu);
  auto it = s.fds.find(fd);
  if (it == s.fds.end()) return;
  ++s.st.writes;
  FdState &f = it->second;
  fstrace::Effect e;
  e.kind = fstrace::Effect::Write;
  e.inode = f.inode;
  for (auto &p : s.img.paths)
    if (p.second == f.inode) e.name = p.first;
  if (positional) e.off = off;
  else if (f.append) e.off = s.img.inodes[f.inode].size();
  else e.off = f.pos;
  e.data.assign(data, n);
  e.segs = std::move(segs);
  if (!positional) f.pos = e.off + n;
  record(std::move(e), api);
}

void untrackFd(int fd)
{
  if (fd < 0 || fd >= kMaxFd) return;
  if (!g_fdTracked[fd].load(std::memory_order_acquire)) return;
  State &s = S();
  std::lock_guard<std::mutex> lk(s.mu);
  s.fds.erase(fd);
  ++s.st.closes;
  g_fdTracked[fd].store(0, std::memory_order_release);
}

bool isTracked(int fd)
{
  return fd >= 0 && fd < kMaxFd && g_fdTracked[fd].load(std::memory_order_acquire) != 0;
}

int doOpen(const char *api, int dirfd, const char *path, int flags, mode_t mode, bool at)
{
  REAL(int, openat, int, const char *, int, ...);
  int fd = real_openat(at ? dirfd : AT_FDCWD, path, flags, mode);
  if (fd >= 0 && tracing() && (!at || dirfd == AT_FDCWD || (path && path[0] == '/')))
  {
    std::string name = relName(path);
    if (!name.empty()) afterOpen(name, fd, flags, api);
  }
  return fd;
}

FILE *doFopen(const char *api, const char *path, const char *mode)
{
  REAL(FILE *, fopen64, const char *, const char *);
  FILE *f = real_fopen64(path, mode);
  if (f && tracing())
  {
    std::string name = relName(path);
    if (!name.empty()) afterOpen(name, fileno(f), flagsOfMode(mode), api);
  }
  return f;
}

int doUnlink(const char *api, const char *path, int rc)
{
  if (rc == 0 && tracing())
  {
    std::string name = relName(path);
    if (!name.empty())
    {
      State &s = S();
      std::lock_guard<std::mutex> lk(s.mu);
      if (s.img.paths.count(name))
      {
        fstrace::Effect e;
        e.kind = fstrace::Effect::Unlink;
        e.name = name;
        record(std::move(e), api);
      }
    }
  }
  return rc;
}

void doTruncate(const char *api, int inode, const std::string &name, std::uint64_t len)
{
  fstrace::Effect e;
  e.kind = fstrace::Effect::Truncate;
  e.inode = inode;
  e.name = name;
  e.off = len;
  record(std::move(e), api);
}

} // namespace

// ======================================================================================
// interposed entry points
// ======================================================================================
extern "C"
{
  int open(const char *path, int flags, ...)
  {
    mode_t mode = 0;
    if (flags & (O_CREAT | O_TMPFILE))
    {
      va_list ap;
      va_start(ap, flags);
      mode = static_cast<mode_t>(va_arg(ap, int));
      va_end(ap);
    }
    return doOpen("open", AT_FDCWD, path, flags, mode, false);
  }
  int open64(const char *path, int flags, ...)
  {
    mode_t mode = 0;
    if (flags & (O_CREAT | O_TMPFILE))
    {
      va_list ap;
      va_start(ap, flags);
      mode = static_cast<mode_t>(va_arg(ap, int));
      va_end(ap);
    }
    return doOpen("open64", AT_FDCWD, path, flags | O_LARGEFILE, mode, false);
  }
  int openat(int dirfd, const char *path, int flags, ...)
  {
    mode_t mode = 0;
    if (flags & (O_CREAT | O_TMPFILE))
    {
      va_list ap;
      va_start(ap, flags);
      mode = static_cast<mode_t>(va_arg(ap, int));
      va_end(ap);
    }
    return doOpen("openat", dirfd, path, flags, mode, true);
  }
  int openat64(int dirfd, const char *path, int flags, ...)
  {
    mode_t mode = 0;
    if (flags & (O_CREAT | O_TMPFILE))
    {
      va_list ap;
      va_start(ap, flags);
      mode = static_cast<mode_t>(va_arg(ap, int));
      va_end(ap);
    }
    return doOpen("openat64", dirfd, path, flags | O_LARGEFILE, mode, true);
  }
  int creat(const char *path, mode_t mode)
  {
    return doOpen("creat", AT_FDCWD, path, O_CREAT | O_WRONLY | O_TRUNC, mode, false);
  }

  FILE *fopen(const char *path, const char *mode) { return doFopen("fopen", path, mode); }
  FILE *fopen64(const char *path, const char *mode) { return doFopen("fopen64", path, mode); }

  int fclose(FILE *f)
  {
    REAL(int, fclose, FILE *);
    if (f)
    {
      int fd = fileno(f);
      if (isTracked(fd)) untrackFd(fd);
    }
    return real_fclose(f);
  }
  int close(int fd)
  {
    REAL(int, close, int);
    if (isTracked(fd)) untrackFd(fd);
    return real_close(fd);
  }

  ssize_t write(int fd, const void *buf, size_t n)
  {
    REAL(ssize_t, write, int, const void *, size_t);
    ssize_t r = real_write(fd, buf, n);
    if (r > 0 && isTracked(fd) && tracing())
      afterWrite(fd, static_cast<const char *>(buf), static_cast<std::size_t>(r), {}, false, 0, "write");
    return r;
  }
  ssize_t writev(int fd, const struct iovec *iov, int cnt)
  {
    REAL(ssize_t, writev, int, const struct iovec *, int);
    ssize_t r = real_writev(fd, iov, cnt);
    if (r > 0 && isTracked(fd) && tracing())
    {
      std::string data;
      std::vector<std::size_t> segs;
      std::size_t left = static_cast<std::size_t>(r);
      for (int i = 0; i < cnt && left > 0; ++i)
      {
        std::size_t take = iov[i].iov_len < left ? iov[i].iov_len : left;
        if (take == 0) continue;
        if (!data.empty()) segs.push_back(data.size());
        data.append(static_cast<const char *>(iov[i].iov_base), take);
        left -= take;
      }
      afterWrite(fd, data.data(), data.size(), std::move(segs), false, 0, "writev");
    }
    return r;
  }
  ssize_t pwrite(int fd, const void *buf, size_t n, off_t off)
  {
    REAL(ssize_t, pwrite, int, const void *, size_t, off_t);
    ssize_t r = real_pwrite(fd, buf, n, off);
    if (r > 0 && isTracked(fd) && tracing())
      afterWrite(fd, static_cast<const char *>(buf), static_cast<std::size_t>(r), {}, true, static_cast<std::uint64_t>(off), "pwrite");
    return r;
  }
  ssize_t pwrite64(int fd, const void *buf, size_t n, off64_t off)
  {
    REAL(ssize_t, pwrite64, int, const void *, size_t, off64_t);
    ssize_t r = real_pwrite64(fd, buf, n, off);
    if (r > 0 && isTracked(fd) && tracing())
      afterWrite(fd, static_cast<const char *>(buf), static_cast<std::size_t>(r), {}, true, static_cast<std::uint64_t>(off), "pwrite64");
    return r;
  }

  off_t lseek(int fd, off_t off, int whence) noexcept
  {
    REAL(off_t, lseek, int, off_t, int);
    off_t r = real_lseek(fd, off, whence);
    if (r >= 0 && isTracked(fd))
    {
      State &s = S();
      std::lock_guard<std::mutex> lk(s.mu);
      auto it = s.fds.find(fd);
      if (it != s.fds.end()) it->second.pos = static_cast<std::uint64_t>(r);
    }
    return r;
  }
  off64_t lseek64(int fd, off64_t off, int whence) noexcept
  {
    REAL(off64_t, lseek64, int, off64_t, int);
    off64_t r = real_lseek64(fd, off, whence);
    if (r >= 0 && isTracked(fd))
    {
      State &s = S();
      std::lock_guard<std::mutex> lk(s.mu);
      auto it = s.fds.find(fd);
      if (it != s.fds.end()) it->second.pos = static_cast<std::uint64_t>(r);
    }
    return r;
  }

  int rename(const char *from, const char *to) noexcept
  {
    REAL(int, rename, const char *, const char *);
    int rc = real_rename(from, to);
    if (rc == 0 && tracing())
    {
      std::string a = relName(from), b = relName(to);
      if (!a.empty() || !b.empty())
      {
        State &s = S();
        std::lock_guard<std::mutex> lk(s.mu);
        ++s.st.renames;
        if (a.empty() || b.empty() || !s.img.paths.count(a))
          s.unsupported.push_back(std::string("rename across the traced directory boundary: ") + from + " -> " + to);
        else
        {
          fstrace::Effect e;
          e.kind = fstrace::Effect::Rename;
          e.name = a;
          e.name2 = b;
          e.inode = s.img.paths[a];
          record(std::move(e), "rename");
        }
      }
    }
    return rc;
  }
  int renameat(int fd1, const char *from, int fd2, const char *to) noexcept
  {
    REAL(int, renameat, int, const char *, int, const char *);
    if (tracing() && ((from && !relName(from).empty()) || (to && !relName(to).empty())) && fd1 == AT_FDCWD && fd2 == AT_FDCWD)
      return rename(from, to);
    return real_renameat(fd1, from, fd2, to);
  }

  int unlink(const char *path) noexcept
  {
    REAL(int, unlink, const char *);
    return doUnlink("unlink", path, real_unlink(path));
  }
  int unlinkat(int dirfd, const char *path, int flags) noexcept
  {
    REAL(int, unlinkat, int, const char *, int);
    int rc = real_unlinkat(dirfd, path, flags);
    if (dirfd == AT_FDCWD || (path && path[0] == '/')) return doUnlink("unlinkat", path, rc);
    return rc;
  }
  int remove(const char *path) noexcept
  {
    REAL(int, remove, const char *);
    return doUnlink("remove", path, real_remove(path));
  }

  int truncate(const char *path, off_t len) noexcept
  {
    REAL(int, truncate, const char *, off_t);
    int rc = real_truncate(path, len);
    if (rc == 0 && tracing())
    {
      std::string name = relName(path);
      if (!name.empty())
      {
        State &s = S();
        std::lock_guard<std::mutex> lk(s.mu);
        auto it = s.img.paths.find(name);
        if (it != s.img.paths.end()) doTruncate("truncate", it->second, name, static_cast<std::uint64_t>(len));
      }
    }
    return rc;
  }
  int truncate64(const char *path, off64_t len) noexcept
  {
    REAL(int, truncate64, const char *, off64_t);
    int rc = real_truncate64(path, len);
    if (rc == 0 && tracing())
    {
      std::string name = relName(path);
      if (!name.empty())
      {
        State &s = S();
        std::lock_guard<std::mutex> lk(s.mu);
        auto it = s.img.paths.find(name);
        if (it != s.img.paths.end()) doTruncate("truncate64", it->second, name, static_cast<std::uint64_t>(len));
      }
    }
    return rc;
  }
  int ftruncate(int fd, off_t len) noexcept
  {
    REAL(int, ftruncate, int, off_t);
    int rc = real_ftruncate(fd, len);
    if (rc == 0 && isTracked(fd) && tracing())
    {
      State &s = S();
      std::lock_guard<std::mutex> lk(s.mu);
      auto it = s.fds.find(fd);
      if (it != s.fds.end()) doTruncate("ftruncate", it->second.inode, "", static_cast<std::uint64_t>(len));
    }
    return rc;
  }
  int ftruncate64(int fd, off64_t len) noexcept
  {
    REAL(int, ftruncate64, int, off64_t);
    int rc = real_ftruncate64(fd, len);
    if (rc == 0 && isTracked(fd) && tracing())
    {
      State &s = S();
      std::lock_guard<std::mutex> lk(s.mu);
      auto it = s.fds.find(fd);
      if (it != s.fds.end()) doTruncate("ftruncate64", it->second.inode, "", static_cast<std::uint64_t>(len));
    }
    return rc;
  }
}

// ======================================================================================
// API
// ======================================================================================
namespace fstrace
{

void apply(Image &img, const Effect &e, std::size_t bytes)
{
  switch (e.kind)
  {
  case Effect::Create:
    img.paths[e.name] = e.inode;
    img.inodes[e.inode].clear();
    if (img.nextInode <= e.inode) img.nextInode = e.inode + 1;
    break;
  case Effect::TruncOpen: img.inodes[e.inode].clear(); break;
  case Effect::Write:
  {
    std::size_t n = bytes < e.data.size() ? bytes : e.data.size();
    std::string &c = img.inodes[e.inode];
    if (c.size() < e.off + n) c.resize(e.off + n, '\0');
    std::memcpy(&c[e.off], e.data.data(), n);
    break;
  }
  case Effect::Rename:
  {
    auto it = img.paths.find(e.name);
    if (it == img.paths.end()) break;
    int ino = it->second;
    img.paths.erase(it);
    img.paths[e.name2] = ino;
    break;
  }
  case Effect::Unlink: img.paths.erase(e.name); break;
  case Effect::Truncate: img.inodes[e.inode].resize(e.off, '\0'); break;
  }
}

void begin(const std::string &dir, const Image &initial)
{
  State &s = S();
  std::lock_guard<std::mutex> lk(s.mu);
  s.prefix = dir + "/";
  s.img = initial;
  s.effects.clear();
  s.unsupported.clear();
  for (auto &f : s.fds)
    if (f.first >= 0 && f.first < kMaxFd) g_fdTracked[f.first].store(0);
  s.fds.clear();
  s.op.store(-1);
  g_active.store(true, std::memory_order_release);
}

void setOp(int op) { S().op.store(op, std::memory_order_release); }

Result end()
{
  State &s = S();
  g_active.store(false, std::memory_order_release);
  std::lock_guard<std::mutex> lk(s.mu);
  Result r;
  r.effects = std::move(s.effects);
  r.finalImage = s.img;
  r.unsupported = std::move(s.unsupported);
  s.effects.clear();
  s.unsupported.clear();
  for (auto &f : s.fds)
    if (f.first >= 0 && f.first < kMaxFd) g_fdTracked[f.first].store(0);
  s.fds.clear();
  return r;
}

Stats stats()
{
  State &s = S();
  std::lock_guard<std::mutex> lk(s.mu);
  return s.st;
}

void materialise(const std::string &dir, const Image &img)
{
  ++t_bypass;
  if (DIR *d = ::opendir(dir.c_str()))
  {
    while (struct dirent *e = ::readdir(d))
    {
      std::string n = e->d_name;
      if (n == "." || n == "..") continue;
      ::unlink((dir + "/" + n).c_str());
    }
    ::closedir(d);
  }
  for (auto &p : img.paths)
  {
    const std::string &c = img.inodes.at(p.second);
    int fd = ::open((dir + "/" + p.first).c_str(), O_WRONLY | O_CREAT | O_TRUNC, 0666);
    if (fd < 0) continue;
    std::size_t off = 0;
    while (off < c.size())
    {
      ssize_t w = ::write(fd, c.data() + off, c.size() - off);
      if (w <= 0) break;
      off += static_cast<std::size_t>(w);
    }
    ::close(fd);
  }
  --t_bypass;
}

std::map<std::string, std::string> readDir(const std::string &dir)
{
  std::map<std::string, std::string> out;
  ++t_bypass;
  if (DIR *d = ::opendir(dir.c_str()))
  {
    while (struct dirent *e = ::readdir(d))
    {
      std::string n = e->d_name;
      if (n == "." || n == "..") continue;
      std::string content;
      int fd = ::open((dir + "/" + n).c_str(), O_RDONLY);
      if (fd >= 0)
      {
        char buf[65536];
        ssize_t r;
        while ((r = ::read(fd, buf, sizeof buf)) > 0) content.append(buf, static_cast<std::size_t>(r));
        ::close(fd);
      }
      out[n] = std::move(content);
    }
    ::closedir(d);
  }
  --t_bypass;
  return out;
}

} // namespace fstrace
