// Build-only stand-in for iora/network/dns_client.hpp, reached through `-iquote harness/c15_stub`
// by the C15 harness TUs only. Reason: clang++ 14 (the only installed clang with sanitizer and
// libFuzzer runtimes) rejects dns/dns_resolver.hpp (a lambda captures a structured binding), and
// http_client.hpp includes the DNS client although the response framer under test never resolves
// a name. The stub offers exactly the members HttpClient uses; nothing of the code under test
// (frameResponse / determineFraming / advanceChunked / parseHeaderBlock) is replaced.
#pragma once
#include <stdexcept>
#include <string>
#include <vector>

namespace iora
{
namespace network
{
class DnsClient
{
public:
  struct HostResult
  {
    std::vector<std::string> ipv4, ipv6;
  };
  void start() {}
  void stop() {}
  void setDnsServers(const std::vector<std::string> &s) { _servers = s; }
  void addDnsServer(const std::string &s) { _servers.push_back(s); }
  std::vector<std::string> getDnsServers() const { return _servers; }
  HostResult resolveHost(const std::string &) { throw std::runtime_error("DNS is not available in the C15 harness"); }

private:
  std::vector<std::string> _servers;
};
} // namespace network
} // namespace iora
