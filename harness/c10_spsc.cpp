// C10 - memory-model clause: SPSC ring buffers (and the blocking queue) under ThreadSanitizer.
//   spsc    : one producer thread and one consumer thread on RingBuffer<T,N> /
//             DynamicRingBuffer<T>; generated mix of single / batch operations and pacing;
//             oracle: the consumer sees exactly the consecutive sequence numbers 0..M-1, peek
//             agrees with the following pop, size() <= capacity when sampled by either side.
//             Under -fsanitize=thread any data-race report with a frame in ring_buffer.hpp
//             is a violation of the property's "no data race under the C++ memory model".
//   bq_conc : the concurrent BlockingQueue executor (c10_bq.hpp) without interposition.
// The same source is also built with ASan+UBSan (unit c10_spsc_asan) for the functional oracle.
#include "c10_bq.hpp"

#include <iora/core/ring_buffer.hpp>

using iora::core::DynamicRingBuffer;
using iora::core::RingBuffer;

// ThreadSanitizer prints frames as "#n func file:line (module)"; the driver's signature
// extraction expects the ASan form "#n 0xpc in func file:line". Options given in the
// TSAN_OPTIONS environment still override these defaults.
extern "C" const char *__tsan_default_options() { return "stack_trace_format='    #%n %p in %f %S'"; }

namespace c10spsc // named (not anonymous): keeps "(anonymous namespace)" out of sanitizer frame names
{

struct Big
{
  std::uint64_t seq = ~0ULL;
  std::uint64_t a = 0, b = 0, c = 0; // derived from seq: a torn item is detectable
  std::string tag;                   // heap: a stale/moved-from slot is detectable
  static Big of(std::uint64_t s)
  {
    Big x;
    x.seq = s;
    x.a = s * 3 + 1;
    x.b = ~s;
    x.c = s ^ 0x5555555555555555ULL;
    x.tag = "seq-" + std::to_string(s) + "-0123456789abcdef";
    return x;
  }
  bool okFor(std::uint64_t s) const
  {
    return seq == s && a == s * 3 + 1 && b == ~s && c == (s ^ 0x5555555555555555ULL) && tag == "seq-" + std::to_string(s) + "-0123456789abcdef";
  }
};

struct Shared
{
  std::atomic<int> go{0};
  std::atomic<bool> producerDone{false};
  std::atomic<bool> abort{false};
  std::atomic<std::uint64_t> fullSeen{0}, emptySeen{0}, maxSize{0};
  std::string consumerError; // written by the consumer before it finishes
  std::string producerError;
  std::uint64_t consumed = 0;
};

void pace(std::int64_t v)
{
  if (v < 600) return;
  if (v < 750)
    std::this_thread::yield();
  else if (v < 950)
    sched::spin(static_cast<std::uint32_t>((v * 29) % 2500));
  else
    sched::sleepUs(static_cast<std::uint32_t>((v * 7) % 120));
}

template <class Ring>
void runSpsc(Ring &ring, std::size_t cap, std::uint64_t M, const std::vector<pbt::Row> &ps, const std::vector<pbt::Row> &cs, Shared &sh)
{
  std::thread prod(
    [&]
    {
      while (sh.go.load(std::memory_order_acquire) == 0) {}
      std::uint64_t next = 0;
      std::size_t i = 0;
      std::vector<Big> batch;
      while (next < M && !sh.abort.load(std::memory_order_relaxed))
      {
        const pbt::Row &r = ps[i % ps.size()];
        ++i;
        pace(r[2]);
        int op = static_cast<int>(r[0] % 3);
        std::size_t pushed = 0;
        if (op == 0)
          pushed = ring.tryPush(static_cast<const Big &>(Big::of(next))) ? 1 : 0;
        else if (op == 1)
          pushed = ring.tryPush(Big::of(next)) ? 1 : 0;
        else
        {
          std::size_t k = static_cast<std::size_t>(r[1] % 9); // 0..8 (may exceed the capacity)
          if (k > M - next) k = static_cast<std::size_t>(M - next);
          batch.clear();
          for (std::size_t j = 0; j < k; ++j) batch.push_back(Big::of(next + j));
          pushed = ring.tryPushBatch(batch.data(), k);
          if (pushed > k)
          {
            sh.producerError = "tryPushBatch returned more than asked";
            sh.abort.store(true);
            break;
          }
          if (pushed < k) sh.fullSeen.fetch_add(1, std::memory_order_relaxed);
          // a zero-length batch is a legal edge case but makes no progress: follow it with a single push
          if (k == 0) pushed = ring.tryPush(Big::of(next)) ? 1 : 0;
        }
        if ((op != 2 || static_cast<std::size_t>(r[1] % 9) == 0) && pushed == 0) sh.fullSeen.fetch_add(1, std::memory_order_relaxed);
        next += pushed;
        std::size_t s = ring.size(); // producer side: head exact, tail possibly stale => s <= capacity
        if (s > cap)
        {
          sh.producerError = "size() = " + std::to_string(s) + " > capacity " + std::to_string(cap) + " (sampled by the producer)";
          sh.abort.store(true);
          break;
        }
        std::uint64_t mx = sh.maxSize.load(std::memory_order_relaxed);
        if (s > mx) sh.maxSize.store(s, std::memory_order_relaxed);
        if (pushed == 0) std::this_thread::yield();
      }
      sh.producerDone.store(true, std::memory_order_release);
    });
  std::thread cons(
    [&]
    {
      while (sh.go.load(std::memory_order_acquire) == 0) {}
      std::uint64_t expect = 0;
      std::size_t i = 0;
      std::vector<Big> out(9);
      auto bad = [&](const std::string &w)
      {
        sh.consumerError = w;
        sh.abort.store(true);
      };
      for (;;)
      {
        if (sh.abort.load(std::memory_order_relaxed)) break;
        const pbt::Row &r = cs[i % cs.size()];
        ++i;
        pace(r[2]);
        int op = static_cast<int>(r[0] % 4);
        // read the flag *before* the attempt: "done and then empty" means really drained
        bool doneBefore = sh.producerDone.load(std::memory_order_acquire);
        std::size_t got = 0;
        const bool zeroBatch = op >= 2 && static_cast<std::size_t>(r[1] % 9) == 0;
        if (zeroBatch)
        {
          if (ring.tryPopBatch(out.data(), 0) != 0)
          {
            bad("tryPopBatch(0) returned items");
            break;
          }
          op = 0; // a zero-length batch makes no progress: follow it with a single pop
        }
        if (op == 0 || op == 1)
        {
          Big pk;
          bool havePeek = false;
          if (op == 1) havePeek = ring.peek(pk);
          Big v;
          if (ring.tryPop(v))
          {
            got = 1;
            if (!v.okFor(expect))
            {
              bad("tryPop returned seq " + std::to_string(v.seq) + " (tag " + pbt::show(v.tag, 40) + "), expected " + std::to_string(expect));
              break;
            }
            if (havePeek && !pk.okFor(expect))
            {
              bad("peek returned seq " + std::to_string(pk.seq) + " but the following tryPop returned " + std::to_string(expect));
              break;
            }
            ++expect;
          }
          else if (havePeek)
          {
            bad("peek returned an item but the following tryPop found the ring empty");
            break;
          }
        }
        else
        {
          std::size_t k = static_cast<std::size_t>(r[1] % 9);
          got = ring.tryPopBatch(out.data(), k);
          if (got > k)
          {
            bad("tryPopBatch returned more than asked");
            break;
          }
          bool okAll = true;
          for (std::size_t j = 0; j < got; ++j)
          {
            if (!out[j].okFor(expect))
            {
              bad("tryPopBatch item " + std::to_string(j) + " has seq " + std::to_string(out[j].seq) + " (tag " + pbt::show(out[j].tag, 40) +
                  "), expected " + std::to_string(expect));
              okAll = false;
              break;
            }
            ++expect;
          }
          if (!okAll) break;
        }
        std::size_t s = ring.size(); // consumer side: tail exact, head possibly stale => s <= capacity
        if (s > cap)
        {
          bad("size() = " + std::to_string(s) + " > capacity " + std::to_string(cap) + " (sampled by the consumer)");
          break;
        }
        if (got == 0)
        {
          sh.emptySeen.fetch_add(1, std::memory_order_relaxed);
          if (doneBefore) break; // producer finished before this attempt and the ring is empty
          std::this_thread::yield();
        }
        if (expect > M)
        {
          bad("more items than were pushed");
          break;
        }
      }
      sh.consumed = expect;
    });
  sh.go.store(1, std::memory_order_release);
  prod.join();
  cons.join();
}

void spsc(pbt::Src &src, pbt::Case &c)
{
  pbt::watchdog(120, "C10/ring/spsc-stalled");
  const int which = static_cast<int>(src.weighted({2, 2, 2, 2, 1, 3, 1})); // static 1,2,4,8,64 | dynamic small | dynamic 64
  const std::uint64_t M = static_cast<std::uint64_t>(src.sized(1, 3000));
  auto ps = src.rows(24, 3, 0, 999);
  auto cs = src.rows(24, 3, 0, 999);
  if (ps.empty()) ps.push_back(pbt::Row{0, 0, 0});
  if (cs.empty()) cs.push_back(pbt::Row{0, 0, 0});
  Shared sh;
  std::size_t cap = 0;
  pbt::Fmt d;
  switch (which)
  {
  case 0: { cap = 1; auto r = std::make_unique<RingBuffer<Big, 1>>(); d << "RingBuffer<Big,1>"; c.describe(d.str()); runSpsc(*r, cap, M, ps, cs, sh); break; }
  case 1: { cap = 2; auto r = std::make_unique<RingBuffer<Big, 2>>(); d << "RingBuffer<Big,2>"; c.describe(d.str()); runSpsc(*r, cap, M, ps, cs, sh); break; }
  case 2: { cap = 4; auto r = std::make_unique<RingBuffer<Big, 4>>(); d << "RingBuffer<Big,4>"; c.describe(d.str()); runSpsc(*r, cap, M, ps, cs, sh); break; }
  case 3: { cap = 8; auto r = std::make_unique<RingBuffer<Big, 8>>(); d << "RingBuffer<Big,8>"; c.describe(d.str()); runSpsc(*r, cap, M, ps, cs, sh); break; }
  case 4: { cap = 64; auto r = std::make_unique<RingBuffer<Big, 64>>(); d << "RingBuffer<Big,64>"; c.describe(d.str()); runSpsc(*r, cap, M, ps, cs, sh); break; }
  default:
  {
    std::size_t req = which == 5 ? static_cast<std::size_t>(src.range(1, 8)) : 64;
    cap = 1;
    while (cap < req) cap <<= 1;
    DynamicRingBuffer<Big> r(req);
    d << "DynamicRingBuffer<Big>(" << req << ")";
    c.describe(d.str());
    runSpsc(r, cap, M, ps, cs, sh);
  }
  }
  d << " M=" << M << " producer:";
  for (auto &r : ps) d << " " << (r[0] % 3 == 0 ? "push" : r[0] % 3 == 1 ? "push&&" : "pushBatch" + std::to_string(r[1] % 9)) << (r[2] >= 600 ? "~" : "");
  d << " consumer:";
  for (auto &r : cs)
    d << " " << (r[0] % 4 == 0 ? std::string("pop") : r[0] % 4 == 1 ? std::string("peek+pop") : "popBatch" + std::to_string(r[1] % 9))
      << (r[2] >= 600 ? "~" : "");
  c.describe(d.str());
  if (!sh.producerError.empty())
  {
    c.fail("C10/ring/spsc-producer", sh.producerError);
    return;
  }
  if (!sh.consumerError.empty())
  {
    c.fail("C10/ring/spsc-sequence", sh.consumerError);
    return;
  }
  if (sh.consumed != M)
  {
    c.fail("C10/ring/spsc-lost-item", pbt::Fmt() << "producer pushed " << M << " items and finished, the consumer drained the ring and got "
                                                 << sh.consumed);
    return;
  }
  if (sh.fullSeen.load()) c.label("ring was full at least once (slot reuse under contention)");
  if (sh.emptySeen.load()) c.label("ring was empty at least once");
  if (M > cap) c.label("wrap-around");
  c.label(which <= 4 ? "RingBuffer<T,N>" : "DynamicRingBuffer<T>");
  if (sh.fullSeen.load() && M > cap) c.nontrivial(pbt::hash64(d.str()));
}

// Fixed case for finding C10-2 (producer read the consumer index relaxed): capacity 1, every push
// re-uses the slot the consumer has just read. Decided by ThreadSanitizer (unit c10_tsan).
void slotReuse(pbt::Case &c, bool dynamic)
{
  pbt::watchdog(120, "C10/ring/spsc-stalled");
  Shared sh;
  std::vector<pbt::Row> ps{{0, 0, 0}, {1, 0, 0}, {2, 3, 0}}, cs{{0, 0, 0}, {1, 0, 0}, {2, 2, 0}};
  const std::uint64_t M = 4000;
  c.describe(std::string(dynamic ? "DynamicRingBuffer<Big>(1)" : "RingBuffer<Big,1>") + ", 4000 items, push/push&&/pushBatch3 vs pop/peek+pop/popBatch2");
  if (dynamic)
  {
    DynamicRingBuffer<Big> r(1);
    runSpsc(r, 1, M, ps, cs, sh);
  }
  else
  {
    auto r = std::make_unique<RingBuffer<Big, 1>>();
    runSpsc(*r, 1, M, ps, cs, sh);
  }
  if (!sh.producerError.empty()) c.fail("C10/ring/spsc-producer", sh.producerError);
  else if (!sh.consumerError.empty()) c.fail("C10/ring/spsc-sequence", sh.consumerError);
  else if (sh.consumed != M) c.fail("C10/ring/spsc-lost-item", "consumer got " + std::to_string(sh.consumed) + " of 4000 items");
}

} // namespace c10spsc
using namespace c10spsc;

PBT_REGRESSION(spsc_slot_reuse_static) { slotReuse(c, false); }
PBT_REGRESSION(spsc_slot_reuse_dynamic) { slotReuse(c, true); }

PBT_PROPERTY(spsc) { spsc(src, c); }
PBT_PROPERTY(bq_conc) { c10::bqConc(src, c, true); }
PBT_PROPERTY(bq_wake) { c10::bqWake(src, c, true); }

PBT_MAIN()
