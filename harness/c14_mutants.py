#!/usr/bin/env python3
"""C14 sensitivity rig (developer tool, not run by ./check): applies one mutation at a time to a scratch
copy of iora's xml.hpp (default /tmp/wk_C14m/include, never /repo), builds harness/c14_xml.cpp against it,
runs every fixed regression and 3000 cases (600 for `prefixes`) of every property with seed 1 and reports who
catches the mutant and how fast. Results are tabulated in props/C14.notes.md.

  python3 harness/c14_mutants.py            # all mutants
  python3 harness/c14_mutants.py M01 M22    # selected ones
Needs build/pbt_rc-asan-*.o (any ./check run creates it)."""
import glob, json, os, shutil, subprocess, sys, time
W = os.environ.get("C14_MUT_DIR", "/tmp/wk_C14m")
ROOT = os.path.dirname(os.path.dirname(os.path.abspath(__file__)))
ASAN = ("detect_leaks=0:abort_on_error=0:handle_abort=0:quarantine_size_mb=32:thread_local_quarantine_size_kb=1024:"
        "malloc_context_size=12")


def build(inc, exe):
    rt = sorted(glob.glob(os.path.join(ROOT, "build", "pbt_rc-asan-*.o")))[0]
    cmd = ["clang++", "-std=gnu++17", "-g", "-O1", "-fno-omit-frame-pointer", "-DJOEGEN_IORA_VERIF", "-I" + inc,
           "-I" + os.path.join(ROOT, "harness", "common"), "-Wno-deprecated-declarations", "-fsanitize=address,undefined",
           "-fno-sanitize-recover=undefined", os.path.join(ROOT, "harness", "c14_xml.cpp"), rt, "-lrapidcheck", "-lssl",
           "-lcrypto", "-pthread", "-ldl", "-o", exe]
    return subprocess.run(cmd, capture_output=True, text=True)

MUTS = [
 ("M01 skip end-tag name comparison", "if (_elementStack.back() != name)", "if (false && _elementStack.back() != name)"),
 ("M02 depth limit off by one", "if (_depth + 1 > _opt.maxDepth)", "if (_depth > _opt.maxDepth)"),
 ("M03 &lt; decodes to >", "if (ent == \"lt\")\n        out.push_back('<');", "if (ent == \"lt\")\n        out.push_back('>');"),
 ("M04 no eof check after '<'", "      if (eof())\n      {\n        return fail(\"unexpected end after '<'\");\n      }", ""),
 ("M05 matchString bound off by one", "if (_cur + i >= _input.size())\n      {\n        return false;\n      }\n      if (_input[_cur + i] != s[i])", "if (_cur + i > _input.size())\n      {\n        return false;\n      }\n      if (_input[_cur + i] != s[i])"),
 ("M06 attr limit allows one more", "if (attrs.size() > _opt.maxAttrsPerElement)", "if (attrs.size() > _opt.maxAttrsPerElement + 1)"),
 ("M07 text limit allows one more", "if ((_cur - start) >= _opt.maxTextSpan)", "if ((_cur - start) > _opt.maxTextSpan)"),
 ("M08 attr value limit dropped", "if (out.size() > _opt.maxTextSpan)", "if (false && out.size() > _opt.maxTextSpan)"),
 ("M09 token limit allows two more", "_producedTokens >= _opt.maxTotalTokens)", "_producedTokens > _opt.maxTotalTokens + 1)"),
 ("M10 2-byte UTF-8 lead byte mask", "0xC0u | ((cp >> 6) & 0x1Fu)", "0xC0u | ((cp >> 6) & 0x0Fu)"),
 ("M11 upper-case hex digit value", "v = static_cast<uint32_t>(c - 'A' + 10);", "v = static_cast<uint32_t>(c - 'A');"),
 ("M12 DOM start-element attrs not decoded", "elem->attributes.push_back(Node::Attr{std::string(a.name), std::move(v)});\n        }\n        Node *parent = stack.back();\n        Node *raw = elem.get();", "elem->attributes.push_back(Node::Attr{std::string(a.name), std::string(a.value)});\n        }\n        Node *parent = stack.back();\n        Node *raw = elem.get();"),
 ("M13 SAX CDATA through comment callback", "if (cb.onCData)\n      {\n        cb.onCData(t);", "if (cb.onComment)\n      {\n        cb.onComment(t);"),
 ("M14 empty element leaves depth raised", "      // Depth returns to previous because it's empty\n      --_depth;", ""),
 ("M15 no white space allowed in end tag", "    skipSpaces();\n    if (eof() || peek() != '>')\n    {\n      return fail(\"expected '>' after end tag name\");", "    if (eof() || peek() != '>')\n    {\n      return fail(\"expected '>' after end tag name\");"),
 ("M16 comment/CDATA slice one byte long", "lenOut = pos - _cur;", "lenOut = pos - _cur + 1;"),
 ("M17 attr value includes closing quote", "out = _input.substr(start, end - start);", "out = _input.substr(start, end - start + 1);"),
 ("M18 PI end searched one byte late", "std::size_t pos = _input.find(\"?>\", _cur);", "std::size_t pos = _input.find(\"?>\", _cur + 1);"),
 ("M19 decodeEntities passes unknown entities through", "        return false; // external entities unsupported by design", "        out.append(\"XXEMARKERxq7\"); // mutated: 'expands'"),
 ("M20 unclosed elements accepted at EOF", "if (!_elementStack.empty())\n    {\n      std::string unclosed", "if (false && !_elementStack.empty())\n    {\n      std::string unclosed"),
 ("M21 end-element depth one too low", "_token.depth = _depth + 1; // depth at this token", "_token.depth = _depth; // depth at this token"),
 ("M22 no '>' check after '/' (over-read)", "    if (eof() || peek() != '>')\n    {\n      return fail(\"expected '>' to end start tag\");\n    }\n    advance();", "    if (!eof() && peek() != '>')\n    {\n      return fail(\"expected '>' to end start tag\");\n    }\n    advance();"),
 ("M23 name limit allows one more", "if (len > _opt.maxNameLength)", "if (len > _opt.maxNameLength + 1)"),
 ("M24 DOM end element does not pop", "        Node *closed = stack.back();\n        (void)closed;\n        stack.pop_back();", "        Node *closed = stack.back();\n        (void)closed;\n        if (stack.size() > 2) stack.pop_back();"),
 ("M25 DOM text not decoded", "n->type = NodeType::Text;\n          n->value = std::move(v);", "n->type = NodeType::Text;\n          n->value = std::string(t.text);"),
 ("M26 end tag offset = cursor", "    _token.kind = TokenKind::EndElement;\n    _token.name = name;\n    _token.depth = _depth + 1; // depth at this token corresponds to the element being closed\n    _token.offset = startOffset;", "    _token.kind = TokenKind::EndElement;\n    _token.name = name;\n    _token.depth = _depth + 1; // depth at this token corresponds to the element being closed\n    _token.offset = _cur;"),
 ("M27 end-tag match compares lengths only", "if (_elementStack.back() != name)", "if (_elementStack.back().size() != name.size())"),
 ("M28 end-tag match ignores prefix", "if (_elementStack.back() != name)", "if (_elementStack.back().substr(_elementStack.back().find(':') + 1) != name.substr(name.find(':') + 1))"),
 ("M29 CDATA end searched as ']>'", "if (!readUntil(\"]]>\", start, len))", "if (!readUntil(\"]>\", start, len))"),
 ("M30 doctype ignores ']'", "        if (bracket > 0)\n        {\n          --bracket;\n        }", ""),
 ("M31 &apos; decodes to quot", "else if (ent == \"apos\")\n        out.push_back('\\'');", "else if (ent == \"apos\")\n        out.push_back('\"');"),
 ("M32 decimal char ref parsed from wrong index", "for (std::size_t i = 1; i < entBody.size(); ++i)\n      {\n        char c = entBody[i];\n        if (c < '0' || c > '9')", "for (std::size_t i = 2; i < entBody.size(); ++i)\n      {\n        char c = entBody[i];\n        if (c < '0' || c > '9')"),
 ("M33 4-byte UTF-8 boundary", "else if (cp <= 0xFFFFu)\n    {\n      // Exclude", "else if (cp <= 0x1FFFFu)\n    {\n      // Exclude"),
 ("M34 readName reads past end (no eof in loop)", "while (!eof() && isNameChar(peek()))", "while (isNameChar(peek()))"),
 ("M35 quoted value scan ignores eof", "while (!eof() && peek() != quote)", "while (peek() != quote)"),
 ("M36 empty element pushed on stack", "      // Don't push to stack since it's self-closing\n      return produced();", "      _elementStack.push_back(std::string(name));\n      return produced();"),
 ("M37 text keeps going through '<' when followed by space", "while (!eof() && peek() != '<')\n    {\n      // Limit", "while (!eof() && (peek() != '<' || (_cur + 1 < _input.size() && _input[_cur + 1] == ' ')))\n    {\n      // Limit"),
 ("M38 token limit ignored once depth>2", "if (_opt.maxTotalTokens != 0 && _producedTokens >= _opt.maxTotalTokens)", "if (_opt.maxTotalTokens != 0 && _depth <= 2 && _producedTokens >= _opt.maxTotalTokens)"),
 ("M39 SAX skips end-element when no start callback", "if (cb.onEndElement)\n      {", "if (cb.onEndElement && cb.onStartElement)\n      {"),
 ("M40 depth limit checked after emitting (accepts deeper empty leaf)", "    if (_depth + 1 > _opt.maxDepth)\n    {\n      return fail(\"maximum element depth exceeded\");\n    }", "    if (!empty && _depth + 1 > _opt.maxDepth)\n    {\n      return fail(\"maximum element depth exceeded\");\n    }"),
 ("M41 name limit skipped for prefixed names", "if (len > _opt.maxNameLength)", "if (len > _opt.maxNameLength && _input.substr(start, len).find(':') == std::string_view::npos)"),
 ("M42 DOM empty-element attrs not decoded", "elem->attributes.push_back(Node::Attr{std::string(a.name), std::move(v)});\n        }\n        Node *parent = stack.back();\n        parent->children.push_back(std::move(elem));\n        break;", "elem->attributes.push_back(Node::Attr{std::string(a.name), std::string(a.value)});\n        }\n        Node *parent = stack.back();\n        parent->children.push_back(std::move(elem));\n        break;"),
 ("M43 3-byte UTF-8 lead bits", "0xE0u | ((cp >> 12) & 0x0Fu)", "0xE0u | ((cp >> 12) & 0x07u)"),
 ("M44 single-quoted attribute values refused", "if (quote != '\"' && quote != '\\'')", "if (quote != '\"')"),
 ("M45 no white space allowed before '='", "      skipSpaces();\n      if (eof() || peek() != '=')", "      if (eof() || peek() != '=')"),
 ("M46 end-tag name slice points into parser-owned storage", "    _token.kind = TokenKind::EndElement;\n    _token.name = name;", "    _token.kind = TokenKind::EndElement;\n    static thread_local std::string scratch; scratch = std::string(name);\n    _token.name = scratch;"),
 ("M47 readUntil bound off by one (over-read)", "      if (pos >= _input.size())\n      {\n        return false;\n      }\n      if (_input.compare(pos, endSeq.size(), endSeq) == 0)", "      if (pos > _input.size())\n      {\n        return false;\n      }\n      if (_input.compare(pos, endSeq.size(), endSeq) == 0)"),
 ("M48 DOCTYPE word match bound off by one", "      if (pos + i >= _input.size())\n      {\n        return false;\n      }\n      char a = _input[pos + i];", "      if (pos + i > _input.size())\n      {\n        return false;\n      }\n      char a = _input[pos + i];"),
 ("M49 unterminated doctype not detected", "    if (pos >= _input.size())\n    {\n      return fail(\"unterminated doctype\");\n    }", ""),
 ("M50 DOM drops comments outside the root", "        n->type = NodeType::Comment;\n        n->value = std::string(t.text);\n        stack.back()->children.push_back(std::move(n));", "        n->type = NodeType::Comment;\n        n->value = std::string(t.text);\n        if (stack.size() > 1) stack.back()->children.push_back(std::move(n));"),
 ("M51 char refs above U+FFFF refused", "else if (cp <= 0x10FFFFu)", "else if (cp <= 0xFFFFFu)"),
 ("M52 leading zeros in hex refs break", "code = (code << 4) | v;", "code = (i == 2 && v == 0) ? 1u : ((code << 4) | v);"),
 ("M53 text limit counts from token 2 on only", "if ((_cur - start) >= _opt.maxTextSpan)", "if (_producedTokens > 1 && (_cur - start) >= _opt.maxTextSpan)"),
 ("M54 mismatch tolerated at depth 1 (root)", "if (_elementStack.back() != name)", "if (_elementStack.size() > 1 && _elementStack.back() != name)"),
 ("M55 stray end tag after root accepted", "    if (_elementStack.empty())\n    {\n      return fail(\"end tag without matching start tag\");\n    }", "    if (_elementStack.empty())\n    {\n      _token = Token{}; _token.kind = TokenKind::EndElement; _token.name = name; _token.depth = 1; _token.offset = startOffset; return produced();\n    }"),
]
def main():
    only = sys.argv[1:]
    src = open("/repo/include/iora/parsers/xml.hpp").read()
    inc = os.path.join(W, "include")
    os.makedirs(W, exist_ok=True)
    if not os.path.isdir(inc):
        shutil.copytree("/repo/include", inc)
    results = []
    for name, old, new in MUTS:
        mid = name.split()[0]
        if only and mid not in only:
            continue
        if src.count(old) != 1:
            print("%s: pattern occurs %d times - SKIPPED" % (name, src.count(old))); continue
        open(os.path.join(inc, "iora/parsers/xml.hpp"), "w").write(src.replace(old, new))
        exe = os.path.join(W, "c14_xml_" + mid)
        t0 = time.time()
        p = build(inc, exe)
        if p.returncode != 0:
            print("%s: BUILD FAILED\n%s" % (name, p.stderr[-800:])); continue
        caught = []
        env = dict(os.environ, ASAN_OPTIONS=ASAN, UBSAN_OPTIONS="print_stacktrace=1:halt_on_error=1")
        regs = [l.split()[1] for l in subprocess.run([exe, "--list"], capture_output=True, text=True).stdout.splitlines() if l.startswith("regress")]
        for r in regs:
            out = os.path.join(W, "o.json")
            if os.path.exists(out): os.remove(out)
            q = subprocess.run([exe, "--regress", r, "--out", out], capture_output=True, text=True, env=env)
            d = json.load(open(out)) if os.path.exists(out) else {}
            f = d.get("failure")
            if f or q.returncode != 0:
                sig = f["sig"] if f else "rc=%d" % q.returncode
                if sig in ("sanitizer", "abort", "signal"):
                    import re
                    m = re.search(r"ERROR: AddressSanitizer: ([\w-]+)", q.stderr) or re.search(r"runtime error: (.{0,60})", q.stderr)
                    sig += ":" + (m.group(1) if m else "?")
                caught.append("regress:%s [%s]" % (r, sig))
        for prop in ("construct", "limits", "mutate", "prefixes"):
            out = os.path.join(W, "o.json")
            if os.path.exists(out): os.remove(out)
            t1 = time.time()
            q = subprocess.run([exe, "--prop", prop, "--seed", "1", "--cases", "3000" if prop != "prefixes" else "600", "--out", out, "--shrink-seconds", "5"], capture_output=True, text=True, env=env)
            d = json.load(open(out)) if os.path.exists(out) else {}
            f = d.get("failure")
            if f or q.returncode != 0:
                sig = f["sig"] if f else "rc=%d" % q.returncode
                if sig in ("sanitizer", "abort", "signal"):
                    import re
                    m = re.search(r"ERROR: AddressSanitizer: ([\w-]+)", q.stderr) or re.search(r"runtime error: (.{0,60})", q.stderr)
                    sig += ":" + (m.group(1) if m else "?")
                caught.append("%s after %d cases/%.1fs [%s]" % (prop, d.get("evaluations", -1), time.time() - t1, sig))
        print("%s: %s" % (name, "; ".join(caught) if caught else "*** MISSED ***"), flush=True)
        os.remove(exe)
    shutil.copy("/repo/include/iora/parsers/xml.hpp", os.path.join(inc, "iora/parsers/xml.hpp"))
main()
