// C13 - JSON texts and values round-trip and agree with RFC 8259.
//   construct : value tree -> rendered text (all escape / number / whitespace forms)
//               -> Json::parse -> must equal the generating tree (construction oracle)
//   roundtrip : Json value -> dump()/dump(2)/sorted -> own strict RFC 8259 validator
//               -> parse -> == original
//   mutate    : rendered text with byte-level mutations -> parse terminates, error
//               offset inside the input, accepted texts round-trip
//   limits    : nesting/size around each configured limit: strictly inside => accepted
#include "pbt.hpp"
#include "ref_json.hpp"

#include <iora/parsers/json.hpp>

#include <algorithm>
#include <cmath>
#include <cstring>
#include <memory>

using iora::parsers::Json;
using iora::parsers::ParseLimits;
using refjson::V;

namespace
{

// ---- comparison of iora's Json with the reference tree -------------------------
bool equalJV(const Json &j, const V &v, std::string &why, const std::string &path)
{
  switch (v.k)
  {
  case V::Null:
    if (!j.isNull()) { why = path + ": expected null"; return false; }
    return true;
  case V::Bool:
    if (!j.isBool() || j.getBool() != v.b) { why = path + ": expected bool " + (v.b ? "true" : "false"); return false; }
    return true;
  case V::Int:
    if (!j.isInt() || j.getInt() != v.i) { why = path + ": expected int " + std::to_string(v.i) + " got " + j.dump(); return false; }
    return true;
  case V::Dbl:
  {
    if (!j.isDouble()) { why = path + ": expected a double, got " + j.dump(); return false; }
    double d = j.getDouble();
    if (!(d == v.d)) { char b[96]; std::snprintf(b, sizeof b, ": expected double %.17g got %.17g", v.d, d); why = path + b; return false; }
    return true;
  }
  case V::Str:
    if (!j.isString() || j.getString() != v.s)
    {
      why = path + ": expected string " + pbt::show(v.s, 80) + " got " + (j.isString() ? pbt::show(j.getString(), 80) : j.dump());
      return false;
    }
    return true;
  case V::Arr:
  {
    if (!j.isArray()) { why = path + ": expected array"; return false; }
    const auto &a = j.getArray();
    if (a.size() != v.a.size()) { why = path + ": array size " + std::to_string(a.size()) + " != " + std::to_string(v.a.size()); return false; }
    for (std::size_t i = 0; i < a.size(); ++i)
      if (!equalJV(a[i], v.a[i], why, path + "[" + std::to_string(i) + "]")) return false;
    return true;
  }
  case V::Obj:
  {
    if (!j.isObject()) { why = path + ": expected object"; return false; }
    // duplicate keys: last wins
    std::map<std::string, const V *> m;
    for (auto &kv : v.o) m[kv.first] = &kv.second;
    const auto &o = j.getObject();
    if (o.size() != m.size()) { why = path + ": object size " + std::to_string(o.size()) + " != " + std::to_string(m.size()); return false; }
    for (auto &kv : m)
    {
      auto it = o.find(kv.first);
      if (it == o.end()) { why = path + ": missing key " + pbt::show(kv.first, 60); return false; }
      if (!equalJV(it->second, *kv.second, why, path + "." + pbt::show(kv.first, 30))) return false;
    }
    return true;
  }
  }
  return false;
}

Json toJson(const V &v)
{
  switch (v.k)
  {
  case V::Null: return Json();
  case V::Bool: return Json(v.b);
  case V::Int: return Json(v.i);
  case V::Dbl: return Json(v.d);
  case V::Str: return Json(v.s);
  case V::Arr:
  {
    Json::Array a;
    for (auto &x : v.a) a.push_back(toJson(x));
    return Json(std::move(a));
  }
  case V::Obj:
  {
    Json::Object o;
    for (auto &kv : v.o) o[kv.first] = toJson(kv.second);
    return Json(std::move(o));
  }
  }
  return Json();
}

// exact-size heap copy so that ASan sees any read past the end of the text
struct ExactBuf
{
  std::unique_ptr<char[]> p;
  std::size_t n;
  explicit ExactBuf(const std::string &s) : p(new char[s.size() ? s.size() : 1]), n(s.size())
  {
    std::memcpy(p.get(), s.data(), s.size());
  }
  std::string_view view() const { return std::string_view(p.get(), n); }
};

std::string featureSig(const refjson::Features &f, const V &)
{
  // which generated feature most plausibly explains a mismatch (for signatures)
  if (f.unicodeEscapes) return "unicode-escape";
  if (f.nonIntegerNumbers) return "number";
  return "other";
}

} // namespace

// -------------------------------------------------------------------- construct
PBT_PROPERTY(construct)
{
  refjson::GenOpts go;
  go.maxDepth = 5;
  go.maxWidth = 5;
  // known-finding exclusions by construction (counted through labels)
  go.allowUnicodeEscapes = !pbt::isKnown("C13/construct/unicode-escape");
  go.allowControlChars = go.allowUnicodeEscapes; // U+0001 can only be written as \u0001
  V v = refjson::genValue(src, go, 0);
  refjson::Features feat;
  std::string text = refjson::render(src, v, feat, go);
  c.describe(text);
  if (feat.escapes) c.label("has escape");
  if (feat.unicodeEscapes) c.label("has \\u escape");
  if (feat.surrogatePairs) c.label("has surrogate pair");
  if (feat.nonIntegerNumbers) c.label("has non-integer number");
  if (feat.bigIntegers) c.label("integer beyond int64");
  if (feat.maxDepth >= 2) c.label("nesting>=2");
  if (feat.duplicateKeys) c.label("duplicate keys");
  if (feat.nonAscii) c.label("raw non-ASCII UTF-8");
  if (feat.escapes || feat.nonIntegerNumbers || feat.maxDepth >= 2) c.nontrivial(pbt::hash64(text));

  ExactBuf buf(text);
  auto r = Json::parse(buf.view(), ParseLimits{});
  if (!r.ok)
  {
    c.fail("C13/construct/rejected-valid", "valid text rejected: " + r.error.message + " at offset " + std::to_string(r.error.where.offset));
    return;
  }
  std::string why;
  if (!equalJV(r.value, v, why, "$"))
  {
    c.fail("C13/construct/" + featureSig(feat, v), why);
    return;
  }
}

// -------------------------------------------------------------------- roundtrip
PBT_PROPERTY(roundtrip)
{
  refjson::GenOpts go;
  go.maxDepth = 5;
  go.maxWidth = 5;
  go.uniqueKeys = true;
  go.allowControlChars = !pbt::isKnown("C13/roundtrip/control-char");
  go.allowFractions = !pbt::isKnown("C13/roundtrip/double");
  V v = refjson::genValue(src, go, 0);
  Json j = toJson(v);
  int variant = (int)src.range(0, 4);
  std::string text;
  switch (variant)
  {
  case 0: text = j.dump(); break;
  case 1: text = j.dump(2); break;
  case 2: text = j.dump(-1, ' ', false, true); break;
  case 3: text = j.dump(1, '\t', false, true); break;
  default:
  {
    iora::parsers::SerializeOptions o;
    o.pretty = src.coin();
    o.sortKeys = src.coin();
    o.indent = std::string((std::size_t)src.range(0, 4), ' ');
    text = j.serialize(o);
  }
  }
  refjson::Features feat;
  refjson::scanFeatures(v, feat, 0);
  c.describe(pbt::Fmt() << "variant=" << variant << " text=" << text);
  if (feat.nonIntegerNumbers) c.label("has double");
  if (feat.controlChars) c.label("has control char");
  if (feat.nonAscii) c.label("has non-ASCII");
  if (feat.maxDepth >= 2) c.label("nesting>=2");
  if (feat.nonIntegerNumbers || feat.controlChars || feat.specialChars || feat.maxDepth >= 2)
    c.nontrivial(pbt::hash64(text));

  std::string verr;
  if (!refjson::validate(text, verr))
  {
    c.fail("C13/roundtrip/invalid-output", "dump produced text that is not RFC 8259: " + verr);
    return;
  }
  ExactBuf buf(text);
  auto r = Json::parse(buf.view(), ParseLimits{});
  if (!r.ok)
  {
    c.fail("C13/roundtrip/reparse-failed", "own output rejected: " + r.error.message);
    return;
  }
  if (!(r.value == j))
  {
    std::string why;
    equalJV(r.value, v, why, "$");
    std::string sig = "C13/roundtrip/other";
    if (why.find("double") != std::string::npos) sig = "C13/roundtrip/double";
    else if (feat.controlChars && why.find("string") != std::string::npos) sig = "C13/roundtrip/control-char";
    c.fail(sig, "parse(dump(v)) != v: " + why);
    return;
  }
  // sorted output really is sorted and order-independent of insertion
  if (variant == 2 || variant == 3)
  {
    std::string again = r.value.dump(variant == 2 ? -1 : 1, variant == 2 ? ' ' : '\t', false, true);
    if (again != text) c.fail("C13/roundtrip/sorted-unstable", "sorted dump differs after reparse");
  }
}

// ----------------------------------------------------------------------- mutate
PBT_PROPERTY(mutate)
{
  refjson::GenOpts go;
  go.maxDepth = 4;
  go.maxWidth = 4;
  V v = refjson::genValue(src, go, 0);
  refjson::Features feat;
  std::string text = refjson::render(src, v, feat, go);
  // byte-level mutations: delete / insert / replace / truncate / duplicate
  auto muts = src.rows(6, 3, 0, 1 << 16);
  for (auto &m : muts)
  {
    if (text.empty()) break;
    std::size_t pos = (std::size_t)m[1] % text.size();
    static const char interesting[] = "\"\\{}[],:-+.eE0u/ \n\t\x00\x7f\x80\xff\xc0tfn9";
    char ch = interesting[(std::size_t)m[2] % (sizeof(interesting) - 1)];
    switch (m[0] % 5)
    {
    case 0: text.erase(pos, 1); break;
    case 1: text.insert(pos, 1, ch); break;
    case 2: text[pos] = ch; break;
    case 3: text.resize(pos); break;
    default: text.insert(pos, text.substr(pos, (std::size_t)m[2] % 8)); break;
    }
  }
  ParseLimits lim;
  if (src.coin(1, 3))
  {
    lim.depthMax = (std::size_t)src.range(0, 6);
    lim.arrayItemsMax = (std::size_t)src.range(0, 6);
    lim.membersMax = (std::size_t)src.range(0, 6);
    lim.stringLengthMax = (std::size_t)src.range(0, 12);
  }
  c.describe(pbt::Fmt() << "limits{d=" << lim.depthMax << ",a=" << lim.arrayItemsMax << ",m=" << lim.membersMax
                        << ",s=" << lim.stringLengthMax << "} text=" << pbt::show(text, 600));
  ExactBuf buf(text);
  auto r = Json::parse(buf.view(), lim);
  std::string verr;
  bool valid = refjson::validate(text, verr);
  if (!muts.empty()) c.nontrivial(pbt::hash64(text));
  c.label(r.ok ? "accepted" : "rejected");
  c.label(valid ? "rfc-valid" : "rfc-invalid");
  if (!r.ok)
  {
    if (r.error.where.offset > text.size())
      c.fail("C13/mutate/error-offset-outside", pbt::Fmt() << "error offset " << r.error.where.offset << " > input size " << text.size());
    return;
  }
  // accepted: value must survive its own round trip (whatever it is)
  if (pbt::isKnown("C13/roundtrip/double") || pbt::isKnown("C13/roundtrip/control-char")) return;
  std::string d = r.value.dump();
  auto r2 = Json::parse(std::string_view(d), ParseLimits{});
  if (!r2.ok || !(r2.value == r.value))
  {
    // NaN/Inf cannot arise from JSON text; any mismatch here is a real round-trip loss
    bool finite = true;
    std::function<void(const Json &)> scan = [&](const Json &x)
    {
      if (x.isDouble() && !std::isfinite(x.getDouble())) finite = false;
      if (x.isArray()) for (auto &e : x.getArray()) scan(e);
      if (x.isObject()) for (auto &e : x.getObject()) scan(e.second);
    };
    scan(r.value);
    if (finite) c.fail("C13/mutate/accepted-value-roundtrip", "accepted value does not round-trip: " + pbt::show(d, 200));
    else c.label("overflowed to inf (1e999)");
  }
}


// ----------------------------------------------------------------------- stream
// JsonStreamParser: the same RFC 8259-valid text fed in arbitrary chunks (every cut
// position is reachable, including inside literals, numbers and \uXXXX escapes) must end
// in finish() == true with the value the generating tree describes.
PBT_PROPERTY(stream)
{
  refjson::GenOpts go;
  go.maxDepth = 3;
  go.maxWidth = 4;
  V v = refjson::genValue(src, go, 0);
  refjson::Features feat;
  std::string text = refjson::render(src, v, feat, go);
  // chunking: byte-by-byte, one cut, or several generated cuts
  std::vector<std::size_t> cuts;
  int mode = (int)src.range(0, 2);
  if (mode == 0) for (std::size_t i = 1; i < text.size(); ++i) cuts.push_back(i);
  else if (mode == 1) { if (text.size() > 1) cuts.push_back((std::size_t)src.range(1, (std::int64_t)text.size() - 1)); }
  else
  {
    auto rows = src.rows(6, 1, 0, 1 << 20);
    for (auto &r : rows) if (text.size() > 1) cuts.push_back(1 + (std::size_t)r[0] % (text.size() - 1));
    std::sort(cuts.begin(), cuts.end());
    cuts.erase(std::unique(cuts.begin(), cuts.end()), cuts.end());
  }
  c.describe(pbt::Fmt() << "mode=" << mode << " cuts=" << cuts.size() << " text=" << pbt::show(text, 400));
  if (!cuts.empty() && (feat.escapes || feat.nonIntegerNumbers || feat.maxDepth >= 1 || text.find_first_of("tfn") != std::string::npos))
    c.nontrivial(pbt::hashMix(pbt::hash64(text), cuts.size() * 31 + (cuts.empty() ? 0 : cuts[0])));
  if (feat.unicodeEscapes) c.label("stream: has \\u escape");
  iora::parsers::JsonStreamParser sp;
  std::size_t prev = 0;
  for (std::size_t cut : cuts)
  {
    sp.feed(std::string_view(text).substr(prev, cut - prev));
    prev = cut;
  }
  sp.feed(std::string_view(text).substr(prev));
  if (!sp.finish())
  {
    c.fail("C13/stream/valid-text-rejected", pbt::Fmt() << "finish() false after feeding a valid text in " << cuts.size() + 1 << " chunks: " << sp.error().message);
    return;
  }
  std::string why;
  if (!equalJV(sp.value(), v, why, "$")) c.fail("C13/stream/value-differs", why);
}

// ----------------------------------------------------------------------- limits
PBT_PROPERTY(limits)
{
  // nesting of depth d under depthMax L; arrays of n items under arrayItemsMax A;
  // objects of m members under membersMax M; strings of s bytes under stringLengthMax S.
  // only the probed limit is small; the others stay at their defaults so that they
  // cannot interfere (keys like "k12" would otherwise trip stringLengthMax)
  ParseLimits lim;
  int which = (int)src.range(0, 4); // 4 = string limit probed with an escaped spelling
  std::size_t L = (std::size_t)src.range(1, 40);
  (which == 0 ? lim.depthMax : which == 1 ? lim.arrayItemsMax : which == 2 ? lim.membersMax : lim.stringLengthMax) = L;
  std::size_t n = (std::size_t)src.range(0, (std::int64_t)L * 2 + 3);
  std::string text;
  bool obj = src.coin();
  switch (which)
  {
  case 0: // n nested containers around a scalar
    for (std::size_t i = 0; i < n; ++i) text += obj ? "{\"k\":" : "[";
    text += "1";
    for (std::size_t i = 0; i < n; ++i) text += obj ? "}" : "]";
    break;
  case 1:
    text = "[";
    for (std::size_t i = 0; i < n; ++i) text += (i ? "," : "") + std::to_string(i);
    text += "]";
    break;
  case 2:
    text = "{";
    for (std::size_t i = 0; i < n; ++i) text += std::string(i ? "," : "") + "\"k" + std::to_string(i) + "\":0";
    text += "}";
    break;
  case 3:
    text = "\"" + std::string(n, 'x') + "\"";
    break;
  default:
  {
    // decoded length n (ASCII letters), every character written as an escape: the limit is
    // documented as the maximum STRING length, so the escaped spelling must not count
    text = "\"";
    bool asKey = src.coin(1, 3);
    for (std::size_t i = 0; i < n; ++i)
    {
      switch (src.range(0, 2))
      {
      case 0: text += "\\u0041"; break;
      case 1: text += "\\u00" + std::string(1, "4567"[src.range(0, 3)]) + std::string(1, "12345"[src.range(0, 4)]); break;
      default: text += "\\/"; break;
      }
    }
    text += "\"";
    if (asKey) text = "{" + text + ":0}";
  }
  }
  c.describe(pbt::Fmt() << "which=" << which << " limit=" << L << " n=" << n << " text=" << pbt::show(text, 200));
  c.nontrivial(pbt::hashMix(which, pbt::hashMix(L, n * 2 + obj)));
  ExactBuf buf(text);
  auto r = Json::parse(buf.view(), lim);
  // "within the configured limits": ParseLimits documents arrayItemsMax / membersMax as the
  // MAXIMUM number of elements / members, so n == L is within the limit and must be accepted
  // (the unchanged parser does). depthMax and stringLengthMax are documented less precisely
  // (depth counted from 0; length tested before the append), so for them only n < L is demanded.
  bool strictlyInside = (which == 1 || which == 2) ? n <= L : n < L;
  c.label(strictlyInside ? (n == L ? "exactly at limit (must be accepted)" : "inside limit")
                         : (n > L + 1 ? "beyond limit" : "at limit"));
  if (strictlyInside && !r.ok)
    c.fail("C13/limits/inside-rejected", pbt::Fmt() << "text within limit rejected: " << r.error.message);
  if (n > L + 1 && r.ok && which < 3)
    c.fail("C13/limits/beyond-accepted", pbt::Fmt() << "text beyond the limit (" << n << " > " << L << ") accepted");
  if (!r.ok && r.error.where.offset > text.size())
    c.fail("C13/mutate/error-offset-outside", "error offset outside input");
}


// ------------------------------------------------------------------------- emit
// Differential partner for the thorough tier: every generated text is written to
// $C13_EMIT together with a canonical rendering of (a) what iora decoded and (b) what
// the generator intended; props/c13_pydiff.py decodes the same text with Python's json
// module and compares all three.
static void canonV(const V &v, std::string &o)
{
  switch (v.k)
  {
  case V::Null: o += "n"; break;
  case V::Bool: o += v.b ? "t" : "f"; break;
  case V::Int: o += "i" + std::to_string(v.i); break;
  case V::Dbl: { std::uint64_t b; std::memcpy(&b, &v.d, 8); char buf[24]; std::snprintf(buf, sizeof buf, "d%016llx", (unsigned long long)b); o += buf; break; }
  case V::Str: o += "s" + pbt::hex(v.s, 1u << 30); break;
  case V::Arr: o += "["; for (std::size_t i = 0; i < v.a.size(); ++i) { if (i) o += ","; canonV(v.a[i], o); } o += "]"; break;
  case V::Obj:
  {
    std::map<std::string, const V *> m;
    for (auto &kv : v.o) m[kv.first] = &kv.second;
    o += "{";
    bool first = true;
    for (auto &kv : m) { if (!first) o += ","; first = false; o += pbt::hex(kv.first, 1u << 30) + ":"; canonV(*kv.second, o); }
    o += "}";
  }
  }
}
static void canonJ(const Json &j, std::string &o)
{
  if (j.isNull()) o += "n";
  else if (j.isBool()) o += j.getBool() ? "t" : "f";
  else if (j.isInt()) o += "i" + std::to_string(j.getInt());
  else if (j.isDouble()) { double d = j.getDouble(); std::uint64_t b; std::memcpy(&b, &d, 8); char buf[24]; std::snprintf(buf, sizeof buf, "d%016llx", (unsigned long long)b); o += buf; }
  else if (j.isString()) o += "s" + pbt::hex(j.getString(), 1u << 30);
  else if (j.isArray()) { o += "["; bool first = true; for (auto &e : j.getArray()) { if (!first) o += ","; first = false; canonJ(e, o); } o += "]"; }
  else
  {
    std::map<std::string, const Json *> m;
    for (auto &kv : j.getObject()) m[kv.first] = &kv.second;
    o += "{";
    bool first = true;
    for (auto &kv : m) { if (!first) o += ","; first = false; o += pbt::hex(kv.first, 1u << 30) + ":"; canonJ(*kv.second, o); }
    o += "}";
  }
}

PBT_PROPERTY(emit)
{
  static FILE *f = [] { const char *p = std::getenv("C13_EMIT"); return p ? std::fopen(p, "w") : nullptr; }();
  refjson::GenOpts go;
  go.maxDepth = 4;
  go.maxWidth = 4;
  V v = refjson::genValue(src, go, 0);
  refjson::Features feat;
  std::string text = refjson::render(src, v, feat, go);
  c.describe(text);
  if (feat.escapes || feat.nonIntegerNumbers || feat.maxDepth >= 2) c.nontrivial(pbt::hash64(text));
  auto r = Json::parse(std::string_view(text), ParseLimits{});
  std::string ci = "REJECTED", cv;
  if (r.ok) { ci.clear(); canonJ(r.value, ci); }
  canonV(v, cv);
  if (f) { std::fprintf(f, "%s\t%s\t%s\n", pbt::hex(text, 1u << 30).c_str(), ci.c_str(), cv.c_str()); std::fflush(f); }
}

// ------------------------------------------------------------- fixed regressions
static void parseExpect(pbt::Case &c, const std::string &text, const V &expect, const std::string &sig)
{
  c.describe(text);
  auto r = Json::parse(std::string_view(text), ParseLimits{});
  if (!r.ok) { c.fail("C13/construct/rejected-valid", r.error.message); return; }
  std::string why;
  if (!equalJV(r.value, expect, why, "$")) c.fail(sig, why);
}

PBT_REGRESSION(unicode_escape_bmp)
{
  parseExpect(c, "\"\\u0041\\u00e9\\u20AC\"", V::str("A\xc3\xa9\xe2\x82\xac"), "C13/construct/unicode-escape");
}
PBT_REGRESSION(unicode_escape_surrogate_pair)
{
  parseExpect(c, "\"\\ud83d\\ude00\"", V::str("\xf0\x9f\x98\x80"), "C13/construct/unicode-escape");
}
PBT_REGRESSION(double_small_roundtrip)
{
  Json j(1e-7);
  std::string t = j.dump();
  c.describe("dump(1e-7)=" + t);
  auto r = Json::parse(std::string_view(t), ParseLimits{});
  if (!r.ok || !(r.value == j)) c.fail("C13/roundtrip/double", "1e-7 dumps as " + t);
}
PBT_REGRESSION(control_char_roundtrip)
{
  Json j(std::string("a\x01" "b"));
  std::string t = j.dump();
  c.describe("dump(\"a\\x01b\")=" + t);
  auto r = Json::parse(std::string_view(t), ParseLimits{});
  if (!r.ok || !(r.value == j)) c.fail("C13/roundtrip/control-char", "control character does not round-trip: " + t);
}
PBT_REGRESSION(error_offset_truncated_u)
{
  std::string t = "\"\\u12";
  c.describe(t);
  auto r = Json::parse(std::string_view(t), ParseLimits{});
  if (r.ok) { c.fail("C13/mutate/accepted-invalid", "truncated \\u escape accepted"); return; }
  if (r.error.where.offset > t.size()) c.fail("C13/mutate/error-offset-outside", pbt::Fmt() << "offset " << r.error.where.offset << " size " << t.size());
}

PBT_REGRESSION(exactly_at_member_and_item_limits)
{
  for (std::size_t L : {1u, 2u, 7u, 100u})
  {
    ParseLimits lim;
    lim.membersMax = L;
    lim.arrayItemsMax = L;
    std::string obj = "{", arr = "[";
    for (std::size_t i = 0; i < L; ++i)
    {
      obj += std::string(i ? "," : "") + "\"k" + std::to_string(i) + "\":0";
      arr += std::string(i ? "," : "") + "0";
    }
    obj += "}";
    arr += "]";
    c.describe(pbt::Fmt() << "L=" << L);
    if (!Json::parse(std::string_view(obj), lim).ok) c.fail("C13/limits/inside-rejected", pbt::Fmt() << "object with exactly membersMax=" << L << " members rejected");
    if (!Json::parse(std::string_view(arr), lim).ok) c.fail("C13/limits/inside-rejected", pbt::Fmt() << "array with exactly arrayItemsMax=" << L << " items rejected");
  }
}

PBT_REGRESSION(integers_just_beyond_int64)
{
  for (std::string t : {"9223372036854775808", "9999999999999999999", "-9223372036854775809", "[9300000000000000000]"})
  {
    c.describe(t);
    auto r = Json::parse(std::string_view(t), ParseLimits{});
    if (!r.ok) { c.fail("C13/construct/rejected-valid", "rejected " + t); continue; }
    const Json &j = r.value.isArray() ? r.value.getArray()[0] : r.value;
    std::string digits = t[0] == '[' ? t.substr(1, t.size() - 2) : t;
    double want = std::strtod(digits.c_str(), nullptr);
    if (!j.isDouble() || j.getDouble() != want) c.fail("C13/construct/number", "integer beyond int64 must decode as the nearest double: " + t + " -> " + j.dump());
  }
}

PBT_REGRESSION(truncated_object_key)
{
  for (std::string t : {"{", "{\"a\":1,", "{\"a\":1, "})
  {
    c.describe(t);
    ExactBuf buf(t); // exact-size heap buffer: a read past the end trips ASan
    auto r = Json::parse(buf.view(), ParseLimits{});
    if (r.ok) c.fail("C13/mutate/accepted-invalid", "truncated object accepted: " + t);
  }
}

PBT_MAIN()
