// c12_nofsync.cpp - fsync()/fdatasync() become no-ops in the C11/C12 harness executables.
//
// KVStore::flush() (called by every clean close) fsyncs the log. Both properties are stated
// for the process-crash model (data handed to the operating system survives; power loss is
// out of scope), so forcing the scratch files to the disk changes no verdict - it only costs
// 5-50 ms per close on a disk-backed scratch directory, i.e. most of the wall time of a
// check that reopens a store tens of thousands of times.
#include <unistd.h>

extern "C"
{
  int fsync(int) { return 0; }
  int fdatasync(int) { return 0; }
}
