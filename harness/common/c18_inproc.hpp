// c18_inproc.hpp - the two endpoints under test driven in-process (no socket), shared by the
// rapidcheck harness (c18_ws.cpp) and the libFuzzer target (fuzz_ws.cpp).
//   server: a WebSocketServer subclass; onUpgradeRequest()/onUpgradedData() are protected and
//           therefore reachable from a subclass - no source hook needed. The server is never
//           started; sendRaw()/closeSession() without a transport are no-ops, closeSession is
//           virtual and recorded.
//   client: WebSocketClient::handleData() is private -> hook H3 (hooks/C18-ws-client-probe.diff),
//           a friend declaration for iora::verif::WebSocketClientProbe. Without the hook the
//           client parts compile to nothing (JOEGEN_IORA_VERIF_WS_CLIENT_PROBE undefined).
#pragma once
#include "c18_ref_ws.hpp"

#include <iora/network/websocket_client.hpp>
#include <iora/network/websocket_frame.hpp>
#include <iora/network/websocket_server.hpp>

#include <cstring>
#include <memory>
#include <mutex>
#include <string>
#include <vector>

namespace ws = iora::network;
using refws::Msg;

// ---------------------------------------------------------------------------------------
// hook H3 (hooks/C18-ws-client-probe.diff): friend probe for the client's private data path
// ---------------------------------------------------------------------------------------
#ifdef JOEGEN_IORA_VERIF_WS_CLIENT_PROBE
namespace iora
{
namespace verif
{
struct WebSocketClientProbe
{
  /// put a never-connected client into the state it has right after a successful upgrade
  static void prime(ws::WebSocketClient &cl)
  {
    cl._upgradeComplete.store(true);
    cl._state.store(ws::WebSocketState::CONNECTED);
  }
  /// put a never-connected client into the state it has after it SENT its upgrade request with
  /// `key`: the 101 response is then part of the bytes fed to handleData()
  static void primeAwaitingUpgrade(ws::WebSocketClient &cl, const std::string &key)
  {
    cl._wsKey = key;
    cl._upgradeComplete.store(false);
    cl._state.store(ws::WebSocketState::CONNECTING);
  }
  /// what the application would pass as Options::maxMessageSize to connect()
  static void setMaxMessage(ws::WebSocketClient &cl, std::size_t n) { cl._options.maxMessageSize = n; }
  static void feed(ws::WebSocketClient &cl, const std::uint8_t *p, std::size_t n) { cl.handleData(0, p, n); }
  static std::size_t buffered(ws::WebSocketClient &cl)
  {
    std::lock_guard<std::mutex> g(cl._dataMutex);
    return cl._buffer.size() + cl._fragmentBuffer.size();
  }
  /// has the client sent (or tried to send) its close frame? Observed through the state the
  /// library keeps for this purpose when it has one, otherwise through the echo flag.
  template <class C = ws::WebSocketClient> static auto closeSentImpl(C &cl, int) -> decltype(cl._closeSent, bool())
  {
    std::lock_guard<std::mutex> g(cl._sendMutex);
    return cl._closeSent;
  }
  template <class C = ws::WebSocketClient> static bool closeSentImpl(C &cl, long) { return cl._closeEchoed.load(); }
  static bool closeSent(ws::WebSocketClient &cl) { return closeSentImpl(cl, 0); }
};
} // namespace verif
} // namespace iora
using iora::verif::WebSocketClientProbe;
#endif

namespace c18in
{

// exact-size heap copy so that ASan sees any read past the end
struct ExactBuf
{
  std::unique_ptr<std::uint8_t[]> p;
  std::size_t n;
  explicit ExactBuf(std::string_view s) : p(new std::uint8_t[s.size() ? s.size() : 1]), n(s.size())
  {
    if (n) std::memcpy(p.get(), s.data(), n);
  }
  iora::core::BufferView view() const { return iora::core::BufferView(p.get(), n); }
};

inline void quietLogs()
{
  static bool done = false;
  if (!done)
  {
    iora::core::Logger::setLevel(iora::core::Logger::Level::Fatal);
    done = true;
  }
}

/// what an endpoint did with one segmented feed of a stream
struct Outcome
{
  std::vector<Msg> msgs;
  int closeCallbacks = 0;
  std::uint16_t closeCode = 0;
  std::string closeReason;
  int errors = 0;
  int connectCallbacks = 0;
  int closeSessionCalls = 0;
  bool active = true; // endpoint still willing to send data afterwards
  bool threw = false;
  std::string what;
};

// ------------------------------------------------------------------ in-process server
class ProbeServer : public ws::WebSocketServer
{
public:
  ProbeServer() : ws::WebSocketServer("127.0.0.1", 1)
  {
    setOnTextMessage([this](ws::SessionId, const std::string &t) { if (out) out->msgs.push_back(Msg{true, t}); });
    setOnBinaryMessage([this](ws::SessionId, const std::vector<std::uint8_t> &b)
                       { if (out) out->msgs.push_back(Msg{false, std::string(b.begin(), b.end())}); });
    setOnClose([this](ws::SessionId, std::uint16_t code, const std::string &reason)
               {
                 if (!out) return;
                 ++out->closeCallbacks;
                 out->closeCode = code;
                 out->closeReason = reason;
               });
    setOnError([this](ws::SessionId, const std::string &) { if (out) ++out->errors; });
  }

  /// (re)create the WebSocket session state for `sid` through the real upgrade hook
  bool open(ws::SessionId sid)
  {
    Request req;
    req.method = iora::network::HttpMethod::GET;
    req.path = "/ws";
    req.headers["Upgrade"] = "websocket";
    req.headers["Connection"] = "Upgrade";
    req.headers["Sec-WebSocket-Key"] = "dGhlIHNhbXBsZSBub25jZQ==";
    req.headers["Sec-WebSocket-Version"] = "13";
    req.sid = sid;
    Response res;
    bool handled = onUpgradeRequest(sid, req, res);
    return handled && res.status == 101 && res.headers["Sec-WebSocket-Accept"] == "s3pPLMBiTxaQ9kYGzzhZRbK+xOo=";
  }
  void feed(ws::SessionId sid, const std::uint8_t *p, std::size_t n) { onUpgradedData(sid, p, n); }
  void closeSession(ws::SessionId) override { if (out) ++out->closeSessionCalls; }

  Outcome *out = nullptr;
};

inline ProbeServer &probeServer()
{
  static ProbeServer *s = [] { quietLogs(); return new ProbeServer; }();
  return *s;
}

constexpr ws::SessionId kSid = 4242;

/// feed `wire` cut at `cuts` to a fresh server session
inline Outcome runServer(const std::string &wire, const std::vector<std::size_t> &cuts, std::size_t maxFrame = 16u << 20)
{
  Outcome o;
  ProbeServer &srv = probeServer();
  srv.setMaxFrameSize(maxFrame);
  srv.out = &o;
  if (!srv.open(kSid))
  {
    o.threw = true;
    o.what = "upgrade of the in-process session failed";
    srv.out = nullptr;
    return o;
  }
  try
  {
    std::size_t from = 0;
    for (std::size_t k = 0; k <= cuts.size(); ++k)
    {
      std::size_t to = k < cuts.size() ? cuts[k] : wire.size();
      ExactBuf seg(std::string_view(wire).substr(from, to - from));
      srv.feed(kSid, seg.p.get(), seg.n);
      from = to;
    }
  }
  catch (const std::exception &e)
  {
    o.threw = true;
    o.what = std::string("exception left onUpgradedData: ") + e.what();
  }
  catch (...)
  {
    o.threw = true;
    o.what = "unknown exception left onUpgradedData";
  }
  o.active = srv.isSessionActive(kSid);
  srv.out = nullptr;
  return o;
}

#ifdef JOEGEN_IORA_VERIF_WS_CLIENT_PROBE
constexpr const char *kInprocKey = "dGhlIHNhbXBsZSBub25jZQ==";

/// the server's answer to an upgrade request with kInprocKey
inline std::string inprocUpgradeResponse()
{
  return "HTTP/1.1 101 Switching Protocols\r\nUpgrade: websocket\r\nConnection: Upgrade\r\nSec-WebSocket-Accept: " + refws::acceptFor(kInprocKey) + "\r\n\r\n";
}

/// feed `wire` cut at `cuts` to a fresh client. withUpgrade: the client is still waiting for the
/// 101 response and `wire` starts with it (cuts are positions in the combined bytes), so the
/// opening handshake is part of the segmentation.
inline Outcome runClient(const std::string &wire, const std::vector<std::size_t> &cuts, bool withUpgrade = false, std::size_t maxMessage = 0)
{
  quietLogs();
  Outcome o;
  auto cl = ws::WebSocketClient::create();
  cl->setOnConnect([&o](const std::string &) { ++o.connectCallbacks; });
  cl->setOnTextMessage([&o](const std::string &t) { o.msgs.push_back(Msg{true, t}); });
  cl->setOnBinaryMessage([&o](const std::vector<std::uint8_t> &b) { o.msgs.push_back(Msg{false, std::string(b.begin(), b.end())}); });
  cl->setOnClose([&o](std::uint16_t code, const std::string &reason)
                 {
                   ++o.closeCallbacks;
                   o.closeCode = code;
                   o.closeReason = reason;
                 });
  cl->setOnError([&o](const std::string &) { ++o.errors; });
  if (maxMessage) WebSocketClientProbe::setMaxMessage(*cl, maxMessage);
  if (withUpgrade) WebSocketClientProbe::primeAwaitingUpgrade(*cl, kInprocKey);
  else WebSocketClientProbe::prime(*cl);
  try
  {
    std::size_t from = 0;
    for (std::size_t k = 0; k <= cuts.size(); ++k)
    {
      std::size_t to = k < cuts.size() ? cuts[k] : wire.size();
      ExactBuf seg(std::string_view(wire).substr(from, to - from));
      WebSocketClientProbe::feed(*cl, seg.p.get(), seg.n);
      from = to;
    }
  }
  catch (const std::exception &e)
  {
    o.threw = true;
    o.what = std::string("exception left handleData: ") + e.what();
  }
  catch (...)
  {
    o.threw = true;
    o.what = "unknown exception left handleData";
  }
  o.active = cl->getState() == ws::WebSocketState::CONNECTED;
  return o;
}
#endif

} // namespace c18in
