// ref_json.hpp - independent JSON reference: value tree, generator, renderer (tree ->
// text in every RFC 8259 surface form) and a strict RFC 8259 validator. Shares no
// code with iora's json.hpp.
#pragma once
#include "pbt.hpp"

#include <cmath>
#include <cstdint>
#include <cstring>
#include <limits>
#include <string>
#include <utility>
#include <vector>

namespace refjson
{

struct V
{
  enum K { Null, Bool, Int, Dbl, Str, Arr, Obj } k = Null;
  bool b = false;
  std::int64_t i = 0;
  double d = 0;
  std::string s;      // Str: UTF-8; Dbl produced from a big-integer literal keeps the literal here
  std::vector<V> a;
  std::vector<std::pair<std::string, V>> o; // in document order, duplicates possible
  bool bigIntLiteral = false;                // Dbl written as an integer beyond int64

  static V null() { return V{}; }
  static V boolean(bool x) { V v; v.k = Bool; v.b = x; return v; }
  static V integer(std::int64_t x) { V v; v.k = Int; v.i = x; return v; }
  static V dbl(double x) { V v; v.k = Dbl; v.d = x; return v; }
  static V str(std::string x) { V v; v.k = Str; v.s = std::move(x); return v; }
};

struct GenOpts
{
  int maxDepth = 4;
  int maxWidth = 4;
  bool uniqueKeys = false;          // programmatic values cannot hold duplicate keys
  bool allowUnicodeEscapes = true;  // renderer may write \uXXXX
  bool allowControlChars = true;    // strings may contain U+0000..U+001F
  bool allowFractions = true;       // doubles that are not small integers
  bool allowBigIntegers = true;
};

struct Features
{
  bool escapes = false, unicodeEscapes = false, surrogatePairs = false, nonIntegerNumbers = false,
       bigIntegers = false, duplicateKeys = false, nonAscii = false, controlChars = false,
       specialChars = false;
  int maxDepth = 0;
};

inline void appendUtf8(std::string &o, std::uint32_t cp)
{
  if (cp < 0x80) o += (char)cp;
  else if (cp < 0x800) { o += (char)(0xC0 | (cp >> 6)); o += (char)(0x80 | (cp & 0x3F)); }
  else if (cp < 0x10000) { o += (char)(0xE0 | (cp >> 12)); o += (char)(0x80 | ((cp >> 6) & 0x3F)); o += (char)(0x80 | (cp & 0x3F)); }
  else { o += (char)(0xF0 | (cp >> 18)); o += (char)(0x80 | ((cp >> 12) & 0x3F)); o += (char)(0x80 | ((cp >> 6) & 0x3F)); o += (char)(0x80 | (cp & 0x3F)); }
}

// decode valid UTF-8 into code points (input is produced by appendUtf8)
inline std::vector<std::uint32_t> codePoints(const std::string &s)
{
  std::vector<std::uint32_t> out;
  for (std::size_t i = 0; i < s.size();)
  {
    unsigned char c = (unsigned char)s[i];
    std::uint32_t cp; int n;
    if (c < 0x80) { cp = c; n = 1; }
    else if (c < 0xE0) { cp = c & 0x1F; n = 2; }
    else if (c < 0xF0) { cp = c & 0x0F; n = 3; }
    else { cp = c & 0x07; n = 4; }
    for (int k = 1; k < n && i + k < s.size(); ++k) cp = (cp << 6) | ((unsigned char)s[i + k] & 0x3F);
    out.push_back(cp);
    i += n;
  }
  return out;
}

inline std::uint32_t genCodePoint(pbt::Src &src, const GenOpts &go)
{
  switch (src.weighted({50, go.allowControlChars ? 8 : 0, 10, 10, 8, 8, 6}))
  {
  case 0: return (std::uint32_t)src.range(0x20, 0x7E);
  case 1: return (std::uint32_t)src.range(0x00, 0x1F);
  case 2: return src.oneOf<std::uint32_t>({'"', '\\', '/', 0x7F, 'u', 'n'});
  case 3: return (std::uint32_t)src.range(0x80, 0x7FF);
  case 4: { auto cp = (std::uint32_t)src.range(0x800, 0xFFFF); if (cp >= 0xD800 && cp <= 0xDFFF) cp = 0xFFFD; return cp; }
  case 5: return (std::uint32_t)src.range(0x10000, 0x10FFFF);
  default: return src.oneOf<std::uint32_t>({0x80, 0x7FF, 0x800, 0xFFFF, 0x10000, 0x10FFFF, 0xD7FF, 0xE000, 0xFEFF, 0x2028});
  }
}

inline std::string genString(pbt::Src &src, const GenOpts &go)
{
  std::string s;
  auto n = src.sized(0, 12);
  for (std::int64_t i = 0; i < n; ++i) appendUtf8(s, genCodePoint(src, go));
  return s;
}

inline double genDouble(pbt::Src &src, const GenOpts &go)
{
  if (!go.allowFractions) return (double)src.range(-1000, 1000);
  switch (src.weighted({3, 3, 3, 2}))
  {
  case 0:
  {
    static const double specials[] = {0.0, -0.0, 1e-7, 1.5, -2.25, 1e300, -1e300, 1e-300, 4.9406564584124654e-324,
                                      2.2250738585072014e-308, 1.7976931348623157e308, 0.1, 0.2, 0.30000000000000004,
                                      1e21, 1e22, 123456789012345678.0, 9007199254740993.0, 3.141592653589793, 1e-5, 5e-324,
                                      100.0, 1e15, 1e16, 1e17, 0.000001, 0.0000001};
    return specials[src.range(0, (std::int64_t)(sizeof(specials) / sizeof(specials[0])) - 1)];
  }
  case 1:
  {
    // random bit pattern, finite
    std::uint64_t bits = ((std::uint64_t)src.range(0, 0xFFFFFFFFLL) << 32) | (std::uint64_t)src.range(0, 0xFFFFFFFFLL);
    double d;
    std::memcpy(&d, &bits, 8);
    if (!std::isfinite(d)) d = 1.0;
    return d;
  }
  case 2: return (double)src.range(-100000, 100000) / (double)src.oneOf<std::int64_t>({1, 2, 4, 8, 10, 100, 1000, 3, 7});
  default: return std::ldexp((double)src.range(1, 1 << 20), (int)src.range(-60, 60));
  }
}

inline V genValue(pbt::Src &src, const GenOpts &go, int depth)
{
  bool leafOnly = depth >= go.maxDepth;
  auto kind = src.weighted({2, 3, 8, 8, 10, leafOnly ? 0 : 8, leafOnly ? 0 : 8});
  switch (kind)
  {
  case 0: return V::null();
  case 1: return V::boolean(src.coin());
  case 2:
  {
    switch (src.weighted({6, 2, 2}))
    {
    case 0: return V::integer(src.range(-1000, 1000));
    case 1: return V::integer(src.oneOf<std::int64_t>({0, -1, std::numeric_limits<std::int64_t>::max(), std::numeric_limits<std::int64_t>::min(),
                                                        std::numeric_limits<std::int64_t>::max() - 1, 2147483647LL, 2147483648LL, -2147483649LL, 9007199254740993LL}));
    default: return V::integer(src.range(-(1LL << 31), (1LL << 31)) * (1LL << 31) + src.range(0, (1LL << 31) - 1));
    }
  }
  case 3:
  {
    if (go.allowBigIntegers && go.allowFractions && src.coin(1, 8))
    {
      // an integer literal beyond int64: decoded as the nearest double
      V v;
      v.k = V::Dbl;
      v.bigIntLiteral = true;
      std::string lit = src.coin() ? "-" : "";
      if (src.coin(1, 3))
      {
        // exactly 19 digits, just beyond the int64 range: 9[3-9]d{17} > 9223372036854775807
        lit += '9';
        lit += (char)('3' + src.range(0, 6));
        for (int i = 0; i < 17; ++i) lit += (char)('0' + src.range(0, 9));
      }
      else
      {
        lit += (char)('1' + src.range(0, 8));
        auto n = src.range(19, 40);
        for (std::int64_t i = 0; i < n; ++i) lit += (char)('0' + src.range(0, 9));
      }
      v.s = lit;
      v.d = std::strtod(lit.c_str(), nullptr);
      return v;
    }
    return V::dbl(genDouble(src, go));
  }
  case 4: return V::str(genString(src, go));
  case 5:
  {
    V v;
    v.k = V::Arr;
    auto n = src.sized(0, go.maxWidth);
    for (std::int64_t i = 0; i < n; ++i) v.a.push_back(genValue(src, go, depth + 1));
    return v;
  }
  default:
  {
    V v;
    v.k = V::Obj;
    auto n = src.sized(0, go.maxWidth);
    for (std::int64_t i = 0; i < n; ++i)
    {
      std::string key;
      if (!go.uniqueKeys && !v.o.empty() && src.coin(1, 5)) key = v.o[(std::size_t)src.range(0, (std::int64_t)v.o.size() - 1)].first;
      else key = src.coin(2, 3) ? std::string(1, (char)('a' + src.range(0, 5))) : genString(src, go);
      if (go.uniqueKeys)
      {
        bool dup = false;
        for (auto &kv : v.o) if (kv.first == key) dup = true;
        if (dup) continue;
      }
      v.o.emplace_back(key, genValue(src, go, depth + 1));
    }
    return v;
  }
  }
}

inline void scanString(const std::string &s, Features &f)
{
  for (unsigned char ch : s)
  {
    if (ch < 0x20) f.controlChars = true;
    if (ch >= 0x80) f.nonAscii = true;
    if (ch == '"' || ch == '\\' || ch == '/') f.specialChars = true;
  }
}

inline void scanFeatures(const V &v, Features &f, int depth)
{
  if (depth > f.maxDepth) f.maxDepth = depth;
  switch (v.k)
  {
  case V::Dbl: f.nonIntegerNumbers = true; break;
  case V::Str: scanString(v.s, f); break;
  case V::Arr: for (auto &x : v.a) scanFeatures(x, f, depth + 1); break;
  case V::Obj: for (auto &kv : v.o) { scanString(kv.first, f); scanFeatures(kv.second, f, depth + 1); } break;
  default: break;
  }
}

// ---- renderer ------------------------------------------------------------------
inline std::string ws(pbt::Src &src)
{
  if (src.coin(3, 5)) return "";
  std::string o;
  auto n = src.range(1, 3);
  for (std::int64_t i = 0; i < n; ++i) o += src.oneOf<char>({' ', '\n', '\t', '\r'});
  return o;
}

inline void hex4(std::string &o, std::uint32_t x, bool upper)
{
  const char *d = upper ? "0123456789ABCDEF" : "0123456789abcdef";
  o += d[(x >> 12) & 15]; o += d[(x >> 8) & 15]; o += d[(x >> 4) & 15]; o += d[x & 15];
}

inline std::string renderString(pbt::Src &src, const std::string &s, Features &f, const GenOpts &go)
{
  std::string o = "\"";
  for (std::uint32_t cp : codePoints(s))
  {
    bool mustEscape = cp < 0x20 || cp == '"' || cp == '\\';
    bool shortForm = false;
    char sc = 0;
    switch (cp)
    {
    case '"': sc = '"'; shortForm = true; break;
    case '\\': sc = '\\'; shortForm = true; break;
    case '/': sc = '/'; shortForm = true; break;
    case '\b': sc = 'b'; shortForm = true; break;
    case '\f': sc = 'f'; shortForm = true; break;
    case '\n': sc = 'n'; shortForm = true; break;
    case '\r': sc = 'r'; shortForm = true; break;
    case '\t': sc = 't'; shortForm = true; break;
    default: break;
    }
    bool canU = go.allowUnicodeEscapes;
    // choose: raw / short escape / \u escape
    int form; // 0 raw, 1 short, 2 \u
    if (mustEscape)
    {
      if (shortForm && (!canU || src.coin(3, 4))) form = 1;
      else form = 2; // control char without short form needs \u (generator avoids those when !canU)
    }
    else
    {
      auto w = src.weighted({8, shortForm ? 3 : 0, canU ? 2 : 0});
      form = (int)w;
    }
    if (form == 0) appendUtf8(o, cp);
    else if (form == 1) { o += '\\'; o += sc; f.escapes = true; }
    else
    {
      f.escapes = true;
      f.unicodeEscapes = true;
      bool upper = src.coin();
      if (cp >= 0x10000)
      {
        std::uint32_t x = cp - 0x10000;
        o += "\\u"; hex4(o, 0xD800 + (x >> 10), upper);
        o += "\\u"; hex4(o, 0xDC00 + (x & 0x3FF), src.coin());
        f.surrogatePairs = true;
      }
      else { o += "\\u"; hex4(o, cp, upper); }
    }
    if (cp >= 0x80) f.nonAscii = true;
  }
  o += '"';
  return o;
}

// decimal digits + exponent of a finite double, exactly as %.17g sees it:
// value = 0.d1d2d3... * 10^exp10  (digits without leading/trailing zeros)
inline void decimalOf(double d, bool &neg, std::string &digits, int &exp10)
{
  char buf[64];
  std::snprintf(buf, sizeof buf, "%.16e", d); // d.dddddddddddddddde[+-]xx : 17 significant digits
  const char *p = buf;
  neg = false;
  if (*p == '-') { neg = true; ++p; }
  digits.clear();
  digits += *p++;
  if (*p == '.') ++p;
  while (*p && *p != 'e') digits += *p++;
  int e = std::atoi(p + 1);
  exp10 = e + 1;
  while (digits.size() > 1 && digits.back() == '0') digits.pop_back();
}

inline std::string renderDouble(pbt::Src &src, double d)
{
  bool neg; std::string dg; int e10;
  decimalOf(d, neg, dg, e10);
  if (std::signbit(d)) neg = true;
  std::string o = neg ? "-" : "";
  if (dg == "0")
  {
    switch (src.range(0, 3)) { case 0: o += "0.0"; break; case 1: o += "0e0"; break; case 2: o += "0.000"; break; default: o += "0E+5"; }
    return o;
  }
  // value = 0.DG * 10^e10. Choose how many digits go before the decimal point.
  int form = (int)src.range(0, 3);
  int n = (int)dg.size();
  auto expStr = [&](int e)
  {
    std::string s(1, src.coin() ? 'e' : 'E');
    if (e < 0) s += "-"; else if (src.coin()) s += "+";
    int a = e < 0 ? -e : e;
    if (src.coin(1, 4)) s += "0";
    s += std::to_string(a);
    return s;
  };
  if (form == 0 && e10 > -6 && e10 < 25)
  {
    // plain positional notation
    if (e10 <= 0) { o += "0."; o += std::string((std::size_t)(-e10), '0'); o += dg; }
    else if (e10 >= n) { o += dg; o += std::string((std::size_t)(e10 - n), '0'); o += ".0"; }
    else { o += dg.substr(0, (std::size_t)e10); o += "."; o += dg.substr((std::size_t)e10); }
    return o;
  }
  if (form == 1)
  {
    // scientific: d.ddd e (e10-1)
    o += dg.substr(0, 1);
    if (n > 1) { o += "."; o += dg.substr(1); }
    o += expStr(e10 - 1);
    return o;
  }
  if (form == 2)
  {
    // all digits as integer part: DG e (e10-n)
    o += dg;
    if (src.coin()) o += ".0";
    o += expStr(e10 - n);
    return o;
  }
  // 0.DG e e10
  o += "0."; o += dg; o += expStr(e10);
  return o;
}

inline std::string render(pbt::Src &src, const V &v, Features &f, const GenOpts &go, int depth = 0)
{
  if (depth > f.maxDepth) f.maxDepth = depth;
  switch (v.k)
  {
  case V::Null: return "null";
  case V::Bool: return v.b ? "true" : "false";
  case V::Int: return std::to_string(v.i);
  case V::Dbl:
    f.nonIntegerNumbers = true;
    if (v.bigIntLiteral) { f.bigIntegers = true; return v.s; }
    return renderDouble(src, v.d);
  case V::Str: return renderString(src, v.s, f, go);
  case V::Arr:
  {
    std::string o = "[" + ws(src);
    for (std::size_t i = 0; i < v.a.size(); ++i)
    {
      if (i) o += "," + ws(src);
      o += render(src, v.a[i], f, go, depth + 1) + ws(src);
    }
    return o + "]";
  }
  case V::Obj:
  {
    std::string o = "{" + ws(src);
    for (std::size_t i = 0; i < v.o.size(); ++i)
    {
      if (i) o += "," + ws(src);
      for (std::size_t j = 0; j < i; ++j) if (v.o[j].first == v.o[i].first) f.duplicateKeys = true;
      o += renderString(src, v.o[i].first, f, go) + ws(src) + ":" + ws(src);
      o += render(src, v.o[i].second, f, go, depth + 1) + ws(src);
    }
    return o + "}";
  }
  }
  return "null";
}

// ---- strict RFC 8259 validator -------------------------------------------------
struct Validator
{
  const std::string &t;
  std::size_t p = 0;
  std::string err;
  explicit Validator(const std::string &text) : t(text) {}
  bool fail(const char *m) { if (err.empty()) err = std::string(m) + " at " + std::to_string(p); return false; }
  void skipWs() { while (p < t.size() && (t[p] == ' ' || t[p] == '\t' || t[p] == '\n' || t[p] == '\r')) ++p; }
  static bool hexd(char c) { return (c >= '0' && c <= '9') || (c >= 'a' && c <= 'f') || (c >= 'A' && c <= 'F'); }
  bool str()
  {
    if (p >= t.size() || t[p] != '"') return fail("expected string");
    ++p;
    while (p < t.size())
    {
      unsigned char ch = (unsigned char)t[p];
      if (ch == '"') { ++p; return true; }
      if (ch < 0x20) return fail("raw control character in string");
      if (ch == '\\')
      {
        ++p;
        if (p >= t.size()) return fail("truncated escape");
        char e = t[p];
        if (e == 'u')
        {
          for (int k = 1; k <= 4; ++k) if (p + k >= t.size() || !hexd(t[p + k])) return fail("bad \\u escape");
          p += 5;
        }
        else if (std::strchr("\"\\/bfnrt", e)) ++p;
        else return fail("bad escape");
        continue;
      }
      if (ch >= 0x80)
      {
        // well-formed UTF-8 only
        int n = ch >= 0xF0 ? 4 : ch >= 0xE0 ? 3 : ch >= 0xC2 ? 2 : 0;
        if (!n || ch > 0xF4) return fail("bad UTF-8 lead");
        for (int k = 1; k < n; ++k) if (p + k >= t.size() || ((unsigned char)t[p + k] & 0xC0) != 0x80) return fail("bad UTF-8 continuation");
        p += n;
        continue;
      }
      ++p;
    }
    return fail("unterminated string");
  }
  bool num()
  {
    if (p < t.size() && t[p] == '-') ++p;
    if (p >= t.size()) return fail("bad number");
    if (t[p] == '0') ++p;
    else if (t[p] >= '1' && t[p] <= '9') { while (p < t.size() && t[p] >= '0' && t[p] <= '9') ++p; }
    else return fail("bad number");
    if (p < t.size() && t[p] == '.')
    {
      ++p;
      if (p >= t.size() || t[p] < '0' || t[p] > '9') return fail("bad fraction");
      while (p < t.size() && t[p] >= '0' && t[p] <= '9') ++p;
    }
    if (p < t.size() && (t[p] == 'e' || t[p] == 'E'))
    {
      ++p;
      if (p < t.size() && (t[p] == '+' || t[p] == '-')) ++p;
      if (p >= t.size() || t[p] < '0' || t[p] > '9') return fail("bad exponent");
      while (p < t.size() && t[p] >= '0' && t[p] <= '9') ++p;
    }
    return true;
  }
  bool value(int depth)
  {
    if (depth > 2000) return fail("too deep");
    skipWs();
    if (p >= t.size()) return fail("unexpected end");
    char c = t[p];
    if (c == '"') return str();
    if (c == '{')
    {
      ++p; skipWs();
      if (p < t.size() && t[p] == '}') { ++p; return true; }
      for (;;)
      {
        skipWs();
        if (!str()) return false;
        skipWs();
        if (p >= t.size() || t[p] != ':') return fail("expected ':'");
        ++p;
        if (!value(depth + 1)) return false;
        skipWs();
        if (p < t.size() && t[p] == ',') { ++p; continue; }
        if (p < t.size() && t[p] == '}') { ++p; return true; }
        return fail("expected ',' or '}'");
      }
    }
    if (c == '[')
    {
      ++p; skipWs();
      if (p < t.size() && t[p] == ']') { ++p; return true; }
      for (;;)
      {
        if (!value(depth + 1)) return false;
        skipWs();
        if (p < t.size() && t[p] == ',') { ++p; continue; }
        if (p < t.size() && t[p] == ']') { ++p; return true; }
        return fail("expected ',' or ']'");
      }
    }
    if (c == 't') { if (t.compare(p, 4, "true") == 0) { p += 4; return true; } return fail("bad literal"); }
    if (c == 'f') { if (t.compare(p, 5, "false") == 0) { p += 5; return true; } return fail("bad literal"); }
    if (c == 'n') { if (t.compare(p, 4, "null") == 0) { p += 4; return true; } return fail("bad literal"); }
    if (c == '-' || (c >= '0' && c <= '9')) return num();
    return fail("unexpected character");
  }
};

inline bool validate(const std::string &text, std::string &err)
{
  Validator v(text);
  if (!v.value(0)) { err = v.err; return false; }
  v.skipWs();
  if (v.p != text.size()) { err = "trailing characters at " + std::to_string(v.p); return false; }
  return true;
}

} // namespace refjson
