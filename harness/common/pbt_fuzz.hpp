// pbt_fuzz.hpp - helpers for libFuzzer targets: statistics that survive a trap,
// oracle failure reporting with a structural signature, known-finding exclusion.
// Header-only (fuzz targets do not link pbt_rc.o).
#pragma once
#include <cstdint>
#include <cstdio>
#include <cstdlib>
#include <cstring>
#include <map>
#include <set>
#include <string>
#include <string_view>
#include <unordered_set>
#include <vector>

namespace pbtf
{

inline std::uint64_t hash64(std::string_view s)
{
  std::uint64_t h = 1469598103934665603ULL;
  for (unsigned char ch : s)
  {
    h ^= ch;
    h *= 1099511628211ULL;
  }
  return h;
}

inline std::string jsonEscape(std::string_view s)
{
  std::string o = "\"";
  static const char *hexd = "0123456789abcdef";
  for (unsigned char ch : s)
  {
    if (ch == '"') o += "\\\"";
    else if (ch == '\\') o += "\\\\";
    else if (ch < 0x20 || ch >= 0x7f)
    {
      o += "\\u00";
      o += hexd[ch >> 4];
      o += hexd[ch & 15];
    }
    else
      o += (char)ch;
  }
  return o + "\"";
}

struct Stats
{
  std::uint64_t evaluations = 0, ntTotal = 0;
  std::unordered_set<std::uint64_t> digests;
  std::map<std::string, std::uint64_t> labels;
  std::map<std::string, std::uint64_t> excluded;
  std::vector<std::string> samples;
  std::set<std::string> known;
  bool inited = false;

  static Stats &get()
  {
    static Stats *s = new Stats;
    if (!s->inited)
    {
      s->inited = true;
      if (const char *k = std::getenv("PBT_KNOWN"))
      {
        std::string cur;
        for (const char *p = k;; ++p)
        {
          if (*p == ',' || *p == 0)
          {
            if (!cur.empty()) s->known.insert(cur);
            cur.clear();
            if (!*p) break;
          }
          else
            cur += *p;
        }
      }
      std::atexit([] { Stats::get().dump(); });
    }
    return *s;
  }

  void dump()
  {
    const char *path = std::getenv("PBT_FUZZ_STATS");
    if (!path) return;
    std::string o = "{\"evaluations\": " + std::to_string(evaluations) +
                    ", \"nontrivial_total\": " + std::to_string(ntTotal) + ", \"nontrivial_digests\": [";
    bool first = true;
    for (auto d : digests)
    {
      if (!first) o += ",";
      first = false;
      char b[32];
      std::snprintf(b, sizeof b, "\"%llx\"", (unsigned long long)d);
      o += b;
    }
    o += "], \"labels\": {";
    first = true;
    for (auto &kv : labels)
    {
      if (!first) o += ",";
      first = false;
      o += jsonEscape(kv.first) + ": " + std::to_string(kv.second);
    }
    o += "}, \"excluded_known\": {";
    first = true;
    for (auto &kv : excluded)
    {
      if (!first) o += ",";
      first = false;
      o += jsonEscape(kv.first) + ": {\"count\": " + std::to_string(kv.second) + ", \"example\": \"\"}";
    }
    o += "}, \"samples\": [";
    for (std::size_t i = 0; i < samples.size(); ++i)
    {
      if (i) o += ",";
      o += jsonEscape(samples[i]);
    }
    o += "]}";
    FILE *f = std::fopen(path, "w");
    if (!f) return;
    std::fwrite(o.data(), 1, o.size(), f);
    std::fclose(f);
  }
};

inline void count() { ++Stats::get().evaluations; }
inline void label(const std::string &l) { ++Stats::get().labels[l]; }
/// mark the current input non-trivial (digest = identity of the input for distinct counting)
inline void nontrivial(std::uint64_t digest, std::string_view sampleText = {})
{
  Stats &s = Stats::get();
  ++s.ntTotal;
  bool isNew = s.digests.size() < 200000 && s.digests.insert(digest).second;
  if (isNew && !sampleText.empty())
  {
    auto n = s.digests.size();
    if ((n <= 2 || (n & (n - 1)) == 0) && s.samples.size() < 8)
      s.samples.emplace_back(sampleText.substr(0, 400));
  }
}
inline bool isKnown(const std::string &sig) { return Stats::get().known.count(sig) != 0; }

/// Oracle failure: returns (case excluded) if the signature is a listed known
/// finding, otherwise reports and traps (libFuzzer saves the input).
inline bool fail(const std::string &sig, const std::string &what)
{
  Stats &s = Stats::get();
  if (s.known.count(sig))
  {
    ++s.excluded[sig];
    return true;
  }
  std::fprintf(stderr, "PBT-FAIL sig=%s what=%s\n", sig.c_str(), what.c_str());
  std::fflush(stderr);
  s.dump();
  __builtin_trap();
}

} // namespace pbtf
