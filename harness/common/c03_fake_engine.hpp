// c03_fake_engine.hpp - scripted implementation of iora::network::detail::EngineBase
// for the Transport-layer checks (C03, C04).
//
// The fake owns no thread and no socket. Whoever calls fireConnect/fireData/fireClose
// "is" the I/O thread for that event: the sequential C03 harness calls them from the
// application thread itself, the concurrent harnesses from a scripted I/O thread
// (see IoThread below). connect()/close()/stop() run on the *caller's* thread, exactly
// like TcpEngine's enqueue-only entry points, and invoke optional hooks so that a plan
// can place engine events INSIDE those calls (e.g. inside the close(sid) call that
// Transport::connectSync issues after its timeout).
//
// Per-session legality of engine events is enforced here (it is the engine contract
// that Transport may rely on, cf. engine_base.hpp / tcp_engine.hpp):
//   Connecting --onConnect--> Open ; {Connecting,Open} --onClose--> Closed (exactly once);
//   onData only while Open ; nothing after Closed.
// Illegal fire requests are refused (return false) and never reach the Transport.
//
// The injector struct is the name transport.hpp befriends; it is defined here, so the
// harness does not depend on /repo/tests.
#pragma once

#include <iora/network/transport.hpp>
#include <iora/network/transport_impl.hpp>

#include <atomic>
#include <chrono>
#include <condition_variable>
#include <cstdint>
#include <deque>
#include <functional>
#include <map>
#include <memory>
#include <mutex>
#include <string>
#include <thread>
#include <vector>

namespace iora
{
namespace network
{
namespace test
{
struct TransportEngineInjector
{
  static std::shared_ptr<Transport> withEngine(std::unique_ptr<detail::EngineBase> engine,
                                               TransportConfig config)
  {
    return Transport::withEngine(std::move(engine), std::move(config));
  }
};
} // namespace test
} // namespace network
} // namespace iora

namespace fakeeng
{

namespace net = iora::network;
using net::SessionId;

enum class SessState
{
  Connecting,
  Open,
  Closed
};

class FakeEngine final : public net::detail::EngineBase
{
public:
  struct ConnectCall
  {
    SessionId sid{0};
    std::string host;
    std::uint16_t port{0};
    net::TlsMode tls{net::TlsMode::None};
    std::thread::id caller;
    std::uint64_t seq{0};
  };
  struct CloseCall
  {
    SessionId sid{0};
    std::thread::id caller;
    std::uint64_t seq{0};
    bool accepted{false}; // close() returned true
  };
  struct Sess
  {
    SessState st{SessState::Connecting};
    std::uint64_t connectFiredSeq{0}; // set BEFORE onConnect is invoked
    std::uint64_t connectDoneSeq{0};  // set AFTER onConnect returned
    std::uint64_t closeFiredSeq{0};   // set BEFORE onClose is invoked
    std::uint64_t closeDoneSeq{0};
    net::TransportError closeCode{net::TransportError::None};
    std::uint64_t closeCallSeq{0}; // first close(sid) call by the transport / application
    unsigned closeCalls{0};
  };

  /// Hooks run on the thread that calls connect()/close()/stop(), with no fake lock held.
  struct Hooks
  {
    std::function<net::TransportError()> preConnect; // != None: connect() fails synchronously with it
    std::function<void(SessionId)> inConnect; // after the sid is allocated, before connect() returns
    std::function<void(SessionId, bool)> inClose; // after the close is recorded (2nd arg: close() accepted
                                                  // it, i.e. the engine was running), before close() returns
    std::function<void()> inStop;             // after _running was cleared, before stop() returns
  };

  FakeEngine() = default;

  void setHooks(Hooks h) { _hooks = std::move(h); }
  /// which thread Transport shall regard as the I/O thread (default: none)
  void setIoThreadId(std::thread::id id)
  {
    std::lock_guard<std::mutex> lk(_mu);
    _ioId = id;
  }
  /// make connect() fail synchronously with this code (None = succeed)
  void setConnectError(net::TransportError e) { _connectError.store(static_cast<int>(e)); }

  // ---- events fired by the scripted I/O side ----------------------------------------
  /// register a session that exists without connect() (accepted / pre-opened)
  SessionId openSession(bool announceAccept = false)
  {
    SessionId sid;
    {
      std::lock_guard<std::mutex> lk(_mu);
      sid = _nextSid++;
      _sess[sid].st = SessState::Open;
    }
    if (announceAccept && _cbs.onAccept) _cbs.onAccept(sid, net::TransportAddress{"127.0.0.1", 9});
    return sid;
  }

  bool fireConnect(SessionId sid)
  {
    {
      std::lock_guard<std::mutex> lk(_mu);
      auto it = _sess.find(sid);
      if (it == _sess.end() || it->second.st != SessState::Connecting || !_running.load()) return false;
      it->second.st = SessState::Open;
      it->second.connectFiredSeq = ++_seq;
    }
    if (_cbs.onConnect) _cbs.onConnect(sid, net::TransportAddress{"127.0.0.1", 9});
    {
      std::lock_guard<std::mutex> lk(_mu);
      _sess[sid].connectDoneSeq = ++_seq;
    }
    return true;
  }

  bool fireData(SessionId sid, const void *p, std::size_t n)
  {
    {
      std::lock_guard<std::mutex> lk(_mu);
      auto it = _sess.find(sid);
      if (it == _sess.end() || it->second.st != SessState::Open || n == 0) return false;
    }
    if (_cbs.onData)
      _cbs.onData(sid, iora::core::BufferView{static_cast<const std::uint8_t *>(p), n},
                  std::chrono::steady_clock::now());
    return true;
  }

  bool fireClose(SessionId sid, net::TransportError code, const std::string &msg)
  {
    {
      std::lock_guard<std::mutex> lk(_mu);
      auto it = _sess.find(sid);
      if (it == _sess.end() || it->second.st == SessState::Closed) return false;
      it->second.st = SessState::Closed;
      it->second.closeFiredSeq = ++_seq;
      it->second.closeCode = code;
    }
    if (_cbs.onClose) _cbs.onClose(sid, net::TransportErrorInfo{code, msg, 0, 0});
    {
      std::lock_guard<std::mutex> lk(_mu);
      _sess[sid].closeDoneSeq = ++_seq;
    }
    return true;
  }

  /// what TcpEngine does when it processes a Close command: close if still present
  bool processAppClose(SessionId sid)
  {
    return fireClose(sid, net::TransportError::Unknown, "closed by app");
  }

  /// what TcpEngine::shutdownDrain does: every live session gets onClose("shutdown")
  void fireShutdownCloses()
  {
    std::vector<SessionId> live;
    {
      std::lock_guard<std::mutex> lk(_mu);
      for (auto &kv : _sess)
        if (kv.second.st != SessState::Closed) live.push_back(kv.first);
    }
    for (auto sid : live) fireClose(sid, net::TransportError::Unknown, "shutdown");
  }

  // ---- inspection --------------------------------------------------------------------
  std::uint64_t now()
  {
    std::lock_guard<std::mutex> lk(_mu);
    return ++_seq;
  }
  Sess session(SessionId sid) const
  {
    std::lock_guard<std::mutex> lk(_mu);
    auto it = _sess.find(sid);
    return it == _sess.end() ? Sess{} : it->second;
  }
  bool known(SessionId sid) const
  {
    std::lock_guard<std::mutex> lk(_mu);
    return _sess.count(sid) != 0;
  }
  std::vector<ConnectCall> connectCalls() const
  {
    std::lock_guard<std::mutex> lk(_mu);
    return _connects;
  }
  std::vector<CloseCall> closeCalls() const
  {
    std::lock_guard<std::mutex> lk(_mu);
    return _closes;
  }
  std::map<SessionId, Sess> sessions() const
  {
    std::lock_guard<std::mutex> lk(_mu);
    return _sess;
  }
  std::vector<std::string> sent(SessionId sid) const
  {
    std::lock_guard<std::mutex> lk(_mu);
    auto it = _sent.find(sid);
    return it == _sent.end() ? std::vector<std::string>{} : it->second;
  }

  // ---- EngineBase --------------------------------------------------------------------
  net::StartResult start() override
  {
    _everStarted.store(true);
    _running.store(true);
    return net::StartResult::ok();
  }
  void stop() override
  {
    {
      // under _mu: a session inserted by a racing connect() is either refused or visible
      // to the shutdown closes that follow (TcpEngine: closed command queue / shutdownDrain)
      std::lock_guard<std::mutex> lk(_mu);
      bool exp = true;
      if (!_running.compare_exchange_strong(exp, false)) return;
    }
    if (_hooks.inStop) _hooks.inStop();
  }
  bool isRunning() const override { return _running.load(); }
  net::TransportErrorInfo lastError() const override { return {}; }

  net::ListenResult addListener(const std::string &, std::uint16_t, net::TlsMode) override
  {
    return net::ListenResult::ok(1);
  }

  net::ConnectResult connect(const std::string &host, std::uint16_t port, net::TlsMode tls) override
  {
    int ce = _connectError.load();
    if (ce != static_cast<int>(net::TransportError::None))
      return net::ConnectResult::err(
        net::TransportErrorInfo{static_cast<net::TransportError>(ce), "fake: connect refused synchronously"});
    if (_hooks.preConnect)
    {
      net::TransportError pe = _hooks.preConnect();
      if (pe != net::TransportError::None)
        return net::ConnectResult::err(net::TransportErrorInfo{pe, "fake: connect failed synchronously"});
    }
    SessionId sid;
    {
      std::lock_guard<std::mutex> lk(_mu);
      // like TcpEngine: a STOPPED engine refuses (closed command queue); an engine that has never been
      // started accepts the command - it is executed once the engine runs
      if (!_running.load() && _everStarted.load())
        return net::ConnectResult::err(
          net::TransportErrorInfo{net::TransportError::ShuttingDown, "fake: not running"});
      sid = _nextSid++;
      _sess[sid].st = SessState::Connecting;
      _connects.push_back(ConnectCall{sid, host, port, tls, std::this_thread::get_id(), ++_seq});
    }
    if (_hooks.inConnect) _hooks.inConnect(sid);
    return net::ConnectResult::ok(sid);
  }
  net::ConnectResult connectViaListener(net::ListenerId, const std::string &, std::uint16_t) override
  {
    return net::ConnectResult::err(net::TransportErrorInfo{net::TransportError::Config, "fake"});
  }
  bool close(SessionId sid) override
  {
    bool ok = _running.load() || !_everStarted.load(); // (never started: the command is queued, see connect())
    {
      std::lock_guard<std::mutex> lk(_mu);
      std::uint64_t s = ++_seq;
      _closes.push_back(CloseCall{sid, std::this_thread::get_id(), s, ok});
      auto it = _sess.find(sid);
      if (it != _sess.end())
      {
        if (it->second.closeCalls++ == 0) it->second.closeCallSeq = s;
      }
    }
    if (_hooks.inClose) _hooks.inClose(sid, ok);
    return ok;
  }
  bool send(SessionId sid, const void *data, std::size_t len) override
  {
    std::lock_guard<std::mutex> lk(_mu);
    _sent[sid].emplace_back(static_cast<const char *>(data), len);
    return _running.load();
  }
  void sendAsync(SessionId sid, const void *data, std::size_t len, net::SendCompleteCallback cb) override
  {
    bool ok = send(sid, data, len);
    if (cb) cb(sid, ok ? net::SendResult::ok(len)
                       : net::SendResult::err(net::TransportErrorInfo{net::TransportError::Socket, "fake"}));
  }
  void setCallbacks(Callbacks cbs) override { _cbs = std::move(cbs); }
  net::TransportStats getStats() const override { return {}; }
  net::TransportAddress getListenerAddress(net::ListenerId) const override { return {}; }
  net::TransportAddress getLocalAddress(SessionId) const override { return {}; }
  net::TransportAddress getRemoteAddress(SessionId) const override { return {}; }
  bool setDscp(SessionId, std::uint8_t) override { return true; }
  std::thread::id getIoThreadId() const override
  {
    std::lock_guard<std::mutex> lk(_mu);
    return _ioId;
  }
  void detachForTermination() override { _running.store(false); }
  void scheduleSelfDestruct(std::function<void()> deleter) override { _selfDestruct = std::move(deleter); }

private:
  mutable std::mutex _mu;
  Callbacks _cbs;
  Hooks _hooks;
  std::atomic<bool> _running{false};
  std::atomic<bool> _everStarted{false};
  std::atomic<int> _connectError{static_cast<int>(net::TransportError::None)};
  std::thread::id _ioId{};
  SessionId _nextSid{1};
  std::uint64_t _seq{0};
  std::map<SessionId, Sess> _sess;
  std::vector<ConnectCall> _connects;
  std::vector<CloseCall> _closes;
  std::map<SessionId, std::vector<std::string>> _sent;
  std::function<void()> _selfDestruct;
};

/// A scripted I/O thread: executes posted tasks in due-time order. Callers can wait
/// until a task has *started* (it is about to invoke an engine callback and may then
/// block on a Transport mutex the caller holds) or until it has *finished*.
class IoThread
{
public:
  using Clock = std::chrono::steady_clock;
  struct Ticket
  {
    std::mutex mu;
    std::condition_variable cv;
    bool started{false};
    bool done{false};
    void waitStarted()
    {
      std::unique_lock<std::mutex> lk(mu);
      cv.wait(lk, [this] { return started; });
    }
    void waitDone()
    {
      std::unique_lock<std::mutex> lk(mu);
      cv.wait(lk, [this] { return done; });
    }
    /// bounded variants for callers that hold a lock the task may need
    bool waitStartedFor(std::chrono::microseconds d)
    {
      std::unique_lock<std::mutex> lk(mu);
      return cv.wait_for(lk, d, [this] { return started; });
    }
    bool waitDoneFor(std::chrono::microseconds d)
    {
      std::unique_lock<std::mutex> lk(mu);
      return cv.wait_for(lk, d, [this] { return done; });
    }
  };

  IoThread() { _th = std::thread([this] { run(); }); }
  ~IoThread() { join(); }
  IoThread(const IoThread &) = delete;
  IoThread &operator=(const IoThread &) = delete;

  std::thread::id id() const { return _th.get_id(); }

  std::shared_ptr<Ticket> post(std::function<void()> fn, std::chrono::microseconds delay = std::chrono::microseconds{0})
  {
    auto t = std::make_shared<Ticket>();
    {
      std::lock_guard<std::mutex> lk(_mu);
      _q.push_back(Item{Clock::now() + delay, _order++, std::move(fn), t});
    }
    _cv.notify_all();
    return t;
  }

  /// wait until every task posted so far has run
  void drain()
  {
    std::unique_lock<std::mutex> lk(_mu);
    _idleCv.wait(lk, [this] { return _q.empty() && !_busy; });
  }

  void join()
  {
    {
      std::lock_guard<std::mutex> lk(_mu);
      if (_stop) return;
      _stop = true;
    }
    _cv.notify_all();
    if (_th.joinable()) _th.join();
  }

private:
  struct Item
  {
    Clock::time_point due;
    std::uint64_t order;
    std::function<void()> fn;
    std::shared_ptr<Ticket> ticket;
  };
  void run()
  {
    std::unique_lock<std::mutex> lk(_mu);
    for (;;)
    {
      if (_q.empty())
      {
        if (_stop) return;
        _cv.wait(lk);
        continue;
      }
      // earliest due, FIFO among equals
      std::size_t best = 0;
      for (std::size_t i = 1; i < _q.size(); ++i)
        if (_q[i].due < _q[best].due || (_q[i].due == _q[best].due && _q[i].order < _q[best].order)) best = i;
      auto now = Clock::now();
      if (_q[best].due > now && !_stop)
      {
        _cv.wait_until(lk, _q[best].due);
        continue;
      }
      Item it = std::move(_q[best]);
      _q.erase(_q.begin() + static_cast<std::ptrdiff_t>(best));
      _busy = true;
      lk.unlock();
      {
        std::lock_guard<std::mutex> tl(it.ticket->mu);
        it.ticket->started = true;
      }
      it.ticket->cv.notify_all();
      it.fn();
      {
        std::lock_guard<std::mutex> tl(it.ticket->mu);
        it.ticket->done = true;
      }
      it.ticket->cv.notify_all();
      lk.lock();
      _busy = false;
      _idleCv.notify_all();
    }
  }

  std::mutex _mu;
  std::condition_variable _cv, _idleCv;
  std::deque<Item> _q;
  std::uint64_t _order{0};
  bool _busy{false};
  bool _stop{false};
  std::thread _th;
};

} // namespace fakeeng
