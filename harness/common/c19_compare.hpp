// c19_compare.hpp - comparison of iora's DnsResult with a reference message tree, and the
// invariants of any decoded message. Shared by harness/c19_dns.cpp and harness/fuzz_dns.cpp.
#pragma once
#include "c19_ref_dns.hpp"
#include "pbt.hpp"

#include <iora/network/dns/dns_message.hpp>

#include <arpa/inet.h>
#include <map>
#include <set>

namespace c19
{
using namespace iora::network::dns;
using refdns::Bytes;
using refdns::Labels;
using refdns::Message;
using refdns::RR;

// ---- signatures of findings (one place, so that generator exclusions and oracle agree) ----
inline const char *const SIG_OPAQUE_HIGH = "C19/construct/opaque-rdata-byte-ge-0xC0-rejected"; // AAAA / TXT
inline const char *const SIG_A_192 = "C19/construct/a-record-192.0-63.0.0-rejected";
inline const char *const SIG_MAXLEN = "C19/construct/255-octet-name-rejected";
inline const char *const SIG_EMPTY_RDATA = "ubsan:reference binding to null pointer of type 'const __gnu_cxx::@dns_message.hpp:validateRdataSecurity";
inline const char *const SIG_TTL0 = "C19/cache/zero-ttl-answer-served";

inline std::string_view sv(const Bytes &b) { return std::string_view(reinterpret_cast<const char *>(b.data()), b.size()); }

inline std::string typeName(std::uint16_t t)
{
  switch (t)
  {
  case 1: return "A";
  case 2: return "NS";
  case 5: return "CNAME";
  case 6: return "SOA";
  case 12: return "PTR";
  case 15: return "MX";
  case 16: return "TXT";
  case 28: return "AAAA";
  case 33: return "SRV";
  case 35: return "NAPTR";
  default: return "TYPE" + std::to_string(t);
  }
}
// ======================================================================================
// Comparison of iora's DnsResult with the generating message
// ======================================================================================
struct Diff
{
  std::string shape, why;
  bool ok() const { return shape.empty(); }
};

inline std::string ipv4Text(const Bytes &a)
{
  return std::to_string(a[0]) + "." + std::to_string(a[1]) + "." + std::to_string(a[2]) + "." + std::to_string(a[3]);
}

inline bool nameEq(const std::string &got, const Labels &exp) { return got == refdns::dotted(exp); }
inline std::string nm(const Labels &l) { return pbt::show(refdns::dotted(l), 80); }

inline Diff compareGeneric(const char *sec, const std::vector<DnsResourceRecord> &got, const std::vector<RR> &exp)
{
  if (got.size() != exp.size())
    return {"section-count", pbt::Fmt() << sec << ": " << got.size() << " records decoded, " << exp.size() << " encoded"};
  for (std::size_t i = 0; i < exp.size(); ++i)
  {
    const auto &g = got[i];
    const auto &e = exp[i];
    std::string at = std::string(sec) + "[" + std::to_string(i) + "] " + typeName(e.type);
    if (!nameEq(g.name, e.owner))
      return {e.pointersInOwner ? "owner-name-compressed" : "owner-name", at + ": owner " + pbt::show(g.name, 80) + " != " + nm(e.owner)};
    if ((std::uint16_t)g.type != e.type || (std::uint16_t)g.cls != e.cls)
      return {"rr-type-class", pbt::Fmt() << at << ": type/class " << (unsigned)g.type << "/" << (unsigned)g.cls << " != " << e.type << "/" << e.cls};
    if (g.ttl != e.ttl) return {"rr-ttl", pbt::Fmt() << at << ": ttl " << g.ttl << " != " << e.ttl};
    if (g.rdlength != e.rdata.size() || g.rdata != e.rdata)
      return {"rr-rdata", pbt::Fmt() << at << ": raw RDATA differs (rdlength " << g.rdlength << ", encoded " << e.rdata.size() << ")"};
  }
  return {};
}

template <class T> Diff typedHead(const char *what, const std::vector<T> &got, const std::vector<const RR *> &exp)
{
  if (got.size() != exp.size())
    return {std::string("typed-") + what + (got.size() < exp.size() ? "-missing" : "-extra"),
            pbt::Fmt() << what << " records: " << got.size() << " decoded, " << exp.size() << " encoded"};
  for (std::size_t i = 0; i < exp.size(); ++i)
  {
    if (!nameEq(got[i].name, exp[i]->owner))
      return {std::string("typed-") + what, pbt::Fmt() << what << "[" << i << "]: owner " << pbt::show(got[i].name, 80) << " != " << nm(exp[i]->owner)};
    if (got[i].ttl != exp[i]->ttl)
      return {std::string("typed-") + what, pbt::Fmt() << what << "[" << i << "]: ttl " << got[i].ttl << " != " << exp[i]->ttl};
  }
  return {};
}

inline Diff compare(const DnsResult &r, const Message &m)
{
  const auto &h = r.header;
  if (h.id != m.h.id || h.qr != m.h.qr || (unsigned)h.opcode != m.h.opcode || h.aa != m.h.aa || h.tc != m.h.tc ||
      h.rd != m.h.rd || h.ra != m.h.ra || h.z != m.h.z || (unsigned)h.rcode != m.h.rcode)
    return {"header", "header id/flags differ"};
  if (h.qdcount != m.qd.size() || h.ancount != m.an.size() || h.nscount != m.ns.size() || h.arcount != m.ar.size())
    return {"header", "header counts differ"};
  if (r.questions.size() != m.qd.size())
    return {"question-count", pbt::Fmt() << r.questions.size() << " questions decoded, " << m.qd.size() << " encoded"};
  for (std::size_t i = 0; i < m.qd.size(); ++i)
  {
    if (!nameEq(r.questions[i].qname, m.qd[i].name))
      return {"question-name", pbt::Fmt() << "question[" << i << "]: " << pbt::show(r.questions[i].qname, 80) << " != " << nm(m.qd[i].name)};
    if ((std::uint16_t)r.questions[i].qtype != m.qd[i].type || (std::uint16_t)r.questions[i].qclass != m.qd[i].cls)
      return {"question-type-class", pbt::Fmt() << "question[" << i << "]: type/class differ"};
  }
  Diff d = compareGeneric("answers", r.answers, m.an);
  if (!d.ok()) return d;
  d = compareGeneric("authority", r.authority, m.ns);
  if (!d.ok()) return d;
  d = compareGeneric("additional", r.additional, m.ar);
  if (!d.ok()) return d;

  // typed views are compared for class IN records; a type that also occurs with another
  // class in this message is left alone (typed decoding of non-IN RDATA is not specified)
  std::map<std::uint16_t, std::vector<const RR *>> by;
  std::set<std::uint16_t> nonIn;
  for (auto *v : {&m.an, &m.ns, &m.ar})
    for (auto &x : *v)
    {
      if (x.cls == 1) by[x.type].push_back(&x);
      else nonIn.insert(x.type);
    }
  auto ptrTag = [](const RR *e) { return e->pointersInRdata ? std::string("-compressed") : std::string(); };

  if (!nonIn.count(refdns::T_A))
  {
    auto &e = by[refdns::T_A];
    d = typedHead("A", r.a_records, e);
    if (!d.ok()) return d;
    for (std::size_t i = 0; i < e.size(); ++i)
      if (r.a_records[i].address != ipv4Text(e[i]->addr))
        return {"typed-A", pbt::Fmt() << "A[" << i << "]: address " << r.a_records[i].address << " != " << ipv4Text(e[i]->addr)};
  }
  if (!nonIn.count(refdns::T_AAAA))
  {
    auto &e = by[refdns::T_AAAA];
    d = typedHead("AAAA", r.aaaa_records, e);
    if (!d.ok()) return d;
    for (std::size_t i = 0; i < e.size(); ++i)
    {
      unsigned char b[16];
      // independent partner: the text must denote the encoded 16 octets
      if (inet_pton(AF_INET6, r.aaaa_records[i].address.c_str(), b) != 1 || std::memcmp(b, e[i]->addr.data(), 16) != 0)
        return {"typed-AAAA", pbt::Fmt() << "AAAA[" << i << "]: address text " << pbt::show(r.aaaa_records[i].address, 60)
                                         << " does not denote " << pbt::hex(sv(e[i]->addr), 16)};
    }
  }
  if (!nonIn.count(refdns::T_CNAME))
  {
    auto &e = by[refdns::T_CNAME];
    d = typedHead("CNAME", r.cname_records, e);
    if (!d.ok()) return d;
    for (std::size_t i = 0; i < e.size(); ++i)
      if (!nameEq(r.cname_records[i].cname, e[i]->n1))
        return {"typed-CNAME" + ptrTag(e[i]), pbt::Fmt() << "CNAME[" << i << "]: " << pbt::show(r.cname_records[i].cname, 80) << " != " << nm(e[i]->n1)};
  }
  if (!nonIn.count(refdns::T_PTR))
  {
    auto &e = by[refdns::T_PTR];
    d = typedHead("PTR", r.ptr_records, e);
    if (!d.ok()) return d;
    for (std::size_t i = 0; i < e.size(); ++i)
      if (!nameEq(r.ptr_records[i].ptrdname, e[i]->n1))
        return {"typed-PTR" + ptrTag(e[i]), pbt::Fmt() << "PTR[" << i << "]: " << pbt::show(r.ptr_records[i].ptrdname, 80) << " != " << nm(e[i]->n1)};
  }
  if (!nonIn.count(refdns::T_MX))
  {
    auto &e = by[refdns::T_MX];
    d = typedHead("MX", r.mx_records, e);
    if (!d.ok()) return d;
    for (std::size_t i = 0; i < e.size(); ++i)
      if (r.mx_records[i].preference != e[i]->v1 || !nameEq(r.mx_records[i].exchange, e[i]->n1))
        return {"typed-MX" + ptrTag(e[i]), pbt::Fmt() << "MX[" << i << "]: " << r.mx_records[i].preference << " " << pbt::show(r.mx_records[i].exchange, 80)
                                                       << " != " << e[i]->v1 << " " << nm(e[i]->n1)};
  }
  if (!nonIn.count(refdns::T_SRV))
  {
    auto &e = by[refdns::T_SRV];
    d = typedHead("SRV", r.srv_records, e);
    if (!d.ok()) return d;
    for (std::size_t i = 0; i < e.size(); ++i)
    {
      const auto &g = r.srv_records[i];
      if (g.priority != e[i]->v1 || g.weight != e[i]->v2 || g.port != e[i]->v3 || !nameEq(g.target, e[i]->n1))
        return {"typed-SRV" + ptrTag(e[i]), pbt::Fmt() << "SRV[" << i << "]: " << g.priority << " " << g.weight << " " << g.port << " "
                                                        << pbt::show(g.target, 80) << " != " << e[i]->v1 << " " << e[i]->v2 << " " << e[i]->v3 << " " << nm(e[i]->n1)};
    }
  }
  if (!nonIn.count(refdns::T_NAPTR))
  {
    auto &e = by[refdns::T_NAPTR];
    d = typedHead("NAPTR", r.naptr_records, e);
    if (!d.ok()) return d;
    for (std::size_t i = 0; i < e.size(); ++i)
    {
      const auto &g = r.naptr_records[i];
      if (g.order != e[i]->v1 || g.preference != e[i]->v2 || g.flags != e[i]->s1 || g.service != e[i]->s2 || g.regexp != e[i]->s3 ||
          !nameEq(g.replacement, e[i]->n1))
        return {"typed-NAPTR" + ptrTag(e[i]), pbt::Fmt() << "NAPTR[" << i << "]: order/pref " << g.order << "/" << g.preference << " flags " << pbt::show(g.flags, 20)
                                                          << " service " << pbt::show(g.service, 30) << " regexp " << pbt::show(g.regexp, 60) << " replacement "
                                                          << pbt::show(g.replacement, 80) << " != encoded " << e[i]->v1 << "/" << e[i]->v2 << " " << pbt::show(e[i]->s1, 20) << " "
                                                          << pbt::show(e[i]->s2, 30) << " " << pbt::show(e[i]->s3, 60) << " " << nm(e[i]->n1)};
    }
  }
  if (!nonIn.count(refdns::T_SOA))
  {
    auto &e = by[refdns::T_SOA];
    d = typedHead("SOA", r.soa_records, e);
    if (!d.ok()) return d;
    for (std::size_t i = 0; i < e.size(); ++i)
    {
      const auto &g = r.soa_records[i];
      if (!nameEq(g.mname, e[i]->n1) || !nameEq(g.rname, e[i]->n2) || g.serial != e[i]->soa[0] || g.refresh != e[i]->soa[1] ||
          g.retry != e[i]->soa[2] || g.expire != e[i]->soa[3] || g.minimum != e[i]->soa[4])
        return {"typed-SOA" + ptrTag(e[i]), pbt::Fmt() << "SOA[" << i << "]: mname " << pbt::show(g.mname, 60) << " rname " << pbt::show(g.rname, 60) << " " << g.serial << " "
                                                        << g.refresh << " " << g.retry << " " << g.expire << " " << g.minimum << " != " << nm(e[i]->n1) << " " << nm(e[i]->n2)
                                                        << " " << e[i]->soa[0] << " " << e[i]->soa[1] << " " << e[i]->soa[2] << " " << e[i]->soa[3] << " " << e[i]->soa[4]};
    }
  }
  if (!nonIn.count(refdns::T_TXT))
  {
    auto &e = by[refdns::T_TXT];
    d = typedHead("TXT", r.txt_records, e);
    if (!d.ok()) return d;
    for (std::size_t i = 0; i < e.size(); ++i)
      if (r.txt_records[i].text != e[i]->txt)
        return {"typed-TXT", pbt::Fmt() << "TXT[" << i << "]: " << r.txt_records[i].text.size() << " strings decoded, " << e[i]->txt.size() << " encoded (or contents differ)"};
  }
  return {};
}

/// which finding-shaped feature of a VALID message explains a rejection (for signatures)
inline std::string rejectionSig(const Message &m, const std::string &what)
{
  bool hasMax = false;
  auto chk = [&](const Labels &l) { if (refdns::wireLen(l) == 255) hasMax = true; };
  for (auto &q : m.qd) chk(q.name);
  for (auto *v : {&m.an, &m.ns, &m.ar})
    for (auto &r : *v)
    {
      chk(r.owner);
      chk(r.n1);
      chk(r.n2);
    }
  if (what.find("alicious") != std::string::npos)
    return what.find("A record") != std::string::npos ? SIG_A_192 : SIG_OPAQUE_HIGH;
  if (what.find("name too long") != std::string::npos && hasMax) return SIG_MAXLEN;
  return "C19/construct/rejected-valid";
}

/// Invariants of ANY successfully decoded message of `size` octets (sound for every
/// correct decoder): section sizes equal the header counts, records are laid out one
/// after the other inside the buffer, typed views are sub-sequences of the generic ones.
inline std::string decodedInvariant(const DnsResult &r, std::size_t size)
{
  if (r.questions.size() != r.header.qdcount || r.answers.size() != r.header.ancount || r.authority.size() != r.header.nscount ||
      r.additional.size() != r.header.arcount)
    return "section sizes differ from the header counts";
  std::size_t need = 12 + 5 * r.questions.size();
  std::map<std::uint16_t, std::vector<const DnsResourceRecord *>> by;
  for (auto *v : {&r.answers, &r.authority, &r.additional})
    for (auto &x : *v)
    {
      if (x.rdlength != x.rdata.size()) return "rdlength differs from the RDATA size";
      need += 11 + x.rdata.size();
      by[(std::uint16_t)x.type].push_back(&x);
    }
  if (need > size)
    return pbt::Fmt() << "decoded records need at least " << need << " octets, the message has " << size;
  auto sub = [&](std::uint16_t t, auto &typed) -> bool
  {
    auto &g = by[t];
    std::size_t j = 0;
    for (auto &x : typed)
    {
      while (j < g.size() && !(g[j]->name == x.name && g[j]->ttl == x.ttl)) ++j;
      if (j == g.size()) return false;
      ++j;
    }
    return true;
  };
  if (!sub(1, r.a_records) || !sub(28, r.aaaa_records) || !sub(33, r.srv_records) || !sub(35, r.naptr_records) || !sub(5, r.cname_records) ||
      !sub(15, r.mx_records) || !sub(16, r.txt_records) || !sub(12, r.ptr_records) || !sub(6, r.soa_records))
    return "a typed record has no generic record of its type with the same owner and ttl";
  return "";
}


} // namespace c19
