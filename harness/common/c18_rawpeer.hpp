// c18_rawpeer.hpp - raw POSIX-socket WebSocket peers for the C18 loopback properties.
// Shares no code with iora: blocking sockets, own opening handshake (OpenSSL SHA-1/base64
// through c18_ref_ws.hpp), own frame decoder. Segments are written one at a time; after each
// write the peer waits until the kernel reports that the bytes left our send queue AND the
// receive queue of the iora-side socket (found among this process's descriptors) is empty, so
// the endpoint under test really sees one read per segment.
#pragma once
#include "c18_ref_ws.hpp"

#include <arpa/inet.h>
#include <cerrno>
#include <chrono>
#include <cstring>
#include <dirent.h>
#include <fcntl.h>
#include <linux/sockios.h>
#include <netinet/in.h>
#include <netinet/tcp.h>
#include <poll.h>
#include <string>
#include <sys/ioctl.h>
#include <sys/socket.h>
#include <thread>
#include <unistd.h>
#include <vector>

namespace c18net
{

using Clock = std::chrono::steady_clock;

inline double secondsSince(Clock::time_point t0) { return std::chrono::duration<double>(Clock::now() - t0).count(); }

inline void setNoDelay(int fd)
{
  int one = 1;
  ::setsockopt(fd, IPPROTO_TCP, TCP_NODELAY, &one, sizeof one);
}

/// a TCP port that was free a moment ago (the kernel picked it for a probe socket)
inline int probeFreePort()
{
  int fd = ::socket(AF_INET, SOCK_STREAM, 0);
  if (fd < 0) return 0;
  sockaddr_in a{};
  a.sin_family = AF_INET;
  a.sin_addr.s_addr = htonl(INADDR_LOOPBACK);
  a.sin_port = 0;
  int port = 0;
  socklen_t len = sizeof a;
  if (::bind(fd, reinterpret_cast<sockaddr *>(&a), sizeof a) == 0 && ::getsockname(fd, reinterpret_cast<sockaddr *>(&a), &len) == 0)
    port = ntohs(a.sin_port);
  ::close(fd);
  return port;
}

inline int connectLoopback(int port, double timeoutSec = 10.0)
{
  auto t0 = Clock::now();
  for (;;)
  {
    int fd = ::socket(AF_INET, SOCK_STREAM, 0);
    if (fd < 0) return -1;
    sockaddr_in a{};
    a.sin_family = AF_INET;
    a.sin_addr.s_addr = htonl(INADDR_LOOPBACK);
    a.sin_port = htons(static_cast<std::uint16_t>(port));
    if (::connect(fd, reinterpret_cast<sockaddr *>(&a), sizeof a) == 0)
    {
      setNoDelay(fd);
      return fd;
    }
    ::close(fd);
    if (secondsSince(t0) > timeoutSec) return -1;
    std::this_thread::sleep_for(std::chrono::milliseconds(5));
  }
}

/// the other end of `fd` if it lives in this process: the descriptor whose local address is our
/// peer address and whose peer address is our local address. -1 if not found.
inline int findPeerFd(int fd)
{
  sockaddr_in mine{}, theirs{};
  socklen_t l1 = sizeof mine, l2 = sizeof theirs;
  if (::getsockname(fd, reinterpret_cast<sockaddr *>(&mine), &l1) != 0) return -1;
  if (::getpeername(fd, reinterpret_cast<sockaddr *>(&theirs), &l2) != 0) return -1;
  int found = -1;
  DIR *d = ::opendir("/proc/self/fd");
  if (!d) return -1;
  while (dirent *e = ::readdir(d))
  {
    if (e->d_name[0] < '0' || e->d_name[0] > '9') continue;
    int cand = std::atoi(e->d_name);
    if (cand == fd || cand == ::dirfd(d)) continue;
    sockaddr_in a{}, b{};
    socklen_t la = sizeof a, lb = sizeof b;
    if (::getsockname(cand, reinterpret_cast<sockaddr *>(&a), &la) != 0 || la < sizeof a || a.sin_family != AF_INET) continue;
    if (::getpeername(cand, reinterpret_cast<sockaddr *>(&b), &lb) != 0 || b.sin_family != AF_INET) continue;
    if (a.sin_port == theirs.sin_port && a.sin_addr.s_addr == theirs.sin_addr.s_addr && b.sin_port == mine.sin_port &&
        b.sin_addr.s_addr == mine.sin_addr.s_addr)
    {
      found = cand;
      break;
    }
  }
  ::closedir(d);
  return found;
}

/// One raw connection (either role). Not thread-safe; the reader methods are only called from
/// the thread that owns the connection.
struct RawConn
{
  int fd = -1;
  int peerFd = -1; // iora-side descriptor in this process (for the read barrier), -1 unknown
  std::string rx;  // every byte received so far and not yet consumed by the caller
  bool eof = false;
  bool resetSeen = false;
  std::size_t segmentsWritten = 0;
  std::size_t barriersExact = 0;
  std::uint64_t sentTotal = 0; // every byte written to fd, the opening handshake included

  ~RawConn() { closeNow(); }
  void closeNow()
  {
    if (fd >= 0) ::close(fd);
    fd = -1;
  }
  void shutdownWrite()
  {
    if (fd >= 0) ::shutdown(fd, SHUT_WR);
  }
  /// abortive close: RST instead of FIN (SO_LINGER 0)
  void resetNow()
  {
    if (fd < 0) return;
    linger lg{1, 0};
    ::setsockopt(fd, SOL_SOCKET, SO_LINGER, &lg, sizeof lg);
    closeNow();
  }
  /// forget the old connection completely (the object is reused for the next one)
  void reset()
  {
    closeNow();
    peerFd = -1;
    rx.clear();
    eof = false;
    resetSeen = false;
    segmentsWritten = barriersExact = 0;
    sentTotal = 0;
  }
  /// every segment written so far was followed by an exact, completed read barrier
  bool allBarriersExact() const { return peerFd >= 0 && barriersExact == segmentsWritten; }

  bool writeAll(const char *p, std::size_t n)
  {
    while (n)
    {
      ssize_t k = ::send(fd, p, n, MSG_NOSIGNAL);
      if (k < 0)
      {
        if (errno == EINTR) continue;
        if (errno == EAGAIN)
        {
          pollfd pf{fd, POLLOUT, 0};
          ::poll(&pf, 1, 1000);
          pump(0); // keep draining what the endpoint sends, or both sides can stall
          continue;
        }
        resetSeen = true;
        return false;
      }
      p += k;
      n -= static_cast<std::size_t>(k);
      sentTotal += static_cast<std::uint64_t>(k);
    }
    return true;
  }

  /// bytes the kernel has accepted into the receive side of `sock` so far (struct tcp_info,
  /// tcpi_bytes_received: offset 128 in the stable kernel ABI; <linux/tcp.h> cannot be included
  /// next to <netinet/tcp.h>). Returns false if the descriptor is gone.
  static bool bytesReceived(int sock, std::uint64_t &out)
  {
    alignas(8) unsigned char info[256];
    socklen_t len = sizeof info;
    if (::getsockopt(sock, IPPROTO_TCP, TCP_INFO, info, &len) != 0 || len < 136) return false;
    std::memcpy(&out, info + 128, sizeof out);
    return true;
  }

  /// read whatever is available (waits up to waitMs for the first byte)
  void pump(int waitMs)
  {
    if (fd < 0 || eof) return;
    for (;;)
    {
      pollfd pf{fd, POLLIN, 0};
      int r = ::poll(&pf, 1, waitMs);
      if (r <= 0) return;
      char buf[65536];
      ssize_t k = ::recv(fd, buf, sizeof buf, MSG_DONTWAIT);
      if (k > 0)
      {
        rx.append(buf, static_cast<std::size_t>(k));
        waitMs = 0;
        continue;
      }
      if (k == 0)
      {
        eof = true;
        return;
      }
      if (errno == EINTR) continue;
      if (errno == EAGAIN || errno == EWOULDBLOCK) return;
      eof = true;
      resetSeen = true;
      return;
    }
  }

  /// write one segment and wait until the endpoint under test has read all of it, so that the
  /// next segment arrives in a separate read. Returns false if the connection is gone.
  bool writeSegment(std::string_view seg, double timeoutSec = 20.0)
  {
    if (!writeAll(seg.data(), seg.size())) return false;
    return awaitRead(timeoutSec);
  }

  /// the read barrier alone: wait until the endpoint has read everything written so far (counts as
  /// one segment; used for bytes that went out through writeAll, e.g. behind the handshake)
  bool awaitRead(double timeoutSec = 20.0)
  {
    ++segmentsWritten;
    auto t0 = Clock::now();
    unsigned spins = 0;
    for (;;)
    {
      bool drained;
      if (peerFd >= 0)
      {
        // exact: the endpoint's socket has received every byte we ever wrote and its receive
        // queue is empty, i.e. the endpoint has read all of it. (An error means the endpoint
        // closed its descriptor: nothing left to wait for.)
        std::uint64_t got = 0;
        int inq = 0;
        if (!bytesReceived(peerFd, got) || ::ioctl(peerFd, FIONREAD, &inq) != 0) return true;
        drained = got >= sentTotal && inq == 0;
      }
      else
      {
        // fallback: wait for the ACK of everything (slow with delayed ACKs, still sound)
        int outq = 0;
        if (::ioctl(fd, SIOCOUTQ, &outq) != 0) return false;
        drained = outq == 0;
      }
      if (drained)
      {
        if (peerFd >= 0) ++barriersExact;
        return true;
      }
      pump(0);
      if (eof) return false;
      if (++spins < 200) std::this_thread::yield();
      else std::this_thread::sleep_for(std::chrono::microseconds(100));
      if (secondsSince(t0) > timeoutSec) return true; // give up on exactness, never on soundness
    }
  }

  /// pump until pred(rx) or EOF or timeout; returns true if pred became true
  template <class Pred> bool readUntil(Pred pred, double timeoutSec)
  {
    auto t0 = Clock::now();
    for (;;)
    {
      if (pred()) return true;
      if (eof) return pred();
      if (secondsSince(t0) > timeoutSec) return false;
      pump(20);
    }
  }
};

/// decode everything in `rx` into frames with the strict reference decoder.
/// Returns false when the bytes are not a sequence of valid frames; `tail` gets the number of
/// trailing bytes that form an incomplete frame.
struct WireFrames
{
  std::vector<refws::Frame> frames;
  std::vector<refws::Decoded> meta;
  std::size_t tail = 0;
  bool ok = true;
  std::string why;
};
inline WireFrames decodeAll(std::string_view rx)
{
  WireFrames w;
  std::size_t pos = 0;
  while (pos < rx.size())
  {
    refws::Decoded d = refws::decode(rx.substr(pos));
    if (d.st == refws::St::Incomplete)
    {
      w.tail = rx.size() - pos;
      break;
    }
    if (d.st == refws::St::Invalid)
    {
      w.ok = false;
      w.why = "byte " + std::to_string(pos) + ": " + d.why;
      break;
    }
    w.frames.push_back(d.f);
    w.meta.push_back(d);
    pos += d.consumed;
  }
  return w;
}

// ---------------------------------------------------------------- client role (toward a server)
/// opening handshake as a client; on success conn.rx holds whatever followed the 101 response
/// `extra`: bytes (frames) appended to the upgrade request in the SAME write - iora's HttpServer
/// documents that it feeds what follows the request in the same segment to the upgraded handler
inline bool clientHandshake(RawConn &c, const std::string &key, std::string &why, std::string *responseHead = nullptr, bool *timedOut = nullptr,
                            const std::string &extra = std::string())
{
  if (timedOut) *timedOut = false;
  std::string req = "GET /ws HTTP/1.1\r\nHost: 127.0.0.1\r\nUpgrade: websocket\r\nConnection: Upgrade\r\nSec-WebSocket-Key: " + key +
                    "\r\nSec-WebSocket-Version: 13\r\n\r\n";
  req += extra;
  if (!c.writeAll(req.data(), req.size()))
  {
    why = "cannot send the upgrade request";
    if (timedOut) *timedOut = true; // environment, not a wrong answer
    return false;
  }
  if (!c.readUntil([&] { return c.rx.find("\r\n\r\n") != std::string::npos; }, 60.0))
  {
    why = c.eof ? "connection closed before an upgrade response arrived" : "no upgrade response within 60 s";
    if (timedOut) *timedOut = true;
    return false;
  }
  std::size_t he = c.rx.find("\r\n\r\n");
  std::string head = c.rx.substr(0, he + 4);
  c.rx.erase(0, he + 4);
  if (responseHead) *responseHead = head;
  if (head.compare(0, 12, "HTTP/1.1 101") != 0)
  {
    why = "status line is not 101: " + head.substr(0, head.find("\r\n"));
    return false;
  }
  // Sec-WebSocket-Accept must be the SHA-1/base64 of key+GUID (computed with OpenSSL)
  std::string lower = head;
  for (auto &ch : lower) ch = static_cast<char>(std::tolower(static_cast<unsigned char>(ch)));
  std::size_t at = lower.find("sec-websocket-accept:");
  if (at == std::string::npos)
  {
    why = "no Sec-WebSocket-Accept header";
    return false;
  }
  std::size_t vs = at + 21, ve = head.find("\r\n", vs);
  std::string val = head.substr(vs, ve - vs);
  while (!val.empty() && (val.front() == ' ' || val.front() == '\t')) val.erase(0, 1);
  while (!val.empty() && (val.back() == ' ' || val.back() == '\t')) val.pop_back();
  if (val != refws::acceptFor(key))
  {
    why = "Sec-WebSocket-Accept is " + val + ", expected " + refws::acceptFor(key);
    return false;
  }
  return true;
}

// ---------------------------------------------------------------- server role (toward a client)
struct RawListener
{
  int fd = -1;
  int port = 0;
  RawListener()
  {
    fd = ::socket(AF_INET, SOCK_STREAM, 0);
    int one = 1;
    ::setsockopt(fd, SOL_SOCKET, SO_REUSEADDR, &one, sizeof one);
    sockaddr_in a{};
    a.sin_family = AF_INET;
    a.sin_addr.s_addr = htonl(INADDR_LOOPBACK);
    a.sin_port = 0;
    socklen_t len = sizeof a;
    if (::bind(fd, reinterpret_cast<sockaddr *>(&a), sizeof a) == 0 && ::listen(fd, 16) == 0 &&
        ::getsockname(fd, reinterpret_cast<sockaddr *>(&a), &len) == 0)
      port = ntohs(a.sin_port);
  }
  ~RawListener()
  {
    if (fd >= 0) ::close(fd);
  }
  /// accept one connection and answer its upgrade request; returns false with `why` otherwise
  /// `tail`: bytes (frames) that go out in the SAME write as the 101 response (a server that greets
  /// or pings immediately). `cutPermille` in 1..999: the response is cut at that fraction, the head
  /// is written (and read by the client) first, then the rest of the response + tail in one write.
  bool acceptAndUpgrade(RawConn &c, std::string &why, double timeoutSec = 20.0, const std::string &tail = std::string(), int cutPermille = 0)
  {
    pollfd pf{fd, POLLIN, 0};
    if (::poll(&pf, 1, static_cast<int>(timeoutSec * 1000)) <= 0)
    {
      why = "no connection arrived";
      return false;
    }
    c.fd = ::accept(fd, nullptr, nullptr);
    if (c.fd < 0)
    {
      why = "accept failed";
      return false;
    }
    setNoDelay(c.fd);
    if (!c.readUntil([&] { return c.rx.find("\r\n\r\n") != std::string::npos; }, timeoutSec))
    {
      why = "no complete upgrade request";
      return false;
    }
    std::size_t he = c.rx.find("\r\n\r\n");
    std::string head = c.rx.substr(0, he + 4);
    c.rx.erase(0, he + 4);
    std::string lower = head;
    for (auto &ch : lower) ch = static_cast<char>(std::tolower(static_cast<unsigned char>(ch)));
    std::size_t at = lower.find("sec-websocket-key:");
    if (head.compare(0, 4, "GET ") != 0 || at == std::string::npos || lower.find("upgrade: websocket") == std::string::npos)
    {
      why = "not a WebSocket upgrade request: " + head.substr(0, 80);
      return false;
    }
    std::size_t vs = at + 18, ve = head.find("\r\n", vs);
    std::string key = head.substr(vs, ve - vs);
    while (!key.empty() && (key.front() == ' ' || key.front() == '\t')) key.erase(0, 1);
    while (!key.empty() && (key.back() == ' ' || key.back() == '\t')) key.pop_back();
    std::string resp = "HTTP/1.1 101 Switching Protocols\r\nUpgrade: websocket\r\nConnection: Upgrade\r\nSec-WebSocket-Accept: " +
                       refws::acceptFor(key) + "\r\n\r\n";
    const std::size_t respLen = resp.size();
    resp += tail;
    bool ok;
    if (cutPermille > 0 && cutPermille < 1000)
    {
      std::size_t cut = std::min(respLen - 1, std::max<std::size_t>(1, respLen * static_cast<std::size_t>(cutPermille) / 1000));
      c.peerFd = findPeerFd(c.fd);
      ok = c.writeSegment(std::string_view(resp).substr(0, cut)) && c.writeAll(resp.data() + cut, resp.size() - cut);
    }
    else
      ok = c.writeAll(resp.data(), resp.size());
    if (!ok)
    {
      why = "cannot send the 101 response";
      return false;
    }
    return true;
  }
};

} // namespace c18net
