// c14_ref_xml.hpp - independent XML reference for C14: document tree, generator, renderer
// (tree -> text in many surface forms, together with the list of events a faithful parser
// has to report and the document's measures for every configurable limit) and a strict
// reference decoder for entity / character references. Shares no code with iora's xml.hpp.
//
// Supported subset (what iora's xml.hpp documents; the generator stays inside it):
//   * names are ASCII  [A-Za-z_:][A-Za-z0-9_:.-]*  (the tokenizer's isNameStart/isNameChar)
//   * white space between markup and leading white space of a text run are skipped by the
//     tokenizer (tests "Real-world Examples" rely on it) - text values therefore never start
//     with a *raw* white-space character (they may start with one written as &#32; etc.);
//     where the renderer puts raw white space in front of a text run the expected event
//     accepts both readings (kept or skipped)
//   * no raw CR anywhere in reported content, no raw TAB/LF in attribute values (XML line-end
//     and attribute-value normalisation are not implemented and not documented by xml.hpp)
//   * DOCTYPE is tokenised naively up to the matching '>' with [] nesting: no '[' / ']' inside
//     literals or comments of the internal subset, no '>' / '[' in the external identifiers.
//     Quote characters are not looked at by that tokenizer, so literals holding the other quote
//     character and comments / PIs holding any quote character (odd or even counts) are inside the
//     subset and are generated
//   * only the five predefined entities and numeric character references are decoded
#pragma once
#include "pbt.hpp"

#include <cstdint>
#include <cstring>
#include <set>
#include <string>
#include <string_view>
#include <utility>
#include <vector>

namespace refxml
{

static const char *const kMarker = "XXEMARKERxq7"; // planted in every entity declaration

inline void appendUtf8(std::string &o, std::uint32_t cp)
{
  if (cp < 0x80) o += (char)cp;
  else if (cp < 0x800) { o += (char)(0xC0 | (cp >> 6)); o += (char)(0x80 | (cp & 0x3F)); }
  else if (cp < 0x10000) { o += (char)(0xE0 | (cp >> 12)); o += (char)(0x80 | ((cp >> 6) & 0x3F)); o += (char)(0x80 | (cp & 0x3F)); }
  else { o += (char)(0xF0 | (cp >> 18)); o += (char)(0x80 | ((cp >> 12) & 0x3F)); o += (char)(0x80 | ((cp >> 6) & 0x3F)); o += (char)(0x80 | (cp & 0x3F)); }
}

// decode UTF-8 produced by appendUtf8
inline std::vector<std::uint32_t> codePoints(const std::string &s)
{
  std::vector<std::uint32_t> out;
  for (std::size_t i = 0; i < s.size();)
  {
    unsigned char c = (unsigned char)s[i];
    std::uint32_t cp; int n;
    if (c < 0x80) { cp = c; n = 1; }
    else if (c < 0xE0) { cp = c & 0x1F; n = 2; }
    else if (c < 0xF0) { cp = c & 0x0F; n = 3; }
    else { cp = c & 0x07; n = 4; }
    for (int k = 1; k < n && i + k < s.size(); ++k) cp = (cp << 6) | ((unsigned char)s[i + k] & 0x3F);
    out.push_back(cp);
    i += n;
  }
  return out;
}

inline bool isWs(std::uint32_t c) { return c == ' ' || c == '\t' || c == '\n' || c == '\r'; }

/// XML 1.0 Char production
inline bool isXmlChar(std::uint32_t c)
{
  return c == 0x9 || c == 0xA || c == 0xD || (c >= 0x20 && c <= 0xD7FF) || (c >= 0xE000 && c <= 0xFFFD) ||
         (c >= 0x10000 && c <= 0x10FFFF);
}

// ------------------------------------------------------------------ document tree
struct Attr
{
  std::string name, value; // value: decoded UTF-8
};

struct Node
{
  enum K { Elem, Text, CData, Comment, PI } k = Elem;
  std::string name;  // Elem: qualified name; PI: target
  std::string value; // Text: decoded; CData/Comment: verbatim; PI: data without the separator
  std::vector<Attr> attrs;
  std::vector<Node> kids;
  bool selfClose = false; // Elem without children: written <a/> instead of <a></a>
};

struct Doc
{
  bool decl = false;
  std::string declEncoding; // empty = absent
  int declStandalone = -1;  // -1 absent, 0 "no", 1 "yes"
  std::vector<Node> pre;    // comments / PIs before the DOCTYPE (or before the root)
  bool doctype = false;
  int externalId = 0; // 0 none, 1 SYSTEM, 2 PUBLIC
  bool subset = false;
  std::vector<std::string> subsetItems; // rendered declarations of the internal subset
  std::vector<Node> mid;                // comments / PIs between DOCTYPE and root
  Node root;
  std::vector<Node> post; // comments / PIs after the root
};

struct GenOpts
{
  int maxDepth = 5;   // element nesting of the generated tree
  int maxKids = 5;
  bool prolog = true; // XML declaration / DOCTYPE / misc allowed
  bool manyAttrs = true;
  bool longNames = true;
};

// ---------------------------------------------------------------------- generator
inline std::string genNCName(pbt::Src &src, const GenOpts &go)
{
  static const std::vector<std::string> pool = {"a", "b", "c", "d", "item", "x1", "_n", "A.b", "a-b", "root", "Row", "k_9"};
  if (src.coin(3, 5)) return src.oneOf(pool);
  static const char first[] = "abcdexyzABZ_";
  static const char rest[] = "abcdexyzABZ_0123456789-.";
  std::string s(1, first[src.range(0, (std::int64_t)sizeof(first) - 2)]);
  std::int64_t n = (go.longNames && src.coin(1, 25)) ? src.range(8, 40) : src.sized(0, 6);
  for (std::int64_t i = 0; i < n; ++i) s += rest[src.range(0, (std::int64_t)sizeof(rest) - 2)];
  return s;
}

inline std::string genQName(pbt::Src &src, const GenOpts &go, std::set<std::string> &prefixes)
{
  std::string local = genNCName(src, go);
  auto k = src.weighted({14, 6, 1});
  if (k == 0) return local;
  static const std::vector<std::string> pfx = {"p", "q", "ns", "soap", "x-y", "P_1"};
  std::string p = src.oneOf(pfx);
  prefixes.insert(p);
  if (k == 1) return p + ":" + local;
  return p + ":" + genNCName(src, go) + ":" + local; // several colons: split happens at the first one
}

inline std::uint32_t genChar(pbt::Src &src)
{
  switch (src.weighted({36, 8, 14, 8, 6, 5, 6}))
  {
  case 0: return (std::uint32_t)src.range(0x21, 0x7E);
  case 1: return src.oneOf<std::uint32_t>({' ', ' ', '\n', '\t'});
  case 2: return src.oneOf<std::uint32_t>({'<', '>', '&', '\'', '"', ';', '#', ']', '-', '?', 'x', '<', '&'});
  case 3: return (std::uint32_t)src.range(0x80, 0x7FF);
  case 4:
  {
    auto cp = (std::uint32_t)src.range(0x800, 0xFFFD);
    if (cp >= 0xD800 && cp <= 0xDFFF) cp = 0xFFFD;
    return cp;
  }
  case 5: return (std::uint32_t)src.range(0x10000, 0x10FFFF);
  default:
    return src.oneOf<std::uint32_t>({0x7F, 0x80, 0x7FF, 0x800, 0xD7FF, 0xE000, 0xFFFD, 0x10000, 0x10FFFF, 0x0D, 0x85, 0x2028, 0xA0, 0x09});
  }
}

inline std::string genValue(pbt::Src &src, std::int64_t minLen, std::int64_t maxLen)
{
  std::string s;
  auto n = minLen + src.sized(0, maxLen - minLen);
  for (std::int64_t i = 0; i < n; ++i) appendUtf8(s, genChar(src));
  return s;
}

// verbatim content (CDATA / comment / PI data): no raw CR (line-end normalisation is out of scope)
inline std::string genVerbatim(pbt::Src &src, std::int64_t maxLen)
{
  std::string s;
  auto n = src.sized(0, maxLen);
  for (std::int64_t i = 0; i < n; ++i)
  {
    auto cp = genChar(src);
    if (cp == '\r') cp = 'r';
    appendUtf8(s, cp);
  }
  return s;
}

inline Node genCData(pbt::Src &src)
{
  Node n;
  n.k = Node::CData;
  n.value = genVerbatim(src, 12);
  if (src.coin(1, 4)) n.value += src.oneOf<std::string>({"]]", "]", "&lt;", "&amp;", "<b>", "&#65;", "]]&gt;", " ", "&e1;"});
  for (std::size_t p; (p = n.value.find("]]>")) != std::string::npos;) n.value[p + 2] = ')';
  return n;
}

inline Node genComment(pbt::Src &src)
{
  Node n;
  n.k = Node::Comment;
  n.value = genVerbatim(src, 12);
  if (src.coin(1, 4)) n.value += src.oneOf<std::string>({"<x>", "&amp;", "->", "<!-", "]]>", " - ", "?>", "&e1;"});
  for (std::size_t i = 0; i < n.value.size(); ++i)
    if (n.value[i] == '-' && (i + 1 == n.value.size() || n.value[i + 1] == '-')) n.value[i] = '~';
  return n;
}

inline Node genPI(pbt::Src &src, const GenOpts &go)
{
  Node n;
  n.k = Node::PI;
  n.name = genNCName(src, go);
  if (src.coin(2, 3))
  {
    n.value = genVerbatim(src, 10);
    if (src.coin(1, 4)) n.value += src.oneOf<std::string>({"a=\"1\"", "?", ">", "? >", "<?", "--", "&lt;"});
    for (std::size_t p; (p = n.value.find("?>")) != std::string::npos;) n.value[p + 1] = ')';
    std::size_t b = 0;
    while (b < n.value.size() && isWs((unsigned char)n.value[b])) ++b;
    n.value.erase(0, b); // leading white space would be part of the separator
  }
  return n;
}

inline Node genText(pbt::Src &src)
{
  Node n;
  n.k = Node::Text;
  n.value = genValue(src, 1, 12);
  return n;
}

inline Node genMisc(pbt::Src &src, const GenOpts &go) { return src.coin() ? genComment(src) : genPI(src, go); }

inline Node genElement(pbt::Src &src, const GenOpts &go, int depth, std::set<std::string> &prefixes)
{
  Node e;
  e.k = Node::Elem;
  e.name = genQName(src, go, prefixes);
  std::int64_t na = (go.manyAttrs && src.coin(1, 30)) ? src.range(14, 22) : src.sized(0, 4);
  for (std::int64_t i = 0; i < na; ++i)
  {
    Attr a;
    a.name = genQName(src, go, prefixes);
    bool dup = false;
    for (auto &x : e.attrs) dup = dup || x.name == a.name;
    if (dup) continue;
    a.value = genValue(src, 0, 10);
    e.attrs.push_back(std::move(a));
  }
  // the root usually has content, and its first child usually is an element (nesting >= 2)
  auto nk = depth == 1 ? src.sized(src.coin(5, 6) ? 1 : 0, go.maxKids) : src.sized(0, go.maxKids);
  bool prevText = false;
  for (std::int64_t i = 0; i < nk; ++i)
  {
    auto k = src.weighted({depth < go.maxDepth ? (depth == 1 && i == 0 ? 30 : 9) : 0, prevText ? 0 : 8, 3, 3, 2});
    switch (k)
    {
    case 0: e.kids.push_back(genElement(src, go, depth + 1, prefixes)); break;
    case 1: e.kids.push_back(genText(src)); break;
    case 2: e.kids.push_back(genCData(src)); break;
    case 3: e.kids.push_back(genComment(src)); break;
    default: e.kids.push_back(genPI(src, go)); break;
    }
    prevText = (k == 1);
  }
  if (e.kids.empty()) e.selfClose = src.coin();
  return e;
}

// Quote characters inside DOCTYPE literals / comments / PIs. XML allows the *other* quote character
// inside a quoted literal (SystemLiteral, EntityValue, and the apostrophe inside a double-quoted
// PubidLiteral) and any quote character inside comments and PIs; xml.hpp's DOCTYPE tokenizer does
// not look at quotes at all, so odd and even counts are both inside the supported subset.
inline std::string litNoise(pbt::Src &src, char q)
{
  const char o = q == '"' ? '\'' : '"';
  switch (src.weighted({4, 3, 2, 1}))
  {
  case 0: return "";
  case 1: return std::string("o") + o + "brien";                   // one (odd)
  case 2: return std::string(1, o) + "x" + o;                       // two (even)
  default: return std::string("a") + o + "b" + o + "c" + o;         // three (odd)
  }
}
inline std::string quoteNoise(pbt::Src &src)
{
  return src.oneOf<std::string>({"", "", "don't", "say \"hi", "'\"'", "\"\"", "it's \"q\"", "'", "\""});
}

inline std::string genSubsetItem(pbt::Src &src)
{
  static const std::vector<std::string> ents = {"e1", "ent", "xxe", "ext", "big"};
  const std::string m = kMarker;
  const std::string q(1, src.coin() ? '"' : '\'');
  const auto kind = src.weighted({6, 4, 2, 2, 1, 1, 2, 1});
  const std::string ent = src.oneOf(ents);
  const bool alt = src.coin();
  const std::string ln = kind <= 2 || kind == 5 ? litNoise(src, q[0]) : std::string();
  const std::string qn = kind >= 6 ? quoteNoise(src) : std::string();
  switch (kind)
  {
  case 0: return "<!ENTITY " + ent + " " + q + m + ln + (alt ? " a > b" : "-v") + q + ">";
  case 1: return "<!ENTITY " + ent + " SYSTEM " + q + "file:///" + m + "/" + ln + "passwd" + q + ">";
  case 2: return "<!ENTITY % pe " + q + m + ln + q + ">";
  case 3: return std::string("<!ELEMENT zz ") + (alt ? "ANY" : "(#PCDATA)") + ">";
  case 4: return "<!ATTLIST zz-unused k CDATA #IMPLIED>";
  case 5: return "<!NOTATION n1 SYSTEM " + q + m + ln + q + ">";
  case 6: return "<!-- subset comment > " + qn + " " + m + " -->";
  default: return "<?sub pi " + m + " " + qn + " >?>";
  }
}

inline Doc genDoc(pbt::Src &src, const GenOpts &go)
{
  Doc d;
  std::set<std::string> prefixes;
  if (go.prolog)
  {
    d.decl = src.coin(1, 3);
    if (d.decl)
    {
      if (src.coin()) d.declEncoding = src.coin() ? "UTF-8" : "utf-8";
      if (src.coin(1, 3)) d.declStandalone = (int)src.range(0, 1);
    }
    for (auto n = src.weighted({6, 2, 1}); n > 0; --n) d.pre.push_back(genMisc(src, go));
    d.doctype = src.coin(1, 3);
  }
  d.root = genElement(src, go, 1, prefixes);
  if (d.doctype)
  {
    d.externalId = (int)src.weighted({3, 2, 1});
    d.subset = src.coin(2, 3);
    if (d.subset)
      for (auto n = src.range(0, 4); n > 0; --n) d.subsetItems.push_back(genSubsetItem(src));
    for (auto n = src.weighted({6, 2, 1}); n > 0; --n) d.mid.push_back(genMisc(src, go));
  }
  if (go.prolog)
    for (auto n = src.weighted({6, 2, 1}); n > 0; --n) d.post.push_back(genMisc(src, go));
  // namespace declarations for every prefix in use (plain attributes for the parser)
  std::vector<Attr> ns;
  for (auto &p : prefixes) ns.push_back(Attr{"xmlns:" + p, "urn:x:" + p + (p == "q" ? "?a=1&b=<2>" : "")});
  if (src.coin(1, 6)) ns.push_back(Attr{"xmlns", "http://example.org/d'\"ns"});
  if (src.coin()) d.root.attrs.insert(d.root.attrs.begin(), ns.begin(), ns.end());
  else d.root.attrs.insert(d.root.attrs.end(), ns.begin(), ns.end());
  if (d.doctype && src.coin())
  {
    // quote characters in the body behind a DOCTYPE (a tokenizer that loses track of quoting inside
    // the DOCTYPE re-synchronises on them)
    d.root.attrs.push_back(Attr{"dq", src.oneOf<std::string>({"it's", "say \"hi\"", "'", "\"", "a'b\"c"})});
    Node e;
    e.k = Node::Elem;
    e.name = "quoted";
    Node t;
    t.k = Node::Text;
    t.value = src.oneOf<std::string>({"it's", "\"", "'\"'", "say \"hi", "x"});
    e.kids.push_back(t);
    d.root.kids.push_back(e);
  }
  if (!d.root.kids.empty()) d.root.selfClose = false;
  return d;
}

// ----------------------------------------------------------------------- renderer
struct RAttr
{
  std::string name, raw, decoded;
};

/// one event a faithful parser reports (pull token / SAX callback)
struct Ev
{
  enum K { XmlDecl, Doctype, Start, End, Empty, Text, CData, Comment, PI } k = Start;
  std::string name;
  std::string lead;    // bytes in front of `raw` the parser may or may not report: skipped leading
                       // white space of a text run, the separator between PI target and data
  std::string raw;     // the exact slice (Text: not decoded)
  std::string decoded; // Text: decoded value
  std::vector<RAttr> attrs;
  std::size_t depth = 0;      // elements: own depth (root = 1); others: number of open elements
  std::size_t offset = 0;     // offset of the construct's first byte ('<', or first byte of raw)
  std::size_t leadOffset = 0; // Text: offset of `lead`
  std::size_t end = 0;        // one past the construct's last byte
};

struct Features
{
  bool entities = false, charRefs = false, cdata = false, comments = false, pis = false, decl = false, doctype = false,
       subset = false, prefixes = false, nonAscii = false, astral = false, leadWs = false, interWs = false,
       singleQuote = false, emptyElems = false, tagWs = false, leadRefWs = false, hexUpper = false, doctypeOddQuotes = false,
       doctypeInnerQuotes = false;
  int maxDepth = 0;
  // measures for the configurable limits. *Lo = under the reading that yields the smallest
  // measure, *Hi = under the reading that yields the largest one
  std::size_t maxAttrs = 0, maxName = 0, textLo = 0, textHi = 0, tokens = 0, wsGaps = 0;
};

struct Rendered
{
  std::string text;
  std::vector<Ev> evs;
  Features f;
};

struct RenderOpts
{
  int wsPct = 30;          // chance (percent) of white space in a gap between markup
  int refPct = 12;         // chance (percent) of writing an ordinary character as a numeric reference
  bool leadTextWs = true;  // raw white space in front of text runs allowed (accepted kept or skipped)
};

class Renderer
{
public:
  Renderer(pbt::Src &s, const RenderOpts &o) : src(s), ro(o) {}

  Rendered render(const Doc &d)
  {
    if (d.decl) xmlDecl(d);
    docGap();
    for (auto &n : d.pre) { misc(n, 0); docGap(); }
    if (d.doctype)
    {
      doctype(d);
      docGap();
      for (auto &n : d.mid) { misc(n, 0); docGap(); }
    }
    element(d.root, 1);
    for (auto &n : d.post) { docGap(); misc(n, 0); }
    docGap();
    r.f.tokens = r.evs.size();
    return std::move(r);
  }

private:
  pbt::Src &src;
  RenderOpts ro;
  Rendered r;
  std::string &out() { return r.text; }

  std::string wsString()
  {
    switch (src.weighted({5, 3, 2, 1, 1, 1}))
    {
    case 0: return " ";
    case 1: return "\n";
    case 2: return "\n  ";
    case 3: return "\t";
    case 4: return "\r\n";
    default: return " \n\t ";
    }
  }
  // white space in a position where it is "between markup": returns what was written
  std::string gap()
  {
    if (src.range(0, 99) >= ro.wsPct) return "";
    std::string w = wsString();
    r.f.interWs = true;
    ++r.f.wsGaps;
    return w;
  }
  void docGap() { out() += gap(); }
  std::string tagWs(bool required)
  {
    if (required)
    {
      if (src.coin(4, 5)) return " ";
      r.f.tagWs = true;
      return wsString();
    }
    if (src.coin(5, 6)) return "";
    r.f.tagWs = true;
    return src.coin(2, 3) ? " " : wsString();
  }
  void name(const std::string &n)
  {
    r.f.maxName = std::max(r.f.maxName, n.size());
    if (n.find(':') != std::string::npos) r.f.prefixes = true;
    out() += n;
  }
  void noteText(std::size_t lo, std::size_t hi)
  {
    r.f.textLo = std::max(r.f.textLo, lo);
    r.f.textHi = std::max(r.f.textHi, hi);
  }

  std::string numericRef(std::uint32_t cp)
  {
    r.f.charRefs = true;
    std::string s = "&#";
    std::string zeros((std::size_t)src.weighted({8, 2, 1, 1}), '0');
    char buf[16];
    if (src.coin())
    {
      std::snprintf(buf, sizeof buf, "%u", cp);
      s += zeros + buf;
    }
    else
    {
      bool upper = src.coin();
      if (upper) r.f.hexUpper = true;
      std::snprintf(buf, sizeof buf, upper ? "%X" : "%x", cp);
      s += "x" + zeros + buf;
    }
    return s + ";";
  }
  static const char *namedEntity(std::uint32_t cp)
  {
    switch (cp)
    {
    case '<': return "&lt;";
    case '>': return "&gt;";
    case '&': return "&amp;";
    case '\'': return "&apos;";
    case '"': return "&quot;";
    default: return nullptr;
    }
  }
  /// character data / attribute value: decoded UTF-8 -> raw text with references
  std::string encode(const std::string &value, char quote /* 0 = element content */)
  {
    std::string raw;
    auto cps = codePoints(value);
    for (std::size_t i = 0; i < cps.size(); ++i)
    {
      std::uint32_t cp = cps[i];
      if (cp >= 0x80) r.f.nonAscii = true;
      if (cp >= 0x10000) r.f.astral = true;
      bool mustRef = cp == '\r' || (quote && (cp == '\t' || cp == '\n')) || (!quote && i == 0 && isWs(cp));
      if (!quote && i == 0 && isWs(cp)) r.f.leadRefWs = true;
      bool special = cp == '<' || cp == '&' || (quote && cp == (std::uint32_t)quote) ||
                     (!quote && cp == '>' && raw.size() >= 2 && raw.compare(raw.size() - 2, 2, "]]") == 0);
      const char *ne = namedEntity(cp);
      if (special)
      {
        if (src.coin(2, 3)) { raw += ne; r.f.entities = true; }
        else raw += numericRef(cp);
      }
      else if (mustRef)
        raw += numericRef(cp);
      else if (ne && src.coin(1, 3)) { raw += ne; r.f.entities = true; }
      else if (src.range(0, 99) < ro.refPct)
        raw += numericRef(cp);
      else
        appendUtf8(raw, cp);
    }
    return raw;
  }

  void xmlDecl(const Doc &d)
  {
    Ev e;
    e.k = Ev::XmlDecl;
    e.name = "xml";
    e.offset = out().size();
    out() += "<?xml";
    e.lead = tagWs(true);
    out() += e.lead;
    std::size_t b = out().size();
    auto pseudo = [&](const std::string &n, const std::string &v)
    {
      char q = src.coin() ? '"' : '\'';
      out() += n;
      out() += tagWs(false);
      out() += "=";
      out() += tagWs(false);
      out() += q + v + q;
      e.attrs.push_back(RAttr{n, v, v});
    };
    pseudo("version", "1.0");
    if (!d.declEncoding.empty()) { out() += tagWs(true); pseudo("encoding", d.declEncoding); }
    if (d.declStandalone >= 0) { out() += tagWs(true); pseudo("standalone", d.declStandalone ? "yes" : "no"); }
    out() += tagWs(false);
    e.raw = out().substr(b);
    out() += "?>";
    e.end = out().size();
    noteText(0, e.lead.size() + e.raw.size());
    r.f.decl = true;
    r.f.maxName = std::max<std::size_t>(r.f.maxName, 3);
    r.evs.push_back(std::move(e));
  }

  void doctype(const Doc &d)
  {
    Ev e;
    e.k = Ev::Doctype;
    e.offset = out().size();
    out() += "<!DOCTYPE";
    std::size_t b = out().size();
    out() += tagWs(true);
    out() += d.root.name;
    const std::string q(1, src.coin() ? '"' : '\'');
    if (d.externalId == 1)
    {
      out() += tagWs(true);
      out() += "SYSTEM";
      out() += tagWs(true);
      const std::string ln = litNoise(src, q[0]);
      out() += q + "http://example.org/" + kMarker + ln + ".dtd" + q;
    }
    if (d.externalId == 2)
    {
      out() += tagWs(true);
      out() += "PUBLIC";
      out() += tagWs(true);
      // PubidChar contains the apostrophe but not the double quote
      const std::string pn = q[0] == '"' ? litNoise(src, '"') : std::string();
      out() += q + "-//X" + pn + "//DTD " + kMarker + "//EN" + q;
      out() += tagWs(true);
      const std::string q2(1, src.coin() ? '"' : '\'');
      const std::string ln = litNoise(src, q2[0]);
      out() += q2 + "x" + ln + ".dtd" + q2;
    }
    if (d.subset)
    {
      out() += tagWs(false);
      out() += "[";
      for (auto &it : d.subsetItems)
      {
        out() += tagWs(false);
        out() += it;
      }
      out() += tagWs(false);
      out() += "]";
      r.f.subset = true;
    }
    out() += tagWs(false);
    e.raw = out().substr(b);
    out() += ">";
    e.end = out().size();
    noteText(0, e.raw.size());
    r.f.doctype = true;
    {
      std::size_t dq = 0, sq = 0;
      for (char ch : e.raw) { dq += ch == '"'; sq += ch == '\''; }
      // a literal / comment / PI holding the other quote character shows as an odd count of one kind
      // or as more quote characters than the delimiters alone (4 per external id / entity value)
      if ((dq + sq) % 2) r.f.doctypeOddQuotes = true;
      if ((dq % 2) || (sq % 2)) r.f.doctypeInnerQuotes = true;
    }
    r.evs.push_back(std::move(e));
  }

  void misc(const Node &n, std::size_t depth)
  {
    Ev e;
    e.depth = depth;
    e.offset = out().size();
    switch (n.k)
    {
    case Node::CData:
      e.k = Ev::CData;
      e.raw = n.value;
      out() += "<![CDATA[" + n.value + "]]>";
      r.f.cdata = true;
      break;
    case Node::Comment:
      e.k = Ev::Comment;
      e.raw = n.value;
      out() += "<!--" + n.value + "-->";
      r.f.comments = true;
      break;
    default:
      e.k = Ev::PI;
      e.name = n.name;
      out() += "<?";
      name(n.name);
      if (!n.value.empty()) e.lead = tagWs(true);
      else if (src.coin(1, 4)) e.lead = " ";
      e.raw = n.value;
      out() += e.lead + n.value + "?>";
      r.f.pis = true;
      break;
    }
    e.end = out().size();
    noteText(0, e.lead.size() + e.raw.size());
    r.evs.push_back(std::move(e));
  }

  void element(const Node &n, std::size_t depth)
  {
    r.f.maxDepth = std::max(r.f.maxDepth, (int)depth);
    r.f.maxAttrs = std::max(r.f.maxAttrs, n.attrs.size());
    Ev e;
    e.name = n.name;
    e.depth = depth;
    e.offset = out().size();
    out() += "<";
    name(n.name);
    for (auto &a : n.attrs)
    {
      out() += tagWs(true);
      name(a.name);
      char q = src.coin(3, 5) ? '"' : '\'';
      if (q == '\'') r.f.singleQuote = true;
      RAttr ra{a.name, encode(a.value, q), a.value};
      out() += tagWs(false);
      out() += "=";
      out() += tagWs(false);
      out() += q;
      out() += ra.raw;
      out() += q;
      noteText(ra.decoded.size(), ra.raw.size());
      e.attrs.push_back(std::move(ra));
    }
    out() += tagWs(false);
    if (n.kids.empty() && n.selfClose)
    {
      out() += "/>";
      e.k = Ev::Empty;
      e.end = out().size();
      r.f.emptyElems = true;
      r.evs.push_back(std::move(e));
      return;
    }
    out() += ">";
    e.k = Ev::Start;
    e.end = out().size();
    r.evs.push_back(std::move(e));

    bool prevText = false;
    for (auto &k : n.kids)
    {
      std::string ws;
      std::size_t wsAt = out().size();
      if (!prevText && (k.k != Node::Text || ro.leadTextWs)) ws = gap();
      out() += ws;
      if (k.k == Node::Elem) element(k, depth + 1);
      else if (k.k == Node::Text)
      {
        Ev t;
        t.k = Ev::Text;
        t.depth = depth;
        t.lead = ws;
        t.leadOffset = wsAt;
        t.offset = out().size();
        t.decoded = k.value;
        t.raw = encode(k.value, 0);
        out() += t.raw;
        t.end = out().size();
        if (!ws.empty()) r.f.leadWs = true;
        noteText(t.decoded.size(), t.lead.size() + t.raw.size());
        r.evs.push_back(std::move(t));
      }
      else
        misc(k, depth);
      prevText = (k.k == Node::Text);
    }
    if (!prevText) out() += gap();
    Ev x;
    x.k = Ev::End;
    x.name = n.name;
    x.depth = depth;
    x.offset = out().size();
    out() += "</" + n.name + tagWs(false) + ">";
    x.end = out().size();
    r.evs.push_back(std::move(x));
  }
};

inline Rendered render(pbt::Src &src, const Doc &d, const RenderOpts &ro = RenderOpts{})
{
  Renderer rr(src, ro);
  return rr.render(d);
}

inline const char *evKindName(Ev::K k)
{
  static const char *n[] = {"XmlDecl", "Doctype", "StartElement", "EndElement", "EmptyElement", "Text", "CData", "Comment", "PI"};
  return n[(int)k];
}

// ------------------------------------------------------- strict reference decoder
enum class Decode
{
  Valid,           // every '&' starts a predefined entity or a valid numeric reference to an XML Char
  UndefinedEntity, // contains a syntactically well-formed reference to a name that is not predefined
  Malformed        // anything else (bare '&', missing ';', bad digits, code point not an XML Char)
};

/// Decodes `raw` the way XML 1.0 prescribes for a document without entity declarations.
/// `out` is meaningful only for Decode::Valid.
inline Decode strictDecode(std::string_view raw, std::string &out)
{
  out.clear();
  bool undefined = false;
  for (std::size_t i = 0; i < raw.size();)
  {
    if (raw[i] != '&')
    {
      out += raw[i++];
      continue;
    }
    std::size_t semi = raw.find(';', i + 1);
    if (semi == std::string_view::npos) return Decode::Malformed;
    std::string_view body = raw.substr(i + 1, semi - i - 1);
    if (body.empty()) return Decode::Malformed;
    if (body[0] == '#')
    {
      std::uint64_t cp = 0;
      std::size_t k = 1;
      bool hexa = body.size() > 1 && body[1] == 'x';
      if (hexa) k = 2;
      if (k >= body.size()) return Decode::Malformed;
      for (; k < body.size(); ++k)
      {
        char ch = body[k];
        int v;
        if (ch >= '0' && ch <= '9') v = ch - '0';
        else if (hexa && ch >= 'a' && ch <= 'f') v = ch - 'a' + 10;
        else if (hexa && ch >= 'A' && ch <= 'F') v = ch - 'A' + 10;
        else return Decode::Malformed;
        cp = cp * (hexa ? 16 : 10) + (std::uint64_t)v;
        if (cp > 0x10FFFF) return Decode::Malformed;
      }
      if (!isXmlChar((std::uint32_t)cp)) return Decode::Malformed;
      appendUtf8(out, (std::uint32_t)cp);
    }
    else if (body == "lt") out += '<';
    else if (body == "gt") out += '>';
    else if (body == "amp") out += '&';
    else if (body == "apos") out += '\'';
    else if (body == "quot") out += '"';
    else
    {
      // a Name?
      auto nameStart = [](char c) { return c == ':' || c == '_' || (c >= 'A' && c <= 'Z') || (c >= 'a' && c <= 'z') || (unsigned char)c >= 0x80; };
      auto nameChar = [&](char c) { return nameStart(c) || c == '-' || c == '.' || (c >= '0' && c <= '9'); };
      if (!nameStart(body[0])) return Decode::Malformed;
      for (char c : body)
        if (!nameChar(c)) return Decode::Malformed;
      undefined = true;
      out.append(raw.substr(i, semi + 1 - i)); // placeholder; result unused
    }
    i = semi + 1;
  }
  return undefined ? Decode::UndefinedEntity : Decode::Valid;
}

} // namespace refxml
