// c19_ref_dns.hpp - independent DNS wire-format reference for property C19.
//
//   * Encoder   : RFC 1035 message encoder with its own name compressor. A name may be
//                 cut at ANY suffix position and continued by a pointer to ANY earlier
//                 occurrence of that suffix (start of a label run or an earlier pointer, so
//                 pointer->pointer chains arise naturally), also inside the RDATA of
//                 NS/CNAME/PTR/MX/SOA/SRV/NAPTR.
//   * StrictDecoder : accepts only unambiguously well-formed messages (every pointer goes
//                 strictly before the label run it is found in, no reserved label types, names
//                 <= 255 octets, typed RDATA consumed exactly, no trailing bytes). Used as
//                 the decoding side of parse(buildQuery(q)) and as differential partner in
//                 the fuzz target: whatever it accepts, iora must decode identically.
//
// Nothing in here includes or calls iora code.
#pragma once
#include <cstdint>
#include <cstring>
#include <map>
#include <string>
#include <vector>

namespace refdns
{

using Bytes = std::vector<std::uint8_t>;
using Labels = std::vector<std::string>;

inline std::string dotted(const Labels &l)
{
  std::string s;
  for (std::size_t i = 0; i < l.size(); ++i)
  {
    if (i) s += '.';
    s += l[i];
  }
  return s;
}

/// octets of the uncompressed wire form, including the terminating zero
inline std::size_t wireLen(const Labels &l)
{
  std::size_t n = 1;
  for (auto &x : l) n += 1 + x.size();
  return n;
}

enum : std::uint16_t
{
  T_A = 1,
  T_NS = 2,
  T_CNAME = 5,
  T_SOA = 6,
  T_PTR = 12,
  T_MX = 15,
  T_TXT = 16,
  T_AAAA = 28,
  T_SRV = 33,
  T_NAPTR = 35
};

/// record types whose RDATA this reference understands
inline bool knownType(std::uint16_t t)
{
  switch (t)
  {
  case T_A: case T_NS: case T_CNAME: case T_SOA: case T_PTR: case T_MX: case T_TXT: case T_AAAA: case T_SRV: case T_NAPTR:
    return true;
  default:
    return false;
  }
}
inline bool hasRdataName(std::uint16_t t)
{
  return t == T_NS || t == T_CNAME || t == T_SOA || t == T_PTR || t == T_MX || t == T_SRV || t == T_NAPTR;
}

struct Header
{
  std::uint16_t id = 0;
  bool qr = false;
  std::uint8_t opcode = 0; // 4 bits
  bool aa = false, tc = false, rd = false, ra = false;
  std::uint8_t z = 0;     // 3 bits
  std::uint8_t rcode = 0; // 4 bits
  std::uint16_t flags() const
  {
    return (std::uint16_t)((qr ? 0x8000 : 0) | ((opcode & 15) << 11) | (aa ? 0x0400 : 0) | (tc ? 0x0200 : 0) |
                           (rd ? 0x0100 : 0) | (ra ? 0x0080 : 0) | ((z & 7) << 4) | (rcode & 15));
  }
  void setFlags(std::uint16_t f)
  {
    qr = f & 0x8000;
    opcode = (f >> 11) & 15;
    aa = f & 0x0400;
    tc = f & 0x0200;
    rd = f & 0x0100;
    ra = f & 0x0080;
    z = (f >> 4) & 7;
    rcode = f & 15;
  }
};

struct Question
{
  Labels name;
  std::uint16_t type = 1, cls = 1;
};

struct RR
{
  Labels owner;
  std::uint16_t type = T_A, cls = 1;
  std::uint32_t ttl = 0;
  Bytes addr;                        // A (4 octets) / AAAA (16 octets)
  Labels n1, n2;                     // NS/CNAME/PTR/MX/SRV/NAPTR target; SOA mname, rname
  std::uint16_t v1 = 0, v2 = 0, v3 = 0; // MX preference | SRV priority, weight, port | NAPTR order, preference
  std::string s1, s2, s3;            // NAPTR flags, service, regexp
  std::vector<std::string> txt;      // TXT character-strings
  std::uint32_t soa[5] = {0, 0, 0, 0, 0}; // serial refresh retry expire minimum
  Bytes opaque;                      // RDATA of types the reference does not understand
  // --- filled by the encoder / decoder -------------------------------------------
  Bytes rdata;              // RDATA exactly as on the wire (with pointers)
  std::size_t rdataPos = 0; // absolute offset of RDATA
  int pointersInRdata = 0;
  int pointersInOwner = 0;
};

struct Message
{
  Header h;
  std::vector<Question> qd;
  std::vector<RR> an, ns, ar;
  std::size_t rrCount() const { return an.size() + ns.size() + ar.size(); }
};

// --------------------------------------------------------------------------- choices
/// source of the compressor's decisions (the harness feeds it from pbt::Src)
struct Chooser
{
  virtual ~Chooser() = default;
  virtual std::size_t pick(std::size_t n) = 0; // in [0,n)
  virtual bool chance(int pct) = 0;
};
struct NoCompression : Chooser
{
  std::size_t pick(std::size_t) override { return 0; }
  bool chance(int) override { return false; }
};
/// decisions taken from a byte string (one pbt draw per message); exhausted => no compression
struct ByteChooser : Chooser
{
  std::string bytes;
  std::size_t pos = 0;
  explicit ByteChooser(std::string b) : bytes(std::move(b)) {}
  int next() { return pos < bytes.size() ? (unsigned char)bytes[pos++] : -1; }
  std::size_t pick(std::size_t n) override
  {
    int a = next(), b = next();
    if (a < 0 || n == 0) return 0;
    return (std::size_t)(((unsigned)a << 8) | (unsigned)(b < 0 ? 0 : b)) % n;
  }
  bool chance(int pct) override
  {
    int a = next();
    return a >= 0 && (a % 100) < pct;
  }
};

// --------------------------------------------------------------------------- encoder
class Encoder
{
public:
  explicit Encoder(Chooser &ch) : ch_(ch) {}
  Bytes out;
  int pointersTotal = 0, pointersInRdata = 0, maxHops = 0, pointerToPointer = 0, pointerMidName = 0, pointerBeyond4K = 0;

  void u8(unsigned v) { out.push_back((std::uint8_t)v); }
  void u16(unsigned v)
  {
    u8(v >> 8);
    u8(v & 0xff);
  }
  void u32(std::uint32_t v)
  {
    u16(v >> 16);
    u16(v & 0xffff);
  }
  void raw(const std::string &s) { out.insert(out.end(), s.begin(), s.end()); }
  void raw(const Bytes &s) { out.insert(out.end(), s.begin(), s.end()); }
  void charString(const std::string &s)
  {
    u8((unsigned)s.size());
    raw(s);
  }
  void patch16(std::size_t at, unsigned v)
  {
    out[at] = (std::uint8_t)(v >> 8);
    out[at + 1] = (std::uint8_t)(v & 0xff);
  }

  /// per-name compression eagerness, drawn from the chooser
  int namePct()
  {
    static const int p[] = {0, 40, 100, 100};
    return p[ch_.pick(4)];
  }

  /// Write `l` at the current position. At every suffix position where an earlier
  /// occurrence of the remaining suffix exists a pointer is emitted with probability
  /// `pct`. Returns the number of pointers written (0 or 1).
  int name(const Labels &l, int pct, bool inRdata)
  {
    std::vector<std::size_t> starts; // offsets of the labels emitted for this name
    const std::size_t n = l.size();
    for (std::size_t i = 0; i <= n; ++i)
    {
      Labels suf(l.begin() + (std::ptrdiff_t)i, l.end());
      auto it = where_.find(suf);
      bool can = it != where_.end() && !it->second.empty();
      int p = (i == n) ? pct / 10 : pct; // a pointer to a bare root label is legal but unusual
      if (can && ch_.chance(p))
      {
        const Target t = it->second[ch_.pick(it->second.size())];
        std::size_t ptrOff = out.size();
        u16(0xC000u | t.off);
        int hops = t.hops + 1;
        finish(l, starts, hops);
        if (ptrOff < 0x4000) where_[suf].push_back(Target{(std::uint16_t)ptrOff, hops, true});
        ++pointersTotal;
        if (inRdata) ++pointersInRdata;
        if (t.isPointer) ++pointerToPointer;
        if (t.off >= 4096) ++pointerBeyond4K;
        if (i > 0) ++pointerMidName;
        if (hops > maxHops) maxHops = hops;
        return 1;
      }
      if (i == n)
      {
        std::size_t termOff = out.size();
        u8(0);
        finish(l, starts, 0);
        if (termOff < 0x4000) where_[Labels{}].push_back(Target{(std::uint16_t)termOff, 0, false});
        return 0;
      }
      starts.push_back(out.size());
      u8((unsigned)l[i].size());
      raw(l[i]);
    }
    return 0;
  }

  /// uncompressed name that is not offered as a pointer target
  void plainName(const Labels &l)
  {
    for (auto &x : l)
    {
      u8((unsigned)x.size());
      raw(x);
    }
    u8(0);
  }

  void header(const Header &h, unsigned qd, unsigned an, unsigned ns, unsigned ar)
  {
    u16(h.id);
    u16(h.flags());
    u16(qd);
    u16(an);
    u16(ns);
    u16(ar);
  }

  void question(const Question &q, int pct)
  {
    name(q.name, pct, false);
    u16(q.type);
    u16(q.cls);
  }

  /// writes the record and fills rr.rdata / rr.rdataPos / pointer counts
  void record(RR &rr)
  {
    rr.pointersInOwner = name(rr.owner, namePct(), false);
    u16(rr.type);
    u16(rr.cls);
    u32(rr.ttl);
    std::size_t lenAt = out.size();
    u16(0);
    std::size_t start = out.size();
    int before = pointersInRdata;
    switch (rr.type)
    {
    case T_A:
    case T_AAAA:
      raw(rr.addr);
      break;
    case T_NS:
    case T_CNAME:
    case T_PTR:
      name(rr.n1, namePct(), true);
      break;
    case T_MX:
      u16(rr.v1);
      name(rr.n1, namePct(), true);
      break;
    case T_SRV:
      u16(rr.v1);
      u16(rr.v2);
      u16(rr.v3);
      name(rr.n1, namePct(), true);
      break;
    case T_SOA:
      name(rr.n1, namePct(), true);
      name(rr.n2, namePct(), true);
      for (int i = 0; i < 5; ++i) u32(rr.soa[i]);
      break;
    case T_NAPTR:
      u16(rr.v1);
      u16(rr.v2);
      charString(rr.s1);
      charString(rr.s2);
      charString(rr.s3);
      name(rr.n1, namePct(), true);
      break;
    case T_TXT:
      for (auto &s : rr.txt) charString(s);
      break;
    default:
      raw(rr.opaque);
    }
    rr.rdataPos = start;
    rr.rdata.assign(out.begin() + (std::ptrdiff_t)start, out.end());
    rr.pointersInRdata = pointersInRdata - before;
    patch16(lenAt, (unsigned)(out.size() - start));
  }

  void message(Message &m)
  {
    header(m.h, (unsigned)m.qd.size(), (unsigned)m.an.size(), (unsigned)m.ns.size(), (unsigned)m.ar.size());
    for (auto &q : m.qd) question(q, namePct());
    for (auto &r : m.an) record(r);
    for (auto &r : m.ns) record(r);
    for (auto &r : m.ar) record(r);
  }

private:
  struct Target
  {
    std::uint16_t off;
    int hops;       // pointers followed when decoding from `off`
    bool isPointer; // `off` holds a pointer (not a label)
  };
  void finish(const Labels &l, const std::vector<std::size_t> &starts, int hops)
  {
    for (std::size_t j = 0; j < starts.size(); ++j)
      if (starts[j] < 0x4000)
        where_[Labels(l.begin() + (std::ptrdiff_t)j, l.end())].push_back(Target{(std::uint16_t)starts[j], hops, false});
  }
  Chooser &ch_;
  std::map<Labels, std::vector<Target>> where_;
};

// -------------------------------------------------------------------- strict decoder
class StrictDecoder
{
public:
  StrictDecoder(const std::uint8_t *d, std::size_t n) : d_(d), n_(n) {}
  std::string error;

  /// true iff the whole buffer is one unambiguously well-formed message
  bool message(Message &m)
  {
    if (n_ < 12) return fail("short header");
    m.h.id = rd16(0);
    m.h.setFlags(rd16(2));
    unsigned qd = rd16(4), an = rd16(6), ns = rd16(8), ar = rd16(10);
    std::size_t pos = 12;
    for (unsigned i = 0; i < qd; ++i)
    {
      Question q;
      if (!name(pos, q.name, n_)) return false;
      if (pos + 4 > n_) return fail("question fields");
      q.type = rd16(pos);
      q.cls = rd16(pos + 2);
      pos += 4;
      m.qd.push_back(std::move(q));
    }
    for (int s = 0; s < 3; ++s)
    {
      unsigned cnt = s == 0 ? an : s == 1 ? ns : ar;
      auto &vec = s == 0 ? m.an : s == 1 ? m.ns : m.ar;
      for (unsigned i = 0; i < cnt; ++i)
      {
        RR r;
        if (!record(pos, r)) return false;
        vec.push_back(std::move(r));
      }
    }
    if (pos != n_) return fail("trailing bytes");
    return true;
  }

  /// strict name decoding at `pos` (advanced past the name as found in place).
  /// `limit`: the in-place part must end at or before this offset. Every pointer must
  /// go strictly before the label run it was found in, and the run it leads to must end
  /// before that run starts (a *prior* occurrence), so decoding always terminates.
  int lastPointers = 0; // pointers followed by the last name() call
  bool name(std::size_t &pos, Labels &out, std::size_t limit)
  {
    out.clear();
    lastPointers = 0;
    std::size_t cur = pos, segStart = pos, bound = limit, total = 1;
    bool jumped = false;
    for (;;)
    {
      if (cur >= bound) return fail("name runs off");
      unsigned b = d_[cur];
      if ((b & 0xC0) == 0xC0)
      {
        if (cur + 2 > bound) return fail("pointer cut");
        std::size_t tgt = ((b & 0x3Fu) << 8) | d_[cur + 1];
        if (tgt < 12 || tgt >= segStart) return fail("pointer not strictly backwards");
        if (!jumped) pos = cur + 2;
        jumped = true;
        ++lastPointers;
        bound = segStart;
        cur = segStart = tgt;
        continue;
      }
      if (b & 0xC0) return fail("reserved label type");
      if (b == 0)
      {
        if (!jumped) pos = cur + 1;
        return true;
      }
      if (cur + 1 + b > bound) return fail("label cut");
      total += 1 + b;
      if (total > 255) return fail("name too long");
      out.emplace_back(reinterpret_cast<const char *>(d_ + cur + 1), b);
      cur += 1 + b;
    }
  }

private:
  bool fail(const char *why)
  {
    if (error.empty()) error = why;
    return false;
  }
  unsigned rd16(std::size_t at) const { return ((unsigned)d_[at] << 8) | d_[at + 1]; }
  std::uint32_t rd32(std::size_t at) const { return ((std::uint32_t)rd16(at) << 16) | rd16(at + 2); }
  bool charString(std::size_t &pos, std::size_t end, std::string &s)
  {
    if (pos >= end) return fail("char-string missing");
    unsigned l = d_[pos];
    if (pos + 1 + l > end) return fail("char-string cut");
    s.assign(reinterpret_cast<const char *>(d_ + pos + 1), l);
    pos += 1 + l;
    return true;
  }

  bool rname(std::size_t &p, Labels &out, std::size_t end, RR &r)
  {
    if (!name(p, out, end)) return false;
    r.pointersInRdata += lastPointers;
    return true;
  }
  bool record(std::size_t &pos, RR &r)
  {
    if (!name(pos, r.owner, n_)) return false;
    r.pointersInOwner = lastPointers;
    if (pos + 10 > n_) return fail("rr fixed fields");
    r.type = rd16(pos);
    r.cls = rd16(pos + 2);
    r.ttl = rd32(pos + 4);
    unsigned rdlen = rd16(pos + 8);
    pos += 10;
    if (pos + rdlen > n_) return fail("rdata cut");
    std::size_t end = pos + rdlen, p = pos;
    r.rdataPos = pos;
    r.rdata.assign(d_ + pos, d_ + end);
    // typed RDATA is only defined for class IN here; everything else is opaque
    std::uint16_t t = r.cls == 1 ? r.type : 0;
    switch (t)
    {
    case T_A:
      if (rdlen != 4) return fail("A length");
      r.addr.assign(d_ + p, d_ + end);
      p = end;
      break;
    case T_AAAA:
      if (rdlen != 16) return fail("AAAA length");
      r.addr.assign(d_ + p, d_ + end);
      p = end;
      break;
    case T_NS:
    case T_CNAME:
    case T_PTR:
      if (!rname(p, r.n1, end, r)) return false;
      break;
    case T_MX:
      if (rdlen < 3) return fail("MX length");
      r.v1 = rd16(p);
      p += 2;
      if (!rname(p, r.n1, end, r)) return false;
      break;
    case T_SRV:
      if (rdlen < 7) return fail("SRV length");
      r.v1 = rd16(p);
      r.v2 = rd16(p + 2);
      r.v3 = rd16(p + 4);
      p += 6;
      if (!rname(p, r.n1, end, r)) return false;
      break;
    case T_SOA:
      if (!rname(p, r.n1, end, r)) return false;
      if (!rname(p, r.n2, end, r)) return false;
      if (p + 20 != end) return fail("SOA numeric fields");
      for (int i = 0; i < 5; ++i) r.soa[i] = rd32(p + 4 * (std::size_t)i);
      p = end;
      break;
    case T_NAPTR:
      if (rdlen < 8) return fail("NAPTR length");
      r.v1 = rd16(p);
      r.v2 = rd16(p + 2);
      p += 4;
      if (!charString(p, end, r.s1) || !charString(p, end, r.s2) || !charString(p, end, r.s3)) return false;
      if (!rname(p, r.n1, end, r)) return false;
      break;
    case T_TXT:
      if (rdlen == 0) return fail("TXT empty");
      while (p < end)
      {
        std::string s;
        if (!charString(p, end, s)) return false;
        r.txt.push_back(std::move(s));
      }
      break;
    default:
      r.opaque = r.rdata;
      p = end;
    }
    if (p != end) return fail("rdata not consumed exactly");
    pos = end;
    return true;
  }
  const std::uint8_t *d_;
  std::size_t n_;
};

} // namespace refdns
