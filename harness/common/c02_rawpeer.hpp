// c02_rawpeer.hpp - independent raw POSIX peers for the transport lifecycle checks
// (C02, C05). Shares no code with iora: plain blocking/poll()ed BSD sockets on
// 127.0.0.1 with ephemeral ports. Every wait is bounded (poll with a timeout), so a
// harness thread can never hang inside these helpers.
#pragma once
#include <arpa/inet.h>
#include <cerrno>
#include <chrono>
#include <cstdint>
#include <cstring>
#include <fcntl.h>
#include <netinet/in.h>
#include <netinet/tcp.h>
#include <poll.h>
#include <string>
#include <sys/socket.h>
#include <unistd.h>
#include <vector>

namespace c02raw
{

inline sockaddr_in loopback(std::uint16_t port)
{
  sockaddr_in a{};
  a.sin_family = AF_INET;
  a.sin_port = htons(port);
  a.sin_addr.s_addr = htonl(INADDR_LOOPBACK);
  return a;
}

inline std::uint16_t localPort(int fd)
{
  sockaddr_in a{};
  socklen_t l = sizeof(a);
  if (::getsockname(fd, reinterpret_cast<sockaddr *>(&a), &l) != 0) return 0;
  return ntohs(a.sin_port);
}

inline void setNonBlocking(int fd, bool nb)
{
  int fl = ::fcntl(fd, F_GETFL, 0);
  if (fl < 0) return;
  ::fcntl(fd, F_SETFL, nb ? (fl | O_NONBLOCK) : (fl & ~O_NONBLOCK));
}

inline void closeFd(int &fd)
{
  if (fd >= 0)
  {
    ::close(fd);
    fd = -1;
  }
}

/// TCP socket bound to 127.0.0.1:<ephemeral>, listening. rcvbuf>0 fixes SO_RCVBUF
/// (inherited by accepted sockets; disables receive-buffer auto-tuning).
inline int tcpListen(std::uint16_t &port, int backlog = 64, int rcvbuf = 0)
{
  int fd = ::socket(AF_INET, SOCK_STREAM | SOCK_CLOEXEC, 0);
  if (fd < 0) return -1;
  if (rcvbuf > 0) ::setsockopt(fd, SOL_SOCKET, SO_RCVBUF, &rcvbuf, sizeof(rcvbuf));
  sockaddr_in a = loopback(0);
  if (::bind(fd, reinterpret_cast<sockaddr *>(&a), sizeof(a)) != 0 || ::listen(fd, backlog) != 0)
  {
    ::close(fd);
    return -1;
  }
  port = localPort(fd);
  return fd;
}

/// TCP socket bound but NOT listening: connecting to it is refused (RST) and the
/// port stays reserved for the life of the fd (no other process can grab it).
inline int tcpRefusedPort(std::uint16_t &port)
{
  int fd = ::socket(AF_INET, SOCK_STREAM | SOCK_CLOEXEC, 0);
  if (fd < 0) return -1;
  sockaddr_in a = loopback(0);
  if (::bind(fd, reinterpret_cast<sockaddr *>(&a), sizeof(a)) != 0)
  {
    ::close(fd);
    return -1;
  }
  port = localPort(fd);
  return fd;
}

/// connect to 127.0.0.1:port, bounded by timeoutMs. Returns a BLOCKING fd or -1.
inline int tcpConnect(std::uint16_t port, int timeoutMs = 10000, int rcvbuf = 0)
{
  int fd = ::socket(AF_INET, SOCK_STREAM | SOCK_CLOEXEC, 0);
  if (fd < 0) return -1;
  if (rcvbuf > 0) ::setsockopt(fd, SOL_SOCKET, SO_RCVBUF, &rcvbuf, sizeof(rcvbuf));
  setNonBlocking(fd, true);
  sockaddr_in a = loopback(port);
  int rc = ::connect(fd, reinterpret_cast<sockaddr *>(&a), sizeof(a));
  if (rc != 0 && errno != EINPROGRESS)
  {
    ::close(fd);
    return -1;
  }
  if (rc != 0)
  {
    pollfd p{fd, POLLOUT, 0};
    int pr;
    do
    {
      pr = ::poll(&p, 1, timeoutMs);
    } while (pr < 0 && errno == EINTR);
    int err = 0;
    socklen_t el = sizeof(err);
    if (pr <= 0 || ::getsockopt(fd, SOL_SOCKET, SO_ERROR, &err, &el) != 0 || err != 0)
    {
      ::close(fd);
      return -1;
    }
  }
  setNonBlocking(fd, false);
  int one = 1;
  ::setsockopt(fd, IPPROTO_TCP, TCP_NODELAY, &one, sizeof(one));
  return fd;
}

inline bool waitReadable(int fd, int timeoutMs)
{
  pollfd p{fd, POLLIN, 0};
  int pr;
  do
  {
    pr = ::poll(&p, 1, timeoutMs);
  } while (pr < 0 && errno == EINTR);
  return pr > 0;
}

/// accept one connection within timeoutMs (-1 on timeout)
inline int tcpAccept(int lfd, int timeoutMs = 10000)
{
  if (!waitReadable(lfd, timeoutMs)) return -1;
  int fd = ::accept4(lfd, nullptr, nullptr, SOCK_CLOEXEC);
  if (fd >= 0)
  {
    int one = 1;
    ::setsockopt(fd, IPPROTO_TCP, TCP_NODELAY, &one, sizeof(one));
  }
  return fd;
}

/// orderly half-close: the peer reads EOF
inline void tcpFin(int fd) { ::shutdown(fd, SHUT_WR); }

/// abortive close: SO_LINGER{on,0} + close => RST
inline void tcpRst(int &fd)
{
  if (fd < 0) return;
  linger lg{1, 0};
  ::setsockopt(fd, SOL_SOCKET, SO_LINGER, &lg, sizeof(lg));
  ::close(fd);
  fd = -1;
}

/// send all bytes, bounded; false on error/timeout
inline bool sendAll(int fd, const void *data, std::size_t n, int timeoutMs = 5000)
{
  const char *p = static_cast<const char *>(data);
  auto deadline = std::chrono::steady_clock::now() + std::chrono::milliseconds(timeoutMs);
  while (n > 0)
  {
    ssize_t w = ::send(fd, p, n, MSG_NOSIGNAL | MSG_DONTWAIT);
    if (w > 0)
    {
      p += w;
      n -= static_cast<std::size_t>(w);
      continue;
    }
    if (w < 0 && (errno == EAGAIN || errno == EWOULDBLOCK || errno == EINTR))
    {
      auto left = std::chrono::duration_cast<std::chrono::milliseconds>(
                    deadline - std::chrono::steady_clock::now())
                    .count();
      if (left <= 0) return false;
      pollfd pf{fd, POLLOUT, 0};
      ::poll(&pf, 1, static_cast<int>(left));
      continue;
    }
    return false;
  }
  return true;
}

/// read whatever is available within timeoutMs; returns bytes (>0), 0 on EOF,
/// -1 on error (e.g. ECONNRESET), -2 on timeout
inline long recvSome(int fd, void *buf, std::size_t n, int timeoutMs)
{
  if (!waitReadable(fd, timeoutMs)) return -2;
  ssize_t r = ::recv(fd, buf, n, 0);
  if (r < 0) return -1;
  return static_cast<long>(r);
}

/// drain the socket until EOF or error; true if the connection end was seen within
/// the bound (EOF or reset), false on timeout
inline bool drainUntilEnd(int fd, int timeoutMs)
{
  auto deadline = std::chrono::steady_clock::now() + std::chrono::milliseconds(timeoutMs);
  std::vector<char> buf(65536);
  for (;;)
  {
    auto left = std::chrono::duration_cast<std::chrono::milliseconds>(
                  deadline - std::chrono::steady_clock::now())
                  .count();
    if (left <= 0) return false;
    long r = recvSome(fd, buf.data(), buf.size(), static_cast<int>(left));
    if (r == 0 || r == -1) return true;
    if (r == -2) return false;
  }
}

/// A TCP "black hole": a listen(fd,0) socket whose accept queue is already full
/// (one completed, never accepted connection). Further SYNs are silently dropped,
/// so a connect() to `port` stays in SYN_SENT until the caller gives up.
struct BlackHole
{
  int lfd{-1};
  std::vector<int> fillers;
  std::uint16_t port{0};
  bool open()
  {
    lfd = tcpListen(port, 0);
    if (lfd < 0) return false;
    // backlog 0 admits exactly one connection into the accept queue (Linux:
    // full <=> sk_ack_backlog > backlog); every later SYN is dropped.
    int f1 = tcpConnect(port, 2000);
    if (f1 < 0) return false;
    fillers.push_back(f1);
    return true;
  }
  /// self-test: a fresh connect must NOT complete within `ms`
  bool swallows(int ms)
  {
    int f = tcpConnect(port, ms);
    if (f >= 0)
    {
      fillers.push_back(f);
      return false;
    }
    return true;
  }
  void close()
  {
    for (int &f : fillers) closeFd(f);
    fillers.clear();
    closeFd(lfd);
  }
  ~BlackHole() { close(); }
};

// ---- UDP ---------------------------------------------------------------------
inline int udpBind(std::uint16_t &port)
{
  int fd = ::socket(AF_INET, SOCK_DGRAM | SOCK_CLOEXEC, 0);
  if (fd < 0) return -1;
  sockaddr_in a = loopback(0);
  if (::bind(fd, reinterpret_cast<sockaddr *>(&a), sizeof(a)) != 0)
  {
    ::close(fd);
    return -1;
  }
  port = localPort(fd);
  return fd;
}

inline bool udpSendTo(int fd, std::uint16_t port, const void *data, std::size_t n)
{
  sockaddr_in a = loopback(port);
  return ::sendto(fd, data, n, MSG_NOSIGNAL, reinterpret_cast<sockaddr *>(&a), sizeof(a)) ==
         static_cast<ssize_t>(n);
}

/// receive one datagram within timeoutMs; returns length (>=0) or -2 on timeout, -1 error.
/// fromPort receives the sender's port.
inline long udpRecvFrom(int fd, void *buf, std::size_t n, int timeoutMs, std::uint16_t *fromPort)
{
  if (!waitReadable(fd, timeoutMs)) return -2;
  sockaddr_in a{};
  socklen_t l = sizeof(a);
  ssize_t r = ::recvfrom(fd, buf, n, 0, reinterpret_cast<sockaddr *>(&a), &l);
  if (r < 0) return -1;
  if (fromPort) *fromPort = ntohs(a.sin_port);
  return static_cast<long>(r);
}

/// RAII bag of descriptors closed at scope exit (case end)
struct FdBag
{
  std::vector<int> fds;
  int add(int fd)
  {
    if (fd >= 0) fds.push_back(fd);
    return fd;
  }
  void forget(int fd)
  {
    for (auto &f : fds)
      if (f == fd) f = -1;
  }
  ~FdBag()
  {
    for (int f : fds)
      if (f >= 0) ::close(f);
  }
};

} // namespace c02raw
