// c02_fake_engine.hpp - (1) definition of the befriended DI seam
// iora::network::test::TransportEngineInjector (transport.hpp declares the friend by
// name only) and (2) a minimal scripted detail::EngineBase for the close fan-out
// part of C02. The harness thread plays the I/O thread: it fires the engine
// callbacks exactly where the generated history says.
//
// Own copy on purpose (C03/C04 have a similar fake in c03_fake_engine.hpp): the two
// are never included into the same binary.
#pragma once
#include <iora/network/transport_impl.hpp>

#include <atomic>
#include <memory>
#include <mutex>
#include <string>
#include <thread>
#include <vector>

namespace iora
{
namespace network
{
namespace test
{
struct TransportEngineInjector
{
  static std::shared_ptr<Transport> make(std::unique_ptr<detail::EngineBase> engine,
                                         TransportConfig cfg)
  {
    return Transport::withEngine(std::move(engine), std::move(cfg));
  }

  /// Number of application calls currently counted by the teardown handshake
  /// (parked receiveSync + parked connectSync + in-progress Sync->Async flushes).
  /// Used by the C05 harness ONLY to schedule a destruction after it has *observed*
  /// that a borrowed-reference call is parked - never as an oracle. Reading it under
  /// syncMutex means: a counted caller has released the mutex inside its wait (or is
  /// a flusher between two lock scopes), i.e. the handshake is obliged to wait it out.
  struct Parked
  {
    std::size_t receives{0}, connects{0}, flushes{0};
    std::size_t total() const { return receives + connects + flushes; }
  };
  static Parked parked(Transport &t)
  {
    Parked p;
    std::lock_guard<std::mutex> lk(t._impl->syncMutex);
    p.receives = t._impl->activeReceives;
    p.connects = t._impl->activeConnects;
    p.flushes = t._impl->activeFlushes;
    return p;
  }
};
} // namespace test
} // namespace network
} // namespace iora

namespace c02fake
{
using namespace iora::network;

/// Scripted engine: records what the Transport asks for, never does I/O, and lets
/// the harness fire the engine callbacks from any thread it likes.
class FakeEngine : public detail::EngineBase
{
public:
  struct Call
  {
    std::string what;
    SessionId sid{0};
  };

  StartResult start() override
  {
    _running.store(true);
    return StartResult::ok();
  }
  void stop() override { _running.store(false); }
  bool isRunning() const override { return _running.load(); }
  TransportErrorInfo lastError() const override { return TransportErrorInfo{TransportError::None, ""}; }

  ListenResult addListener(const std::string &, std::uint16_t, TlsMode) override
  {
    return ListenResult::ok(_nextListener++);
  }
  ConnectResult connect(const std::string &, std::uint16_t, TlsMode) override
  {
    SessionId sid = _nextSid++;
    record("connect", sid);
    return ConnectResult::ok(sid);
  }
  ConnectResult connectViaListener(ListenerId, const std::string &, std::uint16_t) override
  {
    SessionId sid = _nextSid++;
    record("via", sid);
    return ConnectResult::ok(sid);
  }
  bool close(SessionId sid) override
  {
    record("close", sid);
    return true;
  }
  bool send(SessionId sid, const void *, std::size_t) override
  {
    record("send", sid);
    return true;
  }
  void sendAsync(SessionId sid, const void *d, std::size_t n, SendCompleteCallback cb) override
  {
    bool ok = send(sid, d, n);
    if (cb) cb(sid, ok ? SendResult::ok(n) : SendResult::err(TransportErrorInfo{TransportError::Socket, "x"}));
  }
  void setCallbacks(Callbacks cbs) override { _cbs = std::move(cbs); }
  TransportStats getStats() const override { return TransportStats{}; }
  TransportAddress getListenerAddress(ListenerId) const override { return {}; }
  TransportAddress getLocalAddress(SessionId) const override { return {}; }
  TransportAddress getRemoteAddress(SessionId) const override { return {}; }
  bool setDscp(SessionId, std::uint8_t) override { return true; }
  // default id: no application thread is ever "the I/O thread" for this fake
  std::thread::id getIoThreadId() const override { return std::thread::id{}; }
  void detachForTermination() override { _running.store(false); }
  void scheduleSelfDestruct(std::function<void()> deleter) override { _deleter = std::move(deleter); }

  // ---- script side -----------------------------------------------------------
  SessionId allocSid() { return _nextSid++; }
  const Callbacks &cbs() const { return _cbs; }
  std::vector<Call> calls() const
  {
    std::lock_guard<std::mutex> lk(_mu);
    return _calls;
  }

private:
  void record(const char *what, SessionId sid)
  {
    std::lock_guard<std::mutex> lk(_mu);
    _calls.push_back(Call{what, sid});
  }
  std::atomic<bool> _running{false};
  std::atomic<SessionId> _nextSid{1};
  std::atomic<ListenerId> _nextListener{1};
  Callbacks _cbs;
  mutable std::mutex _mu;
  std::vector<Call> _calls;
  std::function<void()> _deleter;
};

} // namespace c02fake
