// c10_sched.hpp - seeded schedule perturbation for the C10 / C09 thread harnesses.
//
// Two parts:
//  (1) sched::Arm / sched::pause(): per-thread xorshift PRNG seeded from the plan
//      (pbt::Src draws a 32-bit seed per case; every thread mixes in its own index),
//      used for pacing decisions that must not consume rapidcheck choices per call.
//  (2) with -DC10_SCHED_INTERPOSE (ASan/plain builds only - never under TSan, which
//      needs its own interceptors): strong definitions of pthread_cond_wait /
//      pthread_cond_clockwait / pthread_cond_timedwait / pthread_cond_signal /
//      pthread_cond_broadcast / pthread_mutex_lock in the harness executable. An
//      *armed* thread sleeps a seeded 0..maxDelayUs at these points before calling
//      the real function (dlsym RTLD_NEXT). A delay at the entry of cond_wait happens
//      after the caller evaluated its predicate and before it parks, with the mutex
//      held - i.e. it widens exactly the "predicate checked, not yet parked" window
//      to hundreds of microseconds. Any such delay is a legal schedule (the thread
//      could have been preempted there), so a failure under perturbation is a failure
//      of the code for a real interleaving.
//
// Unarmed threads (pbt runtime, watchdog, main thread unless it arms itself) are never
// delayed. Include this header in exactly one TU per executable.
#pragma once
#include <atomic>
#include <cstdint>
#include <ctime>
#include <pthread.h>
#include <sched.h>

namespace sched
{

struct ThreadState
{
  bool armed = false;
  std::uint64_t rng = 0x9e3779b97f4a7c15ULL;
  std::uint32_t maxDelayUs = 0; // upper bound of an injected delay
  std::uint32_t oneIn = 0;      // a perturbation point fires with probability 1/oneIn
  std::uint32_t points = 0;     // bit mask of enabled perturbation points
  std::uint64_t fired = 0;
  std::uint32_t scriptedEntryUs = 0; // one-shot: sleep this long at the next cond-wait entry
  std::uint32_t lockCount = 0;       // pthread_mutex_lock calls since scriptLockDelay()
  std::uint32_t scriptedLockIndex = 0, scriptedLockUs = 0; // one-shot: sleep before the n-th lock
};

enum Point : std::uint32_t
{
  kCondWaitEntry = 1u,  // predicate evaluated, mutex held, not yet parked
  kCondWaitExit = 2u,   // woken, mutex re-acquired, predicate not yet re-evaluated
  kNotify = 4u,         // before signal/broadcast (usually after the unlock)
  kMutexLock = 8u,      // before acquiring a mutex (check-then-lock windows)
  kAllPoints = 15u
};

inline ThreadState &ts()
{
  static thread_local ThreadState s;
  return s;
}

inline std::uint64_t next(ThreadState &s)
{
  std::uint64_t x = s.rng;
  x ^= x << 13;
  x ^= x >> 7;
  x ^= x << 17;
  s.rng = x;
  return x * 0x2545F4914F6CDD1DULL;
}

/// uniform in [0, n) from the calling thread's plan-seeded PRNG
inline std::uint32_t pick(std::uint32_t n)
{
  return n ? static_cast<std::uint32_t>((next(ts()) >> 33) % n) : 0;
}

inline void sleepUs(std::uint32_t us)
{
  if (us == 0)
  {
    ::sched_yield();
    return;
  }
  timespec t;
  t.tv_sec = us / 1000000;
  t.tv_nsec = static_cast<long>(us % 1000000) * 1000;
  ::nanosleep(&t, nullptr);
}

/// busy wait of roughly n * ~2 ns without touching shared memory
inline void spin(std::uint32_t n)
{
  for (volatile std::uint32_t i = 0; i < n; i = i + 1) {}
}

/// RAII: arm the calling thread for the lifetime of the object.
struct Arm
{
  Arm(std::uint64_t planSeed, std::uint32_t threadIndex, std::uint32_t maxDelayUs, std::uint32_t oneIn,
      std::uint32_t points = kAllPoints)
  {
    ThreadState &s = ts();
    s.rng = (planSeed + 1) * 0x9e3779b97f4a7c15ULL ^ ((threadIndex + 1ULL) * 0xbf58476d1ce4e5b9ULL);
    if (s.rng == 0) s.rng = 0x1234567;
    for (int i = 0; i < 4; ++i) next(s);
    s.maxDelayUs = maxDelayUs;
    s.oneIn = oneIn;
    s.points = points;
    s.fired = 0;
    s.armed = oneIn != 0;
  }
  ~Arm() { ts().armed = false; }
  Arm(const Arm &) = delete;
  Arm &operator=(const Arm &) = delete;
};

/// plan-scripted delay: the calling thread sleeps `us` at its next cond-wait entry, i.e. after it
/// evaluated the wait predicate and before it parks (no-op without interposition)
inline void scriptEntryDelay(std::uint32_t us) { ts().scriptedEntryUs = us; }

/// plan-scripted delay: the calling thread sleeps `us` before its n-th (1-based) pthread_mutex_lock
/// from now on (no-op without interposition)
inline void scriptLockDelay(std::uint32_t nth, std::uint32_t us)
{
  ThreadState &s = ts();
  s.lockCount = 0;
  s.scriptedLockIndex = nth;
  s.scriptedLockUs = us;
}

/// called by the interposed functions
inline void perturb(std::uint32_t point)
{
  ThreadState &s = ts();
  if (point == kCondWaitEntry && s.scriptedEntryUs)
  {
    std::uint32_t us = s.scriptedEntryUs;
    s.scriptedEntryUs = 0;
    ++s.fired;
    sleepUs(us);
    return;
  }
  if (point == kMutexLock && s.scriptedLockUs && ++s.lockCount == s.scriptedLockIndex)
  {
    std::uint32_t us = s.scriptedLockUs;
    s.scriptedLockUs = 0;
    ++s.fired;
    sleepUs(us);
    return;
  }
  if (!s.armed || !(s.points & point)) return;
  if (pick(s.oneIn) != 0) return;
  ++s.fired;
  s.armed = false; // nanosleep/yield never re-enter, but stay safe
  std::uint32_t k = pick(4);
  if (k == 0)
    ::sched_yield();
  else
    sleepUs(pick(s.maxDelayUs + 1));
  s.armed = true;
}

#ifdef C10_SCHED_INTERPOSE
constexpr bool kInterposed = true;
#else
constexpr bool kInterposed = false;
#endif

} // namespace sched

#ifdef C10_SCHED_INTERPOSE
#include <dlfcn.h>

namespace sched
{
namespace detail
{
template <class Fn> Fn real(const char *name, const char *version)
{
  void *p = version ? ::dlvsym(RTLD_NEXT, name, version) : nullptr;
  if (!p) p = ::dlsym(RTLD_NEXT, name);
  return reinterpret_cast<Fn>(p);
}
} // namespace detail
} // namespace sched

extern "C"
{
  int pthread_cond_wait(pthread_cond_t *c, pthread_mutex_t *m)
  {
    using Fn = int (*)(pthread_cond_t *, pthread_mutex_t *);
    static Fn fn = sched::detail::real<Fn>("pthread_cond_wait", "GLIBC_2.3.2");
    sched::perturb(sched::kCondWaitEntry);
    int r = fn(c, m);
    sched::perturb(sched::kCondWaitExit);
    return r;
  }

  int pthread_cond_timedwait(pthread_cond_t *c, pthread_mutex_t *m, const struct timespec *t)
  {
    using Fn = int (*)(pthread_cond_t *, pthread_mutex_t *, const struct timespec *);
    static Fn fn = sched::detail::real<Fn>("pthread_cond_timedwait", "GLIBC_2.3.2");
    sched::perturb(sched::kCondWaitEntry);
    int r = fn(c, m, t);
    sched::perturb(sched::kCondWaitExit);
    return r;
  }

  int pthread_cond_clockwait(pthread_cond_t *c, pthread_mutex_t *m, clockid_t clk, const struct timespec *t)
  {
    using Fn = int (*)(pthread_cond_t *, pthread_mutex_t *, clockid_t, const struct timespec *);
    static Fn fn = sched::detail::real<Fn>("pthread_cond_clockwait", nullptr);
    sched::perturb(sched::kCondWaitEntry);
    int r = fn(c, m, clk, t);
    sched::perturb(sched::kCondWaitExit);
    return r;
  }

  int pthread_cond_signal(pthread_cond_t *c)
  {
    using Fn = int (*)(pthread_cond_t *);
    static Fn fn = sched::detail::real<Fn>("pthread_cond_signal", "GLIBC_2.3.2");
    sched::perturb(sched::kNotify);
    return fn(c);
  }

  int pthread_cond_broadcast(pthread_cond_t *c)
  {
    using Fn = int (*)(pthread_cond_t *);
    static Fn fn = sched::detail::real<Fn>("pthread_cond_broadcast", "GLIBC_2.3.2");
    sched::perturb(sched::kNotify);
    return fn(c);
  }

  int pthread_mutex_lock(pthread_mutex_t *m)
  {
    using Fn = int (*)(pthread_mutex_t *);
    static Fn fn = sched::detail::real<Fn>("pthread_mutex_lock", nullptr);
    sched::perturb(sched::kMutexLock);
    return fn(m);
  }
}
#endif
