// c01_interpose_net.hpp - API of the link-time network fault interposer
// (implementation: harness/c01_interpose_net.cpp, linked into the harness executable).
//
// The executable defines strong send/recv/sendto/recvfrom/read/write/writev/sendmsg/recvmsg
// (+ socket/accept/accept4/close for book-keeping). Calls on file descriptors that are NOT
// engine sockets are forwarded untouched (dlsym(RTLD_NEXT)). Engine sockets are the AF_INET
// SOCK_STREAM / SOCK_DGRAM sockets created with SOCK_NONBLOCK (socket()) or through accept4()
// while the interposer is armed, on a thread that is not marked as a harness thread. The raw
// peers of c01_rawpeer.hpp only create blocking sockets and use accept(), so they never match.
//
// Faults that are injected (sound by construction):
//   write side (send/sendto/write on an engine socket): PASS | CUT to n bytes (stream sockets
//     only, 1 <= n < len, the n bytes really go to the kernel) | EAGAIN (nothing is written).
//     The kernel may do both at any time.
//   read side (recv/read on an engine *stream* socket): PASS | CUT the request to n bytes.
//     Never a spurious EAGAIN (with data pending that cannot happen on Linux and would starve
//     an edge-triggered reader), never a cut on datagram sockets (would truncate a datagram).
#pragma once
#include <cstdint>
#include <string>
#include <vector>

namespace c01net
{

enum Act : std::uint8_t
{
  PASS = 0,
  CUT_ABS = 1, // write/read at most n bytes                     (clamped to [1, len-1] on writes)
  CUT_END = 2, // write/read all but the last n bytes            (clamped likewise)
  AGAIN = 3    // writes only: return -1 / EAGAIN without touching the kernel
};

struct Step
{
  std::uint8_t act = PASS;
  std::uint32_t n = 0;
};

struct Counters
{
  // engine stream sockets
  std::uint64_t wrCalls = 0;       // send/write calls issued by the engine
  std::uint64_t wrShortReal = 0;   // kernel itself returned 0 <= r < requested (no injection on that call)
  std::uint64_t wrAgainReal = 0;   // kernel itself returned EAGAIN
  std::uint64_t wrCutInj = 0;      // injected short count
  std::uint64_t wrAgainInj = 0;    // injected EAGAIN
  std::uint64_t wrBytes = 0;       // bytes accepted by the kernel
  std::uint64_t rdCalls = 0;
  std::uint64_t rdCutInj = 0;
  std::uint64_t rdAgainReal = 0;
  std::uint64_t rdBytes = 0;
  std::uint64_t viaReadWrite = 0;  // calls that came through read()/write() (libssl BIO)
  // engine datagram sockets
  std::uint64_t dgWrCalls = 0;
  std::uint64_t dgWrAgainInj = 0;
  std::uint64_t dgWrAgainReal = 0;
  std::uint64_t dgRdCalls = 0;
  // calls the engines are not expected to make on their sockets (passed through, counted)
  std::uint64_t unexpected = 0;
  std::uint64_t engineSockets = 0; // engine sockets seen since reset()
};

/// forget all marks, scripts and counters; disarm
void reset();
/// while armed, newly created non-blocking AF_INET sockets are treated as engine sockets
void arm(bool on);
/// mark the calling thread as a harness thread: sockets it creates are never engine sockets
void harnessThread(bool on);
/// fault script for the engine's stream sockets; step i applies to the i-th write / read call
/// (counted over all engine stream sockets since the script was installed)
void setStreamWriteScript(const std::vector<Step> &s);
void setStreamReadScript(const std::vector<Step> &s);
/// fault script for the engine's datagram sockets (only PASS / AGAIN are honoured)
void setDgramWriteScript(const std::vector<Step> &s);
/// steps not yet consumed
std::size_t streamWriteScriptLeft();
std::size_t streamReadScriptLeft();
std::size_t dgramWriteScriptLeft();
Counters counters();
/// monotone counter of all engine-socket I/O calls (progress indicator for stall detection)
std::uint64_t activity();
/// file descriptor of the engine stream socket created most recently (accept4() or socket());
/// -1 if none or already closed. With one session per case this is the session's socket; the
/// harness only uses it for read-only queries (SIOCOUTQ / FIONREAD) in its stall criterion.
int lastEngineStreamFd();
/// true when the interposed symbols are really in effect (self test, call once)
bool selfTest(std::string &why);

} // namespace c01net
