// c18_ref_ws.hpp - independent RFC 6455 reference for the C18 oracles.
//
// Nothing in here includes or calls iora code. It provides
//   * a frame encoder (minimal and, for hostile inputs, forced 16/64-bit length forms
//     and arbitrary declared lengths),
//   * a strict frame decoder that distinguishes complete / incomplete / invalid,
//   * a strict UTF-8 validator (RFC 3629: no overlongs, no surrogates, <= U+10FFFF),
//   * SHA-1/base64 helpers for the opening handshake (OpenSSL), used by the raw peers.
// No dependency on the pbt runtime, so the libFuzzer target can use it as well.
#pragma once
#include <cstdint>
#include <cstring>
#include <string>
#include <string_view>
#include <vector>

#include <openssl/evp.h>
#include <openssl/sha.h>

namespace refws
{

enum : std::uint8_t
{
  OpCont = 0x0,
  OpText = 0x1,
  OpBinary = 0x2,
  OpClose = 0x8,
  OpPing = 0x9,
  OpPong = 0xA
};

inline bool isDefinedOpcode(std::uint8_t op)
{
  return op == OpCont || op == OpText || op == OpBinary || op == OpClose || op == OpPing || op == OpPong;
}
/// RFC 6455 5.2: opcodes 0x8-0xF are control frames (0xB-0xF reserved)
inline bool isControlOpcode(std::uint8_t op) { return (op & 0x8) != 0; }

struct Frame
{
  bool fin = true;
  std::uint8_t rsv = 0; // 3 bits
  std::uint8_t opcode = OpText;
  bool masked = false;
  std::uint8_t key[4] = {0, 0, 0, 0};
  std::string payload; // unmasked application bytes
};

inline bool operator==(const Frame &a, const Frame &b)
{
  return a.fin == b.fin && a.rsv == b.rsv && a.opcode == b.opcode && a.masked == b.masked &&
         (!a.masked || std::memcmp(a.key, b.key, 4) == 0) && a.payload == b.payload;
}

/// a complete application message
struct Msg
{
  bool text = true;
  std::string payload;
};
inline bool operator==(const Msg &a, const Msg &b) { return a.text == b.text && a.payload == b.payload; }
inline bool operator!=(const Msg &a, const Msg &b) { return !(a == b); }

enum class LenForm
{
  Minimal,
  Force16,
  Force64
};

/// header bytes with an arbitrary declared length (lenCode 0..125 literal, 126 -> 16-bit `ext`,
/// 127 -> 64-bit `ext`); no payload
inline std::string rawHeader(bool fin, std::uint8_t rsv, std::uint8_t opcode, bool masked, const std::uint8_t key[4],
                             int lenCode, std::uint64_t ext)
{
  std::string o;
  o += static_cast<char>((fin ? 0x80 : 0) | ((rsv & 7) << 4) | (opcode & 0x0F));
  o += static_cast<char>((masked ? 0x80 : 0) | (lenCode & 0x7F));
  if (lenCode == 126)
  {
    o += static_cast<char>((ext >> 8) & 0xFF);
    o += static_cast<char>(ext & 0xFF);
  }
  else if (lenCode == 127)
  {
    for (int i = 7; i >= 0; --i) o += static_cast<char>((ext >> (8 * i)) & 0xFF);
  }
  if (masked) o.append(reinterpret_cast<const char *>(key), 4);
  return o;
}

inline std::string encode(const Frame &f, LenForm form = LenForm::Minimal)
{
  const std::uint64_t n = f.payload.size();
  int lenCode;
  if (form == LenForm::Force64) lenCode = 127;
  else if (form == LenForm::Force16 && n <= 0xFFFF) lenCode = 126;
  else if (n <= 125) lenCode = static_cast<int>(n);
  else if (n <= 0xFFFF) lenCode = 126;
  else lenCode = 127;
  std::string o = rawHeader(f.fin, f.rsv, f.opcode, f.masked, f.key, lenCode, n);
  const std::size_t at = o.size();
  o += f.payload;
  if (f.masked)
    for (std::size_t i = 0; i < f.payload.size(); ++i) o[at + i] = static_cast<char>(o[at + i] ^ f.key[i & 3]);
  return o;
}

enum class St
{
  Complete,
  Incomplete,
  Invalid
};

struct Decoded
{
  St st = St::Incomplete;
  Frame f;
  std::size_t consumed = 0;   // bytes of the frame when Complete
  std::size_t headerLen = 0;  // when the header was complete
  bool headerComplete = false;
  std::uint64_t declared = 0; // declared payload length when the header was complete
  bool nonMinimalLength = false;
  bool reservedOpcode = false;
  std::string why; // for Invalid
};

/// Strict decoder. Invalid as soon as the available bytes prove a violation of RFC 6455 5.2/5.5:
/// RSV bits set (no extension negotiated), control frame with length code > 125 or FIN clear,
/// 64-bit length with the most significant bit set. A non-minimal length encoding and a reserved
/// opcode are decoded and flagged (their handling is the endpoint's business).
inline Decoded decode(std::string_view in)
{
  Decoded d;
  if (in.size() < 2) return d;
  const std::uint8_t b0 = static_cast<std::uint8_t>(in[0]), b1 = static_cast<std::uint8_t>(in[1]);
  d.f.fin = (b0 & 0x80) != 0;
  d.f.rsv = (b0 >> 4) & 7;
  d.f.opcode = b0 & 0x0F;
  d.f.masked = (b1 & 0x80) != 0;
  d.reservedOpcode = !isDefinedOpcode(d.f.opcode);
  const int lenCode = b1 & 0x7F;
  if (d.f.rsv != 0)
  {
    d.st = St::Invalid;
    d.why = "RSV bits set";
    return d;
  }
  if (isControlOpcode(d.f.opcode) && (lenCode > 125 || !d.f.fin))
  {
    d.st = St::Invalid;
    d.why = lenCode > 125 ? "control frame with extended length" : "fragmented control frame";
    return d;
  }
  std::size_t pos = 2;
  std::uint64_t n = static_cast<std::uint64_t>(lenCode);
  if (lenCode == 126)
  {
    if (in.size() < pos + 2) return d;
    n = (static_cast<std::uint64_t>(static_cast<std::uint8_t>(in[2])) << 8) | static_cast<std::uint8_t>(in[3]);
    pos += 2;
    d.nonMinimalLength = n <= 125;
  }
  else if (lenCode == 127)
  {
    if (in.size() < pos + 8) return d;
    n = 0;
    for (int i = 0; i < 8; ++i) n = (n << 8) | static_cast<std::uint8_t>(in[2 + i]);
    pos += 8;
    if (n >> 63)
    {
      d.st = St::Invalid;
      d.declared = n;
      d.why = "64-bit length with the most significant bit set";
      return d;
    }
    d.nonMinimalLength = n <= 0xFFFF;
  }
  if (d.f.masked)
  {
    if (in.size() < pos + 4) return d;
    std::memcpy(d.f.key, in.data() + pos, 4);
    pos += 4;
  }
  d.headerComplete = true;
  d.headerLen = pos;
  d.declared = n;
  if (in.size() - pos < n) return d; // incomplete payload (no wrap: pos <= size)
  d.f.payload.assign(in.data() + pos, static_cast<std::size_t>(n));
  if (d.f.masked)
    for (std::size_t i = 0; i < d.f.payload.size(); ++i)
      d.f.payload[i] = static_cast<char>(d.f.payload[i] ^ d.f.key[i & 3]);
  d.consumed = pos + static_cast<std::size_t>(n);
  d.st = St::Complete;
  return d;
}

/// Strict UTF-8 (RFC 3629) by explicit code-point ranges (table 3-7 of the Unicode standard).
inline bool utf8Valid(std::string_view s)
{
  std::size_t i = 0;
  const std::size_t n = s.size();
  auto u = [&](std::size_t k) { return static_cast<unsigned>(static_cast<std::uint8_t>(s[k])); };
  auto in = [](unsigned v, unsigned lo, unsigned hi) { return v >= lo && v <= hi; };
  while (i < n)
  {
    const unsigned c = u(i);
    if (c <= 0x7F)
    {
      i += 1;
    }
    else if (in(c, 0xC2, 0xDF))
    {
      if (i + 1 >= n || !in(u(i + 1), 0x80, 0xBF)) return false;
      i += 2;
    }
    else if (in(c, 0xE0, 0xEF))
    {
      if (i + 2 >= n) return false;
      const unsigned lo = c == 0xE0 ? 0xA0 : 0x80, hi = c == 0xED ? 0x9F : 0xBF;
      if (!in(u(i + 1), lo, hi) || !in(u(i + 2), 0x80, 0xBF)) return false;
      i += 3;
    }
    else if (in(c, 0xF0, 0xF4))
    {
      if (i + 3 >= n) return false;
      const unsigned lo = c == 0xF0 ? 0x90 : 0x80, hi = c == 0xF4 ? 0x8F : 0xBF;
      if (!in(u(i + 1), lo, hi) || !in(u(i + 2), 0x80, 0xBF) || !in(u(i + 3), 0x80, 0xBF)) return false;
      i += 4;
    }
    else
      return false;
  }
  return true;
}

inline void appendCodePoint(std::string &o, std::uint32_t cp)
{
  if (cp < 0x80) o += static_cast<char>(cp);
  else if (cp < 0x800)
  {
    o += static_cast<char>(0xC0 | (cp >> 6));
    o += static_cast<char>(0x80 | (cp & 0x3F));
  }
  else if (cp < 0x10000)
  {
    o += static_cast<char>(0xE0 | (cp >> 12));
    o += static_cast<char>(0x80 | ((cp >> 6) & 0x3F));
    o += static_cast<char>(0x80 | (cp & 0x3F));
  }
  else
  {
    o += static_cast<char>(0xF0 | (cp >> 18));
    o += static_cast<char>(0x80 | ((cp >> 12) & 0x3F));
    o += static_cast<char>(0x80 | ((cp >> 6) & 0x3F));
    o += static_cast<char>(0x80 | (cp & 0x3F));
  }
}

// ---- reference model: which messages does a conformant frame sequence deliver? ------------
struct Model
{
  std::vector<Msg> delivered; // messages completed inside the conformant prefix, in order
  bool conformant = true;     // false: a frame violated the protocol state machine; modelling stopped there
  bool closed = false;        // a close frame ended the sequence
  std::uint16_t closeCode = 1005;
  std::string closeReason;
  bool invalidText = false; // a complete text message was not UTF-8; modelling stopped there
  std::string invalidPayload;
  std::size_t pings = 0;
  std::size_t largestMessage = 0;
  std::size_t framesModelled = 0; // frames looked at before modelling stopped (== size: all of them)
};

/// `maxMessage`: modelling stops (conformant=false) when a message grows beyond it, because what
/// the endpoint does then is its own policy.
inline Model modelFrames(const std::vector<Frame> &frames, std::size_t maxMessage = ~std::size_t(0))
{
  Model m;
  bool open = false;
  Msg cur;
  for (const Frame &f : frames)
  {
    ++m.framesModelled;
    if (f.rsv != 0 || !isDefinedOpcode(f.opcode) || (isControlOpcode(f.opcode) && (!f.fin || f.payload.size() > 125)))
    {
      m.conformant = false;
      return m;
    }
    if (f.opcode == OpPing)
    {
      ++m.pings;
      continue;
    }
    if (f.opcode == OpPong) continue;
    if (f.opcode == OpClose)
    {
      if (f.payload.size() == 1)
      {
        m.conformant = false;
        return m;
      }
      m.closed = true;
      if (f.payload.size() >= 2)
      {
        m.closeCode = static_cast<std::uint16_t>((static_cast<std::uint8_t>(f.payload[0]) << 8) | static_cast<std::uint8_t>(f.payload[1]));
        m.closeReason = f.payload.substr(2);
      }
      return m;
    }
    if (f.opcode == OpCont)
    {
      if (!open)
      {
        m.conformant = false;
        return m;
      }
      cur.payload += f.payload;
    }
    else
    {
      if (open)
      {
        m.conformant = false;
        return m;
      }
      cur = Msg{f.opcode == OpText, f.payload};
      open = true;
    }
    if (cur.payload.size() > m.largestMessage) m.largestMessage = cur.payload.size();
    if (cur.payload.size() > maxMessage)
    {
      m.conformant = false;
      return m;
    }
    if (f.fin)
    {
      open = false;
      if (cur.text && !utf8Valid(cur.payload))
      {
        m.invalidText = true;
        m.invalidPayload = cur.payload;
        return m;
      }
      m.delivered.push_back(cur);
    }
  }
  return m;
}

// ---- opening handshake helpers (OpenSSL, not iora's sha1/base64) -----------------------
inline std::string base64(const unsigned char *p, std::size_t n)
{
  std::string out(4 * ((n + 2) / 3) + 1, '\0');
  int m = EVP_EncodeBlock(reinterpret_cast<unsigned char *>(&out[0]), p, static_cast<int>(n));
  out.resize(static_cast<std::size_t>(m));
  return out;
}
inline std::string acceptFor(const std::string &key)
{
  const std::string cat = key + "258EAFA5-E914-47DA-95CA-C5AB0DC85B11";
  unsigned char md[SHA_DIGEST_LENGTH];
  SHA1(reinterpret_cast<const unsigned char *>(cat.data()), cat.size(), md);
  return base64(md, sizeof md);
}

inline const char *opName(std::uint8_t op)
{
  switch (op)
  {
  case OpCont: return "CONT";
  case OpText: return "TEXT";
  case OpBinary: return "BIN";
  case OpClose: return "CLOSE";
  case OpPing: return "PING";
  case OpPong: return "PONG";
  default: return "RSVD";
  }
}

} // namespace refws
