// c14_xml_check.hpp - the validity predicate for arbitrary bytes (C14, second sentence of the
// property), shared by harness/c14_xml.cpp (mutate / limits) and harness/fuzz_xml.cpp.
//
// For one exact-size input buffer and one Options value it runs the pull tokenizer, the SAX
// driver and the DOM builder (each on a fresh Parser) and checks
//   * termination with progress (token offsets strictly increase, at most size+1 tokens)
//   * every string_view of every token lies inside the buffer and inside the token's own span
//   * the tokens tile the input: each construct is delimited as XML prescribes around its
//     reported slices and only white space lies between two tokens (no markup is hidden)
//   * if the tokenizer reaches EOF without error: the token stream is properly nested with
//     matching end-tag names (own stack), reported depths agree with that stack, and every
//     configured limit holds on what was reported
//   * SAX delivers exactly the pull tokens through the matching callbacks; runSax()/build()
//     accept exactly when the pull loop accepts (DOM may additionally refuse undecodable text)
//   * the DOM equals the tree rebuilt from the pull tokens + Parser::decodeEntities
//   * Parser::decodeEntities agrees with the strict reference decoder wherever the slice is
//     valid, never grows its input, never produces the planted marker out of nothing and never
//     succeeds by replacing a reference to an undefined entity
#pragma once
#include "c14_ref_xml.hpp"

#include <iora/parsers/xml.hpp>

#include <cstdint>
#include <cstring>
#include <functional>
#include <memory>
#include <string>
#include <string_view>
#include <vector>

namespace c14
{
namespace ix = iora::parsers::xml;

/// exact-size heap copy: any read past the end (or before the start) is visible to ASan
struct ExactBuf
{
  std::unique_ptr<char[]> p;
  std::size_t n;
  explicit ExactBuf(std::string_view s) : p(new char[s.size() ? s.size() : 1]), n(s.size())
  {
    if (n) std::memcpy(p.get(), s.data(), n);
  }
  std::string_view view() const { return std::string_view(p.get(), n); }
};

struct OAttr
{
  std::string_view name, value;
};

struct Obs
{
  ix::TokenKind kind = ix::TokenKind::Invalid;
  std::string_view name, text;
  std::vector<OAttr> attrs;
  bool selfClosing = false;
  std::size_t depth = 0, offset = 0;
  int via = -1; // SAX: which callback delivered it (index = TokenKind value)
};

inline Obs fromToken(const ix::Token &t, int via = -1)
{
  Obs o;
  o.kind = t.kind;
  o.name = t.name;
  o.text = t.text;
  o.attrs.reserve(t.attributes.size());
  for (auto &a : t.attributes) o.attrs.push_back(OAttr{a.name, a.value});
  o.selfClosing = t.selfClosing;
  o.depth = t.depth;
  o.offset = t.offset;
  o.via = via;
  return o;
}

inline const char *kindName(ix::TokenKind k)
{
  switch (k)
  {
  case ix::TokenKind::Invalid: return "Invalid";
  case ix::TokenKind::Eof: return "Eof";
  case ix::TokenKind::XmlDecl: return "XmlDecl";
  case ix::TokenKind::Doctype: return "Doctype";
  case ix::TokenKind::StartElement: return "StartElement";
  case ix::TokenKind::EndElement: return "EndElement";
  case ix::TokenKind::EmptyElement: return "EmptyElement";
  case ix::TokenKind::Text: return "Text";
  case ix::TokenKind::CData: return "CData";
  case ix::TokenKind::Comment: return "Comment";
  case ix::TokenKind::ProcessingInstruction: return "PI";
  }
  return "?";
}

struct PullRun
{
  std::vector<Obs> toks;
  bool ok = false;          // reached EOF without error
  bool noProgress = false;  // more tokens than bytes
  bool eofToken = false;    // current().kind == Eof after the loop
  bool stickyFalse = true;  // next() keeps returning false after the end
  std::string err;
  std::size_t errOffset = 0;
};

inline PullRun runPull(std::string_view in, const ix::Options &opt)
{
  PullRun r;
  ix::Parser p(in, opt);
  const std::size_t guard = in.size() + 2;
  while (p.next())
  {
    r.toks.push_back(fromToken(p.current()));
    if (r.toks.size() > guard)
    {
      r.noProgress = true;
      return r;
    }
  }
  if (const ix::Error *e = p.error())
  {
    r.err = e->message;
    r.errOffset = e->offset;
  }
  else
  {
    r.ok = true;
    r.eofToken = p.current().kind == ix::TokenKind::Eof;
  }
  if (p.next() || p.next()) r.stickyFalse = false;
  if (r.ok && p.error() != nullptr) r.stickyFalse = false;
  return r;
}

struct SaxRun
{
  std::vector<Obs> evs;
  bool ok = false;
};

/// mask bit k set = callback for TokenKind value k registered
inline SaxRun runSaxAll(std::string_view in, const ix::Options &opt, unsigned mask = ~0u)
{
  SaxRun r;
  ix::Parser p(in, opt);
  ix::SaxCallbacks cb;
  auto mk = [&r](ix::TokenKind via) { return [&r, via](const ix::Token &t) { r.evs.push_back(fromToken(t, (int)via)); }; };
  auto on = [&](ix::TokenKind k) { return (mask >> (int)k) & 1u; };
  if (on(ix::TokenKind::XmlDecl)) cb.onXmlDecl = mk(ix::TokenKind::XmlDecl);
  if (on(ix::TokenKind::Doctype)) cb.onDoctype = mk(ix::TokenKind::Doctype);
  if (on(ix::TokenKind::StartElement)) cb.onStartElement = mk(ix::TokenKind::StartElement);
  if (on(ix::TokenKind::EndElement)) cb.onEndElement = mk(ix::TokenKind::EndElement);
  if (on(ix::TokenKind::EmptyElement)) cb.onEmptyElement = mk(ix::TokenKind::EmptyElement);
  if (on(ix::TokenKind::Text)) cb.onText = mk(ix::TokenKind::Text);
  if (on(ix::TokenKind::CData)) cb.onCData = mk(ix::TokenKind::CData);
  if (on(ix::TokenKind::Comment)) cb.onComment = mk(ix::TokenKind::Comment);
  if (on(ix::TokenKind::ProcessingInstruction)) cb.onPI = mk(ix::TokenKind::ProcessingInstruction);
  r.ok = ix::runSax(p, cb);
  return r;
}

inline bool sameObs(const Obs &a, const Obs &b)
{
  auto sameView = [](std::string_view x, std::string_view y) { return x.size() == y.size() && (x.empty() || x.data() == y.data()); };
  if (a.kind != b.kind || !sameView(a.name, b.name) || !sameView(a.text, b.text) || a.attrs.size() != b.attrs.size() ||
      a.selfClosing != b.selfClosing || a.depth != b.depth || a.offset != b.offset)
    return false;
  for (std::size_t i = 0; i < a.attrs.size(); ++i)
    if (!sameView(a.attrs[i].name, b.attrs[i].name) || !sameView(a.attrs[i].value, b.attrs[i].value)) return false;
  return true;
}

/// SAX events vs pull tokens (filtered by the registration mask). Empty string = agree.
inline std::string saxAgrees(const std::vector<Obs> &pull, const SaxRun &sax, bool pullOk, unsigned mask = ~0u)
{
  if (sax.ok != pullOk) return std::string("runSax returned ") + (sax.ok ? "true" : "false") + " but the pull loop " + (pullOk ? "reached EOF without error" : "failed");
  std::size_t j = 0;
  for (std::size_t i = 0; i < pull.size(); ++i)
  {
    if (!((mask >> (int)pull[i].kind) & 1u)) continue;
    if (j >= sax.evs.size()) return "SAX delivered fewer events than the pull tokenizer (missing #" + std::to_string(i) + " " + kindName(pull[i].kind) + ")";
    if (sax.evs[j].via != (int)pull[i].kind)
      return std::string("token ") + kindName(pull[i].kind) + " delivered through the callback for " + kindName((ix::TokenKind)sax.evs[j].via);
    if (!sameObs(sax.evs[j], pull[i])) return "SAX event #" + std::to_string(j) + " differs from pull token #" + std::to_string(i) + " (" + kindName(pull[i].kind) + ")";
    ++j;
  }
  if (j != sax.evs.size()) return "SAX delivered more events than the pull tokenizer";
  return "";
}

/// DOM tree vs the tree implied by the pull tokens. Empty string = agree.
inline std::string domAgrees(const ix::Node &doc, const std::vector<Obs> &toks)
{
  if (doc.type != ix::NodeType::Document) return "root node is not a Document";
  struct Frame
  {
    const ix::Node *n;
    std::size_t next;
  };
  std::vector<Frame> st{{&doc, 0}};
  auto take = [&](ix::NodeType want, std::size_t i) -> const ix::Node *
  {
    Frame &f = st.back();
    if (f.next >= f.n->children.size()) return nullptr;
    const ix::Node *c = f.n->children[f.next].get();
    if (!c || c->type != want) return nullptr;
    ++f.next;
    (void)i;
    return c;
  };
  std::string dec;
  for (std::size_t i = 0; i < toks.size(); ++i)
  {
    const Obs &t = toks[i];
    std::string at = " (token #" + std::to_string(i) + " " + kindName(t.kind) + ")";
    switch (t.kind)
    {
    case ix::TokenKind::StartElement:
    case ix::TokenKind::EmptyElement:
    {
      const ix::Node *e = take(ix::NodeType::Element, i);
      if (!e) return "DOM lacks the element" + at;
      if (e->name != t.name) return "DOM element name '" + e->name + "' != token name '" + std::string(t.name) + "'" + at;
      if (e->attributes.size() != t.attrs.size()) return "DOM attribute count differs" + at;
      for (std::size_t k = 0; k < t.attrs.size(); ++k)
      {
        if (e->attributes[k].name != t.attrs[k].name) return "DOM attribute name differs" + at;
        if (!ix::Parser::decodeEntities(t.attrs[k].value, dec)) return "DOM built although an attribute value does not decode" + at;
        if (e->attributes[k].value != dec) return "DOM attribute value '" + pbt::show(e->attributes[k].value, 60) + "' != decoded token value '" + pbt::show(dec, 60) + "'" + at;
      }
      if (t.kind == ix::TokenKind::StartElement) st.push_back(Frame{e, 0});
      else if (!e->children.empty()) return "DOM node of an empty element has children" + at;
      break;
    }
    case ix::TokenKind::EndElement:
      if (st.size() <= 1) return "end tag without open element" + at;
      if (st.back().next != st.back().n->children.size()) return "DOM element has more children than the token stream" + at;
      st.pop_back();
      break;
    case ix::TokenKind::Text:
    {
      if (!ix::Parser::decodeEntities(t.text, dec)) return "DOM built although a text run does not decode" + at;
      if (dec.empty()) break;
      const ix::Node *n = take(ix::NodeType::Text, i);
      if (!n) return "DOM lacks the text node" + at;
      if (n->value != dec) return "DOM text '" + pbt::show(n->value, 60) + "' != decoded token text '" + pbt::show(dec, 60) + "'" + at;
      break;
    }
    case ix::TokenKind::CData:
    {
      const ix::Node *n = take(ix::NodeType::CData, i);
      if (!n) return "DOM lacks the CDATA node" + at;
      if (n->value != t.text) return "DOM CDATA value differs" + at;
      break;
    }
    case ix::TokenKind::Comment:
    {
      const ix::Node *n = take(ix::NodeType::Comment, i);
      if (!n) return "DOM lacks the comment node" + at;
      if (n->value != t.text) return "DOM comment value differs" + at;
      break;
    }
    case ix::TokenKind::ProcessingInstruction:
    {
      const ix::Node *n = take(ix::NodeType::ProcessingInstruction, i);
      if (!n) return "DOM lacks the PI node" + at;
      if (n->name != t.name || n->value != t.text) return "DOM PI differs" + at;
      break;
    }
    default: break; // XmlDecl / Doctype are not part of the DOM
    }
  }
  if (st.size() != 1) return "token stream ended with open elements";
  if (st.back().next != doc.children.size()) return "DOM document has more children than the token stream";
  return "";
}

inline bool domContains(const ix::Node &n, std::string_view needle)
{
  if (n.value.find(needle) != std::string::npos) return true;
  for (auto &a : n.attributes)
    if (a.value.find(needle) != std::string::npos) return true;
  for (auto &c : n.children)
    if (c && domContains(*c, needle)) return true;
  return false;
}

/// Token extents, derived only from the reported slices and the raw bytes: every token starts
/// where it says, its slices sit at the syntactic places of its construct, the construct is
/// closed by its own terminator, and the bytes between two tokens are white space only - i.e.
/// the tokens tile the input and no markup is hidden inside or between them. "" = fine.
inline std::string tokenExtents(std::string_view in, const std::vector<Obs> &toks, bool accepted)
{
  const std::size_t size = in.size();
  auto isWs = [](char c) { return c == ' ' || c == '\t' || c == '\r' || c == '\n'; };
  auto off = [&](std::string_view v) { return (std::size_t)(v.data() - in.data()); };
  auto skipWs = [&](std::size_t p) { while (p < size && isWs(in[p])) ++p; return p; };
  auto startsWith = [&](std::size_t p, std::string_view lit) { return p <= size && in.substr(p, lit.size()) == lit; };
  auto allWs = [&](std::size_t a, std::size_t b) { for (; a < b; ++a) if (!isWs(in[a])) return false; return true; };
  std::size_t prevEnd = 0;
  for (std::size_t i = 0; i < toks.size(); ++i)
  {
    const Obs &t = toks[i];
    const std::string at = " (token #" + std::to_string(i) + " " + kindName(t.kind) + " at offset " + std::to_string(t.offset) + ")";
    if (t.offset < prevEnd) return "token starts inside the previous token, which ends at " + std::to_string(prevEnd) + at;
    if (!allWs(prevEnd, t.offset)) return "bytes [" + std::to_string(prevEnd) + "," + std::to_string(t.offset) + ") in front of the token are not white space and were not reported" + at;
    std::size_t end = t.offset;
    bool known = true;
    switch (t.kind)
    {
    case ix::TokenKind::Text:
      if (t.text.empty()) { known = false; break; }
      if (off(t.text) != t.offset) return "text slice does not start at the token offset" + at;
      if (t.text.find('<') != std::string_view::npos) return "text token contains '<'" + at;
      end = t.offset + t.text.size();
      if (end < size && in[end] != '<') return "text run ends before the next '<'" + at;
      break;
    case ix::TokenKind::Comment:
    case ix::TokenKind::CData:
    {
      std::string_view open = t.kind == ix::TokenKind::Comment ? "<!--" : "<![CDATA[", close = t.kind == ix::TokenKind::Comment ? "-->" : "]]>";
      if (!startsWith(t.offset, open)) return "token does not start with its opening delimiter" + at;
      std::size_t b = t.offset + open.size();
      // (an empty content may be reported as a null view)
      if (t.text.data() ? off(t.text) != b : !startsWith(b, close)) return "content slice does not follow the opening delimiter" + at;
      if (t.text.find(close) != std::string_view::npos) return "content contains the closing delimiter" + at;
      if (!startsWith(b + t.text.size(), close)) return "content is not followed by the closing delimiter" + at;
      end = b + t.text.size() + close.size();
      break;
    }
    case ix::TokenKind::ProcessingInstruction:
    {
      if (!startsWith(t.offset, "<?")) return "token does not start with '<?'" + at;
      if (t.name.empty() || off(t.name) != t.offset + 2) return "PI target does not follow '<?'" + at;
      std::size_t p = t.offset + 2 + t.name.size();
      std::size_t tb = t.text.data() ? off(t.text) : skipWs(p);
      if (tb < p || tb > size || !allWs(p, tb)) return "PI data does not follow the target" + at;
      if (t.text.find("?>") != std::string_view::npos) return "PI data contains '?>'" + at;
      if (!startsWith(tb + t.text.size(), "?>")) return "PI data is not followed by '?>'" + at;
      end = tb + t.text.size() + 2;
      break;
    }
    case ix::TokenKind::Doctype:
    {
      if (t.offset + 9 > size) return "token shorter than '<!DOCTYPE'" + at;
      static const char lit[] = "<!doctype";
      for (std::size_t k = 0; k < 9; ++k)
      {
        char ch = in[t.offset + k];
        if (ch >= 'A' && ch <= 'Z') ch = (char)(ch - 'A' + 'a');
        if (ch != lit[k]) return "token does not start with '<!DOCTYPE'" + at;
      }
      if (!t.text.data()) { known = false; break; }
      std::size_t te = off(t.text) + t.text.size();
      if (off(t.text) < t.offset + 9 || te > size) return "Doctype content does not follow '<!DOCTYPE'" + at;
      te = skipWs(te);
      if (te >= size || in[te] != '>') return "Doctype content is not followed by '>'" + at;
      end = te + 1;
      break;
    }
    case ix::TokenKind::StartElement:
    case ix::TokenKind::EmptyElement:
    {
      if (t.offset >= size || in[t.offset] != '<') return "token does not start with '<'" + at;
      if (t.name.empty() || off(t.name) != t.offset + 1) return "element name does not follow '<'" + at;
      std::size_t p = t.offset + 1 + t.name.size();
      for (std::size_t k = 0; k < t.attrs.size(); ++k)
      {
        const OAttr &a = t.attrs[k];
        std::string an = " attribute #" + std::to_string(k);
        p = skipWs(p);
        if (a.name.empty() || off(a.name) != p) return "attribute name is not where the previous item ends" + an + at;
        p = skipWs(p + a.name.size());
        if (p >= size || in[p] != '=') return "attribute name is not followed by '='" + an + at;
        p = skipWs(p + 1);
        if (p >= size || (in[p] != '"' && in[p] != '\'')) return "attribute value is not quoted" + an + at;
        char q = in[p++];
        if (a.value.data() ? off(a.value) != p : !(p < size && in[p] == q)) return "attribute value slice does not follow its opening quote" + an + at;
        if (a.value.find(q) != std::string_view::npos) return "attribute value contains its own quote character" + an + at;
        p += a.value.size();
        if (p >= size || in[p] != q) return "attribute value is not followed by its closing quote" + an + at;
        ++p;
      }
      p = skipWs(p);
      if (t.kind == ix::TokenKind::EmptyElement)
      {
        if (p >= size || in[p] != '/') return "empty-element tag without '/'" + at;
        ++p;
      }
      if (p >= size || in[p] != '>') return "tag is not closed by '>' after its last reported attribute" + at;
      end = p + 1;
      break;
    }
    case ix::TokenKind::EndElement:
    {
      if (!startsWith(t.offset, "</")) return "token does not start with '</'" + at;
      if (t.name.empty() || off(t.name) != t.offset + 2) return "end-tag name does not follow '</'" + at;
      std::size_t p = skipWs(t.offset + 2 + t.name.size());
      if (p >= size || in[p] != '>') return "end tag is not closed by '>'" + at;
      end = p + 1;
      break;
    }
    default: known = false; break; // XmlDecl (layout not specified)
    }
    if (!known) end = i + 1 < toks.size() ? toks[i + 1].offset : size;
    prevEnd = end;
  }
  if (accepted && !allWs(prevEnd, size)) return "accepted although bytes [" + std::to_string(prevEnd) + "," + std::to_string(size) + ") after the last token are neither white space nor reported";
  return "";
}

struct Report
{
  std::function<void(const std::string &sig, const std::string &what)> fail;
  std::function<void(const std::string &)> label;
};

struct Outcome
{
  bool accepted = false;
  std::size_t tokens = 0, maxDepth = 0;
  bool special = false;   // >= 1 entity / char ref / CDATA / comment / PI among the tokens
  bool undecodable = false;
  bool failed = false;
};

/// The validity predicate. `in` must view an exact-size heap buffer.
inline Outcome checkArbitrary(std::string_view in, const ix::Options &opt, Report &rep)
{
  Outcome out;
  auto fail = [&](const std::string &sig, const std::string &what)
  {
    if (!out.failed) rep.fail(sig, what);
    out.failed = true;
  };
  const auto base = reinterpret_cast<std::uintptr_t>(in.data());
  const std::size_t size = in.size();
  const std::string_view marker(refxml::kMarker);

  PullRun pr = runPull(in, opt);
  if (pr.noProgress)
  {
    fail("C14/arbitrary/no-progress", "more tokens than input bytes");
    return out;
  }
  if (!pr.stickyFalse) fail("C14/arbitrary/next-after-end", "next() returned true (or an error appeared) after it had returned false");
  if (pr.ok && !pr.eofToken) fail("C14/arbitrary/eof-token", "loop ended without error but current().kind is not Eof");
  if (!pr.ok && pr.errOffset > size) fail("C14/arbitrary/error-offset-outside", "error offset " + std::to_string(pr.errOffset) + " > input size " + std::to_string(size));

  // ---- slices, order, spans
  auto inside = [&](std::string_view v, std::size_t lo, std::size_t hi)
  {
    if (v.empty() && v.data() == nullptr) return true;
    auto p = reinterpret_cast<std::uintptr_t>(v.data());
    return p >= base + lo && p <= base + hi && v.size() <= base + hi - p;
  };
  for (std::size_t i = 0; i < pr.toks.size() && !out.failed; ++i)
  {
    const Obs &t = pr.toks[i];
    std::string at = "token #" + std::to_string(i) + " " + kindName(t.kind) + " at offset " + std::to_string(t.offset);
    if (t.offset >= size) { fail("C14/arbitrary/offset-outside", at + ": offset not inside the input of " + std::to_string(size) + " bytes"); break; }
    if (i && t.offset <= pr.toks[i - 1].offset) { fail("C14/arbitrary/order", at + ": offset does not increase (previous " + std::to_string(pr.toks[i - 1].offset) + ")"); break; }
    bool all = inside(t.name, 0, size) && inside(t.text, 0, size);
    for (auto &a : t.attrs) all = all && inside(a.name, 0, size) && inside(a.value, 0, size);
    if (!all) { fail("C14/arbitrary/slice-outside-input", at + ": a reported string_view does not lie inside the input buffer"); break; }
    std::size_t hi = i + 1 < pr.toks.size() ? pr.toks[i + 1].offset : size;
    bool own = inside(t.name, t.offset, hi) && inside(t.text, t.offset, hi);
    for (auto &a : t.attrs) own = own && inside(a.name, t.offset, hi) && inside(a.value, t.offset, hi);
    if (!own) { fail("C14/arbitrary/slice-outside-token", at + ": a reported string_view lies outside the token's own span [" + std::to_string(t.offset) + "," + std::to_string(hi) + ")"); break; }
  }
  if (out.failed) return out;
  {
    std::string why = tokenExtents(in, pr.toks, pr.ok);
    if (!why.empty()) fail("C14/arbitrary/token-extent", why);
  }
  if (out.failed) return out;

  // ---- decoding of every text / attribute slice
  std::string dec, ref;
  auto checkDecode = [&](std::string_view raw, const char *what)
  {
    if (raw.find('&') != std::string_view::npos) out.special = true;
    ix::Error e;
    bool ok = ix::Parser::decodeEntities(raw, dec, &e);
    refxml::Decode rd = refxml::strictDecode(raw, ref);
    if (rd == refxml::Decode::Valid)
    {
      if (!ok) fail("C14/decode/rejected-valid", std::string(what) + " " + pbt::show(raw, 120) + " has only predefined entities / valid character references but decodeEntities failed: " + e.message);
      else if (dec != ref) fail("C14/decode/wrong-value", std::string(what) + " " + pbt::show(raw, 120) + " decoded to " + pbt::show(dec, 120) + ", expected " + pbt::show(ref, 120));
    }
    else if (rd == refxml::Decode::UndefinedEntity && ok)
      fail("C14/decode/undefined-entity-replaced", std::string(what) + " " + pbt::show(raw, 120) + " refers to an undefined entity but decodeEntities succeeded with " + pbt::show(dec, 120));
    if (!ok) out.undecodable = true;
    if (ok)
    {
      if (dec.size() > raw.size()) fail("C14/decode/grew", std::string(what) + " " + pbt::show(raw, 120) + " decoded to something longer: " + pbt::show(dec, 160));
      if (dec.find(marker) != std::string::npos && raw.find(marker) == std::string_view::npos)
        fail("C14/decode/entity-expanded", std::string(what) + " " + pbt::show(raw, 120) + " decoded to text containing the planted entity marker");
    }
  };
  for (auto &t : pr.toks)
  {
    if (t.kind == ix::TokenKind::Text) checkDecode(t.text, "text");
    if (t.kind == ix::TokenKind::StartElement || t.kind == ix::TokenKind::EmptyElement)
      for (auto &a : t.attrs) checkDecode(a.value, "attribute value");
    if (t.kind == ix::TokenKind::CData || t.kind == ix::TokenKind::Comment || t.kind == ix::TokenKind::ProcessingInstruction) out.special = true;
  }
  if (out.failed) return out;

  // ---- balance, depth and limits of an accepted document
  out.accepted = pr.ok;
  out.tokens = pr.toks.size();
  if (pr.ok)
  {
    std::vector<std::string_view> stack;
    for (std::size_t i = 0; i < pr.toks.size() && !out.failed; ++i)
    {
      const Obs &t = pr.toks[i];
      std::string at = "token #" + std::to_string(i) + " " + kindName(t.kind) + " '" + std::string(t.name.substr(0, 40)) + "'";
      std::size_t expectDepth = stack.size();
      switch (t.kind)
      {
      case ix::TokenKind::StartElement:
        stack.push_back(t.name);
        expectDepth = stack.size();
        break;
      case ix::TokenKind::EmptyElement: expectDepth = stack.size() + 1; break;
      case ix::TokenKind::EndElement:
        if (stack.empty()) { fail("C14/accepted/unbalanced", at + ": end tag without open element in an accepted document"); break; }
        if (stack.back() != t.name) { fail("C14/accepted/mismatched-end-tag", at + " closes <" + std::string(stack.back().substr(0, 40)) + "> in an accepted document"); break; }
        expectDepth = stack.size();
        stack.pop_back();
        break;
      case ix::TokenKind::Eof:
      case ix::TokenKind::Invalid: fail("C14/accepted/bogus-token", at + " delivered by next()==true"); break;
      default: break;
      }
      if (out.failed) break;
      out.maxDepth = std::max(out.maxDepth, expectDepth);
      if (t.depth != expectDepth) fail("C14/accepted/depth", at + ": reported depth " + std::to_string(t.depth) + ", open elements say " + std::to_string(expectDepth));
      bool elem = t.kind == ix::TokenKind::StartElement || t.kind == ix::TokenKind::EmptyElement;
      if (elem && expectDepth > opt.maxDepth) fail("C14/accepted/limit-depth", at + ": depth " + std::to_string(expectDepth) + " > maxDepth " + std::to_string(opt.maxDepth));
      if (elem && t.attrs.size() > opt.maxAttrsPerElement) fail("C14/accepted/limit-attrs", at + ": " + std::to_string(t.attrs.size()) + " attributes > maxAttrsPerElement " + std::to_string(opt.maxAttrsPerElement));
      bool named = elem || t.kind == ix::TokenKind::EndElement || t.kind == ix::TokenKind::ProcessingInstruction;
      if (named && t.name.size() > opt.maxNameLength) fail("C14/accepted/limit-name", at + ": name length " + std::to_string(t.name.size()) + " > maxNameLength " + std::to_string(opt.maxNameLength));
      for (auto &a : t.attrs)
      {
        if (a.name.size() > opt.maxNameLength) fail("C14/accepted/limit-name", at + ": attribute name length " + std::to_string(a.name.size()) + " > maxNameLength " + std::to_string(opt.maxNameLength));
        if (a.value.size() > opt.maxTextSpan) fail("C14/accepted/limit-text", at + ": attribute value of " + std::to_string(a.value.size()) + " bytes > maxTextSpan " + std::to_string(opt.maxTextSpan));
      }
      if (t.kind == ix::TokenKind::Text && t.text.size() > opt.maxTextSpan) fail("C14/accepted/limit-text", at + ": text of " + std::to_string(t.text.size()) + " bytes > maxTextSpan " + std::to_string(opt.maxTextSpan));
    }
    if (!out.failed && !stack.empty()) fail("C14/accepted/unclosed", "accepted document leaves <" + std::string(stack.back().substr(0, 40)) + "> open");
    if (!out.failed && opt.maxTotalTokens != 0 && pr.toks.size() > opt.maxTotalTokens)
      fail("C14/accepted/limit-tokens", std::to_string(pr.toks.size()) + " tokens > maxTotalTokens " + std::to_string(opt.maxTotalTokens));
  }
  if (out.failed) return out;

  // ---- SAX agrees with pull
  {
    SaxRun sr = runSaxAll(in, opt);
    std::string why = saxAgrees(pr.toks, sr, pr.ok);
    if (!why.empty()) fail("C14/agree/sax", why);
  }
  if (out.failed) return out;

  // ---- DOM agrees with pull
  {
    ix::Parser p(in, opt);
    ix::Error e;
    e.message = "<unset>";
    std::unique_ptr<ix::Node> doc = ix::DomBuilder::build(p, &e);
    if (!pr.ok)
    {
      if (doc) fail("C14/agree/dom-accepts-rejected", "DomBuilder returned a tree although the pull tokenizer fails with: " + pr.err);
    }
    else if (!doc)
    {
      if (!out.undecodable) fail("C14/agree/dom-rejects-accepted", "DomBuilder returned null (" + e.message + ") although the token stream is accepted and every slice decodes");
    }
    else
    {
      if (out.undecodable)
      {
        // documented behaviour is to refuse; a tree is tolerated as long as nothing was expanded
        bool markerInSlices = false;
        for (auto &t : pr.toks)
        {
          if (t.kind != ix::TokenKind::Doctype && t.text.find(marker) != std::string_view::npos) markerInSlices = true;
          for (auto &a : t.attrs)
            if (a.value.find(marker) != std::string_view::npos) markerInSlices = true;
        }
        if (!markerInSlices && domContains(*doc, marker)) fail("C14/decode/entity-expanded", "DOM contains the planted entity marker");
      }
      else
      {
        std::string why = domAgrees(*doc, pr.toks);
        if (!why.empty()) fail("C14/agree/dom", why);
      }
    }
  }
  return out;
}

} // namespace c14
