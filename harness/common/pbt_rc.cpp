// pbt_rc.cpp - runtime behind pbt.hpp: rapidcheck back end, replay back end,
// statistics, failure capture (including sanitizer aborts and hangs), result file.
#include "pbt.hpp"

#include <rapidcheck.h>

#include <atomic>
#include <chrono>
#include <csignal>
#include <cstring>
#include <fstream>
#include <iostream>
#include <mutex>
#include <thread>
#include <unistd.h>
#include <unordered_set>

extern "C" void __sanitizer_set_death_callback(void (*)(void)) __attribute__((weak));

namespace pbt
{

// ------------------------------------------------------------------ utilities
std::uint64_t hash64(std::string_view s)
{
  std::uint64_t h = 1469598103934665603ULL;
  for (unsigned char ch : s)
  {
    h ^= ch;
    h *= 1099511628211ULL;
  }
  return h;
}

std::string jsonEscape(std::string_view s)
{
  std::string o = "\"";
  static const char *hexd = "0123456789abcdef";
  for (unsigned char ch : s)
  {
    switch (ch)
    {
    case '"': o += "\\\""; break;
    case '\\': o += "\\\\"; break;
    case '\n': o += "\\n"; break;
    case '\r': o += "\\r"; break;
    case '\t': o += "\\t"; break;
    default:
      if (ch < 0x20 || ch >= 0x7f)
      {
        o += "\\u00";
        o += hexd[ch >> 4];
        o += hexd[ch & 15];
      }
      else
        o += static_cast<char>(ch);
    }
  }
  o += '"';
  return o;
}

std::string hex(std::string_view s, std::size_t maxBytes)
{
  static const char *hexd = "0123456789abcdef";
  std::string o;
  for (std::size_t i = 0; i < s.size() && i < maxBytes; ++i)
  {
    o += hexd[(unsigned char)s[i] >> 4];
    o += hexd[(unsigned char)s[i] & 15];
  }
  if (s.size() > maxBytes) o += "..(" + std::to_string(s.size()) + "B)";
  return o;
}

std::string show(std::string_view s, std::size_t maxBytes)
{
  static const char *hexd = "0123456789abcdef";
  std::string o;
  for (std::size_t i = 0; i < s.size() && i < maxBytes; ++i)
  {
    unsigned char ch = (unsigned char)s[i];
    if (ch == '\\') o += "\\\\";
    else if (ch == '\n') o += "\\n";
    else if (ch == '\r') o += "\\r";
    else if (ch == '\t') o += "\\t";
    else if (ch < 0x20 || ch >= 0x7f)
    {
      o += "\\x";
      o += hexd[ch >> 4];
      o += hexd[ch & 15];
    }
    else
      o += (char)ch;
  }
  if (s.size() > maxBytes) o += "..(" + std::to_string(s.size()) + "B)";
  return o;
}

Registry &Registry::get()
{
  static Registry r;
  return r;
}

// ------------------------------------------------------------------- runtime
namespace
{

struct Failure
{
  bool present = false;
  std::string sig, what, description;
  std::vector<std::int64_t> choices;
  bool timed = false;
  bool shrunk = false;
  bool died = false;
};

struct Runtime
{
  std::string harness, prop, out, regress, replay;
  std::uint64_t seed = 1;
  long cases = 100;
  int maxSize = 100;
  double maxSeconds = 1e9;
  double shrinkSeconds = 60;
  bool noShrink = false;
  std::set<std::string> known;

  std::chrono::steady_clock::time_point t0 = std::chrono::steady_clock::now();
  std::uint64_t evaluations = 0, ntTotal = 0, shrinkEvals = 0;
  std::unordered_set<std::uint64_t> ntDigests;
  std::map<std::string, std::uint64_t> labels;
  std::vector<std::string> samples;
  std::map<std::string, std::uint64_t> excludedKnown;
  std::map<std::string, std::string> excludedExample;
  std::map<std::string, std::uint64_t> inconclusive;
  bool budgetHit = false;

  // phase
  std::string targetSig;
  std::chrono::steady_clock::time_point shrinkStart;
  Failure failure; // last (= most shrunk) failing evaluation

  // current case (for death callback / watchdog)
  std::mutex curMu;
  std::vector<std::int64_t> curChoices;
  Case *curCase = nullptr;
  std::atomic<bool> written{false};

  double elapsed() const
  {
    return std::chrono::duration<double>(std::chrono::steady_clock::now() - t0).count();
  }
};

Runtime &rt()
{
  static Runtime *r = new Runtime; // leaked on purpose: used from death callbacks
  return *r;
}

void writeResult(bool died)
{
  Runtime &r = rt();
  if (r.out.empty()) return;
  bool expected = false;
  if (!r.written.compare_exchange_strong(expected, true)) return;
  std::ostringstream o;
  o << "{\n";
  o << " \"harness\": " << jsonEscape(r.harness) << ",\n";
  o << " \"prop\": " << jsonEscape(r.prop) << ",\n";
  o << " \"seed\": " << r.seed << ",\n";
  o << " \"evaluations\": " << r.evaluations << ",\n";
  o << " \"shrink_evaluations\": " << r.shrinkEvals << ",\n";
  o << " \"nontrivial_total\": " << r.ntTotal << ",\n";
  o << " \"nontrivial_digests\": [";
  {
    bool first = true;
    for (auto d : r.ntDigests)
    {
      if (!first) o << ",";
      first = false;
      o << "\"" << std::hex << d << std::dec << "\"";
    }
  }
  o << "],\n \"labels\": {";
  {
    bool first = true;
    for (auto &kv : r.labels)
    {
      if (!first) o << ",";
      first = false;
      o << jsonEscape(kv.first) << ": " << kv.second;
    }
  }
  o << "},\n \"samples\": [";
  for (std::size_t i = 0; i < r.samples.size(); ++i)
  {
    if (i) o << ",";
    o << jsonEscape(r.samples[i]);
  }
  o << "],\n \"excluded_known\": {";
  {
    bool first = true;
    for (auto &kv : r.excludedKnown)
    {
      if (!first) o << ",";
      first = false;
      o << jsonEscape(kv.first) << ": {\"count\": " << kv.second
        << ", \"example\": " << jsonEscape(r.excludedExample[kv.first]) << "}";
    }
  }
  o << "},\n \"inconclusive\": {";
  {
    bool first = true;
    for (auto &kv : r.inconclusive)
    {
      if (!first) o << ",";
      first = false;
      o << jsonEscape(kv.first) << ": " << kv.second;
    }
  }
  o << "},\n \"budget_hit\": " << (r.budgetHit ? "true" : "false") << ",\n";
  o << " \"wall_s\": " << r.elapsed() << ",\n";
  o << " \"died\": " << (died ? "true" : "false") << ",\n";
  o << " \"failure\": ";
  if (!r.failure.present)
    o << "null";
  else
  {
    o << "{\"sig\": " << jsonEscape(r.failure.sig) << ", \"what\": " << jsonEscape(r.failure.what)
      << ", \"description\": " << jsonEscape(r.failure.description)
      << ", \"timed\": " << (r.failure.timed ? "true" : "false")
      << ", \"shrunk\": " << (r.failure.shrunk ? "true" : "false") << ", \"choices\": [";
    for (std::size_t i = 0; i < r.failure.choices.size(); ++i)
    {
      if (i) o << ",";
      o << r.failure.choices[i];
    }
    o << "]}";
  }
  o << "\n}\n";
  std::string s = o.str();
  std::string tmp = r.out + ".tmp";
  FILE *f = std::fopen(tmp.c_str(), "w");
  if (!f) return;
  std::fwrite(s.data(), 1, s.size(), f);
  std::fclose(f);
  std::rename(tmp.c_str(), r.out.c_str());
}

// record the running case as a failure and write the file (process is dying)
void dieWith(const char *sig, const char *what, bool timed)
{
  Runtime &r = rt();
  // An in-shrink death keeps the original target signature out of the way: the
  // dying evaluation is reported as it is.
  Failure f;
  f.present = true;
  f.sig = sig;
  f.what = what;
  f.timed = timed;
  f.died = true;
  {
    // best effort; the mutex may be held by the dying thread only briefly
    std::unique_lock<std::mutex> lk(r.curMu, std::try_to_lock);
    f.choices = r.curChoices;
    if (r.curCase)
    {
      f.description = r.curCase->description;
      if (!r.curCase->failSig.empty() && !timed)
      {
        // the case had already recorded an oracle failure; keep that one
        f.sig = r.curCase->failSig;
        f.what = r.curCase->failWhat;
      }
    }
  }
  // if we were shrinking another failure, keep the better (already confirmed) one
  if (!(r.failure.present && !r.targetSig.empty())) r.failure = f;
  writeResult(true);
}

void sanitizerDeath() { dieWith("sanitizer", "sanitizer report (see stderr)", false); }

void abortHandler(int signo)
{
  dieWith(signo == SIGABRT ? "abort" : "signal",
          signo == SIGABRT ? "abort()/assert/terminate (see stderr)" : "fatal signal", false);
  _exit(70);
}

// ------------------------------------------------------------------- watchdog
struct Watchdog
{
  std::mutex mu;
  std::chrono::steady_clock::time_point deadline;
  bool armed = false;
  std::string sig;
  std::thread th;
  bool started = false;

  void start()
  {
    if (started) return;
    started = true;
    th = std::thread(
      [this]
      {
        for (;;)
        {
          std::this_thread::sleep_for(std::chrono::milliseconds(50));
          std::string s;
          {
            std::lock_guard<std::mutex> lk(mu);
            if (!armed || std::chrono::steady_clock::now() < deadline) continue;
            s = sig;
          }
          std::string what = "case did not finish within its watchdog bound";
          dieWith(s.c_str(), what.c_str(), true);
          std::fprintf(stderr, "PBT-WATCHDOG sig=%s\n", s.c_str());
          _exit(71);
        }
      });
    th.detach();
  }
};
Watchdog &wd()
{
  static Watchdog *w = new Watchdog;
  return *w;
}

// ------------------------------------------------------------------ back ends
struct Logging : Src
{
  void log(std::int64_t v)
  {
    Runtime &r = rt();
    std::lock_guard<std::mutex> lk(r.curMu);
    r.curChoices.push_back(v);
  }
};

// Every rapidcheck ingredient has the same C++ type (std::vector<Row>): rapidcheck
// re-uses recorded ingredients *by position* while shrinking, so a case whose
// control flow changes under shrinking would otherwise read a value of the wrong
// type. Values that land on a different primitive are sanitised into its domain.
using Cell = std::vector<Row>;
static std::int64_t clampTo(std::int64_t v, std::int64_t lo, std::int64_t hi)
{
  return (v < lo || v > hi) ? lo : v;
}
static std::int64_t firstOf(const Cell &c, std::int64_t dflt)
{
  return (!c.empty() && !c[0].empty()) ? c[0][0] : dflt;
}

struct RcSrc : Logging
{
  std::int64_t scalar(bool uniform, std::int64_t lo, std::int64_t hi)
  {
    if (hi <= lo)
    {
      log(lo);
      return lo;
    }
    auto base = rc::gen::inRange<std::int64_t>(lo, hi + 1);
    auto g = rc::gen::map(uniform ? rc::gen::resize(100, base) : base,
                          [](std::int64_t v) { return Cell{Row{v}}; });
    Cell c = *g;
    auto v = clampTo(firstOf(c, lo), lo, hi);
    log(v);
    return v;
  }
  std::int64_t range(std::int64_t lo, std::int64_t hi) override { return scalar(true, lo, hi); }
  std::int64_t sized(std::int64_t lo, std::int64_t hi) override { return scalar(false, lo, hi); }
  std::vector<Row> rows(std::size_t maxRows, std::size_t cols, std::int64_t lo,
                        std::int64_t hi) override
  {
    auto cell = rc::gen::resize(100, rc::gen::inRange<std::int64_t>(lo, hi + 1));
    auto rowGen = rc::gen::container<Row>(cols, cell);
    auto listGen = rc::gen::scale(static_cast<double>(maxRows) / 100.0,
                                  rc::gen::container<std::vector<Row>>(rowGen));
    std::vector<Row> v = *listGen;
    if (v.size() > maxRows) v.resize(maxRows);
    log(static_cast<std::int64_t>(v.size()));
    for (auto &r : v)
    {
      r.resize(cols, lo);
      for (auto &x : r)
      {
        x = clampTo(x, lo, hi);
        log(x);
      }
    }
    return v;
  }
  std::string blob(std::size_t maxLen) override
  {
    auto cell = rc::gen::resize(100, rc::gen::inRange<std::int64_t>(0, 256));
    auto g = rc::gen::map(rc::gen::scale(static_cast<double>(maxLen) / 100.0,
                                         rc::gen::container<Row>(cell)),
                          [](Row r) { return Cell{std::move(r)}; });
    Cell c = *g;
    Row v = c.empty() ? Row{} : c[0];
    if (v.size() > maxLen) v.resize(maxLen);
    std::string s;
    log(static_cast<std::int64_t>(v.size()));
    for (auto x : v)
    {
      x = clampTo(x, 0, 255);
      s.push_back(static_cast<char>(x));
      log(x);
    }
    return s;
  }
  int size() const override
  {
    auto g = rc::gen::withSize(
      [](int sz) { return rc::gen::just(Cell{Row{static_cast<std::int64_t>(sz)}}); });
    Cell c = *g;
    return static_cast<int>(clampTo(firstOf(c, 50), 0, 1000));
  }
};

struct ReplaySrc : Logging
{
  std::vector<std::int64_t> data;
  std::size_t pos = 0;
  int sz = 50;
  std::int64_t next(std::int64_t dflt)
  {
    std::int64_t v = pos < data.size() ? data[pos++] : dflt;
    log(v);
    return v;
  }
  std::int64_t range(std::int64_t lo, std::int64_t hi) override
  {
    auto v = next(lo);
    if (v < lo || v > hi) v = lo;
    return v;
  }
  std::int64_t sized(std::int64_t lo, std::int64_t hi) override { return range(lo, hi); }
  std::vector<Row> rows(std::size_t maxRows, std::size_t cols, std::int64_t lo,
                        std::int64_t hi) override
  {
    auto n = static_cast<std::size_t>(next(0));
    if (n > maxRows) n = maxRows;
    std::vector<Row> v(n, Row(cols, lo));
    for (auto &r : v)
      for (auto &x : r)
      {
        x = next(lo);
        if (x < lo || x > hi) x = lo;
      }
    return v;
  }
  std::string blob(std::size_t maxLen) override
  {
    auto n = static_cast<std::size_t>(next(0));
    if (n > maxLen) n = maxLen;
    std::string s;
    for (std::size_t i = 0; i < n; ++i) s.push_back(static_cast<char>(next(0)));
    return s;
  }
  int size() const override { return sz; }
};

// run one evaluation; returns true when rapidcheck should treat it as failing
bool evaluate(const PropFn &fn, Src &src)
{
  Runtime &r = rt();
  Case c;
  {
    std::lock_guard<std::mutex> lk(r.curMu);
    r.curChoices.clear();
    r.curCase = &c;
  }
  const bool shrinking = !r.targetSig.empty();
  if (shrinking)
  {
    double el = std::chrono::duration<double>(std::chrono::steady_clock::now() - r.shrinkStart)
                  .count();
    if (el > r.shrinkSeconds)
    {
      std::lock_guard<std::mutex> lk(r.curMu);
      r.curCase = nullptr;
      return false; // budget for shrinking exhausted: accept nothing further
    }
  }
  try
  {
    fn(src, c);
  }
  catch (const rc::GenerationFailure &)
  {
    {
      std::lock_guard<std::mutex> lk(r.curMu);
      r.curCase = nullptr;
    }
    throw;
  }
  catch (const std::exception &e)
  {
    c.fail("harness/uncaught-exception", std::string("uncaught std::exception: ") + e.what());
  }
  watchdog(0, "");
  std::vector<std::int64_t> choices;
  {
    std::lock_guard<std::mutex> lk(r.curMu);
    choices = r.curChoices;
    r.curCase = nullptr;
  }
  if (!shrinking)
  {
    ++r.evaluations;
    for (auto &l : c.labels) ++r.labels[l];
    if (!c.knownSig.empty())
    {
      ++r.excludedKnown[c.knownSig];
      if (!r.excludedExample.count(c.knownSig))
        r.excludedExample[c.knownSig] = c.description.substr(0, 600);
    }
    if (!c.inconclusiveWhy.empty()) ++r.inconclusive[c.inconclusiveWhy];
    if (c.isNontrivial && !c.failed())
    {
      ++r.ntTotal;
      if (r.ntDigests.size() < 200000) r.ntDigests.insert(c.ntDigest);
      // samples: first 3 non-trivial cases, then at powers of 4
      auto n = r.ntTotal;
      bool take = n <= 3 || ((n & (n - 1)) == 0 && (__builtin_ctzll(n) % 2 == 0));
      if (take && r.samples.size() < 12 && !c.description.empty())
        r.samples.push_back(c.description.substr(0, 1500));
    }
    if (c.failed())
    {
      r.targetSig = c.failSig;
      r.shrinkStart = std::chrono::steady_clock::now();
      r.failure = Failure{true, c.failSig, c.failWhat, c.description, choices, c.failIsTimed,
                          false, false};
      return true;
    }
    return false;
  }
  ++r.shrinkEvals;
  if (c.failed() && c.failSig == r.targetSig)
  {
    r.failure = Failure{true, c.failSig, c.failWhat, c.description, choices, c.failIsTimed,
                        true, false};
    return true;
  }
  return false;
}

std::vector<std::int64_t> parseChoices(const std::string &text)
{
  // find "choices": [ ... ]
  std::vector<std::int64_t> v;
  auto p = text.find("\"choices\"");
  if (p == std::string::npos) return v;
  p = text.find('[', p);
  if (p == std::string::npos) return v;
  ++p;
  while (p < text.size() && text[p] != ']')
  {
    while (p < text.size() && (text[p] == ' ' || text[p] == ',' || text[p] == '\n')) ++p;
    if (p >= text.size() || text[p] == ']') break;
    char *end = nullptr;
    long long x = std::strtoll(text.c_str() + p, &end, 10);
    if (end == text.c_str() + p) break;
    v.push_back(x);
    p = static_cast<std::size_t>(end - text.c_str());
  }
  return v;
}

} // namespace

bool isKnown(const std::string &sig) { return rt().known.count(sig) != 0; }

bool Case::fail(const std::string &sig, const std::string &what)
{
  if (isKnown(sig))
  {
    if (knownSig.empty()) knownSig = sig;
    return true;
  }
  if (failSig.empty())
  {
    failSig = sig;
    failWhat = what;
    failIsTimed = false;
  }
  return false;
}

bool Case::failTimed(const std::string &sig, const std::string &what)
{
  bool k = fail(sig, what);
  if (!k && failSig == sig) failIsTimed = true;
  return k;
}

void watchdog(double seconds, const std::string &sig)
{
  Watchdog &w = wd();
  std::lock_guard<std::mutex> lk(w.mu);
  if (seconds <= 0)
  {
    w.armed = false;
    return;
  }
  w.start();
  w.armed = true;
  w.sig = sig;
  w.deadline = std::chrono::steady_clock::now() +
               std::chrono::microseconds(static_cast<long long>(seconds * 1e6));
}

int runMain(int argc, char **argv)
{
  Runtime &r = rt();
  r.harness = argv[0];
  {
    auto p = r.harness.rfind('/');
    if (p != std::string::npos) r.harness = r.harness.substr(p + 1);
  }
  bool list = false;
  for (int i = 1; i < argc; ++i)
  {
    std::string a = argv[i];
    auto val = [&]() -> std::string { return i + 1 < argc ? argv[++i] : ""; };
    if (a == "--prop") r.prop = val();
    else if (a == "--seed") r.seed = std::strtoull(val().c_str(), nullptr, 10);
    else if (a == "--cases") r.cases = std::strtol(val().c_str(), nullptr, 10);
    else if (a == "--size") r.maxSize = std::atoi(val().c_str());
    else if (a == "--max-seconds") r.maxSeconds = std::atof(val().c_str());
    else if (a == "--shrink-seconds") r.shrinkSeconds = std::atof(val().c_str());
    else if (a == "--no-shrink") r.noShrink = true;
    else if (a == "--out") r.out = val();
    else if (a == "--replay") r.replay = val();
    else if (a == "--regress") r.regress = val();
    else if (a == "--list") list = true;
    else if (a == "--known")
    {
      std::string k = val(), cur;
      for (char ch : k)
      {
        if (ch == ',')
        {
          if (!cur.empty()) r.known.insert(cur);
          cur.clear();
        }
        else
          cur += ch;
      }
      if (!cur.empty()) r.known.insert(cur);
    }
    else
    {
      std::fprintf(stderr, "unknown argument %s\n", a.c_str());
      return 2;
    }
  }
  if (list)
  {
    for (auto &kv : Registry::get().props) std::printf("prop %s\n", kv.first.c_str());
    for (auto &kv : Registry::get().regressions) std::printf("regress %s\n", kv.first.c_str());
    return 0;
  }
  if (__sanitizer_set_death_callback) __sanitizer_set_death_callback(sanitizerDeath);
  std::signal(SIGABRT, abortHandler);

  // ---- regression: a fixed hand-written case
  if (!r.regress.empty())
  {
    auto it = Registry::get().regressions.find(r.regress);
    if (it == Registry::get().regressions.end())
    {
      std::fprintf(stderr, "no regression %s\n", r.regress.c_str());
      return 2;
    }
    r.prop = "regress:" + r.regress;
    Case c;
    {
      std::lock_guard<std::mutex> lk(r.curMu);
      r.curCase = &c;
    }
    try
    {
      it->second(c);
    }
    catch (const std::exception &e)
    {
      c.fail("harness/uncaught-exception", std::string("uncaught std::exception: ") + e.what());
    }
    watchdog(0, "");
    {
      std::lock_guard<std::mutex> lk(r.curMu);
      r.curCase = nullptr;
    }
    r.evaluations = 1;
    if (!c.knownSig.empty())
    {
      ++r.excludedKnown[c.knownSig];
      r.excludedExample[c.knownSig] = c.description.substr(0, 600);
    }
    if (c.failed())
      r.failure = Failure{true, c.failSig, c.failWhat, c.description, {}, c.failIsTimed, false, false};
    writeResult(false);
    return c.failed() ? 1 : 0;
  }

  auto pit = Registry::get().props.find(r.prop);
  if (pit == Registry::get().props.end())
  {
    std::fprintf(stderr, "no property '%s' in %s\n", r.prop.c_str(), r.harness.c_str());
    return 2;
  }
  PropFn fn = pit->second;

  // ---- replay: a saved choice log
  if (!r.replay.empty())
  {
    std::ifstream in(r.replay);
    std::stringstream ss;
    ss << in.rdbuf();
    ReplaySrc src;
    src.data = parseChoices(ss.str());
    bool failedNow = evaluate(fn, src);
    writeResult(false);
    return failedNow ? 1 : 0;
  }

  // ---- search
  long done = 0;
  std::uint64_t batch = 0;
  int rcode = 0;
  while (done < r.cases)
  {
    if (r.elapsed() > r.maxSeconds)
    {
      r.budgetHit = true;
      break;
    }
    long n = std::min<long>(r.cases - done, 202);
    rc::detail::TestParams params;
    params.seed = r.seed * 1000003ULL + batch;
    params.maxSuccess = static_cast<int>(n);
    params.maxSize = r.maxSize;
    params.maxDiscardRatio = 100;
    params.disableShrinking = r.noShrink;
    rc::detail::TestMetadata md;
    md.id = r.prop;
    md.description = r.prop;
    auto result = rc::detail::checkTestable(
      [&]
      {
        RcSrc src;
        if (evaluate(fn, src)) RC_FAIL(rt().failure.what);
      },
      md, params);
    ++batch;
    done += n;
    if (result.template is<rc::detail::FailureResult>())
    {
      rcode = 1;
      break;
    }
    if (result.template is<rc::detail::Error>())
    {
      std::cerr << "rapidcheck error: " << result.template get<rc::detail::Error>().description
                << "\n";
      rcode = 2;
      break;
    }
    if (result.template is<rc::detail::GaveUpResult>())
    {
      std::cerr << "rapidcheck gave up: "
                << result.template get<rc::detail::GaveUpResult>().description << "\n";
      rcode = 2;
      break;
    }
  }
  writeResult(false);
  return rcode;
}

} // namespace pbt
