// pbt.hpp - thin property-based-testing runtime shared by every harness in /verif.
//
// A harness TU includes only this header (no rapidcheck headers: the rapidcheck
// backend lives in pbt_rc.cpp, compiled once). A property is a function
//     void prop(pbt::Src& src, pbt::Case& c)
// that draws every random choice from `src`, executes the case against the real
// iora code and reports through `c`. Three back ends implement Src:
//   * rapidcheck  (search + shrinking; every draw is a rapidcheck generator)
//   * replay      (a saved choice log; bypasses rapidcheck completely)
//   * bytes       (libFuzzer input decoded into choices; see pbt_fuzz.hpp)
// so a shrunk failure is a plain list of integers that re-executes the same case.
#pragma once
#include <cstdint>
#include <cstdio>
#include <cstdlib>
#include <functional>
#include <initializer_list>
#include <map>
#include <set>
#include <sstream>
#include <string>
#include <string_view>
#include <vector>

namespace pbt
{

using Row = std::vector<std::int64_t>;

/// Source of random choices. Never use any other randomness in a property.
struct Src
{
  virtual ~Src() = default;
  /// uniform in [lo,hi] (inclusive), independent of the case size
  virtual std::int64_t range(std::int64_t lo, std::int64_t hi) = 0;
  /// in [lo,hi], concentrated near lo for small case sizes (rapidcheck size ramp)
  virtual std::int64_t sized(std::int64_t lo, std::int64_t hi) = 0;
  /// variable-length list (0..maxRows, growing with case size) of rows of `cols`
  /// integers in [lo,hi]; shrinks by dropping rows anywhere in the list
  virtual std::vector<Row> rows(std::size_t maxRows, std::size_t cols, std::int64_t lo,
                                std::int64_t hi) = 0;
  /// variable-length byte string (0..maxLen), all byte values
  virtual std::string blob(std::size_t maxLen) = 0;
  /// current case size 0..100
  virtual int size() const { return 50; }

  bool coin(int num = 1, int den = 2) { return range(0, den - 1) < num; }
  std::size_t weighted(std::initializer_list<int> w)
  {
    std::int64_t total = 0;
    for (int x : w) total += x;
    std::int64_t r = range(0, total - 1);
    std::size_t i = 0;
    for (int x : w)
    {
      if (r < x) return i;
      r -= x;
      ++i;
    }
    return w.size() - 1;
  }
  template <class T> const T &oneOf(const std::vector<T> &v)
  {
    return v[static_cast<std::size_t>(range(0, static_cast<std::int64_t>(v.size()) - 1))];
  }
  template <class T> T oneOf(std::initializer_list<T> v)
  {
    auto i = range(0, static_cast<std::int64_t>(v.size()) - 1);
    return *(v.begin() + i);
  }
};

std::uint64_t hash64(std::string_view s);
inline std::uint64_t hashMix(std::uint64_t a, std::uint64_t b)
{
  a ^= b + 0x9e3779b97f4a7c15ULL + (a << 6) + (a >> 2);
  return a;
}
std::string jsonEscape(std::string_view s); // returns a quoted JSON string
std::string hex(std::string_view s, std::size_t maxBytes = 64);
/// printable rendering of arbitrary bytes (C-style escapes), truncated
std::string show(std::string_view s, std::size_t maxBytes = 200);

/// Per-case reporting interface.
struct Case
{
  // --- classification -------------------------------------------------------
  void label(const std::string &l) { labels.push_back(l); }
  /// mark the case non-trivial (by the property's stated rule); `digest`
  /// identifies the case for distinct counting
  void nontrivial(std::uint64_t digest)
  {
    isNontrivial = true;
    ntDigest = digest;
  }
  /// human-readable description of the generated case (kept for samples/failures)
  void describe(std::string d) { description = std::move(d); }
  // --- verdicts -------------------------------------------------------------
  /// oracle failure. `sig` is the structural signature (stable id of the failure
  /// shape, e.g. "json/unicode-escape"); `what` the concrete observation.
  /// Only the first failure of a case is kept. Returns true if the signature is a
  /// listed known finding (case is then counted in excluded_known, not failed).
  bool fail(const std::string &sig, const std::string &what);
  /// bounded-wait failure (must reproduce 3/3 in the driver before it counts)
  bool failTimed(const std::string &sig, const std::string &what);
  void inconclusive(const std::string &why) { inconclusiveWhy = why; }
  bool failed() const { return !failSig.empty(); }
  /// true when a known finding was hit in this case (oracle state may be off:
  /// harnesses usually stop the case)
  bool knownHit() const { return !knownSig.empty(); }

  std::vector<std::string> labels;
  bool isNontrivial = false;
  std::uint64_t ntDigest = 0;
  std::string description;
  std::string failSig, failWhat;
  bool failIsTimed = false;
  std::string knownSig;
  std::string inconclusiveWhy;
};

/// true if `sig` is listed as an open known finding (passed by the driver)
bool isKnown(const std::string &sig);

using PropFn = std::function<void(Src &, Case &)>;
using RegressFn = std::function<void(Case &)>;

struct Registry
{
  static Registry &get();
  std::map<std::string, PropFn> props;
  std::map<std::string, RegressFn> regressions;
};

struct RegisterProp
{
  RegisterProp(const char *name, PropFn f) { Registry::get().props[name] = std::move(f); }
};
struct RegisterRegress
{
  RegisterRegress(const char *name, RegressFn f)
  {
    Registry::get().regressions[name] = std::move(f);
  }
};

#define PBT_PROPERTY(name)                                                                  \
  static void pbt_prop_##name(::pbt::Src &src, ::pbt::Case &c);                             \
  static ::pbt::RegisterProp pbt_reg_##name(#name, pbt_prop_##name);                        \
  static void pbt_prop_##name([[maybe_unused]] ::pbt::Src &src, [[maybe_unused]] ::pbt::Case &c)

/// A fixed, hand-written case that bypasses the generator (regressions, known
/// findings, fixed findings).
#define PBT_REGRESSION(name)                                                                \
  static void pbt_regress_##name(::pbt::Case &c);                                           \
  static ::pbt::RegisterRegress pbt_rreg_##name(#name, pbt_regress_##name);                 \
  static void pbt_regress_##name([[maybe_unused]] ::pbt::Case &c)

/// Arm / disarm the per-case watchdog: if the case is still running after
/// `seconds`, the runtime records a bounded-wait failure with `sig` and _exit()s
/// (a parked thread inside iora cannot be unwound). Disarmed at case end.
void watchdog(double seconds, const std::string &sig);

/// main() for rapidcheck/replay harness binaries (defined in pbt_rc.cpp).
///   --prop NAME --seed N --cases M [--size S] [--max-seconds T] --out FILE
///   [--known sig,sig,...] [--replay FILE] [--regress NAME]
int runMain(int argc, char **argv);

// ---- small helpers for harness code ----------------------------------------
struct Fmt
{
  std::ostringstream os;
  template <class T> Fmt &operator<<(const T &v)
  {
    os << v;
    return *this;
  }
  operator std::string() const { return os.str(); }
  std::string str() const { return os.str(); }
};

} // namespace pbt

#define PBT_MAIN()                                                                          \
  int main(int argc, char **argv) { return ::pbt::runMain(argc, argv); }
