// c15_exec.hpp - in-process executors + oracles for property C15, shared by the rapidcheck
// harness (c15_http.cpp) and the libFuzzer targets (fuzz_http_server.cpp / fuzz_http_client.cpp).
//   server side: a subclass of HttpServer feeds handleIncomingData() with exactly the segments
//                the plan says (hook H1: friend probe creates the per-connection record);
//   client side: a probe drives HttpClient::frameResponse() the way executeRequest() does (hook H2).
// No pbt dependency: failures are returned as {signature, what}.
#pragma once
#include "c15_ref_http.hpp"

#include <iora/core/logger.hpp>
#include <iora/network/http_client.hpp>
#include <iora/network/http_server.hpp>

#ifndef JOEGEN_IORA_VERIF_HTTP_SERVER_PROBE
#error "hooks/C15-H1.diff (friend struct iora::verif::HttpServerProbe in http_server.hpp) is not applied to this tree"
#endif
#ifndef JOEGEN_IORA_VERIF_HTTP_CLIENT_PROBE
#error "hooks/C15-H2.diff (friend struct iora::verif::HttpClientProbe in http_client.hpp) is not applied to this tree"
#endif

#include <atomic>
#include <condition_variable>
#include <functional>
#include <memory>
#include <mutex>
#include <thread>
#include <unordered_map>

namespace iora
{
namespace verif
{
struct HttpServerProbe
{
  using Server = iora::network::HttpServer;
  using Sid = iora::network::SessionId;
  static constexpr std::size_t maxBuffer() { return Server::SessionInfo::MAX_BUFFER_SIZE; }
  static void inject(Server &s, Sid sid)
  {
    std::lock_guard<std::mutex> lock(s._sessionMutex);
    auto &info = s._sessionInfo[sid];
    info.buffer.clear();
    info.peerAddress = "192.0.2.1";
    info.peerPort = 4242;
  }
  static void erase(Server &s, Sid sid)
  {
    std::lock_guard<std::mutex> lock(s._sessionMutex);
    s._sessionInfo.erase(sid);
    s._upgradedSessions.erase(sid);
  }
  /// bytes retained for the session, -1 if the record no longer exists
  static long retained(Server &s, Sid sid)
  {
    std::lock_guard<std::mutex> lock(s._sessionMutex);
    auto it = s._sessionInfo.find(sid);
    return it == s._sessionInfo.end() ? -1L : (long)it->second.buffer.size();
  }
  static iora::core::ThreadPool &pool(Server &s) { return s._threadPool; }
};

struct HttpClientProbe
{
  using Client = iora::network::HttpClient;
  using Response = Client::Response;
  /// State of one request/response exchange, mirroring the locals of executeRequest().
  struct Exchange
  {
    std::string method;
    std::size_t cap;
    std::string data;
    bool headersDone = false;
    std::size_t headerScanPos = 0, bodyStart = 0;
    Response resp;
    Client::Framing framing;
    Client::ChunkState chunkState;
    bool forceEvict = false;
    bool complete = false;
  };
  static std::size_t effectiveCap(const Client &c) { return std::max(c._config.maxResponseBytes, c._config.jsonConfig.maxPayloadSize); }
  /// one receive of `n` bytes (n <= 8192 as in executeRequest); may throw what the real code throws
  static bool onReceive(const Client &c, Exchange &x, const char *p, std::size_t n)
  {
    x.data.append(p, n);
    if (x.data.size() > x.cap) throw iora::network::HttpFramingError("HTTP response exceeded the configured response cap");
    x.complete = c.frameResponse(x.method, x.data, x.headersDone, x.headerScanPos, x.bodyStart, x.resp, x.framing, x.chunkState,
                                 x.forceEvict, x.cap);
    return x.complete;
  }
  /// peer closed gracefully; returns true if that completes the response (close-delimited body)
  static bool onPeerClosed(Exchange &x)
  {
    if (x.headersDone && x.framing.mode == Client::BodyMode::CloseDelimited)
    {
      x.resp.body = x.data.substr(x.bodyStart);
      x.forceEvict = true;
      x.complete = true;
      return true;
    }
    return false;
  }
  static bool isCloseDelimited(const Exchange &x) { return x.headersDone && x.framing.mode == Client::BodyMode::CloseDelimited; }
};
} // namespace verif
} // namespace iora

namespace c15
{

using iora::network::SessionId;
using Probe = iora::verif::HttpServerProbe;
using CProbe = iora::verif::HttpClientProbe;

struct Failure
{
  std::string sig, what;
  bool failed() const { return !sig.empty(); }
};

/// segmentation = sorted cut offsets in (0, n)
using Cuts = std::vector<std::size_t>;
inline std::string showCuts(const Cuts &c, std::size_t n)
{
  std::string o = "cuts[";
  for (std::size_t i = 0; i < c.size() && i < 12; ++i) o += (i ? "," : "") + std::to_string(c[i]);
  if (c.size() > 12) o += ",...(" + std::to_string(c.size()) + ")";
  return o + "] of " + std::to_string(n) + " bytes";
}

// ======================================================================== server side
struct SessLog
{
  std::vector<std::string> seen; // canonical rendering of every request handed to the application
  bool closed = false;
};

class FeedServer : public iora::network::HttpServer
{
public:
  FeedServer()
  {
    setDefaultHandler([this](const Request &rq, Response &rs) { record(rq); rs.status = 200; });
  }
  void feed(SessionId sid, const char *p, std::size_t n) { handleIncomingData(sid, reinterpret_cast<const std::uint8_t *>(p), n); }
  std::size_t scanChunked(const std::string &data, std::size_t bodyStart) const { return findChunkedRequestEnd(data, bodyStart); }
  void closeSession(SessionId sid) override
  {
    std::lock_guard<std::mutex> lock(_logMutex);
    _logs[sid].closed = true;
  }
  bool isClosed(SessionId sid)
  {
    std::lock_guard<std::mutex> lock(_logMutex);
    auto it = _logs.find(sid);
    return it != _logs.end() && it->second.closed;
  }
  SessLog take(SessionId sid)
  {
    std::lock_guard<std::mutex> lock(_logMutex);
    SessLog l = std::move(_logs[sid]);
    _logs.erase(sid);
    return l;
  }
  SessionId newSid() { return ++_nextSid; }

  /// Returns when every request dispatched so far has been completely processed: blocks every
  /// worker of the private pool in a sentinel task at the same time (FIFO queue + one task per
  /// worker at a time => all earlier tasks are finished), then releases them.
  void quiesce()
  {
    auto &pool = Probe::pool(*this);
    struct Rv
    {
      std::mutex m;
      std::condition_variable cv;
      std::size_t blocked = 0, done = 0;
      bool release = false;
    };
    auto rv = std::make_shared<Rv>();
    std::size_t launched = 0;
    while (true)
    {
      std::size_t total = pool.getTotalThreadCount();
      std::unique_lock<std::mutex> lk(rv->m);
      if (rv->blocked >= total && total > 0) break;
      if (launched == rv->blocked)
      {
        lk.unlock();
        bool ok = pool.tryEnqueue(
          [rv]
          {
            std::unique_lock<std::mutex> l(rv->m);
            ++rv->blocked;
            rv->cv.notify_all();
            rv->cv.wait(l, [&] { return rv->release; });
            ++rv->done;
            rv->cv.notify_all();
          });
        if (ok) ++launched;
        else std::this_thread::yield();
        continue;
      }
      rv->cv.wait_for(lk, std::chrono::milliseconds(50), [&] { return rv->blocked == launched; });
    }
    {
      std::unique_lock<std::mutex> lk(rv->m);
      rv->release = true;
      rv->cv.notify_all();
      rv->cv.wait(lk, [&] { return rv->done == launched; });
    }
  }

private:
  static const char *methodName(iora::network::HttpMethod m)
  {
    using M = iora::network::HttpMethod;
    switch (m)
    {
    case M::GET: return "GET";
    case M::POST: return "POST";
    case M::PUT: return "PUT";
    case M::DELETE: return "DELETE";
    case M::HEAD: return "HEAD";
    case M::OPTIONS: return "OPTIONS";
    case M::PATCH: return "PATCH";
    case M::CONNECT: return "CONNECT";
    case M::TRACE: return "TRACE";
    }
    return "?";
  }
  void record(const Request &rq)
  {
    refhttp::Expect e;
    e.method = methodName(rq.method);
    e.path = rq.path;
    for (auto &kv : rq.headers) e.fields.push_back(refhttp::Field{kv.first, kv.second});
    e.body = rq.body;
    std::string c = e.canon(true);
    std::lock_guard<std::mutex> lock(_logMutex);
    _logs[rq.sid].seen.push_back(std::move(c));
  }
  std::mutex _logMutex;
  std::unordered_map<SessionId, SessLog> _logs;
  std::atomic<SessionId> _nextSid{1000};
};

inline FeedServer &server()
{
  static FeedServer *s = []
  {
    iora::core::Logger::setLevel(iora::core::Logger::Level::Fatal);
    return new FeedServer; // one per process, never destroyed (stop() sleeps)
  }();
  return *s;
}

struct ServerRun
{
  SessionId sid = 0;
  Cuts cuts;
  bool threw = false;
  std::string threwWhat;
  std::size_t peakRetained = 0;
  long retainedEnd = 0;     // -1: record gone
  bool closedDuringFeed = false;
  std::size_t fedBytes = 0;
  SessLog log;              // filled by collect()
};

/// Feeds `wire` cut at `cuts` into a fresh session. Results are complete only after
/// server().quiesce() + collect().
inline ServerRun feedServer(const std::string &wire, const Cuts &cuts)
{
  FeedServer &srv = server();
  ServerRun r;
  r.cuts = cuts;
  r.sid = srv.newSid();
  Probe::inject(srv, r.sid);
  // back-pressure is legitimate server behaviour (a full worker queue answers 503): never let the
  // harness itself overload the private pool (queue bound 1024)
  while (Probe::pool(srv).getPendingTaskCount() > 128) std::this_thread::yield();
  // exact-size heap copy of every segment so that ASan sees over-reads
  std::size_t pos = 0;
  for (std::size_t i = 0; i <= cuts.size(); ++i)
  {
    std::size_t end = i < cuts.size() ? cuts[i] : wire.size();
    if (end <= pos) continue;
    std::size_t n = std::min<std::size_t>(end - pos, 65536); // TransportConfig::ioReadChunk: no read delivers more
    if (pos + n < end) --i;                                  // rest of this segment in the next round
    end = pos + n;
    std::unique_ptr<char[]> seg(new char[n]);
    std::memcpy(seg.get(), wire.data() + pos, n);
    try
    {
      srv.feed(r.sid, seg.get(), n);
    }
    catch (const std::exception &e)
    {
      r.threw = true;
      r.threwWhat = e.what();
    }
    catch (...)
    {
      r.threw = true;
      r.threwWhat = "non-std exception";
    }
    pos = end;
    r.fedBytes = pos;
    if (r.threw) break;
    if (srv.isClosed(r.sid))
    {
      // the transport's close callback would drop the per-connection record; later bytes are ignored
      r.closedDuringFeed = true;
      Probe::erase(srv, r.sid);
      break;
    }
    long ret = Probe::retained(srv, r.sid);
    if (ret > 0 && (std::size_t)ret > r.peakRetained) r.peakRetained = (std::size_t)ret;
  }
  r.retainedEnd = Probe::retained(srv, r.sid);
  return r;
}
inline void collect(ServerRun &r)
{
  FeedServer &srv = server();
  r.log = srv.take(r.sid);
  Probe::erase(srv, r.sid);
}

/// One expected request: canonical form with decoded body and (for chunked messages) the
/// canonical form a server would produce that hands over the raw chunked octets.
struct ExpectedReq
{
  std::string canon, canonRaw; // canonRaw empty if not chunked
  bool afterTrailers = false;  // an earlier message of the stream carries a trailer section
  bool trailers = false;       // this message carries a trailer section
};
struct ServerExpectation
{
  std::vector<ExpectedReq> must;
  bool exact = true;            // nothing but `must` may be handed over
  bool requireDrained = false;  // stream ended at a message boundary: nothing retained, not closed
  bool requireRejected = false; // tail has invalid length information
  std::string badKind;          // for signatures
};

inline ServerExpectation expectationFromParse(const refhttp::Parsed &p, std::string_view wire)
{
  ServerExpectation e;
  bool trailersSeen = false;
  std::size_t begin = 0;
  for (std::size_t i = 0; i < p.msgs.size(); ++i)
  {
    ExpectedReq r;
    r.canon = p.msgs[i].canon(true);
    r.afterTrailers = trailersSeen;
    if (p.msgs[i].chunked)
    {
      refhttp::Expect raw = p.msgs[i];
      std::size_t he = wire.find("\r\n\r\n", begin);
      raw.body = std::string(wire.substr(he + 4, p.ends[i] - (he + 4)));
      r.canonRaw = raw.canon(true);
    }
    r.trailers = p.msgs[i].trailers;
    if (p.msgs[i].trailers) trailersSeen = true;
    e.must.push_back(std::move(r));
    begin = p.ends[i];
  }
  e.exact = p.tail != refhttp::Tail::Unsupported;
  e.requireDrained = p.tail == refhttp::Tail::Ok;
  e.requireRejected = p.tail == refhttp::Tail::BadLength;
  e.badKind = p.why;
  return e;
}

using KnownFn = std::function<bool(const std::string &)>;

/// Judges one finished run. `onKnown(sig)` is called when a listed known finding was matched and
/// the comparison continued in re-classified form.
inline Failure judgeServerRun(const ServerRun &r, const ServerExpectation &e, const std::string &wire, const KnownFn &known,
                              const std::function<void(const std::string &)> &onKnown)
{
  auto where = [&] { return " [" + showCuts(r.cuts, wire.size()) + "] stream=" + refhttp::showBytes(wire, 300); };
  if (r.threw) return {"C15/server/exception-escapes-data-callback", "handleIncomingData threw: " + r.threwWhat + where()};
  if (r.peakRetained > Probe::maxBuffer())
    return {"C15/server/buffer-beyond-cap", "retained " + std::to_string(r.peakRetained) + " bytes > cap" + where()};
  // multiset comparison
  std::vector<std::string> seen = r.log.seen;
  std::vector<bool> used(seen.size(), false);
  bool rawSeen = false;
  for (std::size_t i = 0; i < e.must.size(); ++i)
  {
    bool found = false;
    for (std::size_t k = 0; k < seen.size() && !found; ++k)
      if (!used[k] && seen[k] == e.must[i].canon) { used[k] = true; found = true; }
    if (found) continue;
    if (!e.must[i].canonRaw.empty())
    {
      for (std::size_t k = 0; k < seen.size() && !found; ++k)
        if (!used[k] && seen[k] == e.must[i].canonRaw) { used[k] = true; found = true; }
      if (found)
      {
        const std::string sig = "C15/server/chunked-body-not-decoded";
        if (known(sig)) { rawSeen = true; continue; }
        return {sig, "request " + std::to_string(i) + ": the handler received the raw chunked octets instead of the decoded body" + where()};
      }
    }
    // not handed over (or altered)
    std::string sig = e.must[i].afterTrailers ? "C15/server/message-after-trailers-lost" : "C15/server/message-lost-or-altered";
    std::string got;
    for (std::size_t k = 0; k < seen.size(); ++k)
      if (!used[k]) { got = seen[k]; break; }
    if (e.must[i].trailers)
      for (std::size_t k = 0; k < seen.size(); ++k)
        if (!used[k] && seen[k].size() < e.must[i].canonRaw.size() && e.must[i].canonRaw.compare(0, seen[k].size(), seen[k]) == 0)
        {
          sig = "C15/server/trailer-section-misframed"; // message cut short inside its trailer section
          got = seen[k];
        }
    return {sig, "request " + std::to_string(i) + " of " + std::to_string(e.must.size()) + " was not handed over as encoded; expected {" +
                   refhttp::showBytes(e.must[i].canon, 200) + "} closest unmatched seen {" + refhttp::showBytes(got, 200) + "} seen=" +
                   std::to_string(seen.size()) + (r.log.closed ? " session closed" : "") + where()};
  }
  if (rawSeen) onKnown("C15/server/chunked-body-not-decoded");
  if (e.exact)
  {
    for (std::size_t k = 0; k < seen.size(); ++k)
      if (!used[k])
      {
        std::string sig = e.requireRejected ? "C15/server/invalid-length-framed/" + e.badKind : "C15/server/unexpected-message";
        return {sig, std::string(e.requireRejected ? "a message with invalid length information (or bytes behind it) was handed to the handler: {"
                                                   : "a message that was never sent was handed to the handler: {") +
                       refhttp::showBytes(seen[k], 200) + "}" + where()};
      }
  }
  if (e.requireDrained)
  {
    if (r.log.closed) return {"C15/server/valid-stream-closed", "the session was closed on a valid stream" + where()};
    if (r.retainedEnd > 0)
      return {"C15/server/valid-stream-bytes-retained", std::to_string(r.retainedEnd) + " bytes retained after the last complete message" + where()};
  }
  if (e.requireRejected)
  {
    bool rejected = r.log.closed || r.retainedEnd <= 0;
    if (!rejected)
      return {"C15/server/invalid-length-stalls/" + e.badKind,
              "message with invalid length information is neither rejected nor dropped: session still open, " + std::to_string(r.retainedEnd) +
                " bytes retained waiting for input that cannot make it valid" + where()};
  }
  return {};
}

// ======================================================================== client side
struct ClientRun
{
  Cuts cuts;
  bool complete = false;
  bool completedByEof = false;
  bool threwFraming = false, threwOther = false;
  std::string what;
  std::size_t fedAtEnd = 0;     // bytes delivered when the exchange ended (complete / throw / eof)
  bool forceEvict = false;
  std::size_t bodySize = 0;     // size of the returned body (when complete)
  std::string canon;            // canonical rendering of the Response (when complete)
};

inline iora::network::HttpClient &client()
{
  static iora::network::HttpClient *c = []
  {
    iora::core::Logger::setLevel(iora::core::Logger::Level::Fatal);
    return new iora::network::HttpClient();
  }();
  return *c;
}

inline ClientRun runClient(const std::string &method, const std::string &wire, const Cuts &cuts, bool eofAtEnd, std::size_t cap = 0)
{
  auto &cl = client();
  ClientRun r;
  r.cuts = cuts;
  CProbe::Exchange x;
  x.method = method;
  x.cap = cap ? cap : CProbe::effectiveCap(cl);
  std::size_t pos = 0;
  try
  {
    for (std::size_t i = 0; i <= cuts.size() && !x.complete; ++i)
    {
      std::size_t end = i < cuts.size() ? cuts[i] : wire.size();
      while (pos < end && !x.complete)
      {
        std::size_t n = std::min<std::size_t>(end - pos, 8192); // receive buffer of executeRequest
        std::unique_ptr<char[]> seg(new char[n]);
        std::memcpy(seg.get(), wire.data() + pos, n);
        pos += n;
        r.fedAtEnd = pos;
        CProbe::onReceive(cl, x, seg.get(), n);
      }
    }
    if (!x.complete && eofAtEnd && pos == wire.size())
      if (CProbe::onPeerClosed(x)) r.completedByEof = true;
  }
  catch (const iora::network::HttpFramingError &e)
  {
    r.threwFraming = true;
    r.what = e.what();
  }
  catch (const std::exception &e)
  {
    r.threwOther = true;
    r.what = e.what();
  }
  catch (...)
  {
    r.threwOther = true;
    r.what = "non-std exception";
  }
  r.complete = x.complete && !r.threwFraming && !r.threwOther;
  r.forceEvict = x.forceEvict;
  if (r.complete)
  {
    refhttp::Expect e;
    e.status = x.resp.statusCode;
    e.reason = x.resp.statusText;
    e.version = x.resp.httpVersion;
    for (auto &kv : x.resp.headers) e.fields.push_back(refhttp::Field{kv.first, kv.second});
    e.body = x.resp.body;
    r.bodySize = x.resp.body.size();
    r.canon = e.canon(false);
  }
  return r;
}

struct ClientExpectation
{
  enum Kind { MustComplete, MustNotComplete, Unconstrained } kind = Unconstrained;
  std::string canon;           // MustComplete
  std::size_t messageEnd = 0;  // MustComplete: offset one past the final response (== wire.size() for close-delimited)
  bool closeDelimited = false;
  bool rejectExpected = false; // MustNotComplete because of invalid length information
  std::string badKind;
};

inline ClientExpectation clientExpectationFromParse(const refhttp::Parsed &p, std::size_t wireSize)
{
  ClientExpectation e;
  if (p.tail == refhttp::Tail::Ok && p.msgs.size() == 1)
  {
    e.kind = ClientExpectation::MustComplete;
    e.canon = p.msgs[0].canon(false);
    e.messageEnd = p.ends[0];
    (void)wireSize;
  }
  else if (p.tail == refhttp::Tail::BadLength)
  {
    e.kind = ClientExpectation::MustNotComplete;
    e.rejectExpected = true;
    e.badKind = p.why;
  }
  else if (p.tail == refhttp::Tail::Incomplete)
    e.kind = ClientExpectation::MustNotComplete;
  return e;
}

inline Failure judgeClientRun(const ClientRun &r, const ClientExpectation &e, const std::string &wire)
{
  auto where = [&] { return " [" + showCuts(r.cuts, wire.size()) + "] stream=" + refhttp::showBytes(wire, 300); };
  if (r.threwOther) return {"C15/client/foreign-exception-leaves-framer", "exception other than HttpFramingError: " + r.what + where()};
  switch (e.kind)
  {
  case ClientExpectation::MustComplete:
  {
    if (r.threwFraming) return {"C15/client/valid-response-rejected", "HttpFramingError on a valid response: " + r.what + where()};
    if (!r.complete) return {"C15/client/valid-response-never-completes", "all " + std::to_string(wire.size()) + " bytes delivered, response not framed" + where()};
    if (r.canon != e.canon)
      return {"C15/client/response-altered", "expected {" + refhttp::showBytes(e.canon, 240) + "} got {" + refhttp::showBytes(r.canon, 240) + "}" + where()};
    // completes with the first receive that covers the whole message - not earlier, not later
    std::size_t firstCover = wire.size();
    {
      std::size_t pos = 0;
      bool done = false;
      for (std::size_t i = 0; i <= r.cuts.size() && !done; ++i)
      {
        std::size_t end = i < r.cuts.size() ? r.cuts[i] : wire.size();
        while (pos < end)
        {
          pos += std::min<std::size_t>(end - pos, 8192);
          if (pos >= e.messageEnd) { firstCover = pos; done = true; break; }
        }
      }
    }
    if (!e.closeDelimited && r.fedAtEnd != firstCover)
      return {"C15/client/completes-at-wrong-point", "message ends at " + std::to_string(e.messageEnd) + ", first covering receive ends at " +
                                                        std::to_string(firstCover) + ", framer completed after " + std::to_string(r.fedAtEnd) + where()};
    if (!e.closeDelimited && r.fedAtEnd > e.messageEnd && !r.forceEvict)
      return {"C15/client/surplus-bytes-connection-kept", "bytes beyond the framed message were consumed but the connection is kept for reuse" + where()};
    return {};
  }
  case ClientExpectation::MustNotComplete:
    if (r.complete)
      return {e.rejectExpected ? "C15/client/invalid-length-framed/" + e.badKind : "C15/client/incomplete-response-returned",
              std::string(e.rejectExpected ? "response with invalid length information was returned to the caller: {"
                                           : "a response whose message is incomplete was returned to the caller: {") +
                refhttp::showBytes(r.canon, 240) + "}" + where()};
    return {};
  default: return {};
  }
}

// ======================================================================== segmentations
/// deterministic family of cut patterns derived from two bytes (used by the fuzz targets)
inline Cuts cutsFromPattern(unsigned a, unsigned b, std::size_t n)
{
  Cuts c;
  if (n < 2) return c;
  switch (a % 6)
  {
  case 0: break; // whole
  case 1: c.push_back(1 + (b * 2654435761u) % (n - 1)); break;
  case 2:
    for (std::size_t i = 1; i < n; ++i) c.push_back(i); // byte by byte
    break;
  case 3:
  {
    std::size_t step = 1 + b % 7;
    for (std::size_t i = step; i < n; i += step) c.push_back(i);
    break;
  }
  case 4:
  {
    std::size_t x = 1 + (b * 40503u) % (n - 1), y = 1 + ((b + 1) * 2654435761u >> 3) % (n - 1);
    if (x > y) std::swap(x, y);
    c.push_back(x);
    if (y != x) c.push_back(y);
    break;
  }
  default:
  {
    // growing segments 1,2,3,...
    std::size_t pos = 0, k = 1 + b % 3;
    while (pos + k < n) { pos += k; c.push_back(pos); ++k; }
  }
  }
  return c;
}

} // namespace c15
