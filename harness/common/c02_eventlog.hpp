// c02_eventlog.hpp - totally ordered event log shared by the application-side
// harness thread and the callbacks running on iora's I/O thread, plus the invariant
// checker of C02 (exactly one close; nothing before announce / after close; ids
// distinct; close fan-out order; open-sessions gauge).
//
// Every event is appended under one mutex, so the log index is a total order that is
// consistent with real time: if call A *returned* before callback B was *entered*,
// then idx(A.end) < idx(B.begin). All "must" conclusions of the checker use only that
// direction; anything that overlapped is judged "at most once".
#pragma once
#include "pbt.hpp"

#include <chrono>
#include <condition_variable>
#include <cstdint>
#include <map>
#include <mutex>
#include <set>
#include <string>
#include <thread>
#include <vector>

namespace c02log
{

enum class K
{
  // application side
  Returned,     // connect()/connectViaListener() returned ok(sid)
  ReturnedSync, // connectSync() returned ok(sid)
  ObsBegin,     // observe(sid, tag) about to be called          (a=tag)
  ObsEnd,       // observe returned                               (a=tag)
  UnobsBegin,   // unobserve(tag) about to be called              (a=tag)
  UnobsEnd,     // unobserve returned                             (a=tag, b=ret)
  DataBegin,    // setSessionData(sid, tag) about to be called    (a=tag, b=1 if data non-null && cleanup set)
  DataEnd,      // setSessionData returned                        (a=tag)
  Cause,        // a close cause was issued for sid               (a=cause code, b=1 definite)
  StopBegin,
  StopEnd,
  ModeBegin,    // setReadMode(sid, mode) about to be called        (a=mode 0 Async 1 Sync 2 Disabled)
  ModeEnd,      // setReadMode returned                              (a=mode, b=ret)
  RecvEnd,      // receiveSync(sid) returned                         (a=bytes or 0, b=error code or 0)
  // callbacks
  Accept,     // (a=peer port)
  Connect,
  Data,       // (a=len)
  CloseBegin, // global close callback entered (a=error code)
  CloseEnd,   // global close callback about to return
  Observer,   // per-session observer invoked (a=tag)
  Cleanup,    // user-data cleanup invoked (a=tag)
};

struct Event
{
  K k;
  std::uint64_t sid{0};
  std::uint64_t a{0}, b{0};
  bool io{false}; // recorded on a thread other than the harness main thread
};

enum Cause : std::uint64_t
{
  AppClose = 1,
  PeerFin,
  PeerRst,
  ConnRefused,
  Unresolvable,
  ConnTimeout,
  Backpressure,
  IdleGc,
  Stop,
  IcmpRefused,
  BadListener,
  TlsFailure,
  HandshakeTimeout,
  TlsNotConfigured,
  Unreachable,
  FdExhausted,
  kCauseMax
};
inline const char *causeName(std::uint64_t c)
{
  static const char *n[] = {"?",          "app-close",    "peer-fin",     "peer-rst", "refused",
                            "unresolvable", "connect-timeout", "backpressure", "idle-gc",  "stop",
                            "icmp-refused", "bad-listener", "tls-failure", "tls-handshake-timeout", "tls-not-configured", "unreachable", "fd-exhausted"};
  return c < kCauseMax ? n[c] : "?";
}

struct Log
{
  std::mutex mu;
  std::condition_variable cv;
  std::vector<Event> ev;
  std::thread::id mainTid{std::this_thread::get_id()};
  // state maintained from the callbacks (all under mu)
  std::set<std::uint64_t> open;      // announced by callback, close callback not yet entered
  std::string gaugeFail;             // first gauge under-count seen inside a callback
  std::uint64_t gaugeSamples{0};
  std::uint64_t maxOpen{0};

  std::size_t add(K k, std::uint64_t sid, std::uint64_t a = 0, std::uint64_t b = 0)
  {
    std::lock_guard<std::mutex> lk(mu);
    ev.push_back(Event{k, sid, a, b, std::this_thread::get_id() != mainTid});
    cv.notify_all();
    return ev.size() - 1;
  }

  /// callback-side: record + maintain the announced-open set + judge the gauge sample
  /// taken by the caller *before* this call (sampling before taking the log mutex keeps
  /// getStats() out of the critical section; the set only changes on this I/O thread).
  void addCb(K k, std::uint64_t sid, std::uint64_t a, std::size_t gauge)
  {
    std::lock_guard<std::mutex> lk(mu);
    const bool io = std::this_thread::get_id() != mainTid;
    if (k == K::Accept || k == K::Connect) open.insert(sid);
    if (k == K::CloseBegin) open.erase(sid);
    ev.push_back(Event{k, sid, a, static_cast<std::uint64_t>(gauge), io});
    if (!io)
    {
      // a callback running synchronously inside an application call (setReadMode flush): the
      // announced-open set belongs to the I/O thread, so a sample taken here is not judged
      cv.notify_all();
      return;
    }
    ++gaugeSamples;
    if (open.size() > maxOpen) maxOpen = open.size();
    if (gauge > (static_cast<std::size_t>(1) << 40) && gaugeFail.empty())
    {
      gaugeFail = pbt::Fmt() << "inside callback #" << (ev.size() - 1) << " (sid " << sid << "): sessionsCurrent=" << gauge
                             << " - the gauge wrapped below zero (a close was counted for a session whose open was not)";
    }
    if (gauge < open.size() && gaugeFail.empty())
    {
      gaugeFail = pbt::Fmt() << "inside callback #" << (ev.size() - 1) << " (sid " << sid
                             << "): sessionsCurrent=" << gauge << " but " << open.size()
                             << " announced sessions have not been closed yet";
    }
    cv.notify_all();
  }

  template <class Pred> bool waitFor(Pred p, int ms)
  {
    std::unique_lock<std::mutex> lk(mu);
    return cv.wait_for(lk, std::chrono::milliseconds(ms), [&] { return p(ev); });
  }

  bool hasClose(std::uint64_t sid, int ms)
  {
    return waitFor(
      [&](const std::vector<Event> &v)
      {
        for (auto &e : v)
          if (e.k == K::CloseBegin && e.sid == sid) return true;
        return false;
      },
      ms);
  }

  std::vector<Event> snapshot()
  {
    std::lock_guard<std::mutex> lk(mu);
    return ev;
  }
};

inline const char *kname(K k)
{
  switch (k)
  {
  case K::Returned: return "connect-ok";
  case K::ReturnedSync: return "connectSync-ok";
  case K::ObsBegin: return "observe(";
  case K::ObsEnd: return "observe)";
  case K::UnobsBegin: return "unobserve(";
  case K::UnobsEnd: return "unobserve)";
  case K::DataBegin: return "setData(";
  case K::DataEnd: return "setData)";
  case K::Cause: return "cause";
  case K::ModeBegin: return "setReadMode(";
  case K::ModeEnd: return "setReadMode)";
  case K::RecvEnd: return "receiveSync)";
  case K::StopBegin: return "stop(";
  case K::StopEnd: return "stop)";
  case K::Accept: return "onAccept";
  case K::Connect: return "onConnect";
  case K::Data: return "onData";
  case K::CloseBegin: return "onClose(";
  case K::CloseEnd: return "onClose)";
  case K::Observer: return "observer";
  case K::Cleanup: return "cleanup";
  }
  return "?";
}

inline std::string render(const std::vector<Event> &ev, std::size_t maxEvents = 120)
{
  std::string s;
  std::size_t from = ev.size() > maxEvents ? ev.size() - maxEvents : 0;
  if (from) s += "... ";
  for (std::size_t i = from; i < ev.size(); ++i)
  {
    auto &e = ev[i];
    s += std::to_string(i) + ":" + kname(e.k) + (e.io ? "*" : "") + " s" + std::to_string(e.sid);
    if (e.k == K::Cause) s += std::string(" ") + causeName(e.a);
    else if (e.k == K::CloseBegin) s += " code" + std::to_string(e.a);
    else if (e.k == K::ModeBegin || e.k == K::ModeEnd) s += std::string(" ") + (e.a == 0 ? "Async" : e.a == 1 ? "Sync" : "Disabled");
    else if (e.k == K::RecvEnd) s += " n" + std::to_string(e.a) + " err" + std::to_string(e.b);
    else if (e.k == K::Data) s += " n" + std::to_string(e.a);
    else if (e.k == K::Observer || e.k == K::Cleanup || e.k == K::ObsBegin || e.k == K::ObsEnd ||
             e.k == K::UnobsBegin || e.k == K::UnobsEnd || e.k == K::DataBegin || e.k == K::DataEnd)
      s += " t" + std::to_string(e.a);
    s += "; ";
  }
  return s;
}

struct CheckOpts
{
  bool stoppedOrderly{true};   // stop() returned: every seen id must have exactly one close
  bool syncIdsAnnounced{false}; // UDP: ids returned by connectSync do get onConnect
  std::size_t gaugeAfterStop{0};
  bool haveGaugeAfterStop{false};
};

/// The C02 invariant over a finished log. Returns true if a failure was reported.
inline bool check(pbt::Case &c, Log &log, const CheckOpts &o)
{
  const std::vector<Event> ev = log.snapshot();
  const std::size_t NONE = static_cast<std::size_t>(-1);
  auto fail = [&](const std::string &sig, const std::string &what)
  {
    c.fail(sig, what + "\n  log: " + render(ev));
    return true;
  };

  struct S
  {
    std::size_t returned{NONE}, returnedSync{NONE}, accept{NONE}, connect{NONE};
    std::size_t closeBegin{NONE}, closeEnd{NONE};
    unsigned nReturned{0}, nAccept{0}, nConnect{0}, nClose{0}, nCleanup{0};
    std::vector<std::size_t> data, observers, cleanups;
  };
  std::map<std::uint64_t, S> ss;
  std::size_t stopBegin = NONE, stopEnd = NONE;
  std::vector<std::pair<std::size_t, std::size_t>> stops; // every [stop( , stop)] interval
  for (std::size_t i = 0; i < ev.size(); ++i)
  {
    auto &e = ev[i];
    switch (e.k)
    {
    case K::Returned:
      ss[e.sid].returned = i;
      ++ss[e.sid].nReturned;
      break;
    case K::ReturnedSync:
      ss[e.sid].returnedSync = i;
      ++ss[e.sid].nReturned;
      break;
    case K::Accept:
      if (ss[e.sid].accept == NONE) ss[e.sid].accept = i;
      ++ss[e.sid].nAccept;
      break;
    case K::Connect:
      if (ss[e.sid].connect == NONE) ss[e.sid].connect = i;
      ++ss[e.sid].nConnect;
      break;
    case K::Data: ss[e.sid].data.push_back(i); break;
    case K::CloseBegin:
      if (ss[e.sid].closeBegin == NONE) ss[e.sid].closeBegin = i;
      ++ss[e.sid].nClose;
      break;
    case K::CloseEnd:
      if (ss[e.sid].closeEnd == NONE) ss[e.sid].closeEnd = i;
      break;
    case K::Observer: ss[e.sid].observers.push_back(i); break;
    case K::Cleanup:
      ss[e.sid].cleanups.push_back(i);
      ++ss[e.sid].nCleanup;
      break;
    case K::StopBegin:
      stopBegin = i;
      stops.emplace_back(i, NONE);
      break;
    case K::StopEnd:
      stopEnd = i;
      if (!stops.empty()) stops.back().second = i;
      break;
    default: break;
    }
  }

  // fanoutDone(sid): first index after closeEnd(sid) that proves the I/O thread left
  // this id's close dispatch (a callback for something else, or stop() returned)
  auto fanoutDone = [&](std::uint64_t sid) -> std::size_t
  {
    auto it = ss.find(sid);
    if (it == ss.end() || it->second.closeEnd == NONE) return NONE;
    for (std::size_t i = it->second.closeEnd + 1; i < ev.size(); ++i)
    {
      auto &e = ev[i];
      if (e.k == K::StopEnd) return i;
      if (!e.io) continue;
      bool own = e.sid == sid && (e.k == K::Observer || e.k == K::Cleanup);
      bool cb = e.k == K::Accept || e.k == K::Connect || e.k == K::Data || e.k == K::CloseBegin ||
                e.k == K::Observer || e.k == K::Cleanup;
      if (cb && !own) return i;
    }
    return NONE;
  };
  // ---- per id --------------------------------------------------------------
  for (auto &kv : ss)
  {
    const std::uint64_t sid = kv.first;
    const S &s = kv.second;
    const bool seen = s.nReturned > 0 || s.nAccept > 0 || s.nConnect > 0;
    const std::string id = "session id " + std::to_string(sid);
    // identifiers pairwise distinct: an id is handed out once, by one route
    if (s.nReturned > 1) return fail("C02/id-reused/returned-twice", id + " was returned by two connect calls");
    if (s.nAccept > 1) return fail("C02/id-reused/accepted-twice", id + " was announced by two accept callbacks");
    if (s.nAccept > 0 && s.nReturned > 0)
      return fail("C02/id-reused/accept-and-connect", id + " was both returned by connect and announced by accept");
    if (s.nConnect > 1) return fail("C02/announce-twice", id + " got two connect callbacks");
    if (s.nAccept > 0 && s.nConnect > 0)
      return fail("C02/id-reused/accept-and-connect", id + " got an accept and a connect callback");
    if (!seen) continue; // close for an id the application never saw: C04's business, not ours
    if (s.nClose > 1)
      return fail("C02/double-close", id + " received " + std::to_string(s.nClose) + " close notifications");
    const bool hasAnnounceCb = s.nAccept > 0 || s.returned != NONE || (o.syncIdsAnnounced && s.returnedSync != NONE);
    const std::size_t announce = s.accept != NONE ? s.accept : s.connect;
    for (auto di : s.data)
    {
      if (s.closeBegin != NONE && di > s.closeBegin && !ev[di].io)
      {
        // delivered synchronously inside a setReadMode() flush of the application thread: a
        // flush that BEGAN before the close was entered merely overlaps it (its chunk was taken
        // from the buffer before the close) - only a flush begun after the close is a violation
        std::size_t mb = NONE;
        for (std::size_t i = di; i-- > 0;)
          if (ev[i].k == K::ModeBegin && !ev[i].io)
          {
            mb = i;
            break;
          }
          else if (ev[i].k == K::ModeEnd && !ev[i].io) break;
        if (mb == NONE || mb < s.closeBegin) continue;
        // ... and so does a flush begun while the close DISPATCH was still running: the handler
        // drops the session's read mode only after the global callback and the observers, so a
        // switch issued from another thread in between still sees the old mode. Proof that the
        // dispatch is past that step: the user-data cleanup (last step) ran, or the I/O thread
        // was seen doing something else / stop() returned.
        std::size_t proof = fanoutDone(sid);
        for (auto ci : s.cleanups) proof = std::min(proof, ci);
        if (proof == NONE || mb < proof) continue;
        // which switch armed the buffering mode this flush ends? If the application re-armed
        // Sync/Disabled on the id AFTER its close, it is the "re-arm" shape (finding C02-2);
        // if the mode dates from before the close, the close handler failed to drop it.
        bool rearmedAfterClose = false;
        for (std::size_t i = mb == NONE ? 0 : mb; i-- > 0;)
          if (ev[i].k == K::ModeEnd && ev[i].sid == sid && ev[i].a != 0 && ev[i].b != 0)
          {
            rearmedAfterClose = i > s.closeBegin;
            break;
          }
        if (rearmedAfterClose)
          return fail("C02/data-after-close/flush-after-rearm",
                      id + ": after the close (#" + std::to_string(s.closeBegin) + ") the application re-armed Sync/Disabled and "
                           "switched back to Async (#" + std::to_string(mb) + "): leftover bytes were delivered through onData (#" +
                        std::to_string(di) + ") after onClose");
        return fail("C02/data-after-close/flush", id + ": setReadMode begun at #" + std::to_string(mb == NONE ? 0 : mb) +
                                                    " delivered onData (#" + std::to_string(di) + ") after the session's close (#" +
                                                    std::to_string(s.closeBegin) + ")");
      }
      if (s.closeBegin != NONE && di > s.closeBegin)
        return fail("C02/data-after-close", id + ": onData (#" + std::to_string(di) + ") after its close (#" +
                                              std::to_string(s.closeBegin) + ")");
      if (hasAnnounceCb && (announce == NONE || di < announce))
        return fail("C02/data-before-announce",
                    id + ": onData (#" + std::to_string(di) + ") before its accept/connect callback");
    }
    if (s.closeBegin != NONE)
    {
      if (s.accept != NONE && s.accept > s.closeBegin)
        return fail("C02/announce-after-close", id + ": accept callback after its close");
      if (s.connect != NONE && s.connect > s.closeBegin)
        return fail("C02/announce-after-close", id + ": connect callback after its close");
    }
    if (s.nCleanup > 1)
      return fail("C02/cleanup-twice", id + ": user-data cleanup ran " + std::to_string(s.nCleanup) + " times");
    // fan-out order for this id: global ( ) < observers... < cleanup
    for (auto oi : s.observers)
    {
      if (s.closeEnd == NONE || oi < s.closeEnd)
        return fail("C02/observer-before-global",
                    id + ": observer (#" + std::to_string(oi) + ") ran before the global close callback finished");
      for (auto ci : s.cleanups)
        if (ci < oi)
          return fail("C02/cleanup-before-observer", id + ": user-data cleanup (#" + std::to_string(ci) +
                                                       ") ran before observer (#" + std::to_string(oi) + ")");
    }
    for (auto ci : s.cleanups)
      if (s.closeEnd == NONE || ci < s.closeEnd)
        return fail("C02/cleanup-before-global", id + ": user-data cleanup ran before the global close callback");
    if (o.stoppedOrderly && s.nClose == 0)
    {
      // which route gave the id to the application?
      std::string origin = s.nAccept ? "accepted" : s.returnedSync != NONE ? "connectSync" : s.returned != NONE
                             ? (s.nConnect ? "connected" : "connect-unannounced") : "connected";
      std::size_t got = s.returned != NONE ? s.returned : s.returnedSync != NONE ? s.returnedSync : announce;
      bool duringStop = false;
      for (auto &iv : stops)
        if (got != NONE && got > iv.first && (iv.second == NONE || got < iv.second)) duringStop = true;
      if (duringStop && (s.returned != NONE || s.returnedSync != NONE))
        return fail("C02/no-close/connect-ok-during-stop",
                    id + " was returned ok by a connect call issued while stop() was in progress (#" +
                      std::to_string(got) + ") and never received a close notification");
      return fail("C02/no-close/" + origin, id + " (" + origin + ") never received a close notification although the "
                                              "transport was stopped orderly");
    }
  }

  // ---- observers -----------------------------------------------------------
  // first index that proves the observer list of sid was already copied
  auto copyDone = [&](std::uint64_t sid) -> std::size_t
  {
    auto it = ss.find(sid);
    if (it == ss.end()) return NONE;
    std::size_t m = NONE;
    for (auto i : it->second.observers) m = std::min(m, i);
    for (auto i : it->second.cleanups) m = std::min(m, i);
    return m;
  };
  struct O
  {
    std::uint64_t sid{0};
    std::size_t regBegin{NONE}, regEnd{NONE}, unBegin{NONE}, unEnd{NONE};
    bool unRet{false};
    std::vector<std::size_t> fired;
  };
  std::map<std::uint64_t, O> obs;
  for (std::size_t i = 0; i < ev.size(); ++i)
  {
    auto &e = ev[i];
    if (e.k == K::ObsBegin)
    {
      obs[e.a].sid = e.sid;
      obs[e.a].regBegin = i;
    }
    else if (e.k == K::ObsEnd) obs[e.a].regEnd = i;
    else if (e.k == K::UnobsBegin && obs[e.a].unBegin == NONE) obs[e.a].unBegin = i;
    else if (e.k == K::UnobsEnd && obs[e.a].unEnd == NONE)
    {
      obs[e.a].unEnd = i;
      obs[e.a].unRet = e.b != 0;
    }
    else if (e.k == K::Observer)
    {
      obs[e.a].fired.push_back(i);
      if (obs[e.a].regBegin == NONE || obs[e.a].sid != e.sid)
        return fail("C02/observer-wrong-session", "observer t" + std::to_string(e.a) + " invoked for session " +
                                                    std::to_string(e.sid) + " it was not registered for");
    }
  }
  for (auto &kv : obs)
  {
    const O &ob = kv.second;
    const std::string id = "observer t" + std::to_string(kv.first) + " of session " + std::to_string(ob.sid);
    if (ob.fired.size() > 1) return fail("C02/observer-twice", id + " was invoked " + std::to_string(ob.fired.size()) + " times");
    auto it = ss.find(ob.sid);
    const std::size_t cb = it == ss.end() ? NONE : it->second.closeBegin;
    const std::size_t done = fanoutDone(ob.sid);
    const std::size_t copied = copyDone(ob.sid);
    // first unobserve() of this observer issued from INSIDE the global callback of its own
    // session's close (I/O thread, between onClose( and onClose) ): the observer list is read
    // after the global callback, so it is still registered there - the call must succeed and
    // the observer must stay silent
    const std::size_t ce = it == ss.end() ? NONE : it->second.closeEnd;
    const bool inGlobal = ob.unBegin != NONE && ob.unEnd != NONE && ev[ob.unBegin].io && cb != NONE && ce != NONE &&
                          ob.unBegin > cb && ob.unEnd < ce;
    if (inGlobal && ob.regEnd != NONE && ob.regEnd < cb)
    {
      if (!ob.unRet)
        return fail("C02/unobserve-in-global-callback-refused",
                    id + ": unobserve() called inside the global close callback of that session's close returned false although the "
                         "observer was registered before the close began and had not been unobserved");
      if (!ob.fired.empty())
        return fail("C02/unobserved-observer-called/in-global-callback",
                    id + " was invoked although unobserve() returned true inside the global close callback (observers run after it)");
    }
    if (!ob.fired.empty())
    {
      if (ob.unEnd != NONE && ob.unRet && cb != NONE && ob.unEnd < cb)
        return fail("C02/unobserved-observer-called", id + " was invoked although unobserve() had returned true before the close began");
      if (done != NONE && ob.regBegin != NONE && ob.regBegin > done)
        return fail("C02/observer-after-close", id + " was registered after the close had completed and was still invoked");
    }
    else if (cb != NONE && ob.regEnd != NONE && ob.regEnd < cb && o.stoppedOrderly)
    {
      // registered before the close began: must be invoked unless an unobserve was
      // begun before we can prove the list had been copied
      bool maybeUnobserved = ob.unBegin != NONE && (copied == NONE || ob.unBegin < copied);
      if (!maybeUnobserved)
        return fail("C02/observer-not-called", id + " was registered before the close began, never unobserved, and not invoked");
    }
  }
  // registration order (all observe() calls come from the one harness thread)
  for (auto &kv : ss)
  {
    std::size_t lastReg = 0;
    bool first = true;
    for (auto oi : kv.second.observers)
    {
      const O &ob = obs[ev[oi].a];
      if (!first && ob.regBegin < lastReg)
        return fail("C02/observer-order", "observers of session " + std::to_string(kv.first) +
                                            " were not invoked in registration order (t" + std::to_string(ev[oi].a) +
                                            " out of place)");
      lastReg = ob.regBegin;
      first = false;
    }
  }

  // ---- user data -----------------------------------------------------------
  struct D
  {
    std::uint64_t sid{0};
    std::size_t begin{NONE}, end{NONE};
    bool expectCleanup{false};
    unsigned cleaned{0};
  };
  std::map<std::uint64_t, D> data;
  std::map<std::uint64_t, std::vector<std::uint64_t>> dataOfSid; // in call order
  for (std::size_t i = 0; i < ev.size(); ++i)
  {
    auto &e = ev[i];
    if (e.k == K::DataBegin)
    {
      data[e.a] = D{e.sid, i, NONE, e.b != 0, 0};
      dataOfSid[e.sid].push_back(e.a);
    }
    else if (e.k == K::DataEnd) data[e.a].end = i;
    else if (e.k == K::Cleanup)
    {
      auto it = data.find(e.a);
      if (it == data.end() || it->second.sid != e.sid)
        return fail("C02/cleanup-wrong-session", "cleanup invoked with user data t" + std::to_string(e.a) +
                                                   " that was not registered for session " + std::to_string(e.sid));
      if (++it->second.cleaned > 1)
        return fail("C02/cleanup-twice", "cleanup of user data t" + std::to_string(e.a) + " ran twice");
    }
  }
  for (auto &kv : dataOfSid)
  {
    auto it = ss.find(kv.first);
    if (it == ss.end() || it->second.closeBegin == NONE) continue;
    const std::size_t cb = it->second.closeBegin;
    // the entry current at the close: last call that returned before the close began,
    // provided no later call had begun before the close dispatch provably finished
    std::uint64_t cur = 0;
    bool haveCur = false, ambiguous = false;
    const std::size_t done = fanoutDone(kv.first);
    for (auto tag : kv.second)
    {
      const D &d = data[tag];
      if (d.end != NONE && d.end < cb)
      {
        cur = tag;
        haveCur = true;
      }
      else if (done == NONE || d.begin < done) ambiguous = true;
    }
    if (haveCur && !ambiguous && o.stoppedOrderly)
    {
      const D &d = data[cur];
      if (d.expectCleanup && d.cleaned == 0)
        return fail("C02/cleanup-not-called", "user data t" + std::to_string(cur) + " of session " +
                                                std::to_string(kv.first) + " was current at the close but its cleanup never ran");
      for (auto tag : kv.second)
        if (tag != cur && data[tag].cleaned && data[tag].end != NONE && data[tag].end < data[cur].begin)
          return fail("C02/replaced-cleanup-called", "cleanup ran for user data t" + std::to_string(tag) +
                                                       " that had been replaced before the close");
    }
  }

  // ---- gauge ---------------------------------------------------------------
  {
    std::lock_guard<std::mutex> lk(log.mu);
    if (!log.gaugeFail.empty())
    {
      std::string w = log.gaugeFail;
      c.fail("C02/gauge-undercount", w + "\n  log: " + render(ev));
      return true;
    }
  }
  if (o.haveGaugeAfterStop && o.stoppedOrderly && o.gaugeAfterStop != 0)
    return fail("C02/gauge-nonzero-after-stop", "sessionsCurrent = " + std::to_string(o.gaugeAfterStop) +
                                                  " after the transport was stopped and every session closed");
  (void)stopEnd;
  (void)stopBegin;
  return false;
}

} // namespace c02log
