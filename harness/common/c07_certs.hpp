// c07_certs.hpp - in-process X.509 factory for the C07 (TLS authentication) check.
//
// Everything is generated with the OpenSSL API at first use (EC P-256, ~10 ms in
// total) and written as PEM files into a per-process scratch directory, because
// iora's TlsConfig / HttpServer::TlsConfig take file paths. Nothing here touches
// iora code: this is the "independent peer" side of the oracle.
//
//   CA A ("right" CA)            CA B ("wrong" CA)
//    |- srv_valid      CN/SAN localhost + 127.0.0.1 + ::1, valid now
//    |- srv_expired    same names, notAfter in the past
//    |- srv_notyet / srv_notyet_far   same names, notBefore one day / ten years in the future
//    |- srv_wrongname  SAN other.example / 192.0.2.1, valid now
//    |- cli_valid      client certificate, valid now
//    |- cli_expired    client certificate, notAfter in the past
//    |- cli_notyet / cli_notyet_far   client certificate, notBefore one day / ten years in the future
//   srv_selfsigned     self-signed leaf, same names as srv_valid
//   srv_mismatch       certificate of srv_valid + a private key that does NOT
//                      belong to it (two forms: a plain foreign key for iora's
//                      file-based config, and a "forged" EC key object - public
//                      point of the certificate, foreign private scalar - with
//                      which the independent OpenSSL peer can present the
//                      certificate without being able to prove possession)
//   cli_untrusted      client certificate issued by CA B
//   cli_selfsigned     self-signed client certificate
#pragma once
#include <openssl/bn.h>
#include <openssl/ec.h>
#include <openssl/err.h>
#include <openssl/evp.h>
#include <openssl/pem.h>
#include <openssl/x509.h>
#include <openssl/x509v3.h>

#include <cstdio>
#include <cstdlib>
#include <stdexcept>
#include <string>
#include <sys/stat.h>
#include <unistd.h>
#include <vector>

namespace c07
{

struct Identity
{
  X509 *cert = nullptr;
  EVP_PKEY *key = nullptr;
  std::string certFile, keyFile; // PEM files
};

class Pki
{
public:
  static Pki &get()
  {
    static Pki *p = new Pki; // leaked on purpose (used until process exit)
    return *p;
  }

  std::string dir;
  Identity caA, caB;
  Identity srvValid, srvSelfSigned, srvExpired, srvWrongName, srvNotYet, srvNotYetFar;
  Identity srvSanOtherCnMatch; // CN=localhost, SAN dNSNames name only other hosts (RFC 6125: the CN must be ignored)
  Identity srvNoSanCnMatch;    // CN=localhost, no SAN at all (control: legacy CN-only certificate)
  Identity srvMismatchFiles; // certFile = srv_valid certificate, keyFile = unrelated key
  EVP_PKEY *srvForgedKey = nullptr; // public = srvValid's, private = unrelated scalar
  Identity cliValid, cliUntrusted, cliExpired, cliSelfSigned, cliNotYet, cliNotYetFar;
  std::string emptyDir;  // directory with no certificates (SSL_CERT_DIR for "no system roots")
  std::string emptyFile; // empty file (SSL_CERT_FILE for "no system roots")

  /// remove the scratch directory (called from atexit)
  void cleanup()
  {
    if (dir.empty()) return;
    std::string cmd = "rm -rf '" + dir + "'";
    if (std::system(cmd.c_str()) != 0) {}
    dir.clear();
  }

private:
  static void die(const char *what)
  {
    unsigned long e = ERR_get_error();
    char buf[256];
    ERR_error_string_n(e, buf, sizeof buf);
    throw std::runtime_error(std::string("c07 pki: ") + what + ": " + buf);
  }

  static EVP_PKEY *newKey()
  {
    EVP_PKEY *k = EVP_EC_gen("P-256");
    if (!k) die("EVP_EC_gen");
    return k;
  }

  static void addExt(X509 *cert, X509 *issuer, int nid, const char *value)
  {
    X509V3_CTX ctx;
    X509V3_set_ctx_nodb(&ctx);
    X509V3_set_ctx(&ctx, issuer, cert, nullptr, nullptr, 0);
    X509_EXTENSION *ex = X509V3_EXT_conf_nid(nullptr, &ctx, nid, value);
    if (!ex) die("X509V3_EXT_conf_nid");
    X509_add_ext(cert, ex, -1);
    X509_EXTENSION_free(ex);
  }

  struct Spec
  {
    const char *cn;
    bool isCa = false;
    const char *san = nullptr;      // e.g. "DNS:localhost,IP:127.0.0.1"
    const char *eku = nullptr;      // "serverAuth" / "clientAuth"
    long notBeforeOffset = -86400;  // seconds relative to now
    long notAfterOffset = 365L * 86400;
  };

  long _serial = 1000;

  X509 *makeCert(const Spec &s, EVP_PKEY *subjectKey, X509 *issuerCert, EVP_PKEY *issuerKey)
  {
    X509 *x = X509_new();
    if (!x) die("X509_new");
    X509_set_version(x, 2);
    ASN1_INTEGER_set(X509_get_serialNumber(x), ++_serial);
    X509_gmtime_adj(X509_getm_notBefore(x), s.notBeforeOffset);
    X509_gmtime_adj(X509_getm_notAfter(x), s.notAfterOffset);
    X509_set_pubkey(x, subjectKey);
    X509_NAME *name = X509_get_subject_name(x);
    X509_NAME_add_entry_by_txt(name, "O", MBSTRING_ASC, (const unsigned char *)"verif-c07", -1, -1, 0);
    X509_NAME_add_entry_by_txt(name, "CN", MBSTRING_ASC, (const unsigned char *)s.cn, -1, -1, 0);
    X509 *iss = issuerCert ? issuerCert : x; // self-signed when no issuer
    X509_set_issuer_name(x, X509_get_subject_name(iss));
    addExt(x, iss, NID_basic_constraints, s.isCa ? "critical,CA:TRUE" : "critical,CA:FALSE");
    addExt(x, iss, NID_key_usage, s.isCa ? "critical,keyCertSign,cRLSign" : "critical,digitalSignature");
    addExt(x, iss, NID_subject_key_identifier, "hash");
    if (s.san) addExt(x, iss, NID_subject_alt_name, s.san);
    if (s.eku) addExt(x, iss, NID_ext_key_usage, s.eku);
    if (!X509_sign(x, issuerKey ? issuerKey : subjectKey, EVP_sha256())) die("X509_sign");
    return x;
  }

  void writeCert(const std::string &path, X509 *x)
  {
    FILE *f = std::fopen(path.c_str(), "w");
    if (!f) throw std::runtime_error("c07 pki: cannot write " + path);
    PEM_write_X509(f, x);
    std::fclose(f);
  }
  void writeKey(const std::string &path, EVP_PKEY *k)
  {
    FILE *f = std::fopen(path.c_str(), "w");
    if (!f) throw std::runtime_error("c07 pki: cannot write " + path);
    PEM_write_PrivateKey(f, k, nullptr, nullptr, 0, nullptr, nullptr);
    std::fclose(f);
    ::chmod(path.c_str(), 0600);
  }

  Identity make(const std::string &stem, const Spec &s, const Identity *issuer)
  {
    Identity id;
    id.key = newKey();
    id.cert = makeCert(s, id.key, issuer ? issuer->cert : nullptr, issuer ? issuer->key : nullptr);
    id.certFile = dir + "/" + stem + ".crt.pem";
    id.keyFile = dir + "/" + stem + ".key.pem";
    writeCert(id.certFile, id.cert);
    writeKey(id.keyFile, id.key);
    return id;
  }

  // EC key whose public point is that of `pubFrom` and whose private scalar is that
  // of `privFrom`: OpenSSL's "does the key match the certificate" test (public part
  // comparison) passes, every signature made with it is invalid under the
  // certificate's public key.
  static EVP_PKEY *forge(EVP_PKEY *pubFrom, EVP_PKEY *privFrom)
  {
    const EC_KEY *pubEc = EVP_PKEY_get0_EC_KEY(pubFrom);
    const EC_KEY *privEc = EVP_PKEY_get0_EC_KEY(privFrom);
    if (!pubEc || !privEc) die("EVP_PKEY_get0_EC_KEY");
    EC_KEY *ec = EC_KEY_new_by_curve_name(NID_X9_62_prime256v1);
    if (!ec) die("EC_KEY_new_by_curve_name");
    if (!EC_KEY_set_public_key(ec, EC_KEY_get0_public_key(pubEc))) die("EC_KEY_set_public_key");
    if (!EC_KEY_set_private_key(ec, EC_KEY_get0_private_key(privEc))) die("EC_KEY_set_private_key");
    EVP_PKEY *k = EVP_PKEY_new();
    if (!k || !EVP_PKEY_assign_EC_KEY(k, ec)) die("EVP_PKEY_assign_EC_KEY");
    return k;
  }

  Pki()
  {
    const char *tmp = std::getenv("TMPDIR");
    std::string tmpl = std::string(tmp && *tmp ? tmp : "/tmp") + "/c07_pki_XXXXXX";
    std::vector<char> buf(tmpl.begin(), tmpl.end());
    buf.push_back(0);
    if (!::mkdtemp(buf.data())) throw std::runtime_error("c07 pki: mkdtemp failed");
    dir = buf.data();
    emptyDir = dir + "/empty.d";
    ::mkdir(emptyDir.c_str(), 0700);
    emptyFile = dir + "/empty.pem";
    {
      FILE *f = std::fopen(emptyFile.c_str(), "w");
      if (f) std::fclose(f);
    }

    const char *names = "DNS:localhost,IP:127.0.0.1,IP:::1";
    Spec ca;
    ca.isCa = true;
    ca.cn = "verif C07 CA A";
    caA = make("ca_a", ca, nullptr);
    ca.cn = "verif C07 CA B";
    caB = make("ca_b", ca, nullptr);

    Spec srv;
    srv.cn = "localhost";
    srv.san = names;
    srv.eku = "serverAuth";
    srvValid = make("srv_valid", srv, &caA);
    srvSelfSigned = make("srv_selfsigned", srv, nullptr);
    Spec exp = srv;
    exp.notBeforeOffset = -10L * 86400;
    exp.notAfterOffset = -1L * 86400;
    srvExpired = make("srv_expired", exp, &caA);
    Spec ny = srv; // not yet valid: beyond any plausible clock-skew tolerance
    ny.notBeforeOffset = 1L * 86400;
    ny.notAfterOffset = 366L * 86400;
    srvNotYet = make("srv_notyet", ny, &caA);
    Spec nyf = srv;
    nyf.notBeforeOffset = 3650L * 86400;
    nyf.notAfterOffset = 4015L * 86400;
    srvNotYetFar = make("srv_notyet_far", nyf, &caA);
    Spec wn = srv;
    wn.cn = "other.example";
    wn.san = "DNS:other.example,IP:192.0.2.1";
    srvWrongName = make("srv_wrongname", wn, &caA);
    Spec so = srv;
    so.san = "DNS:other.example,DNS:another.example";
    srvSanOtherCnMatch = make("srv_san_other_cn_match", so, &caA);
    Spec ns = srv;
    ns.san = nullptr;
    srvNoSanCnMatch = make("srv_nosan_cn_match", ns, &caA);

    // key mismatch
    srvMismatchFiles.cert = srvValid.cert;
    srvMismatchFiles.certFile = srvValid.certFile;
    srvMismatchFiles.key = newKey();
    srvMismatchFiles.keyFile = dir + "/srv_mismatch.key.pem";
    writeKey(srvMismatchFiles.keyFile, srvMismatchFiles.key);
    srvForgedKey = forge(srvValid.key, srvMismatchFiles.key);

    Spec cli;
    cli.cn = "client";
    cli.eku = "clientAuth";
    cliValid = make("cli_valid", cli, &caA);
    cliUntrusted = make("cli_untrusted", cli, &caB);
    cliSelfSigned = make("cli_selfsigned", cli, nullptr);
    Spec cexp = cli;
    cexp.notBeforeOffset = -10L * 86400;
    cexp.notAfterOffset = -1L * 86400;
    cliExpired = make("cli_expired", cexp, &caA);
    Spec cny = cli;
    cny.notBeforeOffset = 1L * 86400;
    cny.notAfterOffset = 366L * 86400;
    cliNotYet = make("cli_notyet", cny, &caA);
    Spec cnyf = cli;
    cnyf.notBeforeOffset = 3650L * 86400;
    cnyf.notAfterOffset = 4015L * 86400;
    cliNotYetFar = make("cli_notyet_far", cnyf, &caA);

    std::atexit([] { Pki::get().cleanup(); });
  }
};

} // namespace c07
