// c07_peer.hpp - independent peers for the C07 (TLS authentication) check.
//
// A Peer is the non-iora end of one connection. It shares no code with iora:
// plain POSIX sockets plus (for PeerKind::OpenSsl) an OpenSSL SSL object that runs
// over *memory BIOs*. The peer shovels bytes between the socket and the BIOs itself,
// so it sees - and records - every raw byte that crosses the wire in either
// direction (wireIn / wireOut): exactly what an intercepting relay would capture,
// without the extra hop. Plaintext and garbage peers never speak TLS at all.
//
// The peer runs on its own thread, always terminates (hard deadline, stop pipe) and
// is joined by stop().
#pragma once
#include <openssl/err.h>
#include <openssl/ssl.h>

#include <arpa/inet.h>
#include <atomic>
#include <chrono>
#include <cstring>
#include <fcntl.h>
#include <mutex>
#include <netinet/in.h>
#include <netinet/tcp.h>
#include <poll.h>
#include <string>
#include <sys/socket.h>
#include <thread>
#include <unistd.h>

namespace c07
{

enum class PeerKind
{
  OpenSsl,
  Plaintext,
  Garbage
};

struct PeerConfig
{
  PeerKind kind = PeerKind::OpenSsl;
  bool serverRole = true; // true: listens/accepts (iora connects); false: connects to iora
  // --- OpenSSL peers
  X509 *cert = nullptr; // own certificate (may be null for a client without one)
  EVP_PKEY *key = nullptr;
  X509 *trustCa = nullptr;      // trust anchor used when requirePeerCert is set
  bool requirePeerCert = false; // server role: demand + verify a client certificate
  int minVersion = TLS1_VERSION;
  int maxVersion = TLS1_3_VERSION; // protocol ceiling
  std::string sni;                 // client role: server name to send ("" = none)
  // --- behaviour once the handshake is complete
  std::string sendOnOpen;   // application bytes written as soon as the handshake is done
  bool httpResponder = false; // wait for a complete HTTP request, then send httpResponse and close
  std::string httpResponse;
  // --- plaintext / garbage peers
  std::string rawSend;       // bytes written raw right after TCP establishment
  bool halfCloseAfterRaw = false;
  // --- client role
  std::uint16_t connectPort = 0;
  double deadlineSeconds = 20.0; // hard upper bound on the peer's life
  int startDelayMs = 0;          // after TCP establishment: stay silent this long before reading / writing anything
};

struct PeerResult
{
  bool tcpEstablished = false;
  bool handshakeDone = false;
  int version = 0; // SSL_version() once handshakeDone
  std::string handshakeError;
  bool sawPeerCert = false; // other side presented a certificate
  std::string wireIn;       // every raw byte read from the socket
  std::string wireOut;      // every raw byte written to the socket
  std::string appIn;        // decrypted application bytes received
  bool sentOnOpen = false;
  bool responded = false;
  bool eof = false; // the other side closed / reset
  bool deadlineHit = false;
};

inline const char *versionName(int v)
{
  switch (v)
  {
  case TLS1_VERSION: return "TLS1.0";
  case TLS1_1_VERSION: return "TLS1.1";
  case TLS1_2_VERSION: return "TLS1.2";
  case TLS1_3_VERSION: return "TLS1.3";
  case 0: return "-";
  default: return "TLS?";
  }
}

class Peer
{
public:
  explicit Peer(PeerConfig cfg) : _cfg(std::move(cfg))
  {
    if (::pipe2(_stopPipe, O_CLOEXEC | O_NONBLOCK) != 0) _stopPipe[0] = _stopPipe[1] = -1;
  }
  ~Peer()
  {
    stop();
    for (int fd : {_stopPipe[0], _stopPipe[1], _lfd4, _lfd6})
      if (fd >= 0) ::close(fd);
  }
  Peer(const Peer &) = delete;
  Peer &operator=(const Peer &) = delete;

  /// server role: bind 127.0.0.1:<ephemeral> (and [::1] on the same port, best
  /// effort, so that "localhost" works whichever address it resolves to first).
  /// Returns the port, 0 on failure.
  std::uint16_t listen()
  {
    for (int attempt = 0; attempt < 20; ++attempt)
    {
      int fd = ::socket(AF_INET, SOCK_STREAM | SOCK_CLOEXEC, 0);
      if (fd < 0) return 0;
      sockaddr_in sa{};
      sa.sin_family = AF_INET;
      sa.sin_addr.s_addr = htonl(INADDR_LOOPBACK);
      sa.sin_port = 0;
      if (::bind(fd, (sockaddr *)&sa, sizeof sa) != 0 || ::listen(fd, 8) != 0)
      {
        ::close(fd);
        continue;
      }
      socklen_t sl = sizeof sa;
      ::getsockname(fd, (sockaddr *)&sa, &sl);
      std::uint16_t port = ntohs(sa.sin_port);
      _lfd4 = fd;
      int fd6 = ::socket(AF_INET6, SOCK_STREAM | SOCK_CLOEXEC, 0);
      if (fd6 >= 0)
      {
        int one = 1;
        ::setsockopt(fd6, IPPROTO_IPV6, IPV6_V6ONLY, &one, sizeof one);
        sockaddr_in6 s6{};
        s6.sin6_family = AF_INET6;
        s6.sin6_addr = in6addr_loopback;
        s6.sin6_port = htons(port);
        if (::bind(fd6, (sockaddr *)&s6, sizeof s6) == 0 && ::listen(fd6, 8) == 0)
          _lfd6 = fd6;
        else
          ::close(fd6); // no IPv6 loopback or port taken there: IPv4 only
      }
      return port;
    }
    return 0;
  }

  void start()
  {
    _th = std::thread([this] { run(); });
  }

  /// ask the peer to finish and join it (idempotent)
  void stop()
  {
    if (_stopPipe[1] >= 0)
    {
      char b = 1;
      if (::write(_stopPipe[1], &b, 1) < 0) {}
    }
    if (_th.joinable()) _th.join();
  }

  bool finished() const { return _finished.load(std::memory_order_acquire); }

  /// client role: source port of this peer's connection (0 until it is bound)
  std::uint16_t localPort() const { return _localPort.load(std::memory_order_acquire); }

  /// wait (bounded) until the peer thread has finished on its own
  bool waitFinished(double seconds)
  {
    auto end = std::chrono::steady_clock::now() + std::chrono::duration<double>(seconds);
    while (!finished())
    {
      if (std::chrono::steady_clock::now() > end) return false;
      std::this_thread::sleep_for(std::chrono::microseconds(300));
    }
    return true;
  }

  /// snapshot of progress while the peer is running (thread-safe)
  bool handshakeDoneNow()
  {
    std::lock_guard<std::mutex> g(_mu);
    return _res.handshakeDone;
  }

  /// snapshot of the decrypted application bytes received so far (thread-safe)
  std::string appInNow()
  {
    std::lock_guard<std::mutex> g(_mu);
    return _res.appIn;
  }

  /// only after stop()
  const PeerResult &result() const { return _res; }

private:
  using Clock = std::chrono::steady_clock;

  static void setNonBlocking(int fd)
  {
    int fl = ::fcntl(fd, F_GETFL, 0);
    ::fcntl(fd, F_SETFL, fl | O_NONBLOCK);
    int one = 1;
    ::setsockopt(fd, IPPROTO_TCP, TCP_NODELAY, &one, sizeof one);
  }

  int remainingMs() const
  {
    auto left = std::chrono::duration_cast<std::chrono::milliseconds>(_deadline - Clock::now()).count();
    if (left < 0) left = 0;
    if (left > 1000) left = 1000;
    return (int)left;
  }
  bool expired() const { return Clock::now() >= _deadline; }

  bool stopRequested()
  {
    if (_stop) return true;
    if (_stopPipe[0] < 0) return false;
    char b;
    if (::read(_stopPipe[0], &b, 1) == 1) _stop = true;
    return _stop;
  }

  int establish()
  {
    if (_cfg.serverRole)
    {
      while (!expired())
      {
        pollfd p[3];
        int n = 0;
        p[n++] = {_stopPipe[0], POLLIN, 0};
        if (_lfd4 >= 0) p[n++] = {_lfd4, POLLIN, 0};
        if (_lfd6 >= 0) p[n++] = {_lfd6, POLLIN, 0};
        int r = ::poll(p, (nfds_t)n, remainingMs());
        if (r < 0 && errno != EINTR) return -1;
        if (stopRequested()) return -1;
        for (int i = 1; i < n; ++i)
          if (p[i].revents & POLLIN)
          {
            int fd = ::accept4(p[i].fd, nullptr, nullptr, SOCK_CLOEXEC);
            if (fd >= 0) return fd;
          }
      }
      return -1;
    }
    int fd = ::socket(AF_INET, SOCK_STREAM | SOCK_CLOEXEC, 0);
    if (fd < 0) return -1;
    sockaddr_in sa{};
    sa.sin_family = AF_INET;
    sa.sin_addr.s_addr = htonl(INADDR_LOOPBACK);
    sa.sin_port = htons(_cfg.connectPort);
    // bind first so that the source port is known (and published) before the other
    // side can possibly see the connection: it identifies THIS peer's connection
    sockaddr_in la{};
    la.sin_family = AF_INET;
    la.sin_addr.s_addr = htonl(INADDR_LOOPBACK);
    socklen_t ll = sizeof la;
    if (::bind(fd, (sockaddr *)&la, sizeof la) == 0 && ::getsockname(fd, (sockaddr *)&la, &ll) == 0)
      _localPort.store(ntohs(la.sin_port), std::memory_order_release);
    if (::connect(fd, (sockaddr *)&sa, sizeof sa) != 0) // loopback: immediate success or refusal
    {
      ::close(fd);
      return -1;
    }
    return fd;
  }

  // write everything (socket is non-blocking; data volumes are tiny)
  bool sendAll(int fd, const char *p, std::size_t n)
  {
    while (n > 0)
    {
      ssize_t w = ::send(fd, p, n, MSG_NOSIGNAL);
      if (w > 0)
      {
        _res.wireOut.append(p, (std::size_t)w);
        p += w;
        n -= (std::size_t)w;
        continue;
      }
      if (w < 0 && (errno == EAGAIN || errno == EWOULDBLOCK))
      {
        if (expired()) return false;
        pollfd pf{fd, POLLOUT, 0};
        ::poll(&pf, 1, remainingMs());
        continue;
      }
      if (w < 0 && errno == EINTR) continue;
      return false;
    }
    return true;
  }

  // returns false on EOF / error
  bool readSome(int fd, std::string &into, std::string *alsoInto = nullptr)
  {
    char buf[16384];
    for (;;)
    {
      ssize_t r = ::recv(fd, buf, sizeof buf, 0);
      if (r > 0)
      {
        into.append(buf, (std::size_t)r);
        if (alsoInto) alsoInto->append(buf, (std::size_t)r);
        continue;
      }
      if (r < 0 && (errno == EAGAIN || errno == EWOULDBLOCK)) return true;
      if (r < 0 && errno == EINTR) continue;
      return false; // 0 = EOF, <0 = reset
    }
  }

  // wait for readability or stop; false when the peer should end
  bool waitReadable(int fd)
  {
    pollfd p[2] = {{fd, POLLIN, 0}, {_stopPipe[0], POLLIN, 0}};
    int r = ::poll(p, 2, remainingMs());
    if (r < 0 && errno != EINTR) return false;
    if (stopRequested()) return false;
    if (expired())
    {
      _res.deadlineHit = true;
      return false;
    }
    return true;
  }

  void runRaw(int fd)
  {
    if (!_cfg.rawSend.empty()) sendAll(fd, _cfg.rawSend.data(), _cfg.rawSend.size());
    if (_cfg.halfCloseAfterRaw) ::shutdown(fd, SHUT_WR);
    for (;;)
    {
      std::string dummy;
      bool alive;
      {
        std::string chunk;
        alive = readSome(fd, chunk);
        std::lock_guard<std::mutex> g(_mu);
        _res.wireIn += chunk;
      }
      if (!alive)
      {
        _res.eof = true;
        break;
      }
      if (!waitReadable(fd)) break;
    }
  }

  static bool httpRequestComplete(const std::string &s)
  {
    auto h = s.find("\r\n\r\n");
    if (h == std::string::npos) return false;
    // Content-Length (case-insensitive search over the header block)
    std::string head = s.substr(0, h);
    for (auto &ch : head) ch = (char)std::tolower((unsigned char)ch);
    auto p = head.find("content-length:");
    std::size_t need = 0;
    if (p != std::string::npos) need = (std::size_t)std::strtoul(head.c_str() + p + 15, nullptr, 10);
    return s.size() >= h + 4 + need;
  }

  SSL_CTX *makeCtx()
  {
    SSL_CTX *ctx = SSL_CTX_new(_cfg.serverRole ? TLS_server_method() : TLS_client_method());
    if (!ctx) return nullptr;
    // as permissive as OpenSSL can be: the only limits are the configured ones
    SSL_CTX_set_security_level(ctx, 0);
    SSL_CTX_set_cipher_list(ctx, "ALL:@SECLEVEL=0");
    SSL_CTX_set_min_proto_version(ctx, _cfg.minVersion);
    SSL_CTX_set_max_proto_version(ctx, _cfg.maxVersion);
    SSL_CTX_set_session_cache_mode(ctx, SSL_SESS_CACHE_OFF);
    SSL_CTX_set_num_tickets(ctx, 0);
    if (_cfg.cert && _cfg.key)
    {
      if (SSL_CTX_use_certificate(ctx, _cfg.cert) != 1 || SSL_CTX_use_PrivateKey(ctx, _cfg.key) != 1)
      {
        _res.handshakeError = "peer could not load its own certificate/key";
        SSL_CTX_free(ctx);
        return nullptr;
      }
    }
    if (_cfg.requirePeerCert)
    {
      SSL_CTX_set_verify(ctx, SSL_VERIFY_PEER | SSL_VERIFY_FAIL_IF_NO_PEER_CERT, nullptr);
      if (_cfg.trustCa) X509_STORE_add_cert(SSL_CTX_get_cert_store(ctx), _cfg.trustCa);
    }
    else
      SSL_CTX_set_verify(ctx, SSL_VERIFY_NONE, nullptr);
    return ctx;
  }

  void runTls(int fd)
  {
    SSL_CTX *ctx = makeCtx();
    if (!ctx) return;
    SSL *ssl = SSL_new(ctx);
    BIO *rbio = BIO_new(BIO_s_mem());
    BIO *wbio = BIO_new(BIO_s_mem());
    SSL_set_bio(ssl, rbio, wbio); // ssl owns the BIOs now
    if (_cfg.serverRole)
      SSL_set_accept_state(ssl);
    else
    {
      SSL_set_connect_state(ssl);
      if (!_cfg.sni.empty()) SSL_set_tlsext_host_name(ssl, _cfg.sni.c_str());
    }

    bool hsDone = false, hsFailed = false, ioDone = false, eof = false;
    std::string outq;
    bool closing = false;
    Clock::time_point closeBy{};

    auto flush = [&]() -> bool
    {
      char buf[16384];
      for (;;)
      {
        int n = BIO_read(wbio, buf, sizeof buf);
        if (n <= 0) return true;
        if (!sendAll(fd, buf, (std::size_t)n)) return false;
      }
    };

    for (;;)
    {
      ERR_clear_error();
      if (!hsDone && !hsFailed)
      {
        int r = SSL_do_handshake(ssl);
        if (r == 1)
        {
          hsDone = true;
          std::lock_guard<std::mutex> g(_mu);
          _res.handshakeDone = true;
          _res.version = SSL_version(ssl);
          if (X509 *pc = SSL_get_peer_certificate(ssl))
          {
            _res.sawPeerCert = true;
            X509_free(pc);
          }
          outq = _cfg.sendOnOpen;
        }
        else
        {
          int e = SSL_get_error(ssl, r);
          if (e != SSL_ERROR_WANT_READ && e != SSL_ERROR_WANT_WRITE)
          {
            hsFailed = true;
            unsigned long ec = ERR_get_error();
            char msg[200];
            ERR_error_string_n(ec, msg, sizeof msg);
            _res.handshakeError = ec ? msg : (e == SSL_ERROR_SYSCALL ? "eof during handshake" : "handshake failed");
          }
        }
      }
      if (hsDone && !ioDone)
      {
        while (!outq.empty())
        {
          int n = SSL_write(ssl, outq.data(), (int)outq.size());
          if (n > 0)
          {
            outq.erase(0, (std::size_t)n);
            if (outq.empty())
            {
              if (!_res.sentOnOpen) _res.sentOnOpen = true;
              if (_res.responded && !closing)
              {
                SSL_shutdown(ssl); // close_notify after the reply
                closing = true;
                closeBy = Clock::now() + std::chrono::milliseconds(500);
              }
            }
          }
          else
            break;
        }
        for (;;)
        {
          char buf[16384];
          int n = SSL_read(ssl, buf, sizeof buf);
          if (n > 0)
          {
            std::lock_guard<std::mutex> g(_mu);
            _res.appIn.append(buf, (std::size_t)n);
            continue;
          }
          int e = SSL_get_error(ssl, n);
          if (e == SSL_ERROR_WANT_READ || e == SSL_ERROR_WANT_WRITE) break;
          ioDone = true; // close_notify, alert (e.g. TLS 1.3 certificate rejection) or error
          break;
        }
        if (_cfg.httpResponder && !_res.responded && httpRequestComplete(_res.appIn))
        {
          _res.responded = true;
          outq = _cfg.httpResponse;
          if (!flush()) break;
          continue; // go write it
        }
      }
      if (!flush()) break;
      if (hsFailed || ioDone || eof) break;
      if (closing && Clock::now() >= closeBy) break;
      if (!waitReadable(fd)) break;
      {
        std::string chunk;
        bool alive = readSome(fd, chunk);
        if (!chunk.empty())
        {
          BIO_write(rbio, chunk.data(), (int)chunk.size());
          std::lock_guard<std::mutex> g(_mu);
          _res.wireIn += chunk;
        }
        if (!alive)
        {
          eof = true; // let OpenSSL digest what arrived, then leave
          _res.eof = true;
          if (chunk.empty()) break;
        }
      }
    }
    flush();
    SSL_free(ssl);
    SSL_CTX_free(ctx);
  }

  void run()
  {
    _deadline = Clock::now() + std::chrono::duration_cast<Clock::duration>(
                                 std::chrono::duration<double>(_cfg.deadlineSeconds));
    int fd = establish();
    if (fd >= 0)
    {
      {
        std::lock_guard<std::mutex> g(_mu);
        _res.tcpEstablished = true;
      }
      setNonBlocking(fd);
      if (_cfg.startDelayMs > 0)
      {
        pollfd p{_stopPipe[0], POLLIN, 0}; // a stop request ends the silence early (it stays readable)
        ::poll(&p, 1, _cfg.startDelayMs);
      }
      if (_cfg.kind == PeerKind::OpenSsl)
        runTls(fd);
      else
        runRaw(fd);
      // Close with a reset instead of an orderly FIN (except right after an HTTP reply the
      // other side may still be reading): whichever side closed first, no socket is left in
      // TIME_WAIT. An exhaustive walk makes ~500 connections per second; at one TIME_WAIT
      // minute each, the 28 k ephemeral ports (needed for the listeners) would run out.
      if (!(_res.responded && !_res.eof))
      {
        linger lg{1, 0};
        ::setsockopt(fd, SOL_SOCKET, SO_LINGER, &lg, sizeof lg);
      }
      ::close(fd);
    }
    ERR_clear_error();
    _finished.store(true, std::memory_order_release);
  }

  PeerConfig _cfg;
  PeerResult _res;
  std::mutex _mu;
  std::thread _th;
  std::atomic<bool> _finished{false};
  std::atomic<std::uint16_t> _localPort{0};
  bool _stop = false;
  int _stopPipe[2] = {-1, -1};
  int _lfd4 = -1, _lfd6 = -1;
  Clock::time_point _deadline{};
};

} // namespace c07
