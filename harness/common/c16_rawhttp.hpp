// c16_rawhttp.hpp - raw-socket HTTP/1.1 counterparts for C16 / C17.
//
// Shares NO code with iora: blocking/poll()ed POSIX sockets, an own strict
// HTTP/1.1 response framer (used to split the byte stream an iora HttpServer
// writes) and an own strict request reader (used by the scripted server that
// the iora HttpClient talks to). "Strict" = RFC 9112 grammar without any of the
// tolerated deviations: CRLF only, single SP in the start line, 3-digit status,
// token field names, digits-only Content-Length, no obs-fold.
#pragma once
#include <arpa/inet.h>
#include <cerrno>
#include <chrono>
#include <cstdint>
#include <cstring>
#include <fcntl.h>
#include <functional>
#include <netinet/in.h>
#include <netinet/tcp.h>
#include <poll.h>
#include <string>
#include <string_view>
#include <sys/socket.h>
#include <sys/types.h>
#include <unistd.h>
#include <utility>
#include <vector>

namespace rawhttp
{

using Clock = std::chrono::steady_clock;
inline double msSince(Clock::time_point t0)
{
  return std::chrono::duration<double, std::milli>(Clock::now() - t0).count();
}

// ------------------------------------------------------------------ sockets
inline void setNonBlocking(int fd, bool on)
{
  int fl = ::fcntl(fd, F_GETFL, 0);
  if (fl < 0) return;
  ::fcntl(fd, F_SETFL, on ? (fl | O_NONBLOCK) : (fl & ~O_NONBLOCK));
}

/// blocking connect to 127.0.0.1:port; returns fd or -1 (errno kept)
inline int tcpConnect(std::uint16_t port, int timeoutMs = 5000)
{
  int fd = ::socket(AF_INET, SOCK_STREAM | SOCK_CLOEXEC, 0);
  if (fd < 0) return -1;
  sockaddr_in sa{};
  sa.sin_family = AF_INET;
  sa.sin_port = htons(port);
  sa.sin_addr.s_addr = htonl(INADDR_LOOPBACK);
  setNonBlocking(fd, true);
  int rc = ::connect(fd, reinterpret_cast<sockaddr *>(&sa), sizeof sa);
  if (rc < 0 && errno == EINPROGRESS)
  {
    pollfd p{fd, POLLOUT, 0};
    rc = ::poll(&p, 1, timeoutMs);
    if (rc <= 0)
    {
      ::close(fd);
      errno = ETIMEDOUT;
      return -1;
    }
    int err = 0;
    socklen_t el = sizeof err;
    ::getsockopt(fd, SOL_SOCKET, SO_ERROR, &err, &el);
    if (err)
    {
      ::close(fd);
      errno = err;
      return -1;
    }
  }
  else if (rc < 0)
  {
    int e = errno;
    ::close(fd);
    errno = e;
    return -1;
  }
  setNonBlocking(fd, false);
  int one = 1;
  ::setsockopt(fd, IPPROTO_TCP, TCP_NODELAY, &one, sizeof one);
  return fd;
}

/// write all bytes (blocking socket, but never longer than timeoutMs in total);
/// returns bytes written (== n on success)
inline std::size_t sendAll(int fd, const char *p, std::size_t n, int timeoutMs = 10000)
{
  auto t0 = Clock::now();
  std::size_t off = 0;
  while (off < n)
  {
    pollfd pf{fd, POLLOUT, 0};
    int left = timeoutMs - static_cast<int>(msSince(t0));
    if (left <= 0) break;
    int rc = ::poll(&pf, 1, left);
    if (rc < 0 && errno == EINTR) continue;
    if (rc <= 0) break;
    ssize_t w = ::send(fd, p + off, n - off, MSG_NOSIGNAL | MSG_DONTWAIT);
    if (w < 0)
    {
      if (errno == EAGAIN || errno == EWOULDBLOCK || errno == EINTR) continue;
      break;
    }
    off += static_cast<std::size_t>(w);
  }
  return off;
}

enum class RecvStatus
{
  Data,
  Eof,
  Reset, // ECONNRESET or another hard error
  Timeout
};

/// wait up to timeoutMs for bytes; appends to `out`
inline RecvStatus recvSome(int fd, std::string &out, int timeoutMs, std::size_t maxBytes = 65536)
{
  pollfd pf{fd, POLLIN, 0};
  for (;;)
  {
    int rc = ::poll(&pf, 1, timeoutMs);
    if (rc < 0 && errno == EINTR) continue;
    if (rc == 0) return RecvStatus::Timeout;
    if (rc < 0) return RecvStatus::Reset;
    break;
  }
  std::string buf(maxBytes, '\0');
  ssize_t r = ::recv(fd, buf.data(), buf.size(), MSG_DONTWAIT);
  if (r > 0)
  {
    out.append(buf.data(), static_cast<std::size_t>(r));
    return RecvStatus::Data;
  }
  if (r == 0) return RecvStatus::Eof;
  if (errno == EAGAIN || errno == EWOULDBLOCK || errno == EINTR) return RecvStatus::Timeout;
  return RecvStatus::Reset;
}

/// abortive close: RST instead of FIN
inline void closeRst(int fd)
{
  linger lg{1, 0};
  ::setsockopt(fd, SOL_SOCKET, SO_LINGER, &lg, sizeof lg);
  ::close(fd);
}

/// ports of every listening AF_INET stream socket of this process (used to learn
/// the ephemeral port an iora HttpServer bound with port 0 - it offers no getter)
inline std::vector<std::pair<int, std::uint16_t>> listeningSockets(int maxFd = 4096)
{
  std::vector<std::pair<int, std::uint16_t>> v;
  for (int fd = 3; fd < maxFd; ++fd)
  {
    int acc = 0;
    socklen_t l = sizeof acc;
    if (::getsockopt(fd, SOL_SOCKET, SO_ACCEPTCONN, &acc, &l) != 0 || !acc) continue;
    sockaddr_in sa{};
    socklen_t sl = sizeof sa;
    if (::getsockname(fd, reinterpret_cast<sockaddr *>(&sa), &sl) != 0) continue;
    if (sa.sin_family != AF_INET) continue;
    v.emplace_back(fd, ntohs(sa.sin_port));
  }
  return v;
}

/// A loopback port owned for the life of the object that can be switched between
/// "refusing" (bound, not listening: connects get RST) and "listening".
/// A never-listening reservation socket keeps the port ours while the listener
/// is closed (both carry SO_REUSEPORT, so they may share the port).
struct SwitchablePort
{
  int reserveFd = -1;
  int listenFd = -1;
  std::uint16_t port = 0;

  static int boundSocket(std::uint16_t port)
  {
    int fd = ::socket(AF_INET, SOCK_STREAM | SOCK_CLOEXEC, 0);
    if (fd < 0) return -1;
    int one = 1;
    ::setsockopt(fd, SOL_SOCKET, SO_REUSEADDR, &one, sizeof one);
    ::setsockopt(fd, SOL_SOCKET, SO_REUSEPORT, &one, sizeof one);
    sockaddr_in sa{};
    sa.sin_family = AF_INET;
    sa.sin_port = htons(port);
    sa.sin_addr.s_addr = htonl(INADDR_LOOPBACK);
    if (::bind(fd, reinterpret_cast<sockaddr *>(&sa), sizeof sa) != 0)
    {
      ::close(fd);
      return -1;
    }
    return fd;
  }
  bool open()
  {
    reserveFd = boundSocket(0);
    if (reserveFd < 0) return false;
    sockaddr_in sa{};
    socklen_t sl = sizeof sa;
    ::getsockname(reserveFd, reinterpret_cast<sockaddr *>(&sa), &sl);
    port = ntohs(sa.sin_port);
    return port != 0;
  }
  bool listening() const { return listenFd >= 0; }
  bool startListening(int backlog = 64)
  {
    if (listenFd >= 0) return true;
    int fd = boundSocket(port);
    if (fd < 0) return false;
    if (::listen(fd, backlog) != 0)
    {
      ::close(fd);
      return false;
    }
    setNonBlocking(fd, true);
    listenFd = fd;
    return true;
  }
  void stopListening()
  {
    if (listenFd >= 0) ::close(listenFd);
    listenFd = -1;
  }
  void close()
  {
    stopListening();
    if (reserveFd >= 0) ::close(reserveFd);
    reserveFd = -1;
  }
  ~SwitchablePort() { close(); }
};

// ------------------------------------------------------------- small helpers
inline bool isTchar(unsigned char c)
{
  if ((c >= 'A' && c <= 'Z') || (c >= 'a' && c <= 'z') || (c >= '0' && c <= '9')) return true;
  switch (c)
  {
  case '!': case '#': case '$': case '%': case '&': case '\'': case '*': case '+':
  case '-': case '.': case '^': case '_': case '`': case '|': case '~':
    return true;
  default:
    return false;
  }
}
inline bool isToken(std::string_view s)
{
  if (s.empty()) return false;
  for (unsigned char c : s)
    if (!isTchar(c)) return false;
  return true;
}
inline char lowerAscii(char c) { return (c >= 'A' && c <= 'Z') ? static_cast<char>(c + 32) : c; }
inline bool iequals(std::string_view a, std::string_view b)
{
  if (a.size() != b.size()) return false;
  for (std::size_t i = 0; i < a.size(); ++i)
    if (lowerAscii(a[i]) != lowerAscii(b[i])) return false;
  return true;
}
inline std::string_view trimOws(std::string_view s)
{
  while (!s.empty() && (s.front() == ' ' || s.front() == '\t')) s.remove_prefix(1);
  while (!s.empty() && (s.back() == ' ' || s.back() == '\t')) s.remove_suffix(1);
  return s;
}
inline bool allDigits(std::string_view s)
{
  if (s.empty()) return false;
  for (char c : s)
    if (c < '0' || c > '9') return false;
  return true;
}

using HeaderList = std::vector<std::pair<std::string, std::string>>;

inline const std::string *findHeader(const HeaderList &h, std::string_view name)
{
  for (auto &kv : h)
    if (iequals(kv.first, name)) return &kv.second;
  return nullptr;
}
inline std::size_t countHeader(const HeaderList &h, std::string_view name)
{
  std::size_t n = 0;
  for (auto &kv : h)
    if (iequals(kv.first, name)) ++n;
  return n;
}
/// does a comma separated list header contain `tok` (case-insensitive)?
inline bool listHasToken(std::string_view v, std::string_view tok)
{
  while (!v.empty())
  {
    auto c = v.find(',');
    std::string_view e = trimOws(v.substr(0, c));
    if (iequals(e, tok)) return true;
    if (c == std::string_view::npos) break;
    v.remove_prefix(c + 1);
  }
  return false;
}

/// strict parse of "name: value CRLF"* (block WITHOUT the final empty line);
/// returns false + err on any deviation
inline bool parseHeaderLines(std::string_view block, HeaderList &out, std::string &err)
{
  while (!block.empty())
  {
    auto e = block.find("\r\n");
    if (e == std::string_view::npos)
    {
      err = "header line without CRLF";
      return false;
    }
    std::string_view line = block.substr(0, e);
    block.remove_prefix(e + 2);
    if (line.empty())
    {
      err = "empty line inside header block";
      return false;
    }
    if (line.front() == ' ' || line.front() == '\t')
    {
      err = "obs-fold";
      return false;
    }
    auto c = line.find(':');
    if (c == std::string_view::npos)
    {
      err = "header line without colon";
      return false;
    }
    std::string_view name = line.substr(0, c);
    if (!isToken(name))
    {
      err = "field name is not a token";
      return false;
    }
    std::string_view val = trimOws(line.substr(c + 1));
    for (unsigned char ch : val)
      if ((ch < 0x20 && ch != '\t') || ch == 0x7f)
      {
        err = "control character in field value";
        return false;
      }
    out.emplace_back(std::string(name), std::string(val));
  }
  return true;
}

// -------------------------------------------------------- response framer
struct RawResponse
{
  int status = 0;
  std::string version; // "1.1"
  std::string reason;
  HeaderList headers;
  std::string body;
  std::size_t headBytes = 0;   // status line + headers + blank line
  std::size_t wireBytes = 0;   // total octets consumed from the stream
  bool hasContentLength = false;
  std::uint64_t contentLength = 0;
  bool closeDelimited = false; // body ran to EOF
  bool bodyless = false;       // HEAD / 1xx / 204 / 304: framed without body
  const std::string *header(std::string_view n) const { return findHeader(headers, n); }
  bool connectionClose() const
  {
    for (auto &kv : headers)
      if (iequals(kv.first, "Connection") && listHasToken(kv.second, "close")) return true;
    return false;
  }
};

enum class Frame
{
  NeedMore,
  Complete,
  Malformed
};

/// Frame ONE response at the start of `buf`.
///  isHead(resp): called once the header block is parsed; must say whether this
///                response answers a HEAD request (then it has no body octets).
///  eof: no more bytes will arrive (needed for close-delimited bodies).
inline Frame frameResponse(std::string_view buf, bool eof,
                           const std::function<bool(const RawResponse &)> &isHead, RawResponse &out,
                           std::string &err)
{
  out = RawResponse{};
  // bare LF before the end of the header block is never allowed
  auto he = buf.find("\r\n\r\n");
  if (he == std::string_view::npos)
  {
    // reject obviously impossible prefixes early so that garbage is reported as
    // malformed instead of "need more" forever
    static const char pfx[] = "HTTP/1.1 ";
    std::size_t n = buf.size() < 9 ? buf.size() : 9;
    if (std::memcmp(buf.data(), pfx, n) != 0)
    {
      err = "stream does not start with 'HTTP/1.1 '";
      return Frame::Malformed;
    }
    if (buf.size() > 256 * 1024)
    {
      err = "header block larger than 256 KiB";
      return Frame::Malformed;
    }
    if (eof && !buf.empty())
    {
      err = "EOF inside the header block";
      return Frame::Malformed;
    }
    return Frame::NeedMore;
  }
  std::string_view head = buf.substr(0, he + 2); // includes the CRLF of the last header line
  auto sl = head.find("\r\n");
  std::string_view line = head.substr(0, sl);
  // status-line = HTTP-version SP status-code SP [reason-phrase]
  if (line.size() < 13 || line.substr(0, 5) != "HTTP/" || line[5] < '0' || line[5] > '9' ||
      line[6] != '.' || line[7] < '0' || line[7] > '9' || line[8] != ' ')
  {
    err = "malformed status line";
    return Frame::Malformed;
  }
  if (!(line[5] == '1' && (line[7] == '1' || line[7] == '0')))
  {
    err = "unexpected HTTP version";
    return Frame::Malformed;
  }
  out.version = std::string(line.substr(5, 3));
  if (!allDigits(line.substr(9, 3)) || line[12] != ' ')
  {
    err = "status code is not 3DIGIT SP";
    return Frame::Malformed;
  }
  out.status = (line[9] - '0') * 100 + (line[10] - '0') * 10 + (line[11] - '0');
  if (out.status < 100)
  {
    err = "status code below 100";
    return Frame::Malformed;
  }
  out.reason = std::string(line.substr(13));
  for (unsigned char ch : out.reason)
    if ((ch < 0x20 && ch != '\t') || ch == 0x7f)
    {
      err = "control character in reason phrase";
      return Frame::Malformed;
    }
  if (!parseHeaderLines(head.substr(sl + 2), out.headers, err)) return Frame::Malformed;
  out.headBytes = he + 4;

  // length information
  bool haveCl = false;
  std::uint64_t cl = 0;
  for (auto &kv : out.headers)
  {
    if (!iequals(kv.first, "Content-Length")) continue;
    if (!allDigits(kv.second) || kv.second.size() > 18)
    {
      err = "Content-Length is not 1*DIGIT: '" + kv.second + "'";
      return Frame::Malformed;
    }
    std::uint64_t v = std::stoull(kv.second);
    if (haveCl && v != cl)
    {
      err = "conflicting Content-Length fields";
      return Frame::Malformed;
    }
    haveCl = true;
    cl = v;
  }
  out.hasContentLength = haveCl;
  out.contentLength = cl;
  bool haveTe = findHeader(out.headers, "Transfer-Encoding") != nullptr;
  if (haveTe && haveCl)
  {
    err = "both Transfer-Encoding and Content-Length";
    return Frame::Malformed;
  }

  std::string_view rest = buf.substr(out.headBytes);
  bool answersHead = isHead ? isHead(out) : false;
  if (answersHead || out.status == 204 || out.status == 304 || out.status < 200)
  {
    out.bodyless = true;
    out.wireBytes = out.headBytes;
    return Frame::Complete;
  }
  if (haveTe)
  {
    const std::string *te = findHeader(out.headers, "Transfer-Encoding");
    if (!iequals(trimOws(*te), "chunked"))
    {
      err = "unsupported Transfer-Encoding '" + *te + "'";
      return Frame::Malformed;
    }
    // chunked = *( 1*HEXDIG CRLF data CRLF ) "0" CRLF CRLF   (no extensions/trailers accepted)
    std::size_t pos = 0;
    for (;;)
    {
      auto e = rest.find("\r\n", pos);
      if (e == std::string_view::npos)
      {
        if (eof)
        {
          err = "EOF inside chunked body";
          return Frame::Malformed;
        }
        return Frame::NeedMore;
      }
      std::string_view sz = rest.substr(pos, e - pos);
      if (sz.empty() || sz.size() > 15)
      {
        err = "bad chunk-size line";
        return Frame::Malformed;
      }
      std::uint64_t n = 0;
      for (char c : sz)
      {
        int d = (c >= '0' && c <= '9') ? c - '0' : (c >= 'a' && c <= 'f') ? c - 'a' + 10 : (c >= 'A' && c <= 'F') ? c - 'A' + 10 : -1;
        if (d < 0)
        {
          err = "bad chunk-size line";
          return Frame::Malformed;
        }
        n = n * 16 + static_cast<std::uint64_t>(d);
      }
      pos = e + 2;
      if (n == 0)
      {
        if (rest.size() < pos + 2)
        {
          if (eof)
          {
            err = "EOF inside chunked body";
            return Frame::Malformed;
          }
          return Frame::NeedMore;
        }
        if (rest.substr(pos, 2) != "\r\n")
        {
          err = "trailer section not supported by the strict framer";
          return Frame::Malformed;
        }
        out.wireBytes = out.headBytes + pos + 2;
        return Frame::Complete;
      }
      if (rest.size() < pos + n + 2)
      {
        if (eof)
        {
          err = "EOF inside chunked body";
          return Frame::Malformed;
        }
        return Frame::NeedMore;
      }
      out.body.append(rest.substr(pos, n));
      if (rest.substr(pos + n, 2) != "\r\n")
      {
        err = "chunk data not followed by CRLF";
        return Frame::Malformed;
      }
      pos += n + 2;
    }
  }
  if (haveCl)
  {
    if (rest.size() < cl)
    {
      if (eof)
      {
        err = "EOF after " + std::to_string(rest.size()) + " of " + std::to_string(cl) + " body octets";
        out.body = std::string(rest);
        return Frame::Malformed;
      }
      return Frame::NeedMore;
    }
    out.body = std::string(rest.substr(0, cl));
    out.wireBytes = out.headBytes + cl;
    return Frame::Complete;
  }
  // no length information: body runs to EOF
  if (!eof) return Frame::NeedMore;
  out.body = std::string(rest);
  out.closeDelimited = true;
  out.wireBytes = buf.size();
  return Frame::Complete;
}

// ---------------------------------------------------------- request reader
struct RawRequest
{
  std::string method, target, version;
  HeaderList headers;
  std::string body;
  std::size_t wireBytes = 0;
  const std::string *header(std::string_view n) const { return findHeader(headers, n); }
};

/// Frame ONE request at the start of `buf` (Content-Length or chunked bodies).
/// `needBytes` (optional) receives the total size of the request once the header
/// block is known and the body is Content-Length framed (0 otherwise).
inline Frame frameRequest(std::string_view buf, RawRequest &out, std::string &err,
                          std::size_t *needBytes = nullptr)
{
  out = RawRequest{};
  if (needBytes) *needBytes = 0;
  auto he = buf.find("\r\n\r\n");
  if (he == std::string_view::npos)
  {
    // the method must at least start with a token character
    if (!buf.empty() && !isTchar(static_cast<unsigned char>(buf[0])))
    {
      err = "request does not start with a method token";
      return Frame::Malformed;
    }
    if (buf.size() > 256 * 1024)
    {
      err = "request header block larger than 256 KiB";
      return Frame::Malformed;
    }
    return Frame::NeedMore;
  }
  std::string_view head = buf.substr(0, he + 2);
  auto sl = head.find("\r\n");
  std::string_view line = head.substr(0, sl);
  auto p1 = line.find(' ');
  auto p2 = p1 == std::string_view::npos ? p1 : line.find(' ', p1 + 1);
  if (p1 == std::string_view::npos || p2 == std::string_view::npos ||
      line.find(' ', p2 + 1) != std::string_view::npos)
  {
    err = "request line is not 'method SP target SP version'";
    return Frame::Malformed;
  }
  out.method = std::string(line.substr(0, p1));
  out.target = std::string(line.substr(p1 + 1, p2 - p1 - 1));
  out.version = std::string(line.substr(p2 + 1));
  if (!isToken(out.method))
  {
    err = "method is not a token";
    return Frame::Malformed;
  }
  if (out.target.empty())
  {
    err = "empty request target";
    return Frame::Malformed;
  }
  for (unsigned char ch : out.target)
    if (ch <= 0x20 || ch == 0x7f)
    {
      err = "whitespace/control in request target";
      return Frame::Malformed;
    }
  if (out.version != "HTTP/1.1" && out.version != "HTTP/1.0")
  {
    err = "bad HTTP version '" + out.version + "'";
    return Frame::Malformed;
  }
  if (!parseHeaderLines(head.substr(sl + 2), out.headers, err)) return Frame::Malformed;
  if (out.version == "HTTP/1.1" && countHeader(out.headers, "Host") != 1)
  {
    err = "HTTP/1.1 request without exactly one Host field";
    return Frame::Malformed;
  }
  bool haveCl = false;
  std::uint64_t cl = 0;
  for (auto &kv : out.headers)
  {
    if (!iequals(kv.first, "Content-Length")) continue;
    if (!allDigits(kv.second) || kv.second.size() > 18)
    {
      err = "request Content-Length is not 1*DIGIT";
      return Frame::Malformed;
    }
    std::uint64_t v = std::stoull(kv.second);
    if (haveCl && v != cl)
    {
      err = "conflicting request Content-Length";
      return Frame::Malformed;
    }
    haveCl = true;
    cl = v;
  }
  if (findHeader(out.headers, "Transfer-Encoding"))
  {
    err = "chunked requests are not expected from this client";
    return Frame::Malformed;
  }
  std::size_t bodyStart = he + 4;
  if (needBytes) *needBytes = bodyStart + cl;
  if (buf.size() < bodyStart + cl) return Frame::NeedMore;
  out.body = std::string(buf.substr(bodyStart, cl));
  out.wireBytes = bodyStart + cl;
  return Frame::Complete;
}

} // namespace rawhttp
