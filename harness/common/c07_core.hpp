// c07_core.hpp - shared declarations of the C07 (TLS authentication) harness: the
// dimensions of the configuration matrix, the per-case context and the helpers used
// by the role executors.
//   harness/c07_tls.cpp   matrix, decision table, oracle, transport roles, properties
//   harness/c07_http.cpp  HttpClient / HttpServer roles (a separate TU only to keep
//                         compile times tolerable)
#pragma once
#include "pbt.hpp"

#include "c07_certs.hpp"
#include "c07_peer.hpp"

#include "iora/network/transport_types.hpp"

#include <array>
#include <condition_variable>
#include <mutex>
#include <string>
#include <vector>

namespace c07
{

// ------------------------------------------------------------------ dimensions
enum Dim
{
  D_ROLE,    // which iora API plays the TLS endpoint
  D_KIND,    // what the other end is
  D_VERIFY,  // iora: verifyPeer (client roles) / require client certificate (server roles)
  D_TRUST,   // iora client roles: configured trust anchors
  D_SRVCERT, // certificate of the TLS server (the peer's in client roles, iora's in server roles)
  D_PEERREQ, // client roles: the peer server demands a client certificate
  D_CLICERT, // certificate of the TLS client (iora's in client roles, the peer's in server roles)
  D_CEIL,    // protocol ceiling of the peer
  D_MINVER,  // iora TlsConfig::minVersion
  D_BY,      // client roles: connect by IP literal or by host name
  D_SRVCA,   // iora server roles: caFile used to verify client certificates
  D_CFG,     // transport roles: is the TlsConfig behind the requested TlsMode actually switched on
  D_SCEN,    // what the application does with the session
  D_COUNT
};

enum Role { R_CLIENT_ASYNC, R_CLIENT_SYNC, R_SERVER, R_HTTP_CLIENT, R_HTTP_SERVER };
enum Kind { K_OPENSSL, K_PLAINTEXT, K_GARBAGE };
enum Trust
{
  T_RIGHT,           // caFile = CA A, system store empty
  T_WRONG,           // caFile = CA B, system store empty
  T_NONE,            // no caFile, system store empty
  T_WRONG_SYS_RIGHT, // caFile = CA B, but the system store contains CA A
  T_SYS_RIGHT        // no caFile, the system store contains CA A (system roots are the configured anchors)
};
enum SrvCert
{
  SC_VALID,
  SC_SELFSIGNED,
  SC_EXPIRED,
  SC_WRONGNAME,
  SC_MISMATCH,
  SC_NOTYET /*notBefore = now+1d*/,
  SC_NOTYET_FAR /*now+10y*/,
  SC_SAN_OTHER_CN /*CN=localhost, SAN dNSNames for other hosts only*/,
  SC_NOSAN_CN /*CN=localhost, no SAN (control)*/
};
enum CliCert
{
  CC_NONE,
  CC_VALID /*by CA A*/,
  CC_UNTRUSTED /*valid, by CA B*/,
  CC_EXPIRED /*by CA A*/,
  CC_SELFSIGNED,
  CC_NOTYET /*by CA A, notBefore = now+1d*/,
  CC_NOTYET_FAR /*by CA A, now+10y*/
};
enum Ver { V10, V11, V12, V13 };
enum MinVer { MV_0, MV_10, MV_12, MV_13 };
enum By { BY_IP, BY_NAME };
enum SrvCa { CA_RIGHT, CA_WRONG, CA_NONE };
enum Scen
{
  SCEN_NORMAL,            // wait for the outcome, exchange markers, close
  SCEN_CLOSE_IN_HANDSHAKE // send 0-3 markers at once, close after 0-5 ms, against a peer that answers late or never
};
enum Cfg
{
  CFG_OK,           // enabled = true, defaultMode = Client/Server
  CFG_NOT_ENABLED,  // everything filled in, but enabled = false
  CFG_NO_MODE       // enabled = true, but defaultMode left at TlsMode::None
};

using Cell = std::array<int, D_COUNT>;

inline const char *dimName(int d)
{
  static const char *const n[D_COUNT] = {"role", "peer", "verify", "trust", "srvCert", "peerReqCert",
                                         "cliCert", "peerCeiling", "minVersion", "by", "srvCa", "tlsConfig", "scenario"};
  return n[d];
}

inline const char *valueName(int dim, int v)
{
  static const char *role[] = {"client-connect", "client-connectSync", "server", "HttpClient", "HttpServer"};
  static const char *kind[] = {"openssl", "plaintext", "garbage"};
  static const char *onoff[] = {"off", "on"};
  static const char *trust[] = {"caA", "caB", "none", "caB+sysStoreHasCaA", "sysStoreHasCaA"};
  static const char *sc[] = {"validByCaA", "selfsigned", "expiredByCaA", "wrongnameByCaA", "keymismatch", "notYetValid+1dByCaA",
                             "notYetValid+10yByCaA", "sanOtherNames+cnLocalhostByCaA", "noSan+cnLocalhostByCaA"};
  static const char *cc[] = {"none", "validByCaA", "validByCaB", "expiredByCaA", "selfsigned", "notYetValid+1dByCaA",
                             "notYetValid+10yByCaA"};
  static const char *ver[] = {"TLS1.0", "TLS1.1", "TLS1.2", "TLS1.3"};
  static const char *mv[] = {"0", "TLS1.0", "TLS1.2", "TLS1.3"};
  static const char *by[] = {"127.0.0.1", "localhost"};
  static const char *ca[] = {"caA", "caB", "none"};
  static const char *cfg[] = {"ok", "enabled=false", "defaultMode=None"};
  static const char *scen[] = {"normal", "send+close-during-handshake"};
  switch (dim)
  {
  case D_ROLE: return role[v];
  case D_KIND: return kind[v];
  case D_VERIFY: return onoff[v];
  case D_TRUST: return trust[v];
  case D_SRVCERT: return sc[v];
  case D_PEERREQ: return onoff[v];
  case D_CLICERT: return cc[v];
  case D_CEIL: return ver[v];
  case D_MINVER: return mv[v];
  case D_BY: return by[v];
  case D_SRVCA: return ca[v];
  case D_CFG: return cfg[v];
  case D_SCEN: return scen[v];
  }
  return "?";
}

inline int versionConst(int v)
{
  static const int t[] = {TLS1_VERSION, TLS1_1_VERSION, TLS1_2_VERSION, TLS1_3_VERSION};
  return t[v];
}
inline int minVersionConst(int mv)
{
  static const int t[] = {0, TLS1_VERSION, TLS1_2_VERSION, TLS1_3_VERSION};
  return t[mv];
}
inline bool isClientRole(int r) { return r == R_CLIENT_ASYNC || r == R_CLIENT_SYNC || r == R_HTTP_CLIENT; }
inline bool isHttpRole(int r) { return r == R_HTTP_CLIENT || r == R_HTTP_SERVER; }
inline const char *roleFamily(int r)
{
  switch (r)
  {
  case R_CLIENT_ASYNC:
  case R_CLIENT_SYNC: return "transport-client";
  case R_SERVER: return "transport-server";
  case R_HTTP_CLIENT: return "http-client";
  default: return "http-server";
  }
}

// ---------------------------------------------------------------- case context
struct Markers
{
  std::string early;   // written by the iora side before the handshake can have finished
  std::string ioraApp; // written by the iora side once it considers the session open
  std::string peerApp; // written by an OpenSSL peer inside TLS
  std::string peerRaw; // written in clear by plaintext / garbage peers
};

inline std::string hexOf(const std::string &s)
{
  static const char *h = "0123456789abcdef";
  std::string o;
  for (unsigned char ch : s)
  {
    o += h[ch >> 4];
    o += h[ch & 15];
  }
  return o;
}

/// 32 bytes expanded (splitmix64) from a seed drawn from pbt::Src
inline std::string marker32(std::uint64_t &state)
{
  std::string m;
  for (int i = 0; i < 4; ++i)
  {
    state += 0x9e3779b97f4a7c15ULL;
    std::uint64_t z = state;
    z = (z ^ (z >> 30)) * 0xbf58476d1ce4e5b9ULL;
    z = (z ^ (z >> 27)) * 0x94d049bb133111ebULL;
    z ^= z >> 31;
    for (int k = 0; k < 8; ++k) m.push_back((char)(z >> (8 * k)));
  }
  return m;
}

struct Observed
{
  bool startRefused = false; // iora rejected the configuration before any session existed
  std::string startError;
  bool announced = false; // onConnect fired / connectSync returned ok / an HTTP exchange happened
  bool delivered = false; // bytes handed to the application (onData / response / handler)
  std::string appIn;      // those bytes
  bool closed = false;
  std::string closeMsg;
  bool definite = false; // a terminal event was observed within the bound
  std::string note;
};

constexpr double kWait = 15.0; // bound on every wait for a terminal event (expected: milliseconds)

struct Ctx
{
  Cell cell{};
  Markers mk;
  bool early = false;
  int garbageForm = 0;
  std::string blob;
  Observed obs;
  PeerResult peer;
  bool peerRan = false;
  // SCEN_CLOSE_IN_HANDSHAKE only
  std::vector<std::string> burst; // 0-3 markers written right after connect() / inside onAccept
  int closeDelayUs = 0;           // the application closes this long afterwards
  int peerDelayMs = 0;            // the peer starts its side of the handshake this late
};

inline bool contains(const std::string &hay, const std::string &needle)
{
  return !needle.empty() && hay.find(needle) != std::string::npos;
}

/// SSL_CTX_set_default_verify_paths() honours these variables: the "system store" of
/// this process is either empty or exactly CA A - never the machine's real roots.
inline void applyTrustEnv(bool systemStoreHasCaA)
{
  Pki &p = Pki::get();
  static int current = -1; // the environment is only touched when the value changes
  if (current == (systemStoreHasCaA ? 1 : 0)) return;
  current = systemStoreHasCaA ? 1 : 0;
  ::setenv("SSL_CERT_FILE", systemStoreHasCaA ? p.caA.certFile.c_str() : p.emptyFile.c_str(), 1);
  ::setenv("SSL_CERT_DIR", p.emptyDir.c_str(), 1);
}
inline bool systemStoreHasCaA(const Cell &c)
{
  return isClientRole(c[D_ROLE]) && (c[D_TRUST] == T_WRONG_SYS_RIGHT || c[D_TRUST] == T_SYS_RIGHT);
}
/// caFile an iora client is configured with ("" = none)
inline std::string clientCaFile(const Cell &c)
{
  Pki &p = Pki::get();
  if (c[D_TRUST] == T_RIGHT) return p.caA.certFile;
  if (c[D_TRUST] == T_WRONG || c[D_TRUST] == T_WRONG_SYS_RIGHT) return p.caB.certFile;
  return std::string();
}
inline std::string serverCaFile(const Cell &c)
{
  Pki &p = Pki::get();
  return c[D_SRVCA] == CA_RIGHT ? p.caA.certFile : (c[D_SRVCA] == CA_WRONG ? p.caB.certFile : std::string());
}

inline const Identity *serverIdentity(int sc)
{
  Pki &p = Pki::get();
  switch (sc)
  {
  case SC_VALID: return &p.srvValid;
  case SC_SELFSIGNED: return &p.srvSelfSigned;
  case SC_EXPIRED: return &p.srvExpired;
  case SC_WRONGNAME: return &p.srvWrongName;
  case SC_NOTYET: return &p.srvNotYet;
  case SC_NOTYET_FAR: return &p.srvNotYetFar;
  case SC_SAN_OTHER_CN: return &p.srvSanOtherCnMatch;
  case SC_NOSAN_CN: return &p.srvNoSanCnMatch;
  default: return &p.srvMismatchFiles;
  }
}
inline const Identity *clientIdentity(int cc)
{
  Pki &p = Pki::get();
  switch (cc)
  {
  case CC_VALID: return &p.cliValid;
  case CC_UNTRUSTED: return &p.cliUntrusted;
  case CC_EXPIRED: return &p.cliExpired;
  case CC_SELFSIGNED: return &p.cliSelfSigned;
  case CC_NOTYET: return &p.cliNotYet;
  case CC_NOTYET_FAR: return &p.cliNotYetFar;
  default: return nullptr;
  }
}

inline std::string garbageBytes(int form, const std::string &blob, const std::string &mark)
{
  std::string g;
  switch (form)
  {
  case 0: g = blob + mark + blob; break;                                           // noise
  case 1: g = std::string("\x16\x03\x03\x00\x40", 5) + blob + mark; break;         // handshake record header + noise
  case 2: g = std::string("\x15\x03\x03\x00\x02\x02\x28", 7) + mark + blob; break; // fatal alert, then noise
  default: g = std::string("\x17\x03\x03\x00\x20", 5) + mark + blob; break;        // "application data" record around clear text
  }
  return g;
}

/// what a never-TLS peer writes, by the role it is facing
inline std::string rawPayload(const Ctx &x)
{
  const std::string body = hexOf(x.mk.peerRaw);
  std::string text;
  switch (x.cell[D_ROLE])
  {
  case R_HTTP_CLIENT:
    text = "HTTP/1.1 200 OK\r\nContent-Type: text/plain\r\nContent-Length: " + std::to_string(body.size()) +
           "\r\nConnection: close\r\n\r\n" + body;
    break;
  case R_HTTP_SERVER:
    text = "POST /c07 HTTP/1.1\r\nHost: 127.0.0.1\r\nContent-Type: text/plain\r\nContent-Length: " +
           std::to_string(body.size()) + "\r\nConnection: close\r\n\r\n" + body;
    break;
  default: text = "220 clear-text service ready " + x.mk.peerRaw + "\r\n"; break;
  }
  if (x.cell[D_KIND] == K_PLAINTEXT) return text;
  return garbageBytes(x.garbageForm, x.blob, isHttpRole(x.cell[D_ROLE]) ? text : x.mk.peerRaw);
}

/// configuration of the independent peer for a cell (behaviour fields are set by the executor)
inline PeerConfig peerConfigFor(const Ctx &x)
{
  const Cell &c = x.cell;
  Pki &p = Pki::get();
  PeerConfig pc;
  pc.kind = c[D_KIND] == K_OPENSSL ? PeerKind::OpenSsl : (c[D_KIND] == K_PLAINTEXT ? PeerKind::Plaintext : PeerKind::Garbage);
  pc.serverRole = isClientRole(c[D_ROLE]);
  pc.maxVersion = versionConst(c[D_CEIL]);
  if (c[D_SCEN] == SCEN_CLOSE_IN_HANDSHAKE)
  {
    pc.startDelayMs = x.peerDelayMs;
    if (pc.kind != PeerKind::OpenSsl) return pc; // a silent sink: accepts TCP, never answers, records what it reads
  }
  if (pc.kind != PeerKind::OpenSsl)
  {
    pc.rawSend = rawPayload(x);
    pc.halfCloseAfterRaw = c[D_KIND] == K_GARBAGE; // a truncated record must not leave iora waiting
    return pc;
  }
  if (pc.serverRole)
  {
    const Identity *id = serverIdentity(c[D_SRVCERT]);
    pc.cert = id->cert;
    pc.key = c[D_SRVCERT] == SC_MISMATCH ? p.srvForgedKey : id->key;
    pc.requirePeerCert = c[D_PEERREQ] == 1;
    pc.trustCa = p.caA.cert;
  }
  else if (const Identity *id = clientIdentity(c[D_CLICERT]))
  {
    pc.cert = id->cert;
    pc.key = id->key;
  }
  return pc;
}

// role executors
void runClientTransport(Ctx &x);
void runServerTransport(Ctx &x);
void runHttpClient(Ctx &x); // c07_http.cpp
void runHttpServer(Ctx &x); // c07_http.cpp

} // namespace c07
