// c12_clock.hpp - harness-owned wall clock (C11, C12).
//
// harness/c12_clock.cpp contains a *strong* definition of clock_gettime() that is
// linked into the harness executable. The dynamic linker resolves every reference
// to clock_gettime - including the one inside libstdc++'s
// std::chrono::system_clock::now() - to the executable's definition first, so:
//   * CLOCK_REALTIME (and CLOCK_REALTIME_COARSE) return the harness-owned value
//     while the fake clock is enabled: an ms-aligned epoch time that only moves
//     when the harness says so;
//   * every other clock id (CLOCK_MONOTONIC = std::chrono::steady_clock, used by
//     the timing wheel, condition-variable timeouts and the pbt runtime) is passed
//     through to the real implementation.
// verifyInterposed() lets a harness prove at start-up that system_clock::now()
// really is under its control (it refuses to run otherwise).
#pragma once
#include <chrono>
#include <cstdint>

extern "C"
{
  /// enable the fake wall clock and set it to `epochMs` (milliseconds since 1970)
  void c12_clock_set(std::int64_t epochMs);
  /// move the fake wall clock forward by `deltaMs` >= 0
  void c12_clock_advance(std::int64_t deltaMs);
  /// current fake wall clock in epoch ms (valid while enabled)
  std::int64_t c12_clock_now();
  /// back to the real CLOCK_REALTIME
  void c12_clock_disable();
  /// number of CLOCK_REALTIME reads served from the fake clock so far
  std::uint64_t c12_clock_reads();
}

namespace c12clock
{
/// true iff std::chrono::system_clock::now() observes the harness-owned value
inline bool verifyInterposed()
{
  const std::int64_t probe = 1234567890123LL; // 2009-02-13, never the real time
  c12_clock_set(probe);
  auto a = std::chrono::duration_cast<std::chrono::milliseconds>(
             std::chrono::system_clock::now().time_since_epoch())
             .count();
  c12_clock_advance(77);
  auto b = std::chrono::duration_cast<std::chrono::milliseconds>(
             std::chrono::system_clock::now().time_since_epoch())
             .count();
  auto s0 = std::chrono::steady_clock::now();
  c12_clock_advance(1000LL * 3600 * 24 * 400);
  auto s1 = std::chrono::steady_clock::now();
  c12_clock_disable();
  auto real = std::chrono::duration_cast<std::chrono::milliseconds>(
                std::chrono::system_clock::now().time_since_epoch())
                .count();
  // steady clock must not have jumped with the fake wall clock
  bool steadyOk = (s1 - s0) < std::chrono::seconds(60);
  return a == probe && b == probe + 77 && steadyOk && real > 1600000000000LL;
}
} // namespace c12clock
