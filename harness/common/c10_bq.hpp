// c10_bq.hpp - concurrent BlockingQueue executors shared by the ASan unit (c10_queues.cpp,
// with schedule perturbation) and the TSan unit (c10_spsc.cpp, without interposition).
//
//   bqConc : P producers x C consumers mixing blocking / timed / non-blocking operations on
//            items (producer, seq, tag), a size() sampler, close() at a generated instant
//            ("close mode") or only after a balanced workload finished ("balanced mode").
//   bqWake : many short rounds on fresh queues: 1-4 callers blocked (or about to block) on an
//            empty / full queue, the main thread feeds j of them and then closes; every
//            wake-up condition is checked as a bounded wait.
//
// Oracle (independent of iora): the harness' own record of which put returned true and which
// item every take returned.
#pragma once
#include "c10_sched.hpp"
#include "pbt.hpp"

#include <iora/core/blocking_queue.hpp>

#include <atomic>
#include <chrono>
#include <condition_variable>
#include <cstdio>
#include <cstdlib>
#include <map>
#include <unistd.h>
#include <memory>
#include <mutex>
#include <string>
#include <thread>
#include <vector>

namespace c10
{

using Clock = std::chrono::steady_clock;
using std::chrono::milliseconds;

/// bounded-wait bound: >= 1000x the expected wake-up latency (microseconds .. 1 ms)
constexpr double kBoundSeconds = 4.0;

struct Item
{
  int p = -1;
  int seq = -1;
  std::string tag; // heap-allocated, derived from (p, seq): detects torn / moved-from items
};

inline std::string tagOf(int p, int seq)
{
  return "item/p" + std::to_string(p) + "/s" + std::to_string(seq) + "/0123456789abcdef";
}
inline Item mk(int p, int seq) { return Item{p, seq, tagOf(p, seq)}; }

using BQ = iora::core::BlockingQueue<Item>;

inline double since(Clock::time_point t0)
{
  return std::chrono::duration<double>(Clock::now() - t0).count();
}

/// plan-determined pause between operations (v in 0..999)
inline void pauseSel(std::int64_t v)
{
  if (v < 500) return;
  if (v < 650)
    std::this_thread::yield();
  else if (v < 850)
    sched::spin(static_cast<std::uint32_t>((v * 37) % 3000));
  else
    sched::sleepUs(static_cast<std::uint32_t>((v * 13) % 300));
}
inline const char *pauseName(std::int64_t v)
{
  return v < 500 ? "" : v < 650 ? "y" : v < 850 ? "s" : "z";
}

/// diagnostic only (never set by the driver): keep the process alive and untouched when a stall is
/// detected, so that a debugger can be attached to see where the parked threads are
inline void freezeIfAsked(const char *what)
{
  if (const char *f = std::getenv("C10_FREEZE_ON_STALL"))
  {
    std::fprintf(stderr, "C10-FREEZE pid=%d %s (%s)\n", static_cast<int>(::getpid()), what, f);
    std::fflush(stderr);
    pbt::watchdog(0, "");
    for (;;) ::pause();
  }
}

/// Canary: measures whether this process' threads actually get woken and scheduled. A pacer thread
/// sleeps 1 ms and signals a condition variable; the counter counts how often the *waiter* thread
/// returned from its wait. On an idle machine that is ~900 ticks/s; when the machine (or the VM) is
/// starved or paused it slows down or stops - exactly like the thread whose wake-up a bounded wait
/// is waiting for. Bounded waits therefore require wall time AND canary ticks: "the parked caller did
/// not return although, since its wake-up condition was established, 4 s passed and another thread
/// of this process was woken through a condition variable >= 1000 times".
struct Canary
{
  std::mutex mu;
  std::condition_variable cv;
  bool flag = false;
  std::atomic<std::uint64_t> ticks{0};
  static Canary &get()
  {
    static Canary *c = []
    {
      auto *k = new Canary; // lives for the whole process, threads detached
      std::thread(
        [k]
        {
          for (;;)
          {
            std::unique_lock<std::mutex> lk(k->mu);
            k->cv.wait(lk, [k] { return k->flag; });
            k->flag = false;
            k->ticks.fetch_add(1, std::memory_order_release);
          }
        })
        .detach();
      std::thread(
        [k]
        {
          for (;;)
          {
            std::this_thread::sleep_for(std::chrono::milliseconds(1));
            {
              std::lock_guard<std::mutex> lk(k->mu);
              k->flag = true;
            }
            k->cv.notify_one();
          }
        })
        .detach();
      return k;
    }();
    return *c;
  }
};

/// wait until pred() holds, or until BOTH `seconds` of wall time passed and the canary was woken
/// >= 250 x seconds times meanwhile; polls politely (the waiting thread must not starve the
/// threads it waits for on a loaded machine)
template <class Pred> bool waitBounded(double seconds, Pred pred)
{
  Canary &cn = Canary::get();
  const auto t0 = Clock::now();
  const std::uint64_t k0 = cn.ticks.load(std::memory_order_acquire);
  const std::uint64_t need = static_cast<std::uint64_t>(seconds * 250.0);
  for (int i = 0;; ++i)
  {
    if (pred()) return true;
    if (since(t0) > seconds && cn.ticks.load(std::memory_order_acquire) - k0 >= need) return pred();
    if (i < 200)
      std::this_thread::yield();
    else
      std::this_thread::sleep_for(std::chrono::microseconds(i < 2000 ? 50 : 1000));
  }
}

// put kinds: 0 queue(const&) 1 queue(&&) 2 tryQueue(const&,t) 3 tryQueue(&&,t) 4 tryQueue(const&) 5 tryQueue(&&)
// take kinds: 0 dequeue() 1 dequeue(t) 2 tryDequeue()
inline const char *putName(int k)
{
  static const char *n[] = {"queue(c&)", "queue(&&)", "tryQueue(c&,t)", "tryQueue(&&,t)", "tryQueue(c&)", "tryQueue(&&)"};
  return n[k % 6];
}
inline const char *takeName(int k)
{
  static const char *n[] = {"dequeue()", "dequeue(t)", "tryDequeue()"};
  return n[k % 3];
}
inline bool doPut(BQ &q, int kind, Item it, int tmoMs)
{
  switch (kind % 6)
  {
  case 0: return q.queue(it);
  case 1: return q.queue(std::move(it));
  case 2: return q.tryQueue(it, milliseconds(tmoMs));
  case 3: return q.tryQueue(std::move(it), milliseconds(tmoMs));
  case 4: return q.tryQueue(it);
  default: return q.tryQueue(std::move(it));
  }
}
inline bool doTake(BQ &q, int kind, Item &out, int tmoMs)
{
  switch (kind % 3)
  {
  case 0: return q.dequeue(out);
  case 1: return q.dequeue(out, milliseconds(tmoMs));
  default: return q.tryDequeue(out);
  }
}

struct Attempt
{
  int kind;
  bool ok;
  bool closedBefore; // close() had returned before this put was started
};

struct ThreadCtl
{
  std::atomic<int> inCall{0}; // 0 = not inside the queue; else 1 + kind
  std::atomic<bool> done{false};
  std::atomic<long> ops{0};
};

// ------------------------------------------------------------------------------ bqConc
struct ConcState
{
  explicit ConcState(std::size_t cap) : q(cap), cap(cap) {}
  BQ q;
  std::size_t cap;
  bool balanced = false;
  std::atomic<int> go{0}, arrived{0};
  std::atomic<bool> closeCalled{false}, closeReturned{false}, stopSampler{false}, abandon{false};
  std::atomic<long> tickets{0};
  std::atomic<int> inBlockingAtClose{0};

  struct Prod
  {
    std::vector<pbt::Row> script; // [kind, tmo, pause]
    int quota = 0;
    std::vector<Attempt> attempts; // index = seq
    ThreadCtl ctl;
  };
  struct Cons
  {
    std::vector<pbt::Row> script; // [kind, tmo, pause]
    std::vector<Item> got;
    long failedWhileOpenBlocking = 0;    // blocking dequeue() returned false before close() was called
    ThreadCtl ctl;
  };
  std::vector<std::unique_ptr<Prod>> prods;
  std::vector<std::unique_ptr<Cons>> conss;
  std::atomic<std::size_t> maxSize{0};
  std::atomic<long> samples{0}, fullSeen{0};
};

inline void prodThread(std::shared_ptr<ConcState> st, int p, std::uint64_t seed, std::uint32_t maxDelay, std::uint32_t oneIn)
{
  sched::Arm arm(seed, static_cast<std::uint32_t>(p), maxDelay, oneIn);
  auto &me = *st->prods[static_cast<std::size_t>(p)];
  st->arrived.fetch_add(1, std::memory_order_acq_rel);
  while (st->go.load(std::memory_order_acquire) == 0) {}
  int okCount = 0;
  std::size_t i = 0;
  const std::size_t n = me.script.size();
  while (n != 0 && !st->abandon.load(std::memory_order_acquire))
  {
    if (st->balanced)
    {
      if (okCount >= me.quota) break;
    }
    else if (i >= n)
      break;
    const pbt::Row &r = me.script[i % n];
    ++i;
    pauseSel(r[2]);
    int kind = static_cast<int>(r[0] % 6);
    int tmo = static_cast<int>(r[1]);
    int seq = static_cast<int>(me.attempts.size());
    bool closedBefore = st->closeReturned.load(std::memory_order_acquire);
    me.ctl.inCall.store(1 + kind, std::memory_order_release);
    bool ok = doPut(st->q, kind, mk(p, seq), tmo);
    me.ctl.inCall.store(0, std::memory_order_release);
    me.attempts.push_back(Attempt{kind, ok, closedBefore});
    me.ctl.ops.fetch_add(1, std::memory_order_relaxed);
    if (ok)
      ++okCount;
    else if (st->balanced)
      std::this_thread::yield();
  }
  me.ctl.done.store(true, std::memory_order_release);
}

inline void consThread(std::shared_ptr<ConcState> st, int c, std::uint64_t seed, std::uint32_t maxDelay, std::uint32_t oneIn)
{
  sched::Arm arm(seed, 100u + static_cast<std::uint32_t>(c), maxDelay, oneIn);
  auto &me = *st->conss[static_cast<std::size_t>(c)];
  st->arrived.fetch_add(1, std::memory_order_acq_rel);
  while (st->go.load(std::memory_order_acquire) == 0) {}
  std::size_t i = 0;
  const std::size_t n = me.script.size();
  bool haveTicket = false;
  while (n != 0 && !st->abandon.load(std::memory_order_acquire))
  {
    if (st->balanced)
    {
      if (!haveTicket)
      {
        if (st->tickets.fetch_sub(1, std::memory_order_acq_rel) <= 0) break;
        haveTicket = true;
      }
    }
    else if (i >= n)
      break;
    const pbt::Row &r = me.script[i % n];
    ++i;
    pauseSel(r[2]);
    int kind = static_cast<int>(r[0] % 3);
    int tmo = static_cast<int>(r[1]);
    Item out;
    me.ctl.inCall.store(1 + kind, std::memory_order_release);
    bool ok = doTake(st->q, kind, out, tmo);
    me.ctl.inCall.store(0, std::memory_order_release);
    bool closeCalledAfter = st->closeCalled.load(std::memory_order_acquire);
    me.ctl.ops.fetch_add(1, std::memory_order_relaxed);
    if (ok)
    {
      me.got.push_back(std::move(out));
      haveTicket = false;
    }
    else
    {
      if (kind == 0 && !closeCalledAfter) ++me.failedWhileOpenBlocking;
      if (st->balanced) std::this_thread::yield();
    }
  }
  me.ctl.done.store(true, std::memory_order_release);
}

/// body of the bq_conc property. `perturbAllowed` = the executable interposes pthread_cond_*.
inline void bqConc(pbt::Src &src, pbt::Case &c, bool small)
{
  pbt::watchdog(90, "C10/bq/case-stalled");
  const std::size_t cap = static_cast<std::size_t>(src.weighted({3, 3, 2, 2, 1, 1, 1, 1}) + 1);
  const int P = static_cast<int>(src.range(1, small ? 3 : 4));
  const int C = static_cast<int>(src.range(1, small ? 3 : 4));
  const bool balanced = src.coin(2, 5);
  const std::uint64_t seed = static_cast<std::uint64_t>(src.range(0, 0x7fffffff));
  const std::uint32_t oneIn = static_cast<std::uint32_t>(src.oneOf<int>({0, 2, 4, 16}));
  const std::uint32_t maxDelay = static_cast<std::uint32_t>(src.oneOf<int>({20, 100, 300}));
  const int closeDelayUs = static_cast<int>(src.oneOf<int>({0, 0, 5, 20, 50, 100, 200, 400, 800, 1500, 3000}));
  const int closeSpin = static_cast<int>(src.range(0, 4000));

  auto st = std::make_shared<ConcState>(cap);
  st->balanced = balanced;
  pbt::Fmt d;
  d << "bq_conc cap=" << cap << " P=" << P << " C=" << C << (balanced ? " balanced(close at end)" : " close-mode")
    << " closeDelay=" << closeDelayUs << "us+spin" << closeSpin << " perturb=1/" << oneIn << "x" << maxDelay << "us seed=" << seed
    << "\n";
  long total = 0;
  const std::size_t maxOps = small ? 40 : 120;
  for (int p = 0; p < P; ++p)
  {
    auto pr = std::make_unique<ConcState::Prod>();
    pr->script = src.rows(maxOps, 3, 0, 999);
    if (pr->script.empty()) pr->script.push_back(pbt::Row{0, 0, 0});
    d << " P" << p << ":";
    for (auto &r : pr->script)
    {
      // timeouts: mostly tiny so scripts advance; all <= 3 ms
      r[1] = r[1] % 4;
      d << " " << putName(static_cast<int>(r[0] % 6));
      if ((r[0] % 6) == 2 || (r[0] % 6) == 3) d << r[1] << "ms";
      d << pauseName(r[2]);
    }
    pr->quota = static_cast<int>(pr->script.size());
    total += pr->quota;
    d << "\n";
    st->prods.push_back(std::move(pr));
  }
  for (int k = 0; k < C; ++k)
  {
    auto cs = std::make_unique<ConcState::Cons>();
    cs->script = src.rows(maxOps, 3, 0, 999);
    if (cs->script.empty()) cs->script.push_back(pbt::Row{0, 0, 0});
    d << " C" << k << ":";
    for (auto &r : cs->script)
    {
      r[1] = r[1] % 4;
      d << " " << takeName(static_cast<int>(r[0] % 3));
      if ((r[0] % 3) == 1) d << r[1] << "ms";
      d << pauseName(r[2]);
    }
    d << "\n";
    st->conss.push_back(std::move(cs));
  }
  st->tickets.store(total);
  c.describe(d.str());

  std::vector<std::thread> th;
  for (int p = 0; p < P; ++p) th.emplace_back(prodThread, st, p, seed, maxDelay, oneIn);
  for (int k = 0; k < C; ++k) th.emplace_back(consThread, st, k, seed, maxDelay, oneIn);
  std::thread sampler(
    [st]
    {
      while (st->go.load(std::memory_order_acquire) == 0) {}
      while (!st->stopSampler.load(std::memory_order_acquire))
      {
        std::size_t s = st->q.size();
        std::size_t m = st->maxSize.load(std::memory_order_relaxed);
        while (s > m && !st->maxSize.compare_exchange_weak(m, s)) {}
        if (s == st->cap) st->fullSeen.fetch_add(1, std::memory_order_relaxed);
        (void)st->q.full();
        (void)st->q.empty();
        (void)st->q.isClosed();
        st->samples.fetch_add(1, std::memory_order_relaxed);
        std::this_thread::yield();
      }
    });
  auto countBlocking = [&]
  {
    int n = 0;
    for (auto &p : st->prods)
    {
      int k = p->ctl.inCall.load(std::memory_order_acquire);
      if (k >= 1 && k <= 4) ++n; // blocking or timed put
    }
    for (auto &k : st->conss)
    {
      int v = k->ctl.inCall.load(std::memory_order_acquire);
      if (v == 1 || v == 2) ++n;
    }
    return n;
  };
  std::thread closer;
  if (!balanced)
    closer = std::thread(
      [st, closeDelayUs, closeSpin, seed, &countBlocking]
      {
        sched::Arm arm(seed, 999u, 0, 0);
        st->arrived.fetch_add(1, std::memory_order_acq_rel);
        while (st->go.load(std::memory_order_acquire) == 0) {}
        if (closeDelayUs) sched::sleepUs(static_cast<std::uint32_t>(closeDelayUs));
        sched::spin(static_cast<std::uint32_t>(closeSpin));
        st->inBlockingAtClose.store(countBlocking());
        st->closeCalled.store(true, std::memory_order_release);
        st->q.close();
        st->closeReturned.store(true, std::memory_order_release);
      });
  // real barrier: release only when every actor is spinning on `go`
  while (st->arrived.load(std::memory_order_acquire) < P + C + (balanced ? 0 : 1)) std::this_thread::yield();
  st->go.store(1, std::memory_order_release);

  auto allDone = [&]
  {
    for (auto &p : st->prods)
      if (!p->ctl.done.load(std::memory_order_acquire)) return false;
    for (auto &k : st->conss)
      if (!k->ctl.done.load(std::memory_order_acquire)) return false;
    return true;
  };
  auto opsSum = [&]
  {
    long s = 0;
    for (auto &p : st->prods) s += p->ctl.ops.load(std::memory_order_relaxed);
    for (auto &k : st->conss) s += k->ctl.ops.load(std::memory_order_relaxed);
    return s;
  };
  auto whoIsStuck = [&](bool &provable, bool afterClose)
  {
    std::size_t sz = st->q.size();
    pbt::Fmt w;
    w << "queue size=" << sz << "/" << st->cap << " closed=" << st->q.isClosed() << ";";
    provable = false;
    for (std::size_t i = 0; i < st->prods.size(); ++i)
    {
      auto &p = *st->prods[i];
      if (p.ctl.done.load()) continue;
      int k = p.ctl.inCall.load();
      w << " P" << i << (k ? std::string(" inside ") + putName(k - 1) : std::string(" outside a call")) << ";";
      if (k == 1 || k == 2)
        if (afterClose || sz < st->cap) provable = true;
    }
    for (std::size_t i = 0; i < st->conss.size(); ++i)
    {
      auto &k = *st->conss[i];
      if (k.ctl.done.load()) continue;
      int v = k.ctl.inCall.load();
      w << " C" << i << (v ? std::string(" inside ") + takeName(v - 1) : std::string(" outside a call")) << ";";
      if (v == 1)
        if (afterClose || sz > 0) provable = true;
    }
    return w.str();
  };
  auto leak = [&]
  {
    // parked threads cannot be unwound (a second close() is a no-op): detach everything; the
    // shared state stays alive through the shared_ptr copies held by the threads
    st->abandon.store(true);
    st->stopSampler.store(true);
    for (auto &t : th) t.detach();
    sampler.join();
    if (closer.joinable()) closer.join();
  };

  if (!balanced)
  {
    // the closer never blocks for long: its delay is <= 3 ms (plus close() itself)
    if (!waitBounded(30, [&] { return st->closeReturned.load(std::memory_order_acquire); }))
    {
      c.failTimed("C10/bq/close-did-not-return", "close() did not return within 30 s");
      st->abandon.store(true);
      st->stopSampler.store(true);
      for (auto &t : th) t.detach();
      sampler.detach();
      closer.detach();
      return;
    }
    closer.join();
    if (!waitBounded(kBoundSeconds, allDone))
    {
      bool provable = false;
      std::string w = whoIsStuck(provable, true);
      if (provable)
        c.failTimed("C10/bq/blocked-after-close",
                    "close() returned, yet after " + std::to_string(kBoundSeconds) +
                      " s a caller is still inside a blocking queue()/dequeue(): " + w);
      else
        c.inconclusive("threads slow after close (no blocking call involved)");
      if (!provable && waitBounded(60, allDone))
      {
        for (auto &t : th) t.join();
        th.clear();
        st->stopSampler.store(true);
        sampler.join();
        return;
      }
      leak();
      return;
    }
  }
  else
  {
    long last = -1;
    for (;;)
    {
      if (waitBounded(kBoundSeconds, allDone)) break;
      long now = opsSum();
      if (now != last)
      {
        last = now;
        continue; // progress: keep waiting
      }
      bool provable = false;
      std::string w = whoIsStuck(provable, false);
      // re-check progress once more after reading the state (a thread may just have moved on)
      if (opsSum() != now || allDone()) continue;
      if (provable) freezeIfAsked(w.c_str());
      if (provable)
        c.failTimed("C10/bq/parked-while-condition-holds",
                    "no operation completed for " + std::to_string(kBoundSeconds) +
                      " s although a blocked caller's condition holds: " + w);
      else
        c.inconclusive("stall without a provable wake-up condition: " + w);
      st->closeCalled.store(true);
      st->q.close(); // releases whoever can still be released
      leak();
      return;
    }
  }
  for (auto &t : th) t.join();
  th.clear();
  st->stopSampler.store(true);
  sampler.join();
  if (balanced)
  {
    st->closeCalled.store(true);
    st->q.close();
    st->closeReturned.store(true);
  }

  // ---- after close: refused puts, retrievable items, then false ------------------------------
  BQ &q = st->q;
  if (!q.isClosed())
  {
    c.fail("C10/bq/not-closed-after-close", "isClosed() is false after close() returned");
    return;
  }
  const int mainP = P; // items offered by the main thread after close: must never show up
  int mseq = 0;
  for (int kind = 0; kind < 6; ++kind)
  {
    if (doPut(q, kind, mk(mainP, mseq++), 0))
    {
      c.fail("C10/bq/put-accepted-after-close", std::string(putName(kind)) + " returned true on a closed queue");
      return;
    }
  }
  std::vector<Item> drained;
  const std::size_t left = q.size();
  for (;;)
  {
    Item out;
    int kind = static_cast<int>(src.range(0, 2));
    bool ok = doTake(q, kind, out, static_cast<int>(src.range(0, 2)));
    if (!ok)
    {
      // an unsuccessful take must mean "empty" now that nobody else uses the queue
      break;
    }
    drained.push_back(std::move(out));
    if (drained.size() > left + 4) break;
  }
  if (drained.size() != left)
  {
    c.fail("C10/bq/closed-items-not-retrievable",
           pbt::Fmt() << "closed queue reported size " << left << " but " << drained.size() << " items could be taken");
    return;
  }
  for (int kind = 0; kind < 3; ++kind)
  {
    Item out;
    if (doTake(q, kind, out, 0))
    {
      c.fail("C10/bq/take-from-closed-empty", std::string(takeName(kind)) + " returned true on a closed, drained queue");
      return;
    }
  }
  if (q.size() != 0 || !q.empty())
  {
    c.fail("C10/bq/size-after-drain", "size()/empty() disagree with a drained queue");
    return;
  }

  // ---- history oracle ------------------------------------------------------------------------
  std::vector<std::vector<int>> count(static_cast<std::size_t>(P));
  long okTotal = 0, closedPuts = 0;
  for (int p = 0; p < P; ++p)
  {
    auto &a = st->prods[static_cast<std::size_t>(p)]->attempts;
    count[static_cast<std::size_t>(p)].assign(a.size(), 0);
    for (std::size_t s = 0; s < a.size(); ++s)
    {
      if (a[s].ok) ++okTotal;
      if (a[s].closedBefore)
      {
        ++closedPuts;
        if (a[s].ok)
        {
          c.fail("C10/bq/put-accepted-after-close",
                 pbt::Fmt() << "P" << p << " " << putName(a[s].kind) << " seq " << s
                            << " started after close() had returned and was accepted");
          return;
        }
      }
    }
  }
  auto checkStream = [&](const std::vector<Item> &items, const std::string &who, std::vector<int> &lastSeq) -> bool
  {
    for (auto &it : items)
    {
      if (it.p < 0 || it.p >= P || it.seq < 0 ||
          static_cast<std::size_t>(it.seq) >= count[static_cast<std::size_t>(it.p)].size() || it.tag != tagOf(it.p, it.seq))
      {
        c.fail("C10/bq/foreign-item", pbt::Fmt() << who << " received an item nobody put: p=" << it.p << " seq=" << it.seq
                                                 << " tag=" << pbt::show(it.tag, 60));
        return false;
      }
      auto &a = st->prods[static_cast<std::size_t>(it.p)]->attempts[static_cast<std::size_t>(it.seq)];
      if (!a.ok)
      {
        c.fail("C10/bq/refused-item-delivered", pbt::Fmt() << who << " received (P" << it.p << "," << it.seq << ") whose "
                                                           << putName(a.kind) << " had returned false");
        return false;
      }
      if (++count[static_cast<std::size_t>(it.p)][static_cast<std::size_t>(it.seq)] > 1)
      {
        c.fail("C10/bq/duplicate-take", pbt::Fmt() << "(P" << it.p << "," << it.seq << ") was taken twice (second time by " << who << ")");
        return false;
      }
      if (it.seq <= lastSeq[static_cast<std::size_t>(it.p)])
      {
        c.fail("C10/bq/fifo-per-producer", pbt::Fmt() << who << " took (P" << it.p << "," << it.seq << ") after (P" << it.p << ","
                                                      << lastSeq[static_cast<std::size_t>(it.p)] << ")");
        return false;
      }
      lastSeq[static_cast<std::size_t>(it.p)] = it.seq;
    }
    return true;
  };
  std::vector<int> maxTaken(static_cast<std::size_t>(P), -1);
  long failedOpen = 0;
  for (std::size_t k = 0; k < st->conss.size(); ++k)
  {
    std::vector<int> last(static_cast<std::size_t>(P), -1);
    if (!checkStream(st->conss[k]->got, "C" + std::to_string(k), last)) return;
    for (int p = 0; p < P; ++p) maxTaken[static_cast<std::size_t>(p)] = std::max(maxTaken[static_cast<std::size_t>(p)], last[static_cast<std::size_t>(p)]);
    failedOpen += st->conss[k]->failedWhileOpenBlocking;
  }
  // the drain happened after every consumer finished: FIFO puts it behind everything taken
  if (!checkStream(drained, "the final drain", maxTaken)) return;
  for (int p = 0; p < P; ++p)
    for (std::size_t s = 0; s < count[static_cast<std::size_t>(p)].size(); ++s)
      if (st->prods[static_cast<std::size_t>(p)]->attempts[s].ok && count[static_cast<std::size_t>(p)][s] == 0)
      {
        c.fail("C10/bq/lost-item", pbt::Fmt() << "(P" << p << "," << s << ") was accepted by "
                                              << putName(st->prods[static_cast<std::size_t>(p)]->attempts[s].kind)
                                              << " but never came out (consumers + drain of the closed queue)");
        return;
      }
  if (st->maxSize.load() > cap)
  {
    c.fail("C10/bq/size-exceeds-capacity", pbt::Fmt() << "size() returned " << st->maxSize.load() << " with capacity " << cap);
    return;
  }
  if (failedOpen)
  {
    c.fail("C10/bq/blocking-dequeue-failed-while-open",
           pbt::Fmt() << failedOpen << " blocking dequeue() call(s) returned false before close() was even called");
    return;
  }
  // ---- classification ------------------------------------------------------------------------
  c.label(balanced ? "mode: balanced" : "mode: close at generated instant");
  if (st->fullSeen.load()) c.label("sampler saw the queue full");
  if (!balanced && st->inBlockingAtClose.load() > 0) c.label("close() with >=1 caller inside a blocking/timed call");
  if (closedPuts) c.label("puts started after close returned");
  if (!drained.empty()) c.label("items left in the queue at close, drained afterwards");
  if (okTotal == 0) c.label("no put accepted");
  bool nt = balanced ? (st->fullSeen.load() > 0 && okTotal >= 2) : st->inBlockingAtClose.load() > 0;
  if (nt) c.nontrivial(pbt::hash64(c.description));
}

// ------------------------------------------------------------------------------ bqWake
struct WakeState
{
  static constexpr int kMaxW = 4;
  std::vector<std::unique_ptr<BQ>> queues; // one per round
  struct RoundPlan
  {
    bool producersWait = false;
    int nW = 1;
    int opTimedMask = 0;
    int preSpin[kMaxW] = {0, 0, 0, 0};
    int entryUs[kMaxW] = {0, 0, 0, 0}; // scripted delay between "predicate evaluated" and "parked"
    bool sync = false;                  // main thread waits until every caller is about to enter its call
    // transient placement: >= 2 callers parked on the same side, j < parked releasing operations, then
    // close() at once - while the released callers have been notified but have not yet taken / put
    bool transient = false;
    int settleUs = 0;   // time given to the callers to really park before the first releasing operation
    int closeSpin = 0;  // 0..~50 us between the last releasing operation and close()
  };
  std::vector<RoundPlan> plan;
  std::atomic<int> roundGo{0}; // round r (1-based) released when roundGo >= r
  std::atomic<bool> quit{false};
  std::atomic<bool> closeCalled{false};
  struct W
  {
    std::atomic<int> doneRound{0};
    std::atomic<int> inCall{0};
    // results of the current round (written before doneRound is published)
    bool ok = false;
    bool closeCalledAfter = false;
    Item got;
  };
  W w[kMaxW];
};

inline void wakeThread(std::shared_ptr<WakeState> st, int wi, std::uint64_t seed, std::uint32_t maxDelay, std::uint32_t oneIn)
{
  sched::Arm arm(seed, static_cast<std::uint32_t>(wi), maxDelay, oneIn, sched::kCondWaitEntry | sched::kCondWaitExit);
  auto &me = st->w[wi];
  const int rounds = static_cast<int>(st->plan.size());
  for (int r = 1; r <= rounds; ++r)
  {
    int spins = 0;
    while (st->roundGo.load(std::memory_order_acquire) < r)
    {
      if (st->quit.load(std::memory_order_acquire)) return;
      if (++spins > 2000) std::this_thread::yield();
      if (spins > 50000) sched::sleepUs(50);
    }
    if (st->quit.load(std::memory_order_acquire)) return;
    auto &rp = st->plan[static_cast<std::size_t>(r - 1)];
    if (wi >= rp.nW)
    {
      me.doneRound.store(r, std::memory_order_release);
      continue;
    }
    BQ &q = *st->queues[static_cast<std::size_t>(r - 1)];
    sched::spin(static_cast<std::uint32_t>(rp.preSpin[wi]));
    bool timed = (rp.opTimedMask >> wi) & 1;
    me.got = Item{};
    sched::scriptEntryDelay(static_cast<std::uint32_t>(rp.entryUs[wi]));
    me.inCall.store(1, std::memory_order_release);
    bool ok;
    if (rp.producersWait)
      ok = timed ? q.tryQueue(mk(wi, r), milliseconds(60000)) : q.queue(mk(wi, r));
    else
      ok = timed ? q.dequeue(me.got, milliseconds(60000)) : q.dequeue(me.got);
    me.inCall.store(0, std::memory_order_release);
    sched::scriptEntryDelay(0);
    me.ok = ok;
    me.closeCalledAfter = st->closeCalled.load(std::memory_order_acquire);
    me.doneRound.store(r, std::memory_order_release);
  }
}

inline void bqWake(pbt::Src &src, pbt::Case &c, bool small)
{
  pbt::watchdog(120, "C10/bq/case-stalled");
  const std::uint64_t seed = static_cast<std::uint64_t>(src.range(0, 0x7fffffff));
  const std::uint32_t oneIn = static_cast<std::uint32_t>(src.oneOf<int>({0, 1, 2, 4}));
  const std::uint32_t maxDelay = static_cast<std::uint32_t>(src.oneOf<int>({30, 100, 300}));
  // row: [type, nW, cap, timedMask, feeds, delay1Sel, delay2Sel, spinA, spinB, entryDelaySel, syncSel]
  auto rows = src.rows(small ? 12 : 40, 11, 0, 999);
  {
    // at least 8 rounds per case (a failing case must fail again on replay: several chances);
    // the extra rounds are a deterministic function of the drawn seed
    std::uint64_t x = (seed + 1) * 0x9e3779b97f4a7c15ULL;
    while (rows.size() < 8)
    {
      pbt::Row r;
      for (int i = 0; i < 11; ++i)
      {
        x ^= x << 13;
        x ^= x >> 7;
        x ^= x << 17;
        r.push_back(static_cast<std::int64_t>((x >> 20) % 1000));
      }
      rows.push_back(r);
    }
  }
  auto st = std::make_shared<WakeState>();
  pbt::Fmt d;
  d << "bq_wake rounds=" << rows.size() << " perturb=1/" << oneIn << "x" << maxDelay << "us seed=" << seed << "\n";
  struct Extra
  {
    int cap, feeds, d1, d2;
  };
  std::vector<Extra> ex;
  for (auto &r : rows)
  {
    WakeState::RoundPlan rp;
    rp.producersWait = (r[0] % 2) == 1;
    rp.nW = static_cast<int>(r[1] % 4) + 1;
    int cap = static_cast<int>(r[2] % 4) + 1;
    rp.opTimedMask = static_cast<int>(r[3] % 16);
    int feeds = static_cast<int>(r[4] % 5); // 0..4, clipped below
    if (feeds > rp.nW) feeds = rp.nW;
    if (!rp.producersWait && feeds > cap) feeds = cap;
    for (int i = 0; i < WakeState::kMaxW; ++i) rp.preSpin[i] = static_cast<int>((r[7] * (i + 3) * 131 + r[8] * 17) % 1500);
    if (r[7] < 300)
      for (int i = 0; i < WakeState::kMaxW; ++i) rp.preSpin[i] = 0;
    static const int kEntry[] = {0, 40, 150, 400, 1000, 1000, 2500};
    for (int i = 0; i < WakeState::kMaxW; ++i) rp.entryUs[i] = sched::kInterposed ? kEntry[(r[9] / (1 + i * 7)) % 7] : 0;
    rp.sync = (r[10] % 3) != 0;
    if (rp.nW >= 2 && (r[10] / 3) % 3 == 0)
    {
      rp.transient = true;
      rp.sync = true;
      for (int i = 0; i < WakeState::kMaxW; ++i) rp.entryUs[i] = 0; // park promptly
      rp.settleUs = 300 + static_cast<int>((r[5] * 3) % 900);
      rp.closeSpin = (r[6] % 3 == 0) ? 0 : static_cast<int>((r[6] * 37) % 25000);
      feeds = 1 + static_cast<int>(r[4] % (rp.nW - 1)); // 1 .. nW-1: at least one caller stays parked
      if (feeds > cap) feeds = cap;                      // releasing operations never have to wait themselves
    }
    st->plan.push_back(rp);
    ex.push_back(Extra{cap, feeds, static_cast<int>(r[5]), static_cast<int>(r[6])});
    st->queues.emplace_back(new BQ(static_cast<std::size_t>(cap)));
    d << " [" << (rp.producersWait ? "producers on full" : "consumers on empty") << " n=" << rp.nW << " cap=" << cap
      << " timedMask=" << rp.opTimedMask << " feeds=" << feeds << " d1=" << r[5] << " d2=" << r[6] << " parkDelay=" << rp.entryUs[0] << "/"
      << rp.entryUs[1] << "/" << rp.entryUs[2] << "/" << rp.entryUs[3] << "us" << (rp.sync ? " sync" : "")
      << (rp.transient ? " TRANSIENT settle=" + std::to_string(rp.settleUs) + "us closeSpin=" + std::to_string(rp.closeSpin) : std::string()) << "]";
  }
  c.describe(d.str());

  std::vector<std::thread> th;
  for (int i = 0; i < WakeState::kMaxW; ++i) th.emplace_back(wakeThread, st, i, seed, maxDelay, oneIn);
  auto leak = [&]
  {
    st->quit.store(true);
    for (auto &t : th) t.detach();
  };
  // delay selector for the main thread: 0..999 -> none / spin / sleep up to 300 us
  auto mainDelay = [](int v)
  {
    if (v < 250) return;
    if (v < 650)
      sched::spin(static_cast<std::uint32_t>((v * 7) % 1200));
    else
      sched::sleepUs(static_cast<std::uint32_t>((v * 11) % 300));
  };
  const int mainP = 7;
  long parkedAtClose = 0, fedTotal = 0, transientCloses = 0;
  for (int r = 1; r <= static_cast<int>(rows.size()); ++r)
  {
    auto &rp = st->plan[static_cast<std::size_t>(r - 1)];
    auto &e = ex[static_cast<std::size_t>(r - 1)];
    BQ &q = *st->queues[static_cast<std::size_t>(r - 1)];
    std::vector<Item> taken; // by the main thread
    int preSeq = 0;
    if (rp.producersWait)
      for (int i = 0; i < e.cap; ++i)
        if (!q.tryQueue(mk(mainP, preSeq++)))
        {
          c.fail("C10/bq/put-refused-with-space", "tryQueue refused an item on an open queue with free space (single thread)");
          leak();
          return;
        }
    st->closeCalled.store(false, std::memory_order_release);
    st->roundGo.store(r, std::memory_order_release);
    if (rp.sync)
      waitBounded(kBoundSeconds,
                  [&]
                  {
                    for (int i = 0; i < rp.nW; ++i)
                      if (st->w[i].doneRound.load(std::memory_order_acquire) < r && !st->w[i].inCall.load(std::memory_order_acquire)) return false;
                    return true;
                  });
    if (rp.transient)
      sched::sleepUs(static_cast<std::uint32_t>(rp.settleUs));
    else
      mainDelay(e.d1);
    auto returned = [&](bool wantOk)
    {
      int n = 0;
      for (int i = 0; i < rp.nW; ++i)
        if (st->w[i].doneRound.load(std::memory_order_acquire) >= r && st->w[i].ok == wantOk) ++n;
      return n;
    };
    auto parkedNow = [&]
    {
      int n = 0;
      for (int i = 0; i < rp.nW; ++i)
        if (st->w[i].doneRound.load(std::memory_order_acquire) < r) ++n;
      return n;
    };
    auto stuckText = [&](const char *what)
    {
      pbt::Fmt w;
      w << "round " << r << " (" << (rp.producersWait ? "producers blocked on a full queue" : "consumers blocked on an empty queue")
        << ", cap " << e.cap << ", " << rp.nW << " callers): " << what << "; queue size=" << q.size() << " closed=" << q.isClosed() << ";";
      for (int i = 0; i < rp.nW; ++i)
      {
        bool dn = st->w[i].doneRound.load() >= r;
        w << " W" << i << ((rp.opTimedMask >> i) & 1 ? "(timed 60s)" : "(blocking)") << (dn ? (st->w[i].ok ? " returned true" : " returned false") : " STILL INSIDE THE CALL") << ";";
      }
      return w.str();
    };
    // ---- feed j callers ------------------------------------------------------------------
    for (int f = 0; f < e.feeds; ++f)
    {
      bool fedOk;
      // every put/take form is used as the releasing operation (each has its own notify)
      const int feedKind = static_cast<int>((rows[static_cast<std::size_t>(r - 1)][4] / 5 + f) % 6);
      if (rp.producersWait)
      {
        Item out;
        if (f < e.cap) // only this thread takes: the queue still holds >= 1 of the pre-filled items
          fedOk = doTake(q, feedKind % 3, out, 1);
        else
          fedOk = waitBounded(kBoundSeconds, [&] { return doTake(q, 1 + feedKind % 2, out, 0); });
        if (fedOk) taken.push_back(out);
        if (!fedOk)
        {
          // queue empty for B seconds although producers are blocked in queue(): space holds
          c.failTimed("C10/bq/parked-while-condition-holds", stuckText("the queue stayed empty, yet blocked producers did not put"));
          leak();
          return;
        }
      }
      else
      {
        fedOk = doPut(q, feedKind, mk(mainP, preSeq++), 1); // < cap items queued, only this thread puts: never blocks
        if (!fedOk)
        {
          // j <= cap items in an open queue: refusal means the capacity rule is wrong
          c.fail("C10/bq/put-refused-with-space", stuckText("tryQueue refused although fewer than cap items were ever offered"));
          leak();
          return;
        }
      }
      ++fedTotal;
    }
    if (rp.transient)
    {
      // no waiting: the released callers have been notified but (usually) not yet run
      sched::spin(static_cast<std::uint32_t>(rp.closeSpin));
      if (returned(true) < e.feeds) ++transientCloses;
    }
    else if (e.feeds > 0)
    {
      // j feeds must release j callers (each waits for exactly the fed resource)
      if (!waitBounded(kBoundSeconds, [&] { return returned(true) >= e.feeds; }))
      {
        bool cond = rp.producersWait ? q.size() < static_cast<std::size_t>(e.cap) : q.size() > 0;
        if (cond && parkedNow() > 0)
        {
          c.failTimed("C10/bq/parked-while-condition-holds",
                      stuckText(rp.producersWait ? "space is available but a blocked producer did not return"
                                                 : "an item is queued but a blocked consumer did not return"));
          leak();
          return;
        }
        c.inconclusive("fed callers slow");
        if (!waitBounded(60, [&] { return returned(true) >= e.feeds; }))
        {
          leak();
          return;
        }
      }
    }
    if (!rp.transient) mainDelay(e.d2);
    // ---- close ---------------------------------------------------------------------------
    for (int i = 0; i < rp.nW; ++i)
      if (st->w[i].doneRound.load(std::memory_order_acquire) < r && st->w[i].inCall.load(std::memory_order_acquire)) ++parkedAtClose;
    st->closeCalled.store(true, std::memory_order_release);
    q.close();
    if (!waitBounded(kBoundSeconds, [&] { return parkedNow() == 0; }))
    {
      c.failTimed("C10/bq/blocked-after-close", stuckText("close() returned but a caller never came back"));
      leak();
      return;
    }
    // ---- per-round data oracle -----------------------------------------------------------
    int okN = 0;
    std::vector<Item> all = taken;
    for (int i = 0; i < rp.nW; ++i)
    {
      auto &w = st->w[i];
      if (w.ok) ++okN;
      if (!w.ok && !w.closeCalledAfter)
      {
        c.fail("C10/bq/blocking-op-failed-while-open", stuckText("a blocking/60 s call returned false before close() was called"));
        leak();
        return;
      }
      if (!rp.producersWait && w.ok) all.push_back(w.got);
    }
    Item out;
    std::vector<Item> drained;
    while (q.tryDequeue(out)) drained.push_back(out);
    // expected multiset
    std::map<std::pair<int, int>, int> want, have;
    if (rp.producersWait)
    {
      for (int i = 0; i < e.cap; ++i) ++want[{mainP, i}];
      for (int i = 0; i < rp.nW; ++i)
        if (st->w[i].ok) ++want[{i, r}];
    }
    else
      for (int i = 0; i < preSeq; ++i) ++want[{mainP, i}];
    for (auto &it : drained) all.push_back(it);
    for (auto &it : all)
    {
      if (it.tag != tagOf(it.p, it.seq))
      {
        c.fail("C10/bq/foreign-item", stuckText("an item with a corrupted tag came out"));
        leak();
        return;
      }
      ++have[{it.p, it.seq}];
    }
    if (want != have)
    {
      pbt::Fmt w;
      w << "items put:";
      for (auto &kv : want) w << " (" << kv.first.first << "," << kv.first.second << ")x" << kv.second;
      w << " items taken:";
      for (auto &kv : have) w << " (" << kv.first.first << "," << kv.first.second << ")x" << kv.second;
      c.fail("C10/bq/lost-or-duplicated-item", stuckText(w.str().c_str()));
      leak();
      return;
    }
    // FIFO of the single-producer part: the main thread's items in the order it put them
    {
      int last = -1;
      auto chk = [&](const std::vector<Item> &v)
      {
        for (auto &it : v)
          if (it.p == mainP)
          {
            if (it.seq <= last) return false;
            last = it.seq;
          }
        return true;
      };
      bool ok = rp.producersWait ? (chk(taken) && chk(drained)) : chk(drained);
      if (!ok)
      {
        c.fail("C10/bq/fifo-per-producer", stuckText("items of one producer came out of order"));
        leak();
        return;
      }
    }
    if (rp.producersWait && okN > e.feeds)
    {
      c.fail("C10/bq/size-exceeds-capacity", stuckText("more blocked producers got through than slots were freed"));
      leak();
      return;
    }
  }
  st->quit.store(true);
  st->roundGo.store(static_cast<int>(rows.size()) + 1, std::memory_order_release);
  for (auto &t : th) t.join();
  if (parkedAtClose) c.label("close() with >=1 caller inside a blocking/timed call");
  if (fedTotal) c.label("callers released by an item / a free slot");
  if (transientCloses) c.label("close() while a released caller had not yet taken/put (transient state)");
  c.label(oneIn ? "perturbed" : "unperturbed");
  if (parkedAtClose) c.nontrivial(pbt::hash64(c.description));
}

} // namespace c10
