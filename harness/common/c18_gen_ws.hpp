// c18_gen_ws.hpp - protocol-aware WebSocket stream generator for the C18 harnesses.
// Everything random is drawn from pbt::Src. The generated Stream carries its own oracle:
// the list of messages an endpoint must deliver, the ping payloads it must answer, and
// how the stream ends (close frame / invalid UTF-8 text / nothing).
#pragma once
#include "c18_ref_ws.hpp"
#include "pbt.hpp"

#include <algorithm>
#include <string>
#include <vector>

namespace c18
{

using refws::Msg;

struct Stream
{
  std::vector<refws::Frame> frames;
  std::vector<std::size_t> starts; // offset of every frame in `wire`
  std::string wire;
  std::vector<Msg> expect;        // messages that must be delivered, in order
  std::vector<std::string> pings; // payloads of the pings, in order (all precede the terminator)
  bool hasClose = false;          // the stream ends with a close frame
  std::uint16_t closeCode = 1005;
  std::string closeReason;
  bool hasInvalidText = false; // the last message is a text message that is not UTF-8
  std::string invalidPayload;
  bool hasOversized = false;   // the last message exceeds the endpoint's configured maximum by one byte
  std::string oversizedPayload;
  // offset just behind the first frame that makes the receiving endpoint start closing (the
  // final frame of the invalid text message or the close frame); npos if there is none
  std::size_t triggerEnd = std::string::npos;
  std::vector<std::size_t> pingEnds; // offset just behind every ping frame (parallel to `pings`)
  // features (for labels / the non-trivial rule)
  int fragmentedMsgs = 0;      // messages sent in >= 2 frames
  int controlInsideMsg = 0;    // control frames between two fragments of one message
  int emptyFragments = 0;
  int splitCodePoints = 0;     // fragment boundary inside a multi-byte UTF-8 sequence
  int extLen16 = 0, extLen64 = 0;

  void add(const refws::Frame &f)
  {
    starts.push_back(wire.size());
    frames.push_back(f);
    wire += refws::encode(f);
    if (f.payload.size() > 0xFFFF) ++extLen64;
    else if (f.payload.size() > 125) ++extLen16;
  }

  std::string describe() const
  {
    pbt::Fmt o;
    o << frames.size() << " frames, " << wire.size() << " bytes:";
    for (auto &f : frames)
    {
      o << " [" << refws::opName(f.opcode) << (f.fin ? "" : " !fin") << (f.masked ? " m" : "") << " len=" << f.payload.size();
      if (f.payload.size() <= 24) o << " " << pbt::hex(f.payload, 24);
      o << "]";
    }
    if (hasInvalidText) o << " (last text message is invalid UTF-8)";
    return o.str();
  }
};

struct GenOpts
{
  bool masked = true;           // frames toward a server are masked, toward a client they are not
  bool allowClose = true;
  bool allowInvalidUtf8 = true;
  bool allowBig = true;         // payloads that need the 64-bit length form
  int maxMsgs = 5;
};

inline void drawKey(pbt::Src &src, refws::Frame &f, bool masked)
{
  f.masked = masked;
  if (!masked) return;
  if (src.coin(1, 8)) return; // all-zero key: legal, payload travels in clear
  for (auto &k : f.key) k = static_cast<std::uint8_t>(src.range(0, 255));
}

inline std::size_t drawLen(pbt::Src &src, bool allowBig)
{
  switch (src.weighted({3, 10, 4, 2, allowBig ? 1 : 0}))
  {
  case 0: return 0;
  case 1: return static_cast<std::size_t>(src.sized(1, 40));
  case 2: return src.oneOf<std::size_t>({124, 125, 126, 127, 128});
  case 3: return static_cast<std::size_t>(src.range(129, 700));
  default: return src.oneOf<std::size_t>({65535, 65536, 65537, 70000});
  }
}

/// valid UTF-8 text of exactly `n` bytes over all encoding lengths and the range boundaries
inline std::string genUtf8(pbt::Src &src, std::size_t n)
{
  static const std::uint32_t edge[] = {0x00, 0x7F, 0x80, 0x7FF, 0x800, 0xD7FF, 0xE000, 0xFFFD, 0xFFFF, 0x10000, 0x10FFFF};
  std::string o;
  if (n > 2000)
  {
    // long texts: a random multi-byte head and tail around an ASCII body (keeps generation cheap)
    std::string head = genUtf8(src, 64), tail = genUtf8(src, 64);
    o = head + std::string(n - 128, 'a') + tail;
    return o;
  }
  while (o.size() + 4 <= n)
  {
    std::uint32_t cp;
    switch (src.weighted({6, 2, 2, 2, 2}))
    {
    case 0: cp = static_cast<std::uint32_t>(src.range(0x20, 0x7E)); break;
    case 1: cp = static_cast<std::uint32_t>(src.range(0x80, 0x7FF)); break;
    case 2:
      cp = static_cast<std::uint32_t>(src.range(0x800, 0xFFFF - 0x800)); // skip the surrogate block
      if (cp >= 0xD800) cp += 0x800;
      break;
    case 3: cp = static_cast<std::uint32_t>(src.range(0x10000, 0x10FFFF)); break;
    default: cp = edge[src.range(0, static_cast<std::int64_t>(sizeof(edge) / sizeof(edge[0])) - 1)]; break;
    }
    refws::appendCodePoint(o, cp);
  }
  while (o.size() < n) o += static_cast<char>(src.range('a', 'z'));
  return o;
}

/// a byte string that is NOT valid UTF-8 (a valid text with one ill-formed sequence spliced in)
inline std::string genInvalidUtf8(pbt::Src &src, std::size_t n)
{
  static const std::vector<std::string> bad = {
    "\x80", "\xBF", "\xC0\xAF", "\xC1\xBF", "\xE0\x80\xAF", "\xE0\x9F\xBF", "\xED\xA0\x80", "\xED\xBF\xBF",
    "\xF0\x80\x80\xAF", "\xF0\x8F\xBF\xBF", "\xF4\x90\x80\x80", "\xF5\x80\x80\x80", "\xF8\x88\x80\x80\x80", "\xFE", "\xFF",
    "\xE2\x28\xA1", "\xC3\x28", "\xF0\x28\x8C\xBC", "\xF0\x90\x28\xBC", "\xF0\x9F\x98\x28"};
  static const std::vector<std::string> truncated = {"\xC3", "\xE2\x82", "\xE2", "\xF0\x9F\x98", "\xF0\x9F", "\xF0"};
  std::string base = genUtf8(src, n);
  std::string o;
  if (src.coin(1, 4))
    o = base + src.oneOf(truncated); // ill-formed because the text ends inside a sequence
  else
  {
    // splice at a code-point boundary so that the surrounding text stays well-formed
    std::vector<std::size_t> bounds;
    for (std::size_t i = 0; i <= base.size(); ++i)
      if (i == base.size() || (static_cast<std::uint8_t>(base[i]) & 0xC0) != 0x80) bounds.push_back(i);
    std::size_t at = bounds[static_cast<std::size_t>(src.range(0, static_cast<std::int64_t>(bounds.size()) - 1))];
    o = base.substr(0, at) + src.oneOf(bad) + base.substr(at);
  }
  return o;
}

inline refws::Frame genControl(pbt::Src &src, bool masked, bool ping)
{
  refws::Frame f;
  f.fin = true;
  f.opcode = ping ? refws::OpPing : refws::OpPong;
  std::size_t n = 0;
  switch (src.weighted({3, 5, 2}))
  {
  case 0: n = 0; break;
  case 1: n = static_cast<std::size_t>(src.range(1, 16)); break;
  default: n = src.oneOf<std::size_t>({124, 125}); break;
  }
  for (std::size_t i = 0; i < n; ++i) f.payload += static_cast<char>(src.range(0, 255));
  drawKey(src, f, masked);
  return f;
}

inline void genControls(pbt::Src &src, Stream &s, const GenOpts &go, bool insideMsg)
{
  std::size_t k = src.weighted({6, 3, 1});
  for (std::size_t i = 0; i < k; ++i)
  {
    bool ping = src.coin(2, 3);
    refws::Frame f = genControl(src, go.masked, ping);
    if (ping) s.pings.push_back(f.payload);
    if (insideMsg) ++s.controlInsideMsg;
    s.add(f);
    if (ping) s.pingEnds.push_back(s.wire.size());
  }
}

inline void addMessage(pbt::Src &src, Stream &s, const GenOpts &go, const Msg &m)
{
  std::size_t nfrag = 1;
  switch (src.weighted({4, 3, 3}))
  {
  case 0: nfrag = 1; break;
  case 1: nfrag = 2; break;
  default: nfrag = static_cast<std::size_t>(src.range(3, 5)); break;
  }
  std::vector<std::size_t> cuts;
  for (std::size_t i = 1; i < nfrag; ++i) cuts.push_back(static_cast<std::size_t>(src.range(0, static_cast<std::int64_t>(m.payload.size()))));
  std::sort(cuts.begin(), cuts.end());
  cuts.push_back(m.payload.size());
  if (nfrag > 1) ++s.fragmentedMsgs;
  std::size_t from = 0;
  for (std::size_t i = 0; i < nfrag; ++i)
  {
    refws::Frame f;
    f.opcode = i == 0 ? (m.text ? refws::OpText : refws::OpBinary) : refws::OpCont;
    f.fin = i + 1 == nfrag;
    f.payload = m.payload.substr(from, cuts[i] - from);
    if (nfrag > 1 && f.payload.empty()) ++s.emptyFragments;
    if (m.text && !f.fin && cuts[i] < m.payload.size() && (static_cast<std::uint8_t>(m.payload[cuts[i]]) & 0xC0) == 0x80)
      ++s.splitCodePoints;
    from = cuts[i];
    drawKey(src, f, go.masked);
    s.add(f);
    if (!f.fin) genControls(src, s, go, true);
  }
}

inline Stream genStream(pbt::Src &src, const GenOpts &go)
{
  Stream s;
  std::size_t nmsgs = static_cast<std::size_t>(src.sized(1, go.maxMsgs));
  bool invalidLast = go.allowInvalidUtf8 && src.coin(1, 6);
  bool big = false;
  for (std::size_t i = 0; i < nmsgs; ++i)
  {
    genControls(src, s, go, false);
    Msg m;
    bool last = i + 1 == nmsgs;
    if (last && invalidLast)
    {
      m.text = true;
      m.payload = genInvalidUtf8(src, static_cast<std::size_t>(src.sized(0, 30)));
      s.hasInvalidText = true;
      s.invalidPayload = m.payload;
      addMessage(src, s, go, m);
      s.triggerEnd = s.wire.size();
      break;
    }
    m.text = src.coin();
    std::size_t n = drawLen(src, go.allowBig && !big);
    if (n > 60000) big = true; // at most one big message per stream
    if (m.text) m.payload = genUtf8(src, n);
    else
    {
      if (n > 2000)
      {
        m.payload.assign(n, '\0');
        std::uint32_t x = static_cast<std::uint32_t>(src.range(1, 0x7fffffff));
        for (auto &ch : m.payload)
        {
          x = x * 1664525u + 1013904223u;
          ch = static_cast<char>(x >> 24);
        }
      }
      else
        for (std::size_t k = 0; k < n; ++k) m.payload += static_cast<char>(src.range(0, 255));
    }
    s.expect.push_back(m);
    addMessage(src, s, go, m);
  }
  genControls(src, s, go, false);
  if (go.allowClose && src.coin(1, 3))
  {
    refws::Frame f;
    f.opcode = refws::OpClose;
    f.fin = true;
    s.hasClose = true;
    if (src.coin(1, 4))
    {
      s.closeCode = 1005; // no status code present
    }
    else
    {
      s.closeCode = src.oneOf<std::uint16_t>({1000, 1001, 1002, 1003, 1007, 1008, 1009, 1011, 3000, 4999});
      s.closeReason = genUtf8(src, src.coin(1, 6) ? 123 : static_cast<std::size_t>(src.range(0, 20)));
      f.payload += static_cast<char>(s.closeCode >> 8);
      f.payload += static_cast<char>(s.closeCode & 0xFF);
      f.payload += s.closeReason;
    }
    drawKey(src, f, go.masked);
    s.add(f);
    if (s.triggerEnd == std::string::npos) s.triggerEnd = s.wire.size();
  }
  return s;
}

/// A stream around a configured maximum N: a small message, then a message of exactly N + delta
/// payload bytes (single frame or fragmented, controls between the fragments), then - if it fits -
/// another small message. delta <= 0: everything must be delivered; delta > 0: the message must
/// be refused (the endpoint starts closing, nothing follows).
inline Stream genBoundaryStream(pbt::Src &src, bool masked, std::size_t N, int delta)
{
  Stream s;
  GenOpts go;
  go.masked = masked;
  Msg pre{true, "pre"};
  s.expect.push_back(pre);
  addMessage(src, s, go, pre);
  Msg big;
  big.text = src.coin();
  const std::size_t L = N + static_cast<std::size_t>(delta + 1) - 1;
  if (big.text) big.payload = genUtf8(src, L);
  else
  {
    big.payload.assign(L, '\0');
    std::uint32_t x = static_cast<std::uint32_t>(src.range(1, 0x7fffffff));
    for (auto &ch : big.payload)
    {
      x = x * 1664525u + 1013904223u;
      ch = static_cast<char>(x >> 24);
    }
  }
  const std::size_t bigStart = s.wire.size();
  addMessage(src, s, go, big);
  if (delta <= 0)
  {
    s.expect.push_back(big);
    Msg post{false, std::string("post\x00\xff", 6)};
    s.expect.push_back(post);
    addMessage(src, s, go, post);
  }
  else
  {
    s.hasOversized = true;
    s.oversizedPayload = big.payload;
    s.triggerEnd = bigStart; // the refusal may come as early as the first header of the message
  }
  return s;
}

/// single cut positions to try: every position for small streams; for long streams every
/// position in and around each frame header plus a random sample of payload positions
inline std::vector<std::size_t> singleCuts(pbt::Src &src, const Stream &s, std::size_t allBelow = 600, std::size_t sample = 48)
{
  std::vector<std::size_t> cuts;
  const std::size_t n = s.wire.size();
  if (n < 2) return cuts;
  if (n <= allBelow)
  {
    for (std::size_t i = 1; i < n; ++i) cuts.push_back(i);
    return cuts;
  }
  std::vector<char> mark(n, 0);
  for (std::size_t st : s.starts)
    for (std::size_t k = (st >= 2 ? st - 2 : 0); k <= st + 15 && k < n; ++k) mark[k] = 1;
  for (std::size_t i = 0; i < sample; ++i) mark[static_cast<std::size_t>(src.range(1, static_cast<std::int64_t>(n) - 1))] = 1;
  mark[n - 1] = 1;
  for (std::size_t i = 1; i < n; ++i)
    if (mark[i]) cuts.push_back(i);
  return cuts;
}

/// random multi-cut: sorted distinct cut positions
inline std::vector<std::size_t> multiCut(pbt::Src &src, std::size_t n, std::size_t maxCuts)
{
  std::vector<std::size_t> cuts;
  if (n < 2) return cuts;
  std::size_t k = static_cast<std::size_t>(src.range(2, static_cast<std::int64_t>(std::max<std::size_t>(2, maxCuts))));
  for (std::size_t i = 0; i < k; ++i) cuts.push_back(static_cast<std::size_t>(src.range(1, static_cast<std::int64_t>(n) - 1)));
  std::sort(cuts.begin(), cuts.end());
  cuts.erase(std::unique(cuts.begin(), cuts.end()), cuts.end());
  return cuts;
}

/// does a cut position fall strictly inside a frame header?
inline bool cutInsideHeader(const Stream &s, std::size_t cut)
{
  for (std::size_t i = 0; i < s.frames.size(); ++i)
  {
    const auto &f = s.frames[i];
    std::size_t hl = 2 + (f.payload.size() > 0xFFFF ? 8 : f.payload.size() > 125 ? 2 : 0) + (f.masked ? 4 : 0);
    if (cut > s.starts[i] && cut < s.starts[i] + hl) return true;
  }
  return false;
}

} // namespace c18
