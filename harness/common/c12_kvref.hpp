// c12_kvref.hpp - independent reference for iora::storage::KVStore (C11, C12):
// key/value universes, a plain map with per-key absolute expiry, scratch-directory
// helpers. Shares no code with the store under test.
#pragma once
#include "pbt.hpp"

#include <cstdint>
#include <cstdlib>
#include <dirent.h>
#include <map>
#include <optional>
#include <set>
#include <string>
#include <sys/stat.h>
#include <unistd.h>
#include <vector>

namespace kvref
{

using Bytes = std::vector<std::uint8_t>;

inline std::string pattern(std::size_t n, unsigned seed)
{
  // deterministic byte pattern containing every byte value incl. NUL and 0xff
  std::string s(n, '\0');
  unsigned x = seed * 2654435761u + 12345u;
  for (std::size_t i = 0; i < n; ++i)
  {
    x = x * 1103515245u + 12345u;
    s[i] = static_cast<char>((x >> 16) & 0xff);
  }
  return s;
}

/// Key universe: a small alphabet with prefix relations plus boundary lengths
/// (1, 255, 65535 bytes) and binary keys containing NUL / 0xff.
struct Universe
{
  std::vector<std::string> keys;
  std::vector<std::string> prefixes;
  std::vector<int> pick; // weighted index table (size 32)

  explicit Universe(bool withHuge = true)
  {
    keys = {"a", "b", "ab", "abc", "k:1", "k:2",
            std::string("a\0", 2),          // 6: NUL inside
            std::string("\0", 1),           // 7: 1-byte NUL key
            std::string("\xff\xfe\x00\x01", 4)}; // 8: binary
    keys.push_back("ab" + pattern(253, 1));            // 9: 255 bytes, prefix "ab"
    keys.push_back(std::string("\0", 1) + pattern(254, 2)); // 10: 255 bytes binary, prefix NUL
    if (withHuge) keys.push_back("k:" + pattern(65533, 3)); // 11: 65535 bytes (MAX_KEY_LENGTH)
    prefixes = {"", "a", "ab", "abc", "b", "k:", "k", std::string("\0", 1), "\xff", "zz",
                std::string("a\0", 2), keys[9]};
    const int w[] = {3, 3, 3, 3, 3, 3, 2, 2, 2, 3, 3, 2};
    for (std::size_t i = 0; i < keys.size(); ++i)
      for (int j = 0; j < w[i]; ++j) pick.push_back(static_cast<int>(i));
  }
  const std::string &key(std::int64_t r) const
  {
    return keys[static_cast<std::size_t>(pick[static_cast<std::size_t>(r) % pick.size()])];
  }
  const std::string &prefix(std::int64_t r) const
  {
    return prefixes[static_cast<std::size_t>(r) % prefixes.size()];
  }
};

/// value number `sel` (reduced mod 16) tagged with the step that wrote it, so that a
/// stale or foreign value is recognisable byte-for-byte
inline Bytes makeValue(std::int64_t sel, std::size_t step, bool allowBig = true)
{
  std::string tag = "v" + std::to_string(step) + ":";
  std::string s;
  switch (sel % 16)
  {
  case 0: s = ""; break;                                  // empty value
  case 1: s = std::string(1, '\0'); break;                // single NUL
  case 10: s = tag + pattern(255 - tag.size(), (unsigned)step); break;
  case 11: s = tag + pattern(4096 - tag.size(), (unsigned)step); break;
  case 12: s = allowBig ? tag + pattern(65536 - tag.size(), (unsigned)step) : tag; break; // 64 KiB
  case 13: s = allowBig ? tag + pattern(65537 - tag.size(), (unsigned)step) : tag + "x"; break;
  case 14: s = std::string("\0", 1) + tag + std::string("\0\xff", 2); break;
  default: s = tag + std::to_string(sel % 16); break;
  }
  return Bytes(s.begin(), s.end());
}

inline std::string showKey(const std::string &k)
{
  if (k.size() > 24) return pbt::show(k.substr(0, 6), 6) + "..[" + std::to_string(k.size()) + "B]";
  return pbt::show(k, 40);
}
inline std::string showVal(const Bytes &v)
{
  std::string s(v.begin(), v.end());
  if (s.size() > 24) return pbt::show(s.substr(0, 12), 12) + "..[" + std::to_string(s.size()) + "B]";
  return "'" + pbt::show(s, 40) + "'";
}

/// The reference: plain ordered map, per-key optional absolute expiry (epoch ms).
struct Model
{
  struct Entry
  {
    Bytes value;
    std::optional<std::int64_t> expiry; // absolute epoch ms
  };
  std::map<std::string, Entry> m;

  enum Vis { Absent, Present, Boundary }; // Boundary: expiry == now, either answer accepted

  Vis vis(const std::string &k, std::int64_t now) const
  {
    auto it = m.find(k);
    if (it == m.end()) return Absent;
    if (!it->second.expiry) return Present;
    if (*it->second.expiry > now) return Present;
    if (*it->second.expiry == now) return Boundary;
    return Absent;
  }
  void set(const std::string &k, Bytes v) { m[k] = Entry{std::move(v), std::nullopt}; }
  void setTtl(const std::string &k, Bytes v, std::int64_t expiry) { m[k] = Entry{std::move(v), expiry}; }
  void remove(const std::string &k) { m.erase(k); }
  void removePrefix(const std::string &p)
  {
    for (auto it = m.begin(); it != m.end();)
      if (it->first.compare(0, p.size(), p) == 0 && it->first.size() >= p.size()) it = m.erase(it);
      else ++it;
  }
  void clear() { m.clear(); }
  /// drop entries whose expiry lies strictly in the past (they can never be seen again)
  void purge(std::int64_t now)
  {
    for (auto it = m.begin(); it != m.end();)
      if (it->second.expiry && *it->second.expiry < now) it = m.erase(it);
      else ++it;
  }
};

// ---- scratch directory ---------------------------------------------------------
inline void wipeDir(const std::string &dir);

inline std::vector<std::string> &scratchDirs()
{
  static std::vector<std::string> *v = new std::vector<std::string>;
  return *v;
}
inline void removeScratchDirs()
{
  for (auto &d : scratchDirs())
  {
    wipeDir(d);
    ::rmdir(d.c_str());
  }
}

/// Private scratch directory <base>/<tag>_<pid>, emptied and removed at process exit.
/// base = $TMPDIR if set; else /dev/shm/wk_C11/cases when /dev/shm is a writable tmpfs
/// (file churn there is ~3x cheaper than on the disk-backed /tmp and never touches the
/// disk); else /tmp/wk_C11/cases.
inline std::string scratchBase(const char *tag)
{
  const char *t = std::getenv("TMPDIR");
  std::string base;
  if (t && *t) base = t;
  else if (::access("/dev/shm", W_OK | X_OK) == 0) base = "/dev/shm/wk_C11/cases";
  else base = "/tmp/wk_C11/cases";
  std::string d = base + "/" + tag + "_" + std::to_string(static_cast<long>(getpid()));
  // mkdir -p
  std::string cur;
  for (std::size_t i = 0; i <= d.size(); ++i)
  {
    if (i == d.size() || d[i] == '/')
    {
      if (!cur.empty()) ::mkdir(cur.c_str(), 0777);
    }
    if (i < d.size()) cur += d[i];
  }
  if (scratchDirs().empty())
  {
    std::atexit(removeScratchDirs);
    // a harness process that died in a sanitizer abort / watchdog _exit() could not clean up:
    // remove sibling directories <tag>_<pid> whose process no longer exists
    if (DIR *bd = ::opendir(base.c_str()))
    {
      std::vector<std::string> stale;
      while (struct dirent *e = ::readdir(bd))
      {
        std::string n = e->d_name;
        auto us = n.rfind('_');
        if (us == std::string::npos || us == 0 || us + 1 >= n.size()) continue;
        bool digits = true;
        for (std::size_t i = us + 1; i < n.size(); ++i)
          if (n[i] < '0' || n[i] > '9') digits = false;
        if (!digits || n.compare(0, 1, "c") != 0) continue;
        if (::access(("/proc/" + n.substr(us + 1)).c_str(), F_OK) != 0) stale.push_back(base + "/" + n);
      }
      ::closedir(bd);
      for (auto &sd : stale)
      {
        wipeDir(sd);
        ::rmdir(sd.c_str());
      }
    }
  }
  scratchDirs().push_back(d);
  return d;
}

/// remove every regular file in `dir` (flat), keep the directory
inline void wipeDir(const std::string &dir)
{
  DIR *d = ::opendir(dir.c_str());
  if (!d) return;
  while (struct dirent *e = ::readdir(d))
  {
    std::string n = e->d_name;
    if (n == "." || n == "..") continue;
    ::unlink((dir + "/" + n).c_str());
  }
  ::closedir(d);
}

} // namespace kvref
