// c15_ref_http.hpp - independent strict HTTP/1.1 reference for property C15.
//   part 1: model types + strict stream parser/framer (no dependency on pbt or iora)
//   part 2 (c15_ref_http_gen.hpp): generators/renderers drawing from pbt::Src
// Nothing in here calls iora code. The parser is deliberately *conservative*: it only
// declares a message valid when it is strictly RFC 9112 conforming AND inside the envelope
// iora documents (known methods, HTTP/1.0|1.1, one Host, unique field names ...). Everything
// else is "Unsupported" (= no semantic oracle), except length information that is plainly
// invalid ("BadLength" = must never be handed to the application).
#pragma once
#include <algorithm>
#include <cstdint>
#include <string>
#include <string_view>
#include <vector>

namespace refhttp
{

inline char lowerc(char c) { return (c >= 'A' && c <= 'Z') ? char(c + 32) : c; }
inline std::string lower(std::string_view s)
{
  std::string o(s);
  for (auto &c : o) c = lowerc(c);
  return o;
}
inline bool isTchar(unsigned char c)
{
  if ((c >= 'A' && c <= 'Z') || (c >= 'a' && c <= 'z') || (c >= '0' && c <= '9')) return true;
  for (const char *p = "!#$%&'*+-.^_`|~"; *p; ++p)
    if (c == (unsigned char)*p) return true;
  return false;
}
inline bool isToken(std::string_view s)
{
  if (s.empty()) return false;
  for (unsigned char c : s)
    if (!isTchar(c)) return false;
  return true;
}
inline bool isHex(unsigned char c) { return (c >= '0' && c <= '9') || (c >= 'a' && c <= 'f') || (c >= 'A' && c <= 'F'); }
inline std::string_view trimOws(std::string_view s)
{
  while (!s.empty() && (s.front() == ' ' || s.front() == '\t')) s.remove_prefix(1);
  while (!s.empty() && (s.back() == ' ' || s.back() == '\t')) s.remove_suffix(1);
  return s;
}
inline std::string showBytes(std::string_view s, std::size_t maxBytes = 160)
{
  static const char *hx = "0123456789abcdef";
  std::string o;
  for (std::size_t i = 0; i < s.size() && i < maxBytes; ++i)
  {
    unsigned char c = (unsigned char)s[i];
    if (c == '\r') o += "\\r";
    else if (c == '\n') o += "\\n";
    else if (c == '\t') o += "\\t";
    else if (c == '\\') o += "\\\\";
    else if (c < 0x20 || c >= 0x7f) { o += "\\x"; o += hx[c >> 4]; o += hx[c & 15]; }
    else o += (char)c;
  }
  if (s.size() > maxBytes) o += "...(" + std::to_string(s.size()) + " bytes)";
  return o;
}

struct Field
{
  std::string name;  // as on the wire (case preserved)
  std::string value; // semantic value: OWS-trimmed
};

/// What the application must see for one message.
struct Expect
{
  // request
  std::string method, path; // path = request-target up to (excluding) '?'
  // response
  int status = 0;
  std::string reason;
  std::string version; // "1.1" / "1.0"
  std::vector<Field> fields;
  std::string body; // decoded body octets
  bool chunked = false;
  bool trailers = false; // chunked with a non-empty trailer section

  /// canonical text: order of fields and case of names do not matter
  std::string canon(bool request) const
  {
    std::string o;
    if (request) o = method + " " + path + "\n";
    else o = std::to_string(status) + " [" + reason + "] " + version + "\n";
    std::vector<std::string> fl;
    for (auto &f : fields) fl.push_back(lower(f.name) + ": " + f.value);
    std::sort(fl.begin(), fl.end());
    for (auto &l : fl) o += l + "\n";
    o += "\n";
    o += body;
    return o;
  }
};

enum class Tail
{
  Ok,          // stream ends exactly at a message boundary
  Incomplete,  // ran out of bytes inside a so-far-valid message
  BadLength,   // well-formed header block but invalid length information
  Unsupported  // anything else: outside the strict envelope, no semantic verdict
};
inline const char *tailName(Tail t)
{
  switch (t)
  {
  case Tail::Ok: return "ok";
  case Tail::Incomplete: return "incomplete";
  case Tail::BadLength: return "bad-length";
  default: return "unsupported";
  }
}

struct Parsed
{
  std::vector<Expect> msgs;     // complete valid messages, in order
  std::vector<std::size_t> ends; // offset one past each message
  Tail tail = Tail::Ok;
  std::string why;
  bool closeDelimitedOpen = false; // responses: headers done, body runs until EOF
};

namespace detail
{

inline bool hasBareLf(std::string_view s)
{
  for (std::size_t i = 0; i < s.size(); ++i)
    if (s[i] == '\n' && (i == 0 || s[i - 1] != '\r')) return true;
  return false;
}

// strict decimal 1*DIGIT into u64; returns 0 ok, 1 syntax, 2 overflow
inline int parseDec(std::string_view v, std::uint64_t &out)
{
  if (v.empty()) return 1;
  out = 0;
  for (unsigned char c : v)
  {
    if (c < '0' || c > '9') return 1;
    unsigned d = c - '0';
    if (out > (UINT64_MAX - d) / 10) return 2;
    out = out * 10 + d;
  }
  return 0;
}

enum class LenKind { None, Length, Chunked, Bad, Unsupported };
struct LenInfo
{
  LenKind kind = LenKind::None;
  std::uint64_t n = 0;
  std::string why;
};

// value may be a comma list (only reached through a single field line)
inline LenInfo contentLengthValue(std::string_view v)
{
  LenInfo li;
  std::vector<std::string_view> parts;
  std::size_t pos = 0;
  while (true)
  {
    std::size_t c = v.find(',', pos);
    parts.push_back(trimOws(v.substr(pos, c == std::string_view::npos ? v.size() - pos : c - pos)));
    if (c == std::string_view::npos) break;
    pos = c + 1;
  }
  bool have = false;
  std::uint64_t first = 0;
  for (auto p : parts)
  {
    std::uint64_t n = 0;
    int rc = parseDec(p, n);
    if (rc == 1) { li.kind = LenKind::Bad; li.why = "content-length-not-numeric"; return li; }
    if (rc == 2) { li.kind = LenKind::Bad; li.why = "content-length-overflow"; return li; }
    if (have && n != first) { li.kind = LenKind::Bad; li.why = "content-length-conflict"; return li; }
    have = true;
    first = n;
  }
  if (parts.size() > 1) { li.kind = LenKind::Unsupported; li.n = first; li.why = "identical content-length list (MAY accept)"; return li; }
  li.kind = LenKind::Length;
  li.n = first;
  return li;
}

struct HeaderBlock
{
  std::vector<Field> fields;
  bool ok = true;       // strict syntax ok
  std::string why;
};

// lines: header field lines (without the start line), each without CRLF
inline HeaderBlock parseFields(const std::vector<std::string_view> &lines)
{
  HeaderBlock hb;
  for (auto l : lines)
  {
    std::size_t colon = l.find(':');
    if (colon == std::string_view::npos) { hb.ok = false; hb.why = "field line without colon"; return hb; }
    std::string_view name = l.substr(0, colon);
    if (!isToken(name)) { hb.ok = false; hb.why = "field name is not a token"; return hb; }
    std::string_view val = trimOws(l.substr(colon + 1));
    for (unsigned char c : val)
      if ((c < 0x20 && c != '\t') || c == 0x7f) { hb.ok = false; hb.why = "control character in field value"; return hb; }
    hb.fields.push_back(Field{std::string(name), std::string(val)});
  }
  return hb;
}

// Splits [s) into CRLF-terminated lines; returns false if a bare CR or LF occurs.
inline bool splitLines(std::string_view s, std::vector<std::string_view> &out)
{
  std::size_t p = 0;
  while (p <= s.size())
  {
    std::size_t e = s.find("\r\n", p);
    std::string_view line = s.substr(p, e == std::string_view::npos ? s.size() - p : e - p);
    for (char c : line)
      if (c == '\r' || c == '\n') return false;
    out.push_back(line);
    if (e == std::string_view::npos) break;
    p = e + 2;
  }
  return true;
}

enum class ChunkRc { Complete, Incomplete, Bad, Unsupported };

// chunk-ext = *( BWS ";" BWS token [ BWS "=" BWS ( token / quoted-string ) ] )
// returns 0 ok, 1 junk directly after the size (length information itself is invalid), 2 sloppy ext
inline int checkChunkExt(std::string_view e)
{
  std::size_t i = 0;
  auto bws = [&] { while (i < e.size() && (e[i] == ' ' || e[i] == '\t')) ++i; };
  bool first = true;
  while (i < e.size())
  {
    bws();
    if (i >= e.size()) return 2; // trailing whitespace without ';': sloppy, but the size itself is unambiguous
    if (e[i] != ';') return first ? 1 : 2;
    ++i;
    first = false;
    bws();
    std::size_t s = i;
    while (i < e.size() && isTchar((unsigned char)e[i])) ++i;
    if (i == s) return 2;
    std::size_t save = i;
    bws();
    if (i < e.size() && e[i] == '=')
    {
      ++i;
      bws();
      if (i < e.size() && e[i] == '"')
      {
        ++i;
        bool closed = false;
        while (i < e.size())
        {
          unsigned char c = (unsigned char)e[i];
          if (c == '\\') { if (i + 1 >= e.size()) return 2; i += 2; continue; }
          if (c == '"') { closed = true; ++i; break; }
          if ((c < 0x20 && c != '\t') || c == 0x7f) return 2;
          ++i;
        }
        if (!closed) return 2;
      }
      else
      {
        std::size_t s2 = i;
        while (i < e.size() && isTchar((unsigned char)e[i])) ++i;
        if (i == s2) return 2;
      }
    }
    else
      i = save;
  }
  return 0;
}

// Parses a chunked body starting at s[p]; on Complete sets end and decoded.
inline ChunkRc parseChunked(std::string_view s, std::size_t p, std::size_t &end, std::string &decoded, std::string &why,
                            std::vector<Field> *trailers = nullptr)
{
  decoded.clear();
  while (true)
  {
    std::size_t e = s.find("\r\n", p);
    std::string_view line = s.substr(p, e == std::string_view::npos ? s.size() - p : e - p);
    // a line (complete or partial) containing a stray LF/CR is lenient-parser territory
    for (std::size_t i = 0; i < line.size(); ++i)
      if (line[i] == '\n' || (line[i] == '\r' && i + 1 < line.size())) { why = "bare CR/LF in chunk-size line"; return ChunkRc::Unsupported; }
    std::size_t h = 0;
    while (h < line.size() && isHex((unsigned char)line[h])) ++h;
    if (h == 0)
    {
      if (e == std::string_view::npos) return ChunkRc::Incomplete; // judged only once the line is complete
      why = "chunk-size-not-hex";
      return ChunkRc::Bad;
    }
    if (e == std::string_view::npos) return ChunkRc::Incomplete; // a line is judged only once it is complete
    int ext = checkChunkExt(line.substr(h));
    if (ext == 1) { why = "chunk-size-junk"; return ChunkRc::Bad; }
    if (ext == 2) { why = "sloppy chunk extension"; return ChunkRc::Unsupported; }
    // value
    std::string_view digits = line.substr(0, h);
    while (digits.size() > 1 && digits[0] == '0') digits.remove_prefix(1);
    if (digits.size() > 16) { why = "chunk-size-overflow"; return ChunkRc::Bad; }
    std::uint64_t n = 0;
    for (unsigned char c : digits) n = n * 16 + (c <= '9' ? c - '0' : (lowerc((char)c) - 'a' + 10));
    p = e + 2;
    if (n == 0)
    {
      // trailer section
      while (true)
      {
        std::size_t te = s.find("\r\n", p);
        if (te == std::string_view::npos)
        {
          if (hasBareLf(s.substr(p))) { why = "bare LF in trailer"; return ChunkRc::Unsupported; }
          return ChunkRc::Incomplete;
        }
        std::string_view tl = s.substr(p, te - p);
        if (tl.empty()) { end = te + 2; return ChunkRc::Complete; }
        for (char c : tl)
          if (c == '\r' || c == '\n') { why = "bare CR/LF in trailer"; return ChunkRc::Unsupported; }
        HeaderBlock hb = parseFields({tl});
        if (!hb.ok) { why = "malformed trailer field"; return ChunkRc::Unsupported; }
        if (trailers) trailers->push_back(hb.fields[0]);
        p = te + 2;
      }
    }
    std::uint64_t avail = s.size() - p;
    if (avail < n) return ChunkRc::Incomplete; // (also every size beyond any cap ends here)
    if (avail - n < 2) return ChunkRc::Incomplete; // the two octets behind the data are judged together
    if (s[p + n] != '\r' || s[p + n + 1] != '\n') { why = "chunk-data-not-followed-by-crlf"; return ChunkRc::Bad; }
    decoded.append(s.substr(p, (std::size_t)n));
    p += (std::size_t)n + 2;
  }
}

inline bool knownMethod(std::string_view m)
{
  for (const char *k : {"GET", "POST", "PUT", "DELETE", "HEAD", "OPTIONS", "PATCH", "CONNECT", "TRACE"})
    if (m == k) return true;
  return false;
}

// duplicates: returns 0 none, 1 conflicting content-length, 2 other duplicate
inline int duplicateCheck(const std::vector<Field> &f)
{
  int rc = 0;
  for (std::size_t i = 0; i < f.size(); ++i)
    for (std::size_t j = i + 1; j < f.size(); ++j)
      if (lower(f[i].name) == lower(f[j].name))
      {
        if (lower(f[i].name) == "content-length")
        {
          // conflicting = an invalid value or two different numbers; "0" next to "000" is the same length
          // (a recipient MAY accept or reject identical repeats: no verdict)
          // each line may itself be a comma list
          LenInfo a = contentLengthValue(f[i].value), b = contentLengthValue(f[j].value);
          if (a.kind == LenKind::Bad || b.kind == LenKind::Bad || a.n != b.n) return 1;
        }
        rc = 2;
      }
  return rc;
}

inline const Field *findField(const std::vector<Field> &f, const char *lname)
{
  for (auto &x : f)
    if (lower(x.name) == lname) return &x;
  return nullptr;
}

inline std::vector<std::string> teTokens(std::string_view v)
{
  std::vector<std::string> out;
  std::size_t pos = 0;
  while (true)
  {
    std::size_t c = v.find(',', pos);
    std::string_view t = trimOws(v.substr(pos, c == std::string_view::npos ? v.size() - pos : c - pos));
    out.push_back(lower(t));
    if (c == std::string_view::npos) break;
    pos = c + 1;
  }
  return out;
}

} // namespace detail

constexpr std::size_t kMaxHeaderBlock = 60000;        // stay below iora's 64 KiB header cap
constexpr std::uint64_t kMaxDeclaredBody = 512 * 1024; // stay below every configured body/buffer cap

/// Strict parse of a request byte stream (pipelined requests back to back).
inline Parsed parseRequests(std::string_view s)
{
  using namespace detail;
  Parsed out;
  std::size_t p = 0;
  auto stop = [&](Tail t, std::string why) { out.tail = t; out.why = std::move(why); return out; };
  while (p < s.size())
  {
    std::size_t he = s.find("\r\n\r\n", p);
    if (he == std::string_view::npos)
    {
      if (hasBareLf(s.substr(p))) return stop(Tail::Unsupported, "bare LF in header section");
      if (s.size() - p > kMaxHeaderBlock) return stop(Tail::Unsupported, "header block beyond the cap");
      return stop(Tail::Incomplete, "header block incomplete");
    }
    if (he - p > kMaxHeaderBlock) return stop(Tail::Unsupported, "header block beyond the cap");
    std::vector<std::string_view> lines;
    if (!splitLines(s.substr(p, he - p), lines)) return stop(Tail::Unsupported, "bare CR/LF in header section");
    // request line
    std::string_view rl = lines[0];
    std::size_t a = rl.find(' ');
    std::size_t b = a == std::string_view::npos ? a : rl.find(' ', a + 1);
    if (a == std::string_view::npos || b == std::string_view::npos || rl.find(' ', b + 1) != std::string_view::npos)
      return stop(Tail::Unsupported, "request line shape");
    std::string_view method = rl.substr(0, a), target = rl.substr(a + 1, b - a - 1), ver = rl.substr(b + 1);
    if (!knownMethod(method)) return stop(Tail::Unsupported, "method outside the supported set");
    if (target.empty() || target.size() > 8000) return stop(Tail::Unsupported, "target length");
    for (unsigned char c : target)
      if (c < 0x21 || c == 0x7f) return stop(Tail::Unsupported, "target octet");
    if (method == "OPTIONS" && target == "*") return stop(Tail::Unsupported, "OPTIONS * is answered by the router");
    if (ver != "HTTP/1.1" && ver != "HTTP/1.0") return stop(Tail::Unsupported, "version");
    lines.erase(lines.begin());
    HeaderBlock hb = parseFields(lines);
    if (!hb.ok) return stop(Tail::Unsupported, hb.why);
    int dup = duplicateCheck(hb.fields);
    bool http11 = ver == "HTTP/1.1";
    const Field *host = findField(hb.fields, "host");
    if (http11 && (!host || host->value.empty())) return stop(Tail::Unsupported, "Host missing/empty");
    if (host && host->value.empty()) return stop(Tail::Unsupported, "Host empty");
    if (findField(hb.fields, "upgrade")) return stop(Tail::Unsupported, "Upgrade request");
    if (dup == 1) return stop(Tail::BadLength, "content-length-conflict");
    if (dup == 2) return stop(Tail::Unsupported, "duplicate field names");
    const Field *te = findField(hb.fields, "transfer-encoding");
    const Field *cl = findField(hb.fields, "content-length");
    if (te && cl) return stop(Tail::Unsupported, "both Transfer-Encoding and Content-Length");
    Expect ex;
    ex.method = std::string(method);
    ex.path = std::string(target.substr(0, target.find('?')));
    ex.version = http11 ? "1.1" : "1.0";
    ex.fields = hb.fields;
    std::size_t bodyStart = he + 4, end = bodyStart;
    if (te)
    {
      if (!http11) return stop(Tail::Unsupported, "Transfer-Encoding in HTTP/1.0");
      auto toks = teTokens(te->value);
      if (toks.size() == 1 && toks[0] == "chunked")
      {
        std::string why;
        std::vector<Field> tr;
        ChunkRc rc = parseChunked(s, bodyStart, end, ex.body, why, &tr);
        ex.trailers = !tr.empty();
        if (rc == ChunkRc::Incomplete) return stop(Tail::Incomplete, "chunked body incomplete");
        if (rc == ChunkRc::Bad) return stop(Tail::BadLength, why);
        if (rc == ChunkRc::Unsupported) return stop(Tail::Unsupported, why);
        ex.chunked = true;
      }
      else if (!toks.empty() && toks.back() == "chunked")
        return stop(Tail::Unsupported, "transfer codings other than chunked");
      else if (te->value.empty())
        return stop(Tail::Unsupported, "empty Transfer-Encoding");
      else
        return stop(Tail::BadLength, "te-not-chunked-final");
    }
    else if (cl)
    {
      LenInfo li = contentLengthValue(cl->value);
      if (li.kind == LenKind::Bad) return stop(Tail::BadLength, li.why);
      if (li.kind == LenKind::Unsupported) return stop(Tail::Unsupported, li.why);
      if (li.n > kMaxDeclaredBody) return stop(Tail::Unsupported, "declared body beyond the harness envelope");
      if (s.size() - bodyStart < li.n) return stop(Tail::Incomplete, "content-length body incomplete");
      ex.body = std::string(s.substr(bodyStart, (std::size_t)li.n));
      end = bodyStart + (std::size_t)li.n;
    }
    out.msgs.push_back(std::move(ex));
    out.ends.push_back(end);
    p = end;
  }
  out.tail = Tail::Ok;
  return out;
}

/// Strict parse of the response side of ONE exchange: zero or more interim 1xx responses,
/// then one final response (msgs holds at most that final response; ends[0] its end).
/// `eof`: the peer closed after the last byte of `s`.
inline Parsed parseResponse(std::string_view s, std::string_view requestMethod, bool eof)
{
  using namespace detail;
  Parsed out;
  std::size_t p = 0;
  auto stop = [&](Tail t, std::string why) { out.tail = t; out.why = std::move(why); return out; };
  while (true)
  {
    std::size_t he = s.find("\r\n\r\n", p);
    if (he == std::string_view::npos)
    {
      if (hasBareLf(s.substr(p))) return stop(Tail::Unsupported, "bare LF in header section");
      return stop(Tail::Incomplete, "header block incomplete");
    }
    if (he - p > kMaxHeaderBlock) return stop(Tail::Unsupported, "header block beyond the envelope");
    std::vector<std::string_view> lines;
    if (!splitLines(s.substr(p, he - p), lines)) return stop(Tail::Unsupported, "bare CR/LF in header section");
    std::string_view sl = lines[0];
    // HTTP/1.x SP 3DIGIT SP reason
    if (sl.size() < 13 || (sl.substr(0, 8) != "HTTP/1.1" && sl.substr(0, 8) != "HTTP/1.0") || sl[8] != ' ' || sl[12] != ' ')
      return stop(Tail::Unsupported, "status line shape");
    int code = 0;
    for (int i = 9; i < 12; ++i)
    {
      if (sl[i] < '0' || sl[i] > '9') return stop(Tail::Unsupported, "status code");
      code = code * 10 + (sl[i] - '0');
    }
    if (code < 100 || code > 599) return stop(Tail::Unsupported, "status code class");
    std::string_view reason = sl.substr(13);
    for (unsigned char c : reason)
      if ((c < 0x20 && c != '\t') || c == 0x7f) return stop(Tail::Unsupported, "reason octet");
    lines.erase(lines.begin());
    HeaderBlock hb = parseFields(lines);
    if (!hb.ok) return stop(Tail::Unsupported, hb.why);
    if (code == 101) return stop(Tail::Unsupported, "101 switching protocols");
    if (code < 200)
    {
      // RFC 9110 §8.6 / RFC 9112 §6.1: a server MUST NOT send Content-Length or Transfer-Encoding in a
      // 1xx response. Such a stream is not a valid message stream; skipping the interim response
      // (RFC 9112 §6.3 rule 1) and rejecting it (the fields may be invalid/conflicting) are both
      // acceptable: no verdict, whatever the fields contain.
      if (findField(hb.fields, "content-length") || findField(hb.fields, "transfer-encoding"))
        return stop(Tail::Unsupported, "framing field in a 1xx response (sender MUST NOT)");
      p = he + 4; // interim response: no body, skipped
      continue;
    }
    int dup = duplicateCheck(hb.fields);
    Expect ex;
    ex.status = code;
    ex.reason = std::string(reason);
    ex.version = std::string(sl.substr(5, 3));
    ex.fields = hb.fields;
    std::size_t bodyStart = he + 4, end = bodyStart;
    bool noBody = requestMethod == "HEAD" || code == 204 || code == 304;
    if (requestMethod == "CONNECT") return stop(Tail::Unsupported, "CONNECT");
    const Field *te = findField(hb.fields, "transfer-encoding");
    const Field *cl = findField(hb.fields, "content-length");
    if (noBody)
    {
      // RFC 9112 §6.3 rule 1: HEAD / 204 / 304 end at the empty line whatever the fields say. That is
      // only *demanded* for streams a conforming server may send: 204 MUST NOT carry either framing
      // field (RFC 9110 §8.6, RFC 9112 §6.1) => no verdict; HEAD / 304 may carry the fields the GET
      // response would have, but only well-formed ones (anything invalid/conflicting => no verdict).
      if (dup) return stop(Tail::Unsupported, "duplicate field names");
      if (code == 204 && (te || cl)) return stop(Tail::Unsupported, "framing field in a 204 response (sender MUST NOT)");
      if (te && cl) return stop(Tail::Unsupported, "both TE and CL");
      if (cl && contentLengthValue(cl->value).kind != LenKind::Length) return stop(Tail::Unsupported, "odd Content-Length on a bodyless response");
      if (te)
      {
        auto toks = teTokens(te->value);
        if (toks.size() != 1 || toks[0] != "chunked") return stop(Tail::Unsupported, "odd Transfer-Encoding on a bodyless response");
      }
    }
    else
    {
      if (dup == 1) return stop(Tail::BadLength, "content-length-conflict");
      if (dup == 2) return stop(Tail::Unsupported, "duplicate field names");
      if (te && cl) return stop(Tail::Unsupported, "both Transfer-Encoding and Content-Length");
      if (te)
      {
        auto toks = teTokens(te->value);
        if (toks.size() == 1 && toks[0] == "chunked")
        {
          std::string why;
          std::vector<Field> tr;
          ChunkRc rc = parseChunked(s, bodyStart, end, ex.body, why, &tr);
          ex.trailers = !tr.empty();
          if (rc == ChunkRc::Incomplete) return stop(Tail::Incomplete, "chunked body incomplete");
          if (rc == ChunkRc::Bad) return stop(Tail::BadLength, why);
          if (rc == ChunkRc::Unsupported) return stop(Tail::Unsupported, why);
          ex.chunked = true;
        }
        else
          return stop(Tail::Unsupported, "transfer codings other than a single chunked");
      }
      else if (cl)
      {
        LenInfo li = contentLengthValue(cl->value);
        if (li.kind == LenKind::Bad) return stop(Tail::BadLength, li.why);
        if (li.kind == LenKind::Unsupported) return stop(Tail::Unsupported, li.why);
        if (li.n > kMaxDeclaredBody) return stop(Tail::Unsupported, "declared body beyond the harness envelope");
        if (s.size() - bodyStart < li.n) return stop(Tail::Incomplete, "content-length body incomplete");
        ex.body = std::string(s.substr(bodyStart, (std::size_t)li.n));
        end = bodyStart + (std::size_t)li.n;
      }
      else
      {
        // close-delimited
        if (!eof)
        {
          out.closeDelimitedOpen = true;
          return stop(Tail::Incomplete, "close-delimited body still open");
        }
        ex.body = std::string(s.substr(bodyStart));
        end = s.size();
      }
    }
    out.msgs.push_back(std::move(ex));
    out.ends.push_back(end);
    out.tail = Tail::Ok;
    return out;
  }
}

} // namespace refhttp
